"""C03 / C04: status and value equal the mathematical truth; the answer does not depend on how the
solver is driven.

proof:  Props.C03 — soundness of the three certificate checkers, their mutual exclusivity and the
        uniqueness of the certified value (so "the truth" is well defined by whichever certificate
        exists), the ladder bound of the exact driver.  Props.C04 — two certified outcomes of one
        problem agree, for every pair of configurations at once.
tie:    a self-certifying reference classification (python search, every certificate validated by
        the proved Lean checkers) of every generated LP; the real library is run on it —
        C03: QSexact_solver with default limits; C04: the product of entry points, pricing rules,
        scaling, starting precision and warm-start bases — and status and value are compared with
        the reference and with each other; every OPTIMAL / INFEASIBLE answer is passed through the
        proved checkers.  Completeness (a definitive status on every moderate LP) is explored, not
        proved: simplex / LU / pricing are not modelled.
"""
import itertools
from fractions import Fraction as F
from . import build, proto, core, gen, translate, solvelib, lpfam, refsolve, ratiotie
from .gen import q2s, LP, INF, NINF
from .solvelib import arr

OBL = {
    "C03": [("Qsx.Props.C03", t) for t in ["Qsx.Props.C03.optimal_cert_sound", "Qsx.Props.C03.farkas_cert_sound", "Qsx.Props.C03.ray_cert_sound",
                                           "Qsx.Props.C03.classes_exclusive", "Qsx.Props.C03.value_unique", "Qsx.Props.C03.ladder_bound",
                                           "Qsx.Props.C03.ratio_pII_never_failed", "Qsx.Props.C03.ratio_pII_unbounded_ray",
                                           "Qsx.Props.C03.ratio_pII_flip_feasible", "Qsx.Props.C03.ratio_pII_step_feasible",
                                           "Qsx.Props.C03.ratio_dII_never_failed", "Qsx.Props.C03.ratio_dII_unbounded_ray",
                                           "Qsx.Props.C03.ratio_dII_step_feasible", "Qsx.Props.C03.ratio_pII_largest_pivot"]],
    "C04": [("Qsx.Props.C04", t) for t in ["Qsx.Props.C04.certified_answers_agree", "Qsx.Props.C04.certified_status_agree",
                                           "Qsx.Props.C04.repeated_solve_cached"]],
}
CLS = {"optimal": "1", "infeasible": "2", "unbounded": "3"}
PP = [1, 2, 3, 4]
DP = [6, 7, 8, 9]


def reference(lps, model):
    """classify with the python search and queue the certificates for the proved checkers"""
    out = []
    for lp in lps:
        try:
            r = refsolve.classify(lp)
        except (refsolve.RefError, ZeroDivisionError) as e:
            out.append(({"status": "ref-failed"}, None))
            continue
        k = None
        if r["status"] == "optimal":
            k = model.ask(solvelib.certok_line(lp, r["x"], r["pi"]))
        elif r["status"] == "infeasible":
            k = model.ask(solvelib.farkas_line(lp, r["y"]))
        elif r["status"] == "unbounded":
            k = model.ask(solvelib.ray_line(lp, r["x"], r["ray"]))
        out.append((r, k))
    return out


def config_lines(rng, lp, ref, full):
    """(tag, lines) : one way of driving the library on slot 0"""
    entry = rng.choice(["exact primal", "exact dual", "primal", "dual"])
    pp, dp, sc = rng.choice(PP), rng.choice(DP), rng.choice([0, 1])
    prec = rng.choice([64, 128, 128, 192, 256, 1024])
    lines = ["new 0 " + lp.line(), "setparam 0 0 %d" % pp, "setparam 0 2 %d" % dp, "setparam 0 7 %d" % sc, "setprec %d" % prec]
    bkind = rng.choice(["none", "none", "slack", "optimal", "otherobj"])
    basis = None
    nc, nr = len(lp.cols), len(lp.rows)
    if bkind == "slack" and nr:
        # an arbitrary valid basis: all logicals basic, columns at a finite bound (or free)
        cs = "".join("3" if (c[1] == NINF and c[2] == INF) else ("0" if c[1] != NINF else "2") for c in lp.cols)
        basis = (cs, "1" * nr)
    tag = "%s pp=%d dp=%d sc=%d prec=%d basis=%s" % (entry, pp, dp, sc, prec, bkind)
    pre = []
    if bkind in ("optimal", "otherobj") and nc and nr:
        # obtain a basis from a first solve (of this or of a different objective), then drive again from it
        if bkind == "otherobj":
            pre = ["chgobj 0 %d %s" % (rng.below(nc), q2s(F(rng.rint(-5, 5))))]
        pre += ["solve 0 exact primal none", "getbasis 0"]
        return tag, lines, pre, entry
    if entry.startswith("exact"):
        lines.append("solve 0 %s %s" % (entry, ("%s %s" % (basis[0] or "-", basis[1] or "-")) if basis else "none"))
    else:
        if basis:
            lines.append("loadbasis 0 %s %s" % (basis[0] or "-", basis[1] or "-"))
        lines.append("solve 0 " + entry)
        lines.append("solve 0 " + entry)      # repeated solve of the same object
    return tag, lines, None, entry


def run(pid, tier, seed):
    ev = core.Evidence(pid, tier, seed, "proof")
    rep = core.Reporter(pid, seed, ev)
    quick = tier == "quick"
    rng = gen.Rng(seed)
    libdir = build.build()
    exe = build.build_harness(libdir)
    translate.generate(libdir)
    pr = core.prove(OBL[pid], thorough=not quick)
    ev.cov["obligations"], ev.cov["discharged"], ev.cov["axioms"] = pr["obligations"], pr["discharged"], pr["axioms"]
    pinf, ninf = solvelib.get_inf(exe)

    lps = []
    if pid == "C03":
        ex11 = list(gen.exhaustive_small(1, 1))
        lps += [("exhaustive 1x1", lp) for lp in (ex11 if not quick else rng.shuffle(ex11)[:400])]
        pool = itertools.chain(gen.exhaustive_small(1, 2), gen.exhaustive_small(2, 1))
        # a deterministic slice of the larger exhaustive families
        stride = 173 if quick else 7
        lps += [("exhaustive slice", lp) for i, lp in enumerate(pool) if i % stride == seed % stride][: (300 if quick else 30000)]
        lps += lpfam.corpus("solve")
        lps += [("tinycoef", lpfam.tinycoef(rng.fork("tiny%d" % k))) for k in range(10 if quick else 100)]
        lps += lpfam.mixed(rng.fork("mixed"), 250 if quick else 4000)
        for k in ([3, 4] if quick else [3, 4, 5, 6, 7]):
            lps.append(("klee-minty", lpfam.klee_minty(k)))
        lps += [("random 12", gen.random_lp(rng, m=rng.rint(6, 12), n=rng.rint(6, 12), dens=0.4)) for _ in range(20 if quick else 300)]
        if not quick:
            lps += [("random 30", gen.random_lp(rng, m=rng.rint(15, 30), n=rng.rint(15, 30), dens=0.2)) for _ in range(60)]
    else:
        lps += lpfam.mixed(rng.fork("mixed"), 60 if quick else 600)
        lps += [("random 12", gen.random_lp(rng, m=rng.rint(4, 10), n=rng.rint(4, 10), dens=0.5)) for _ in range(10 if quick else 100)]
        # column counts that are multiples of 50: the partial-pricing group arithmetic has special cases there
        for n in ([50] * 14 + [100] * 8 + [150] * 2 if quick else [50] * 60 + [100] * 30 + [150] * 10 + [49, 51]):
            lps.append(("wide %d cols" % n, lpfam.wide_chain(rng, n)))
    # well-formedness (lower <= upper, range >= 0) is a precondition of both properties
    def wf(lp):
        return all(c[1] == NINF or c[2] == INF or F(c[1]) <= F(c[2]) for c in lp.cols) and all(F(r[2]) >= 0 for r in lp.rows)
    def moderate(lp):
        # "data of moderate bit-size, so that the twelve precision levels suffice": the last rung has about 11000 bits
        nums = [v for c in lp.cols for v in c if v not in (INF, NINF)] + [v for r in lp.rows for v in (r[1], r[2])] + [a for r in lp.rows for _, a in r[3]]
        return all(max(abs(F(v).numerator).bit_length(), F(v).denominator.bit_length()) <= 2000 for v in nums)
    lps = [(k, lp) for k, lp in lps if wf(lp) and moderate(lp)]
    model = solvelib.Model(pinf, ninf)
    ratio_compare = ratiotie.run(ev, rep, rng.fork("ratiotie"), exe, model, quick) if pid == "C03" else None
    refs = reference([lp for _, lp in lps if len(lp.cols) <= 160 and len(lp.rows) <= 40] , model) if True else []
    refmap = {}
    ri = 0
    for kind, lp in lps:
        if len(lp.cols) <= 160 and len(lp.rows) <= 40:
            refmap[lp.line()] = refs[ri]
            ri += 1

    # ---- drive the library
    jobs = []
    if pid == "C03":
        for kind, lp in lps:
            jobs.append((kind, lp, "exact primal default", ["new 0 " + lp.line(), "solve 0 exact primal none"], None, "exact primal"))
    else:
        for kind, lp in lps:
            r = rng.fork(lp.line())
            if "cols" in kind:
                # the partial-pricing rules driven directly, both scalings, primal and dual; bounded iteration count
                for sc in (0, 1):
                    for entry, par, rule in (("primal", 0, 4), ("dual", 2, 8)):
                        jobs.append((kind, lp, "%s partial sc=%d" % (entry, sc),
                                     ["new 0 " + lp.line(), "setparam 0 %d %d" % (par, rule), "setparam 0 7 %d" % sc, "setparam 0 5 3000", "solve 0 " + entry],
                                     None, entry))
                jobs.append((kind, lp, "exact primal default", ["new 0 " + lp.line(), "solve 0 exact primal none"], None, "exact primal"))
                continue
            for _ in range(5 if quick else 24):
                tag, lines, pre, entry = config_lines(r, lp, None, not quick)
                jobs.append((kind, lp, tag, lines, pre, entry))

    def work(job):
        kind, lp, tag, lines, pre, entry = job
        if pre is None:
            return proto.run_harness(exe, lines, timeout=900), lines
        # two-step: first obtain a basis, then restore the objective and drive again from that basis
        t1 = proto.run_harness(exe, lines + pre, timeout=900)
        b = proto.get(t1[-1][1], "basis") if len(t1) else None
        if not b or b == ["none"]:
            l2 = lines + ["solve 0 %s%s" % (entry, " none" if entry.startswith("exact") else "")]
        elif entry.startswith("exact"):
            l2 = lines + ["solve 0 %s %s %s" % (entry, b[0], b[1])]
        else:
            l2 = lines + ["loadbasis 0 %s %s" % (b[0], b[1]), "solve 0 " + entry]
        return proto.run_harness(exe, l2, timeout=900), l2
    from concurrent.futures import ThreadPoolExecutor
    with ThreadPoolExecutor(build.NCPU) as ex:
        results = list(ex.map(work, jobs))
    asks = []
    per_lp = {}
    for (kind, lp, tag, lines0, pre, entry), (tr, lines) in zip(jobs, results):
        key = lp.line()
        ev.stat("family:" + kind.split(" ")[0])
        ev.stat("entry:" + entry)
        ev.count(key + "|" + tag, nontrivial=len(lp.cols) > 0 and len(lp.rows) > 0)
        if tr.crashed:
            rep.violation("library crashed while solving (%s): %s" % (tag, tr.crashed[-500:]), {"lp": key, "lines": lines, "stderr": tr.stderr[-2000:]},
                          signature={"symptom": "crash", "entry": entry})
            continue
        solves = [(op, blk) for op, blk in tr if op.startswith("solve")]
        if not solves:
            continue
        op, blk = solves[0] if len(solves) < 2 or pre is not None else solves[0]
        rv, st = proto.get(blk, "rval", ["?"])[0], proto.get(blk, "status", ["?"])[0]
        ev.stat("status:" + (solvelib.ST.get(st, st) if rv == "0" else "error"))
        per_lp.setdefault(key, []).append((tag, rv, st, proto.get(blk, "objval"), lines))
        ctx = {"lp": key, "config": tag, "lines": lines}
        rr = refmap.get(key)
        truth = rr[0]["status"] if rr else "unknown"
        if len(solves) >= 2 and pre is None:
            # repeated solve of the same object: same status and value
            b2 = solves[1][1]
            same = proto.get(b2, "status") == proto.get(blk, "status") and (st != "1" or proto.get(b2, "objval") == proto.get(blk, "objval"))
            if not same and rv == "0":
                rep.violation("a repeated solve of the same object changes the answer: %s/%s then %s/%s (%s)" %
                              (st, proto.get(blk, "objval"), proto.get(b2, "status"), proto.get(b2, "objval"), tag), ctx,
                              signature={"symptom": "repeat-differs", "entry": entry, "truth": truth})
        if rv == "0" and st == "1":
            x, pi = proto.get(blk, "x"), proto.get(blk, "pi")
            if x and pi and x != ["err"] and pi != ["err"]:
                asks.append((model.ask("certok %s %s %s" % (key, " ".join(x), " ".join(pi))), ctx, "optimal", entry))
        if rv == "0" and st == "2" and entry.startswith("exact"):
            y = proto.get(blk, "yout")
            if y and y != ["untouched"]:
                asks.append((model.ask("farkas %s %s" % (key, " ".join(y))), ctx, "infeasible", entry))
    if pid == "C04":
        # boxed sweep: many small LPs whose columns all have two finite bounds, solved by the rational dual and primal simplex directly
        # (bound flips of the long-step dual ratio test, non-basic columns at their upper bound); every OPTIMAL through certOK
        nbox = 4000 if quick else 40000

        def boxed_lp(r):
            n, m = r.rint(1, 6), r.rint(1, 3)
            cols = []
            for _ in range(n):
                lo = F(r.rint(-3, 2))
                shape = r.wchoice([("box", 75), ("lower", 15), ("fixed", 5), ("free", 5)])
                up = lo + r.rint(1, 5) if shape == "box" else lo if shape == "fixed" else INF
                cols.append([F(r.rint(-4, 4)), NINF if shape == "free" else lo, up])
            x0 = [c[1] if c[1] != NINF and r.chance(0.5) else (c[2] if c[2] != INF else (c[1] if c[1] != NINF else F(0))) for c in cols]
            rows = []
            for _ in range(m):
                ent = [(j, F(r.rint(-3, 3))) for j in range(n) if r.chance(0.75)]
                ent = [(j, a) for j, a in ent if a != 0] or [(r.below(n), F(1))]
                act = sum((a * x0[j] for j, a in ent), F(0))
                sn = r.choice("LGR")
                k = r.rint(0, 3)
                if sn == "L":
                    rows.append(["L", act + k, F(0), ent])
                elif sn == "G":
                    rows.append(["G", act - k, F(0), ent])
                else:
                    rows.append(["R", act - k, F(k + r.rint(0, 3)), ent])
            return LP(r.choice(["min", "max"]), cols, rows)
        blps = []
        for k in range(nbox):
            r = rng.fork("boxsweep%d" % k)
            if k % 4 == 0:
                blps.append(gen.random_lp(r, m=r.rint(2, 5), n=r.rint(1, 4), dens=0.85, shapes=["box", "box", "box", "fixed", "lowerneg"], senses="LGRL"))
            else:
                blps.append(boxed_lp(r))
        blps = [b for b in blps if wf(b)]
        per = 50
        bbatches = [blps[i:i + per] for i in range(0, len(blps), per)]

        def bwork(batch):
            lines = []
            for n, b in enumerate(batch):
                lines += ["new 0 " + b.line(), "solve 0 " + ("dual" if n % 3 else "primal")]
            return proto.run_harness(exe, lines, timeout=900)
        from concurrent.futures import ThreadPoolExecutor as _TPE
        with _TPE(build.NCPU) as ex:
            btrs = list(ex.map(bwork, bbatches))
        for batch, tr in zip(bbatches, btrs):
            if tr.crashed and getattr(tr, "returncode", 0) != 0:
                rep.violation("library crashed in the boxed sweep: " + tr.crashed[-300:], {"lines": [b.line() for b in batch][:5], "stderr": tr.stderr[-1500:]},
                              signature={"symptom": "crash", "where": "boxed-sweep", "cause": core.crash_cause(tr.stderr)})
                continue
            for n, b in enumerate(batch):
                if 2 * n + 1 >= len(tr):
                    break
                blk = tr[2 * n + 1][1]
                entry = "dual" if n % 3 else "primal"
                ev.count("boxed|" + b.line(), nontrivial=True)
                ev.stat("boxed-sweep:" + entry + ":" + (proto.get(blk, "status") or ["?"])[0])
                if proto.get(blk, "rval") == ["0"] and proto.get(blk, "status") == ["1"]:
                    x, pi = proto.get(blk, "x"), proto.get(blk, "pi")
                    if x and pi and x != ["err"] and pi != ["err"]:
                        ctx = {"lp": b.line(), "config": "boxed sweep: mpq_QSopt_" + entry, "lines": ["new 0 " + b.line(), "solve 0 " + entry]}
                        asks.append((model.ask("certok %s %s %s" % (b.line(), " ".join(x), " ".join(pi))), ctx, "optimal", entry))
    model.run()
    if ratio_compare:
        ratio_compare()
    for k, ctx, what, entry in asks:
        if proto.get(model.ans(k), "ok") != ["1"]:
            rep.violation("%s answer (%s) fails the proved %s checker" % (what.upper(), ctx["config"], "optimality" if what == "optimal" else "Farkas"),
                          ctx, signature={"symptom": what + "-not-certified", "entry": entry})
    ref_ok = {}
    for key, (r, k) in refmap.items():
        if k is not None and proto.get(model.ans(k), "ok") == ["1"]:
            ref_ok[key] = r
        elif r["status"] not in ("ref-failed", "malformed"):
            ev.stat("reference-certificate-rejected")
    ev.stat("reference-certified", len(ref_ok))
    for key, runs in per_lp.items():
        r = ref_ok.get(key)
        want = CLS.get(r["status"]) if r else None
        for tag, rv, st, ov, lines in runs:
            ctx = {"lp": key, "config": tag, "lines": lines, "reference": r["status"] if r else None}
            entry = " ".join(tag.split(" ")[:2]) if tag.startswith("exact") else tag.split(" ")[0]
            if want is None:
                continue
            if rv != "0" or st not in ("1", "2", "3"):
                # a non-definitive status or an error on a moderate LP
                if pid == "C03" or entry.startswith("exact"):
                    rep.violation("no definitive answer (%s) on an LP whose true class is %s (%s)" %
                                  ("error return" if rv != "0" else solvelib.ST.get(st, st), r["status"], tag), ctx,
                                  signature={"symptom": "non-definitive", "entry": entry, "got": "error" if rv != "0" else solvelib.ST.get(st, st),
                                             "data": "wide-range" if lpfam.wide_range(LP.parse(key.split())) else "ordinary"})
                continue
            if st != want:
                rep.violation("status %s reported (%s) but the LP is %s (certified reference)" % (solvelib.ST.get(st, st), tag, r["status"]), ctx,
                              signature={"symptom": "wrong-status", "entry": entry, "got": solvelib.ST.get(st, st), "truth": r["status"]})
            elif st == "1" and ov and ov[0] == "0" and ov[1] != q2s(r["val"]):
                rep.violation("optimal value %s reported (%s) but the true optimum is %s" % (ov[1], tag, q2s(r["val"])), ctx,
                              signature={"symptom": "wrong-value", "entry": entry})
        if r is None and len(runs) > 1:
            # beyond the reference solver: all definitive answers must agree with each other
            defs = set((st, tuple(ov or [])) for tag, rv, st, ov, lines in runs if rv == "0" and st in ("1", "2", "3"))
            if len(defs) > 1:
                rep.violation("different ways of driving the solver give different answers: %s" % sorted(defs)[:3],
                              {"lp": key, "runs": [(t, s, o) for t, rv, s, o, l in runs]}, signature={"symptom": "configs-disagree"})
        if len(ev.cov["samples"]) < 4:
            ev.sample({"lp": key[:200], "reference": r["status"] if r else "none", "runs": [(t, solvelib.ST.get(s, s)) for t, rv, s, o, l in runs][:3]})
    for thm, why in pr["failed"]:
        rep.violation("proof obligation no longer checks: %s (%s)" % (thm, why), {"theorem": thm, "why": why, "log": pr["log"][-2000:]},
                      signature={"symptom": "proof", "theorem": thm}, found_input=False)
    if pid == "C03":
        ev.cov["rule"] = ("exhaustive 1x1 family (coefficients in {-1,0,1,2}, all senses incl. ranges, five bound shapes), deterministic slices of the "
                          "exhaustive 1x2 / 2x1 families, the mixed targeted family (degenerate, margin 2^-k, scale 10^±e, awkward denominators, "
                          "Beale, Klee-Minty, empty rows/columns) and random LPs up to 12x12 (30x30 thorough); each classified by a self-certifying "
                          "reference whose certificate passed the proved Lean checker, then solved by QSexact_solver with default limits. "
                          "distinct = distinct (LP, configuration); non-trivial = at least one row and one column.")
    else:
        ev.cov["rule"] = ("mixed family + random LPs (+ 50/100/150-column LPs for the partial-pricing rules) x random draws from the product {QSexact_solver "
                          "primal/dual, QSopt_primal, QSopt_dual} x 4 primal x 4 dual pricing rules x scaling {0,1} x mpf precision {64..1024} x warm "
                          "start {none, all-slack basis, optimal basis, basis of a different objective}; repeated solves of the same object; statuses "
                          "and values compared with the certified reference and with each other.")
    ev.assumptions += ["completeness (termination with a definitive status) is a property of unmodelled simplex/LU code: explored, not proved",
                       "UNBOUNDED is reported by the library from floating point alone; it is checked against the reference's ray certificate"]
    code = rep.finish()
    ev.write()
    return code
