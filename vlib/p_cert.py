"""C01 / C02: OPTIMAL and INFEASIBLE only with an exact certificate.

proof:   Props.C01 / Props.C02 (soundness of the two exact tests, driver certification, API-level
         certificate checker)
tie:     (a) direct differential test of the public QSexact_optimal_test / QSexact_infeasible_test
             against the Lean models on certificate perturbations;
         (b) H1 trace of every real QSexact_solver run replayed through the Lean driver model;
         (c) every OPTIMAL / INFEASIBLE answer and every accessor value passed through the proved
             API-level checkers (certOK / checkFarkas).
"""
import time
from fractions import Fraction as F
from . import build, proto, core, gen, lpfam, refsolve, solvelib, translate
from .gen import q2s, LP, INF, NINF
from .solvelib import arr

OBL = {
    "C01": [("Qsx.Props.C01", t) for t in [
        "Qsx.Props.C01.test_sound_box", "Qsx.Props.C01.test_sound_inf", "Qsx.Props.C01.solver_optimal_certified",
        "Qsx.Props.C01.solver_optimal_is_optimum", "Qsx.Props.C01.certOK_sound", "Qsx.Props.C01.certified_value_unique"]],
    "C02": [("Qsx.Props.C02", t) for t in [
        "Qsx.Props.C02.test_sound", "Qsx.Props.C02.solver_infeasible_certified",
        "Qsx.Props.C02.solver_infeasible_is_infeasible", "Qsx.Props.C02.checkFarkas_sound",
        "Qsx.Props.C02.no_feasible_lp_reported_infeasible"]],
}


def perturb_opt(rng, lp, cs, rs, x, y, n_max=24):
    """single-coordinate perturbations of a true certificate: (tag, lp, cs, rs, x, y)"""
    out = [("exact", lp, cs, rs, x, y)]
    nc, nr = len(lp.cols), len(lp.rows)
    deltas = [F(1), F(-1), F(1, 2 ** 20), F(-1, 2 ** 60)]
    cand = []
    for j in range(len(x)):
        cand.append(("x%d" % j, lp, cs, rs, x[:j] + [x[j] + rng.choice(deltas)] + x[j + 1:], y))
    for i in range(nr):
        cand.append(("y%d" % i, lp, cs, rs, x, y[:i] + [y[i] + rng.choice(deltas)] + y[i + 1:]))
    # status changes
    for j in range(nc):
        for c in "0123":
            if c != cs[j]:
                cand.append(("cstat%d->%s" % (j, c), lp, cs[:j] + c + cs[j + 1:], rs, x, y))
    for i in range(nr):
        for c in "012":
            if c != rs[i]:
                cand.append(("rstat%d->%s" % (i, c), lp, cs, rs[:i] + c + rs[i + 1:], x, y))
    # swap a basic and a non-basic status (keeps the count right)
    bas = [("c", j) for j in range(nc) if cs[j] == "1"] + [("r", i) for i in range(nr) if rs[i] == "1"]
    non = [("c", j) for j in range(nc) if cs[j] != "1"] + [("r", i) for i in range(nr) if rs[i] != "1"]
    for _ in range(3):
        if bas and non:
            b, n = rng.choice(bas), rng.choice(non)
            c2, r2 = list(cs), list(rs)
            (c2 if b[0] == "c" else r2)[b[1]] = rng.choice("02")
            (c2 if n[0] == "c" else r2)[n[1]] = "1"
            cand.append(("swap", lp, "".join(c2), "".join(r2), x, y))
    cand.append(("badstat", lp, cs[:-1] + "7" if cs else cs, rs, x, y))
    cand.append(("shortbasis", lp, cs[:-1] if cs else cs, rs, x, y))
    # LP changes
    for j in range(nc):
        l2 = lp.copy()
        k = rng.choice(["up", "lo", "obj", "fix"])
        if k == "up":
            l2.cols[j][2] = x[j] - rng.choice([F(1), F(1, 2 ** 30)])
        elif k == "lo":
            l2.cols[j][1] = x[j] + rng.choice([F(1), F(1, 2 ** 30)])
        elif k == "obj":
            l2.cols[j][0] = l2.cols[j][0] + rng.choice(deltas)
        else:
            l2.cols[j][1] = l2.cols[j][2] = x[j]
        cand.append(("col%d.%s" % (j, k), l2, cs, rs, x, y))
    for i in range(nr):
        l2 = lp.copy()
        k = rng.choice(["rhs", "sense", "coef", "range"])
        if k == "rhs":
            l2.rows[i][1] = l2.rows[i][1] + rng.choice(deltas)
        elif k == "sense":
            l2.rows[i][0] = rng.choice([s for s in "LGER" if s != l2.rows[i][0]])
            if l2.rows[i][0] == "R":
                l2.rows[i][2] = F(rng.rint(0, 2))
        elif k == "coef" and l2.rows[i][3]:
            t = rng.below(len(l2.rows[i][3]))
            j, a = l2.rows[i][3][t]
            l2.rows[i][3][t] = (j, a + rng.choice(deltas))
        else:
            l2.rows[i][0] = "R"
            l2.rows[i][2] = F(rng.rint(0, 3), 2)
        cand.append(("row%d.%s" % (i, k), l2, cs, rs, x, y))
    l2 = lp.copy()
    l2.sense = "max" if lp.sense == "min" else "min"
    cand.append(("objsense", l2, cs, rs, x, y))
    # directed: a non-basic column sitting at 0 is declared free (the point stays feasible; whether it stays optimal
    # depends only on that column's reduced cost being zero) - always kept
    directed = []
    for j in range(nc):
        if cs[j] != "1" and x[j] == 0:
            l2 = lp.copy()
            l2.cols[j][1], l2.cols[j][2] = NINF, INF
            directed.append(("col%d.free" % j, l2, cs[:j] + "3" + cs[j + 1:], rs, x, y))
    out = out + directed[:4]
    # logical entries of p_sol are arbitrary input
    if nr:
        cand.append(("logical-garbage", lp, cs, rs, x[:nc] + [F(rng.rint(-9, 9)) for _ in range(nr)], y))
    cand = rng.shuffle(cand)
    return out + cand[:n_max]


def perturb_inf(rng, lp, y, n_max=16):
    out = [("exact", lp, y)]
    nr = len(lp.rows)
    deltas = [F(1), F(-1), F(1, 2 ** 20), F(-1, 2 ** 60)]
    cand = [("zero", lp, [F(0)] * nr), ("neg", lp, [-v for v in y]), ("scaled", lp, [v * F(3, 7) for v in y]),
            ("scaled-big", lp, [v * 10 ** 30 for v in y])]
    for i in range(nr):
        cand.append(("y%d" % i, lp, y[:i] + [y[i] + rng.choice(deltas)] + y[i + 1:]))
        cand.append(("y%d=0" % i, lp, y[:i] + [F(0)] + y[i + 1:]))
    for i in range(nr):
        l2 = lp.copy()
        k = rng.choice(["rhs", "sense", "range"])
        if k == "rhs":
            l2.rows[i][1] = l2.rows[i][1] + rng.choice([F(-3), F(3), F(1, 2 ** 40), F(-1, 2 ** 40)])
        elif k == "sense":
            l2.rows[i][0] = rng.choice([s for s in "LGER" if s != l2.rows[i][0]])
        else:
            l2.rows[i][0] = "R"
            l2.rows[i][2] = F(rng.rint(0, 6), 2)
        cand.append(("row%d.%s" % (i, k), l2, y))
    for j in range(len(lp.cols)):
        l2 = lp.copy()
        k = rng.choice(["free", "lo-inf", "up-inf", "box"])
        if k == "free":
            l2.cols[j][1], l2.cols[j][2] = NINF, INF
        elif k == "lo-inf":
            l2.cols[j][1] = NINF
        elif k == "up-inf":
            l2.cols[j][2] = INF
        else:
            l2.cols[j][1], l2.cols[j][2] = F(-rng.rint(0, 3)), F(rng.rint(0, 3))
        cand.append(("col%d.%s" % (j, k), l2, y))
    cand = rng.shuffle(cand)
    return out + cand[:n_max]


def run(pid, tier, seed, ctx=None):
    ev = core.Evidence(pid, tier, seed, "proof")
    rep = core.Reporter(pid, seed, ev)
    quick = tier == "quick"
    rng = gen.Rng(seed)
    libdir = build.build()
    exe = build.build_harness(libdir)
    translate.generate(libdir)
    pr = core.prove(OBL[pid], thorough=not quick)
    ev.cov["obligations"], ev.cov["discharged"] = pr["obligations"], pr["discharged"]
    ev.cov["axioms"] = pr["axioms"]
    proof_broken = pr["failed"]
    pinf, ninf = solvelib.get_inf(exe)

    n_base = 90 if quick else 900
    fam = lpfam.corpus("solve") + lpfam.mixed(rng.fork("base"), n_base)
    fam += [("tinycoef", lpfam.tinycoef(rng.fork("tiny%d" % k))) for k in range(12 if quick else 120)]
    # ---- phase 1: real solves, H1 replay, oracles
    groups = []
    for kind, lp in fam:
        algo = rng.choice(["primal", "dual"])
        # a third of the problems are built rows-first / columns-later (structmap is then not the identity)
        groups.append([("newcg 0 " if rng.chance(0.34) else "new 0 ") + lp.line(), "solve 0 exact %s none" % algo, "getbasis 0"])
    per = max(1, len(groups) // (build.NCPU * 2))
    batches = [sum(groups[i:i + per], []) for i in range(0, len(groups), per)]
    idx = [list(range(i, min(i + per, len(groups)))) for i in range(0, len(groups), per)]
    trs = core.parallel_harness(exe, batches, timeout=1500)
    model = solvelib.Model(pinf, ninf)
    pend = []
    base_results = {}
    for tr, ids in zip(trs, idx):
        if tr.crashed:
            rep.violation("harness crashed during solve batch: " + tr.crashed, {"ops": batches[idx.index(ids)][:60]},
                          signature={"symptom": "crash", "stream": "solve"})
        for n, gi in enumerate(ids):
            if 3 * n + 2 >= len(tr):
                continue
            kind, lp = fam[gi]
            blk = tr[3 * n + 1][1]
            bb = tr[3 * n + 2][1]
            ev.stat("family:" + kind)
            status = proto.get(blk, "status", ["?"])[0]
            rval = proto.get(blk, "rval", ["?"])[0]
            ev.stat("status:" + solvelib.ST.get(status, status) if rval == "0" else "status:error")
            line, info = solvelib.model_solve_line(blk)
            q = {"gi": gi, "lp": lp, "blk": blk, "basis": proto.get(bb, "basis")}
            if line is None:
                ev.stat("replay-skipped:" + str(info))
            else:
                q["replay"] = model.ask(line)
                q["info"] = info
                ev.stat("stages:%d" % len(info["stages"]))
            nc = len(lp.cols)
            if rval == "0" and status == "1":
                xo, yo = proto.get(blk, "xout"), proto.get(blk, "yout")
                if xo == ["untouched"] or yo == ["untouched"]:
                    rep.violation("OPTIMAL returned without writing x/y", {"lp": lp.line(), "op": tr[3 * n + 1][0]},
                                  signature={"symptom": "optimal-without-vectors"})
                else:
                    q["certok"] = model.ask(solvelib.certok_line(lp, xo[1:1 + nc], yo[1:]))
                    q["x"], q["y"] = xo[1:], yo[1:]
            elif rval == "0" and status == "2":
                yo = proto.get(blk, "yout")
                if yo == ["untouched"]:
                    rep.violation("INFEASIBLE returned without writing y", {"lp": lp.line(), "op": tr[3 * n + 1][0]},
                                  signature={"symptom": "infeasible-without-vector"})
                else:
                    q["farkas"] = model.ask(solvelib.farkas_line(lp, yo[1:]))
                    q["y"] = yo[1:]
            q["tol"] = model.ask("tointernal " + lp.line())
            pend.append(q)
    model.run()
    opt_bases, inf_bases = [], []
    for q in pend:
        lp, blk = q["lp"], q["blk"]
        key = lp.line()
        status = proto.get(blk, "status", ["?"])[0]
        ev.count("solve|" + key, nontrivial=len(lp.rows) > 0 and len(lp.cols) > 0)
        # internal LP as built by the library = toInternal of the API LP
        ti = model.ans(q["tol"])
        if ti and ti[0][0] == "ilp" and ti[0][1] != proto.get(blk, "ilp"):
            rep.violation("internal LP differs from toInternal(lp)", {"lp": key, "c": " ".join(proto.get(blk, "ilp")),
                          "model": " ".join(ti[0][1])}, signature={"symptom": "tointernal"}, found_input=False)
        if "replay" in q:
            diffs = solvelib.compare_solve(blk, model.ans(q["replay"]), q["info"])
            ev.cov["traces_validated_against_impl"] += 1
            if diffs:
                rep.violation("QSexact_solver disagrees with the driver model: " + "; ".join(diffs),
                              {"lp": key, "model_line": model.lines[q["replay"]][:4000], "diffs": diffs},
                              signature={"symptom": "driver-replay", "diff": diffs[0].split(" ")[0]},
                              found_input=any(d.startswith(("xout", "yout", "status")) for d in diffs))
        if "certok" in q:
            a = model.ans(q["certok"])
            if proto.get(a, "ok") != ["1"]:
                rep.violation("OPTIMAL answer fails the proved optimality checker certOK",
                              {"lp": key, "x": q["x"], "y": q["y"]}, signature={"symptom": "optimal-not-certified"})
            else:
                # accessors must return the same certified solution
                val = proto.get(a, "val")[0]
                nc = len(lp.cols)
                acc = {"objval": proto.get(blk, "objval"), "x": proto.get(blk, "x"), "pi": proto.get(blk, "pi"),
                       "rc": proto.get(blk, "rc"), "slack": proto.get(blk, "slack")}
                want = {"objval": ["0", val], "x": [str(nc)] + q["x"][:nc], "pi": [str(len(lp.rows))] + q["y"],
                        "rc": proto.get(a, "rc"), "slack": proto.get(a, "slack")}
                for kk in acc:
                    if acc[kk] != want[kk]:
                        rep.violation("accessor %s after OPTIMAL differs from the certified solution" % kk,
                                      {"lp": key, "got": acc[kk], "want": want[kk]},
                                      signature={"symptom": "accessor", "which": kk})
                if pid == "C01" and q["basis"] and q["basis"] != ["none"]:
                    xs = [F(v) if v not in ("inf", "-inf") else v for v in q["x"]]
                    opt_bases.append((lp, q["basis"][0].replace("-", ""), q["basis"][1].replace("-", ""), xs, [F(v) for v in q["y"]]))
        if "farkas" in q:
            a = model.ans(q["farkas"])
            if proto.get(a, "ok") != ["1"]:
                rep.violation("INFEASIBLE answer fails the proved Farkas checker",
                              {"lp": key, "y": q["y"]}, signature={"symptom": "infeasible-not-certified"})
            elif pid == "C02":
                inf_bases.append((lp, [F(v) for v in q["y"]]))
        if len(ev.cov["samples"]) < 3:
            ev.sample({"lp": key, "status": solvelib.ST.get(status, status)})

    # ---- phase 2: direct differential test of the public exact tests
    cases = []
    prng = rng.fork("perturb")
    if pid == "C01":
        for (lp, cs, rs, x, y) in opt_bases:
            if any(isinstance(v, str) for v in x):
                continue
            for c in perturb_opt(prng, lp, cs, rs, x, y, n_max=20 if quick else 40):
                cases.append(c)
    else:
        for (lp, y) in inf_bases:
            for c in perturb_inf(prng, lp, y, n_max=14 if quick else 30):
                cases.append(c)
        # feasible LPs with near-certificates: random multipliers must be rejected
        for (kind, lp) in fam[: (30 if quick else 300)]:
            if lp.rows:
                cases.append(("random-y", lp, [prng.small_rat(3) for _ in lp.rows]))
    groups = []
    for c in cases:
        if pid == "C01":
            tag, lp, cs, rs, x, y = c
            groups.append(["new 0 " + lp.line(), "opttest 0 %s %s %s %s" % (cs or "-", rs or "-", arr(x), arr(y))])
        else:
            tag, lp, y = c
            groups.append(["new 0 " + lp.line(), "inftest 0 " + arr(y)])
    per = max(1, len(groups) // (build.NCPU * 2))
    batches = [sum(groups[i:i + per], []) for i in range(0, len(groups), per)]
    idx = [list(range(i, min(i + per, len(groups)))) for i in range(0, len(groups), per)]
    trs = core.parallel_harness(exe, batches, timeout=1500) if groups else []
    model = solvelib.Model(pinf, ninf)
    pend = []
    for tr, ids in zip(trs, idx):
        if tr.crashed:
            rep.violation("harness crashed during exact-test batch: " + tr.crashed, {"ops": batches[idx.index(ids)][:40]},
                          signature={"symptom": "crash", "stream": "cert"})
        for n, gi in enumerate(ids):
            if 2 * n + 1 >= len(tr):
                continue
            op, blk = tr[2 * n + 1]
            ilp = proto.get(blk, "ilp")
            c = cases[gi]
            if pid == "C01":
                tag, lp, cs, rs, x, y = c
                k = model.ask("opttest ilp %s %s %s %s %s" % (" ".join(ilp), cs or "-", rs or "-", arr(x), arr(y)))
            else:
                tag, lp, y = c
                k = model.ask("inftest ilp %s %s" % (" ".join(ilp), arr(y)))
            pend.append((c, op, blk, k))
    model.run()
    # oracle queries for disagreements
    oracle = solvelib.Model(pinf, ninf)
    todo = []
    for c, op, blk, k in pend:
        m = model.ans(k)
        tag = c[0].split("0")[0] if False else c[0]
        crv = proto.get(blk, "rv")[0]
        mrv = proto.get(m, "rv", ["?"])[0]
        reason = (proto.get(m, "reason") or ["-"])[0]
        ev.stat("test:%s:%s" % ("accept" if mrv == "1" else "reject", reason.replace("Qsx.OptReason.", "")))
        ev.stat("perturb:" + "".join(ch for ch in tag if not ch.isdigit()))
        ev.count(op + "|" + c[1].line(), nontrivial=True)
        diffs = []
        if crv != mrv:
            diffs.append("verdict C=%s model=%s (model reason %s)" % (crv, mrv, reason))
        elif crv == "1" and pid == "C01":
            cc = proto.get(blk, "cache")
            if cc[3] != proto.get(m, "cache")[0]:
                diffs.append("cache.val C=%s model=%s" % (cc[3], proto.get(m, "cache")[0]))
            for kk in ("cache.x", "cache.rc", "cache.slack", "cache.pi", "psol"):
                if proto.get(blk, kk) != proto.get(m, kk):
                    diffs.append("%s differs" % kk)
            if cc[0] != "1" or proto.get(blk, "qstatus") != ["1"]:
                diffs.append("cache/qstatus not OPTIMAL after accepting test")
        elif crv == "1" and pid == "C02":
            if proto.get(blk, "qstatus") != ["2"]:
                diffs.append("qstatus not INFEASIBLE after accepting test")
        if diffs:
            todo.append((c, op, blk, m, diffs))
            lp = c[1]
            if pid == "C01" and crv == "1":
                cx = proto.get(blk, "cache.x")[1:]
                cpi = proto.get(blk, "cache.pi")[1:]
                todo[-1] = todo[-1] + (oracle.ask(solvelib.certok_line(lp, cx, cpi)),)
            elif pid == "C02" and crv == "1":
                todo[-1] = todo[-1] + (oracle.ask(solvelib.farkas_line(lp, c[2])),)
            else:
                todo[-1] = todo[-1] + (None,)
        if len(ev.cov["samples"]) < 6:
            ev.sample({"op": op[:600], "verdict": crv, "perturbation": c[0]})
    if todo:
        oracle.run()
    for c, op, blk, m, diffs, ok in todo:
        found = False
        what = "exact test disagrees with its model (%s): %s" % (c[0], "; ".join(diffs))
        if ok is not None:
            good = proto.get(oracle.ans(ok), "ok") == ["1"]
            if not good:
                found = True
                what = "the real exact test ACCEPTS a certificate the proved checker rejects (%s): %s" % (c[0], "; ".join(diffs))
            else:
                # accepted and truly a certificate: check with the reference solver that the class is right
                r = refsolve.classify(c[1]) if len(c[1].cols) <= 10 and len(c[1].rows) <= 10 else {"status": "skip"}
                want = "optimal" if pid == "C01" else "infeasible"
                if r["status"] not in (want, "skip"):
                    found = True
        rep.violation(what, {"lp": c[1].line(), "op": op, "diffs": diffs, "c_block": blk[:12], "model_block": m[:12]},
                      signature={"symptom": "exact-test-disagree", "dir": diffs[0][:24]}, found_input=found)

    # ---- proof obligations
    for thm, why in proof_broken:
        rep.violation("proof obligation no longer checks: %s (%s)" % (thm, why), {"theorem": thm, "why": why, "log": pr["log"][-2000:]},
                      signature={"symptom": "proof", "theorem": thm}, found_input=False)
    ev.cov["rule"] = ("base LPs from the mixed family generator (random, bound-shape, degenerate, margin 2^-k, scale 10^±e, awkward denominators, "
                      "Beale/Klee-Minty, sparse) solved by the real QSexact_solver; every run's hook trace replayed through the Lean driver model; "
                      "every OPTIMAL/INFEASIBLE answer passed through the proved checker; then single-coordinate perturbations of each true "
                      "certificate (one x_j, y_i, basis status, bound, sense, rhs, coefficient, objective sense) sent to the public exact test "
                      "and to the Lean model. distinct = distinct (operation, LP) pairs; non-trivial = LP has at least one row and one column.")
    ev.assumptions += ["floating-point engines, LU, pricing and the rational basis evaluation are oracle answers in the driver model (not verified)",
                       "ILP.WF (one logical column with a single non-zero per row) is assumed by the soundness theorems and established for toInternal; "
                       "the tie compares the library's raw internal LP with toInternal(lp) on every case"]
    code = rep.finish()
    ev.write()
    return code
