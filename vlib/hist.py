"""Operation histories over the editing API (C05/C06/C07/C16/C17/C20).

The generator keeps a light mirror (counts, names, senses) only to choose arguments that are valid
or boundary-invalid on purpose; what the operations *mean* is decided by the Lean reference model.
"""
from fractions import Fraction as F
from . import gen
from .gen import q2s, INF, NINF


def hx(s):
    return s.encode("latin-1").hex() if s else "-"


class Mirror:
    def __init__(self, lp=None):
        self.cols = []   # names
        self.bnds = []   # [lo, up] per column (only to keep lower <= upper in generated bound changes)
        self.rows = []   # [name, sense]
        self.auto = 0
        if lp is not None:
            self.cols = ["x%d" % j for j in range(len(lp.cols))]
            self.bnds = [[c[1], c[2]] for c in lp.cols]
            self.rows = [["c%d" % i, r[0]] for i, r in enumerate(lp.rows)]

    def gen_name(self, pref, taken, count):
        base = "%s%d" % (pref, count + 1)
        if base not in taken:
            return base
        k = 0
        while "%s_%d" % (base, k) in taken:
            k += 1
        return "%s_%d" % (base, k)


VAL_KINDS = [("small", 70), ("frac", 15), ("big", 8), ("tiny", 7)]


def rnd_val(rng, nonzero=False):
    while True:
        v = rng.rat()
        if v != 0 or not nonzero:
            return v


def _num(b, default):
    return default if b in (INF, NINF) else F(b)


def fit_bound(bnd, lu, v):
    """keep lower <= upper (well-formed problems only); updates bnd in place"""
    lo, up = bnd
    if lu == "L":
        if v != NINF and up != INF and F(v) > F(up):
            v = up
        bnd[0] = v
    elif lu == "U":
        if v != INF and lo != NINF and F(v) < F(lo):
            v = lo
        bnd[1] = v
    else:
        if v in (INF, NINF):
            v = F(0)
        bnd[0] = bnd[1] = v
    return v


def rnd_bounds(rng):
    lo, up = gen.bounds_of(rng, rng.choice(gen.BOUND_SHAPES))
    return lo, up


def subset(rng, n, kmax):
    k = rng.rint(0, min(n, kmax))
    return sorted(rng.shuffle(list(range(n)))[:k])


def bad_index(rng, n, other):
    return rng.choice([-1, n, n + 1, n + other, 2 ** 31 - 1, -2 ** 31 + 1, n + other + 3])


def gen_op(rng, m, slot=0, p_invalid=0.0, weights=None, allow_names=True):
    """returns (line, valid?, kind) and updates the mirror m when the op is valid"""
    nc, nr = len(m.cols), len(m.rows)
    W = weights or {"addcol": 10, "newcol": 4, "addrow": 10, "addrrow": 8, "newrow": 3, "delrow": 4, "delrows": 3, "delsetrows": 2,
                    "delnamedrow": 2, "delnamedrows": 1, "delcol": 4, "delcols": 3, "delsetcols": 2, "delnamedcol": 2, "delnamedcols": 1,
                    "chgcoef": 10, "chgobj": 5, "chgrhs": 5, "chgrange": 4, "chgsense": 4, "chgsenses": 2, "chgbound": 6, "chgbounds": 2,
                    "chgobjsense": 2}
    kinds = [(k, w) for k, w in W.items()]
    for _ in range(50):
        k = rng.wchoice(kinds)
        inv = rng.chance(p_invalid)
        if k in ("addcol", "newcol"):
            name = None
            if allow_names and rng.chance(0.5):
                name = rng.choice(["v", "y", "col", "x", "c", "x1", "x2_0", "e5", "inf1", "st"]) + str(rng.below(40))
            if inv and m.cols and allow_names:
                name = rng.choice(m.cols)           # duplicate name
                valid = False
            else:
                valid = name is None or name not in m.cols
            lo, up = rnd_bounds(rng)
            line = "%s %d %s %s %s %s" % (k, slot, hx(name) if name else "-", q2s(rnd_val(rng)), q2s(lo), q2s(up))
            if k == "addcol":
                rows = subset(rng, nr, 4)
                ent = [(i, rnd_val(rng, True)) for i in rows]
                if inv and rng.chance(0.5):
                    ent.append((bad_index(rng, nr, nc), F(1)))
                    valid = False
                line += " %d" % len(ent) + "".join(" %d %s" % (i, q2s(v)) for i, v in ent)
            if valid:
                m.cols.append(name if name is not None else m.gen_name("x", m.cols, nc))
                m.bnds.append([lo, up])
            return line, valid, k
        if k in ("addrow", "addrrow", "newrow"):
            name = None
            if allow_names and rng.chance(0.5):
                name = rng.choice(["r", "con", "c", "c1", "x", "R", "c2_0"]) + str(rng.below(40))
                if rng.chance(0.06):
                    name = rng.choice(["obj", "obj", "OBJ", "rhs", "p%dq", "a%%b"])      # the names the library itself generates / printf-active ones
            if inv and m.rows and allow_names and rng.chance(0.5):
                name = rng.choice(m.rows)[0]
                valid = False
            else:
                valid = name is None or name not in [r[0] for r in m.rows]
            sense = rng.choice("LGE") if k != "addrrow" else rng.choice("LGERRR")
            line = "%s %d %s %s %s" % (k, slot, hx(name) if name else "-", sense, q2s(rnd_val(rng)))
            if k == "addrrow":
                line += " " + q2s(F(rng.rint(0, 6), rng.choice([1, 2])))
            if k != "newrow":
                cols = subset(rng, nc, 5)
                ent = [(j, rnd_val(rng, True)) for j in cols]
                if inv and rng.chance(0.6):
                    ent.append((bad_index(rng, nc, nr), F(1)))
                    valid = False
                ent = rng.shuffle(ent)
                line += " %d" % len(ent) + "".join(" %d %s" % (j, q2s(v)) for j, v in ent)
            if valid:
                m.rows.append([name if name is not None else m.gen_name("c", [r[0] for r in m.rows], nr), sense])
            return line, valid, k
        if k in ("delrow", "delrows", "delsetrows", "delnamedrow", "delnamedrows"):
            if nr == 0 and not inv:
                continue
            if k == "delrow":
                i = bad_index(rng, nr, nc) if inv else rng.below(nr)
                idx, line = [i], "delrow %d %d" % (slot, i)
            elif k == "delrows":
                idx = subset(rng, nr, 3) or [rng.below(nr)] if nr else []
                if inv:
                    idx = idx + [bad_index(rng, nr, nc)]
                idx = rng.shuffle(idx)
                line = "delrows %d %d %s" % (slot, len(idx), " ".join(map(str, idx)))
            elif k == "delsetrows":
                idx = subset(rng, nr, 3)
                line = "delsetrows %d %d %s" % (slot, nr, " ".join("1" if i in idx else "0" for i in range(nr)))
                inv = False
            elif k == "delnamedrow":
                if inv or nr == 0:
                    line, idx, inv = "delnamedrow %d %s" % (slot, hx("nosuchrow")), [], True
                else:
                    i = rng.below(nr)
                    idx, line = [i], "delnamedrow %d %s" % (slot, hx(m.rows[i][0]))
            else:
                idx = subset(rng, nr, 3) or ([rng.below(nr)] if nr else [])
                names = [m.rows[i][0] for i in idx]
                if inv or not names:
                    names, inv = names + ["nosuchrow"], True
                line = "delnamedrows %d %d %s" % (slot, len(names), " ".join(hx(n) for n in names))
            valid = not inv
            if valid:
                m.rows = [r for i, r in enumerate(m.rows) if i not in idx]
            return line, valid, k
        if k in ("delcol", "delcols", "delsetcols", "delnamedcol", "delnamedcols"):
            if nc == 0 and not inv:
                continue
            if k == "delcol":
                j = bad_index(rng, nc, nr) if inv else rng.below(nc)
                idx, line = [j], "delcol %d %d" % (slot, j)
            elif k == "delcols":
                idx = subset(rng, nc, 3) or [rng.below(nc)] if nc else []
                if inv:
                    idx = idx + [bad_index(rng, nc, nr)]
                idx = rng.shuffle(idx)
                line = "delcols %d %d %s" % (slot, len(idx), " ".join(map(str, idx)))
            elif k == "delsetcols":
                idx = subset(rng, nc, 3)
                line = "delsetcols %d %d %s" % (slot, nc, " ".join("1" if j in idx else "0" for j in range(nc)))
                inv = False
            elif k == "delnamedcol":
                if inv or nc == 0:
                    line, idx, inv = "delnamedcol %d %s" % (slot, hx("nosuchcol")), [], True
                else:
                    j = rng.below(nc)
                    idx, line = [j], "delnamedcol %d %s" % (slot, hx(m.cols[j]))
            else:
                idx = subset(rng, nc, 3) or ([rng.below(nc)] if nc else [])
                names = [m.cols[j] for j in idx]
                if inv or not names:
                    names, inv = names + ["nosuchcol"], True
                line = "delnamedcols %d %d %s" % (slot, len(names), " ".join(hx(n) for n in names))
            valid = not inv
            if valid:
                m.cols = [c for j, c in enumerate(m.cols) if j not in idx]
                m.bnds = [c for j, c in enumerate(m.bnds) if j not in idx]
            return line, valid, k
        if k == "chgcoef":
            if (nr == 0 or nc == 0) and not inv:
                continue
            r, c = (rng.below(nr) if nr else 0), (rng.below(nc) if nc else 0)
            if inv or nr == 0 or nc == 0:
                inv = True
                if rng.chance(0.5):
                    r = bad_index(rng, nr, nc)
                else:
                    c = bad_index(rng, nc, nr)
            return "chgcoef %d %d %d %s" % (slot, r, c, q2s(rnd_val(rng))), not inv, k
        if k in ("chgobj", "chgbound"):
            if nc == 0 and not inv:
                continue
            j = bad_index(rng, nc, nr) if (inv or nc == 0) else rng.below(nc)
            ok = not (inv or nc == 0)
            if k == "chgobj":
                return "chgobj %d %d %s" % (slot, j, q2s(rnd_val(rng))), ok, k
            lu = rng.choice("LUB")
            if inv and rng.chance(0.3) and nc:
                j, lu, ok = rng.below(nc), rng.choice("XlZ"), False
            v = rng.choice([rnd_val(rng), rnd_val(rng), INF if lu == "U" else NINF if lu == "L" else rnd_val(rng)])
            if ok:
                v = fit_bound(m.bnds[j], lu, v)
            return "chgbound %d %d %s %s" % (slot, j, lu, q2s(v)), ok, k
        if k == "chgbounds":
            if nc == 0:
                continue
            n = rng.rint(1, 3)
            items = [(rng.below(nc), rng.choice("LUB"), rnd_val(rng)) for _ in range(n)]
            if not inv:
                items = [(j, lu, fit_bound(m.bnds[j], lu, v)) for j, lu, v in items]
            if inv:
                items.insert(rng.below(len(items) + 1), (bad_index(rng, nc, nr), "L", F(0)))
            return "chgbounds %d %d %s" % (slot, len(items), " ".join("%d %s %s" % (j, lu, q2s(v)) for j, lu, v in items)), not inv, k
        if k in ("chgrhs", "chgrange", "chgsense"):
            if nr == 0 and not inv:
                continue
            i = bad_index(rng, nr, nc) if (inv or nr == 0) else rng.below(nr)
            ok = not (inv or nr == 0)
            if k == "chgrhs":
                return "chgrhs %d %d %s" % (slot, i, q2s(rnd_val(rng))), ok, k
            if k == "chgrange":
                if ok:
                    rr = [t for t in range(nr) if m.rows[t][1] == "R"]
                    if rr and rng.chance(0.85):
                        i = rng.choice(rr)
                    ok = m.rows[i][1] == "R"
                return "chgrange %d %d %s" % (slot, i, q2s(F(rng.rint(0, 8), rng.choice([1, 2, 3])))), ok, k
            s = rng.choice("LGER")
            if inv and rng.chance(0.4) and nr:
                i, s, ok = rng.below(nr), rng.choice("XNl"), False
            if ok:
                m.rows[i][1] = s
            return "chgsense %d %d %s" % (slot, i, s), ok, k
        if k == "chgsenses":
            if nr == 0:
                continue
            items = [(rng.below(nr), rng.choice("LGER")) for _ in range(rng.rint(1, 3))]
            if inv:
                items.insert(rng.below(len(items) + 1), (bad_index(rng, nr, nc), "L"))
            else:
                for i, s in items:
                    m.rows[i][1] = s
            return "chgsenses %d %d %s" % (slot, len(items), " ".join("%d %s" % (i, s) for i, s in items)), not inv, k
        if k == "chgobjsense":
            if inv:
                return "chgobjsense %d %d" % (slot, rng.choice([0, 2, -2, 7])), False, k
            return "chgobjsense %d %s" % (slot, rng.choice(["min", "max"])), True, k
    return "chgobjsense %d min" % slot, True, "chgobjsense"
