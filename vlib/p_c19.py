"""C19: the esolver program reports exactly what the library computed.

proof:  Props.C19 — the solution file's sections as a codec: with distinct names the listed
        non-zero entries determine the full vectors (decode_encode) and the listing is exactly the
        non-zero components (entries_exact); -L always selects the LP reader.
tie:    the real esolver binary (built from /repo's working tree, sanitizers on) is run on problem
        files of every container / name shape with the option product; exit status, solution file
        and basis file are observed.  The solution file is parsed, its sections are read back by
        name through the Lean `decodeSec`, and the rebuilt x / pi are handed to the proved
        certificate checker (C01/C03) together with value, slack and reduced costs; the stated
        status is compared with a certified reference classification; a basis written with -b is
        fed back with -B; the file-type decision is compared with the Lean `ftypeOf`.
"""
import bz2, gzip, os, shutil, subprocess
from fractions import Fraction as F
from . import build, proto, core, gen, translate, solvelib, refsolve, p_files
from .gen import q2s, s2q, LP, INF, NINF
from .solvelib import arr

OBL = [("Qsx.Props.C19", "Qsx.Props.C19." + t) for t in ["decode_encode", "entries_exact", "force_lp"]]
MEM = "70368744177664"     # -m: the default 4 GB address-space limit esolver sets on itself cannot hold the sanitizer's shadow memory
STATUS = {"optimal": "OPTIMAL", "infeasible": "INFEASIBLE", "unbounded": "UNBOUNDED"}


def hx(s):
    return s.encode("latin-1").hex() if s else "-"


def run_esolver(exe, args, cwd, timeout=300):
    env = dict(os.environ, ASAN_OPTIONS="exitcode=99:detect_leaks=0:abort_on_error=0", UBSAN_OPTIONS="print_stacktrace=1")
    try:
        r = subprocess.run([exe, "-m", MEM] + args, cwd=cwd, capture_output=True, timeout=timeout, env=env)
        return r.returncode, r.stderr.decode("latin-1", "replace")
    except subprocess.TimeoutExpired:
        return "timeout", ""


def parse_sol(text):
    """-> dict(status1, status2, value, secs={name: [(n, v)]}, order=[...]) or raises ValueError"""
    ls = text.split("\n")
    if ls and ls[-1] == "":
        ls = ls[:-1]
    out = {"status1": None, "status2": None, "value": None, "secs": {}, "order": []}
    if not ls or not ls[0].startswith("status = "):
        raise ValueError("first line is not 'status = ...'")
    out["status1"] = ls[0][len("status = "):]
    cur = None
    for l in ls[1:]:
        if l.startswith("status "):
            out["status2"] = l[len("status "):]
        elif l.startswith("\tValue = "):
            out["value"] = l[len("\tValue = "):]
        elif l in ("VARS:", "REDUCED COST:", "PI:", "SLACK:"):
            cur = l[:-1]
            if cur in out["secs"]:
                raise ValueError("section %s twice" % cur)
            out["secs"][cur] = []
            out["order"].append(cur)
        else:
            if cur is None or " = " not in l:
                raise ValueError("unexpected line %r" % l[:80])
            n, v = l.split(" = ", 1)
            out["secs"][cur].append((n, v))
    return out


def write_file(path, data, comp):
    if comp == "gz":
        with gzip.open(path, "wb") as fh:
            fh.write(data)
    elif comp == "bz2":
        with bz2.open(path, "wb") as fh:
            fh.write(data)
    else:
        with open(path, "wb") as fh:
            fh.write(data)


def read_out(path):
    raw = open(path, "rb").read()
    if path.endswith(".gz"):
        raw = gzip.decompress(raw)
    elif path.endswith(".bz2"):
        raw = bz2.decompress(raw)
    return raw.decode("latin-1")


def run(pid, tier, seed):
    ev = core.Evidence(pid, tier, seed, "proof")
    rep = core.Reporter(pid, seed, ev)
    quick = tier == "quick"
    rng = gen.Rng(seed)
    libdir = build.build()
    exe = build.build_harness(libdir)
    esolver = os.path.join(libdir, "esolver", "esolver")
    translate.generate(libdir)
    pr = core.prove(OBL, thorough=not quick)
    ev.cov["obligations"], ev.cov["discharged"], ev.cov["axioms"] = pr["obligations"], pr["discharged"], pr["axioms"]
    pinf, ninf = solvelib.get_inf(exe)
    work = "/var/tmp/qsx-c19-%d-%s" % (os.getpid(), seed)
    shutil.rmtree(work, ignore_errors=True)
    os.makedirs(work)
    try:
        return _run(pid, tier, seed, ev, rep, quick, rng, exe, esolver, pr, pinf, ninf, work)
    finally:
        shutil.rmtree(work, ignore_errors=True)


def _run(pid, tier, seed, ev, rep, quick, rng, exe, esolver, pr, pinf, ninf, work):
    from concurrent.futures import ThreadPoolExecutor
    # ---------------------------------------------------------------- problem files (text produced by the library's writers, containers by python)
    probs = []
    quota = {"optimal": 70 if quick else 1200, "infeasible": 20 if quick else 300, "unbounded": 20 if quick else 300, "other": 5}
    for k in range(600 if quick else 12000):
        r = rng.fork("p%d" % k)
        lp, cn, rn = p_files.named_problem(r)
        if any(not r_[3] for r_ in lp.rows):
            continue          # empty rows are not representable in the file formats (C08)
        try:
            st = refsolve.classify(lp)["status"]
        except Exception:
            st = "other"
        st = st if st in quota else "other"
        if quota[st] <= 0:
            continue
        quota[st] -= 1
        probs.append((lp, cn, rn))
    def make(job):
        k, (lp, cn, rn) = job
        d = os.path.join(work, "p%d" % k)
        os.makedirs(d)
        lines = p_files.build_lines(0, lp, cn, rn) + ["write 0 LP " + hx("w.lp"), "write 0 MPS " + hx("w.mps"), "getfile " + hx("w.lp"), "getfile " + hx("w.mps"),
                                                      "read 1 LP " + hx("w.lp"), "dumpapi 1", "read 2 MPS " + hx("w.mps"), "dumpapi 2"]
        t = proto.run_harness(exe, lines, timeout=300, cwd=d)
        if t.crashed or len(t) != len(lines):
            return None
        a, b = proto.get(t[-6][1], "file"), proto.get(t[-5][1], "file")
        if not a or not b or a[0] in ("missing", "-") or b[0] in ("missing", "-"):
            return None
        # the problem as the library's readers see each file (an LP file splits a ranged row in two, generated names, ...)
        seen = {"lp": p_files.parse_dump(t[-3][1]), "mps": p_files.parse_dump(t[-1][1])}
        if seen["lp"] is None or seen["mps"] is None:
            return None
        return d, bytes.fromhex(a[0]), bytes.fromhex(b[0]), seen
    with ThreadPoolExecutor(build.NCPU) as ex:
        made = list(ex.map(make, list(enumerate(probs))))

    jobs = []
    model = solvelib.Model(pinf, ninf)
    for (lp, cn, rn), mk in zip(probs, made):
        if mk is None:
            continue
        d, lptext, mpstext, seen = mk
        r = rng.fork("o" + d)
        fmt = r.choice(["lp", "mps"])
        comp = r.choice(["", "", "gz", "bz2"])
        shape = r.choice(["plain", "plain", "upper", "dotted", "force", "noext"])
        base = {"plain": "prob", "upper": "prob", "dotted": "my.prob.v2", "force": "prob", "noext": "prob"}[shape]
        ext = fmt if shape != "upper" else fmt.upper()
        force = False
        if shape == "force":
            fmt, ext, force = "lp", "txt", True
        elif shape == "noext":
            fmt, ext = "mps", ""
        name = base + ("." + ext if ext else "") + ("." + comp if comp else "")
        write_file(os.path.join(d, name), lptext if fmt == "lp" else mpstext, comp)
        # what esolver will decide from the name: Lean ftypeOf
        kft = model.ask("ftype %d %d %s" % (1 if force else 0, len(name.split(".")), " ".join(hx(p) for p in name.split("."))))
        opts = []
        if force:
            opts.append("-L")
        sol = "out.sol" + r.choice(["", "", ".gz", ".bz2"])
        opts += ["-O", sol]
        if r.chance(0.5):
            opts += ["-p", str(r.choice([1, 2, 3, 4]))]
        elif r.chance(0.6):
            opts += ["-d", str(r.choice([6, 7, 8, 9]))]
        if r.chance(0.3):
            opts.append("-S")
        if r.chance(0.4):
            opts += ["-P", str(r.choice([64, 128, 256]))]
        wb = r.chance(0.6)
        if wb:
            opts += ["-b", "out.bas"]
        lp, cn, rn = seen[fmt][0], seen[fmt][1], seen[fmt][2]
        jobs.append({"idx": len(jobs), "every": 4 if quick else 2, "lp": lp, "cn": cn, "rn": rn, "dir": d, "name": name, "fmt": fmt, "opts": opts, "sol": sol, "wb": wb, "kft": kft, "force": force,
                     "comp": comp, "shape": shape})
    model.run()

    def work1(j):
        rc, err = run_esolver(esolver, j["opts"] + [j["name"]], j["dir"])
        j["rc"], j["err"] = rc, err
        j["soltext"] = None
        p = os.path.join(j["dir"], j["sol"])
        if os.path.exists(p):
            try:
                j["soltext"] = read_out(p)
            except Exception as e:
                j["soltext"] = None
                j["solerr"] = str(e)
        j["bas"] = os.path.exists(os.path.join(j["dir"], "out.bas"))
        # -B round: feed the written basis back
        if j["wb"] and j["bas"] and rc == 0:
            rc2, err2 = run_esolver(esolver, (["-L"] if j["force"] else []) + ["-O", "out2.sol", "-B", "out.bas", j["name"]], j["dir"])
            j["rc2"], j["err2"] = rc2, err2
            p2 = os.path.join(j["dir"], "out2.sol")
            j["sol2"] = read_out(p2) if os.path.exists(p2) else None
        # the same bytes in the three containers must be solved alike - also when the text lacks its final newline
        # (and, for MPS, the ENDATA line, which the reader only warns about)
        if rc == 0 and j["idx"] % j["every"] == 0:
            plainp = os.path.join(j["dir"], "w.lp" if j["fmt"] == "lp" else "w.mps")
            data = open(plainp, "rb").read()
            variants = [("full", data)]
            cut = data[:-1] if data.endswith(b"\n") else data
            if j["fmt"] == "mps" and cut.endswith(b"ENDATA"):
                cut = cut[: -len(b"ENDATA")]
                cut = cut[:-1] if cut.endswith(b"\n") else cut
            variants.append(("no-final-newline", cut))
            j["containers"] = []
            for vn, vd in variants:
                outs = []
                for comp in ("", "gz", "bz2"):
                    nm = "v_%s.%s%s" % (vn, j["fmt"], "." + comp if comp else "")
                    write_file(os.path.join(j["dir"], nm), vd, comp)
                    so = "v_%s_%s.sol" % (vn, comp or "plain")
                    rcv, errv = run_esolver(esolver, ["-O", so, nm], j["dir"])
                    pth = os.path.join(j["dir"], so)
                    outs.append((comp or "plain", rcv, open(pth).read() if os.path.exists(pth) else None))
                j["containers"].append((vn, outs))
        # the basis esolver wrote, read by the library and judged by the exact verdict function
        if j["wb"] and j["bas"] and rc == 0:
            plain = "w.lp" if j["fmt"] == "lp" else "w.mps"
            bt = proto.run_harness(exe, ["read 0 %s %s" % (j["fmt"].upper(), hx(plain)), "readbasis 0 " + hx("out.bas")], timeout=120, cwd=j["dir"])
            b = proto.get(bt[-1][1], "basis") if len(bt) == 2 else None
            if b and b != ["none"]:
                vt = proto.run_harness(exe, ["read 0 %s %s" % (j["fmt"].upper(), hx(plain)), "optstatus 0 %s %s" % (b[0], b[1])], timeout=120, cwd=j["dir"])
                j["verdict"] = (proto.get(vt[-1][1], "rval"), proto.get(vt[-1][1], "result")) if len(vt) == 2 else None
            else:
                j["verdict"] = "unreadable"
        try:
            j["ref"] = refsolve.classify(j["lp"])
        except Exception:
            j["ref"] = {"status": "ref-failed"}
        # what the library computes on this file under the same settings
        o = j["opts"]
        algo, pp, dp = "primal", 3, 7
        if "-p" in o:
            pp = int(o[o.index("-p") + 1])
        if "-d" in o:
            algo, dp = "dual", int(o[o.index("-d") + 1])
        prec = int(o[o.index("-P") + 1]) if "-P" in o else 128
        plain = "w.lp" if j["fmt"] == "lp" else "w.mps"
        lt = proto.run_harness(exe, ["read 0 %s %s" % (j["fmt"].upper(), hx(plain)), "setparam 0 4 1", "setparam 0 0 %d" % pp, "setparam 0 2 %d" % dp,
                                     "setparam 0 7 %d" % (0 if "-S" in o else 1), "setprec %d" % prec, "solve 0 exact %s none" % algo], timeout=300, cwd=j["dir"])
        j["lib"] = None if lt.crashed or not len(lt) else (proto.get(lt[-1][1], "rval", ["?"])[0], proto.get(lt[-1][1], "status", ["?"])[0])
        return j
    with ThreadPoolExecutor(build.NCPU) as ex:
        jobs = list(ex.map(work1, jobs))

    model2 = solvelib.Model(pinf, ninf)
    pend = []
    for j in jobs:
        lp, cn, rn = j["lp"], j["cn"], j["rn"]
        cmdline = "esolver -m %s %s %s" % (MEM, " ".join(j["opts"]), j["name"])
        ctx = {"cmd": cmdline, "lp": lp.line(), "colnames": cn, "rownames": rn, "file_format": j["fmt"], "stderr": j["err"][-1500:]}
        ev.count(cmdline + "|" + lp.line())
        ev.stat("container:" + (j["comp"] or "plain"))
        ev.stat("name-shape:" + j["shape"])
        ev.stat("format:" + j["fmt"])
        for o in j["opts"]:
            if o.startswith("-"):
                ev.stat("option:" + o)
        ft = proto.get(model.ans(j["kft"]), "ftype")
        if ft != [j["fmt"]]:
            # the name says something else than the content: not a case of the property (generator error)
            raise RuntimeError("generator: file %s holds %s but ftypeOf says %s" % (j["name"], j["fmt"], ft))
        rc = j["rc"]
        if rc == "timeout":
            rep.violation("esolver does not terminate within 300 s on a small problem", ctx, signature={"symptom": "timeout"})
            continue
        if rc == 99 or (isinstance(rc, int) and rc < 0) or "runtime error:" in j["err"] or "AddressSanitizer" in j["err"]:
            rep.violation("esolver crashed (exit %s) on a readable problem file: %s" % (rc, j["err"][-300:]), ctx, signature={"symptom": "crash", "phase": "readable"})
            continue
        truth = j["ref"]["status"]
        ev.stat("truth:" + truth)
        lib = j.get("lib")
        libst = {"1": "OPTIMAL", "2": "INFEASIBLE", "3": "UNBOUNDED"}.get(lib[1], "UNDEFINED") if lib and lib[0] == "0" else None
        if lib and lib[0] != "0":
            ev.stat("library-solve-fails")
            if rc == 0:
                rep.violation("esolver exits 0 although QSexact_solver fails on this file under the same settings", ctx, signature={"symptom": "exit-zero-on-solver-error"})
            continue
        if rc != 0:
            rep.violation("esolver exits %s on a readable problem file (true status %s; options %s)" % (rc, truth, " ".join(j["opts"])), ctx,
                          signature={"symptom": "exit-nonzero", "truth": truth, "with_b": j["wb"]})
        if j["soltext"] is None:
            rep.violation("esolver wrote no (readable) solution file %s" % j["sol"], ctx, signature={"symptom": "no-solution-file"})
            continue
        try:
            s = parse_sol(j["soltext"])
        except ValueError as e:
            rep.violation("solution file is malformed: %s" % e, dict(ctx, solution=j["soltext"][:2000]), signature={"symptom": "solfile-malformed"})
            continue
        ctx["solution"] = j["soltext"][:3000]
        if libst is not None and s["status1"] != libst:
            rep.violation("solution file states %s, QSexact_solver under the same settings returns %s (true status %s)" % (s["status1"], libst, truth), ctx,
                          signature={"symptom": "status-wrong", "truth": truth})
            continue
        if truth in STATUS and s["status1"] != STATUS[truth]:
            ev.stat("library-status-not-the-truth:%s-for-%s" % (s["status1"], truth))   # completeness of the solver: C03
        if s["status1"] == "OPTIMAL":
            if s["status2"] != "OPTIMAL" or s["value"] is None or s["order"] != ["VARS", "REDUCED COST", "PI", "SLACK"]:
                rep.violation("OPTIMAL solution file lacks the value or a section (sections %s)" % s["order"], ctx, signature={"symptom": "solfile-incomplete"})
                continue
            bad = None
            for sec, names in (("VARS", cn), ("REDUCED COST", cn), ("PI", rn), ("SLACK", rn)):
                ent = s["secs"][sec]
                ns = [n for n, _ in ent]
                if len(set(ns)) != len(ns) or any(n not in names for n in ns):
                    bad = "section %s lists an unknown or repeated name" % sec
                try:
                    if any(s2q(v) == 0 for _, v in ent):
                        bad = "section %s lists a zero value" % sec
                    if any(q2s(s2q(v)) != v for _, v in ent):
                        bad = "section %s: a value is not an exact fraction in lowest terms" % sec
                except Exception:
                    bad = "section %s: a value is not a fraction" % sec
            if bad:
                rep.violation("solution file: " + bad, ctx, signature={"symptom": "solfile-entries"})
                continue
            ks = {}
            for sec, names in (("VARS", cn), ("REDUCED COST", cn), ("PI", rn), ("SLACK", rn)):
                ent = s["secs"][sec]
                ks[sec] = model2.ask("solsec %d %s %d %s" % (len(names), " ".join(hx(n) for n in names), len(ent), " ".join("%s %s" % (hx(n), v) for n, v in ent)))
            pend.append((j, s, ks, ctx))
        for vn, outs in j.get("containers", []):
            ev.stat("container-triples:" + vn)
            if len(set((rcv, txt) for _, rcv, txt in outs)) > 1:
                rep.violation("the same problem text (%s) is treated differently depending on the container: %s" %
                              (vn, "; ".join("%s: exit %s, %s" % (c, rcv, "no solution file" if txt is None else txt.split("\n")[0] + " " + (txt.split("\n")[2] if len(txt.split("\n")) > 2 else "")) for c, rcv, txt in outs)),
                              ctx, signature={"symptom": "container-dependent", "variant": vn})
        if j.get("verdict") is not None and s["status1"] == "OPTIMAL":
            ev.stat("written-bases-judged")
            if j["verdict"] == "unreadable" or j["verdict"] != (["0"], ["1"]):
                rep.violation("the basis esolver -b wrote for an OPTIMAL run is not accepted as optimal by QSexact_basis_optimalstatus after reading it back (%s)" % (j["verdict"],), ctx,
                              signature={"symptom": "written-basis-not-optimal"})
        # -B round
        if j.get("rc2") is not None and s["status1"] == "OPTIMAL":
            ev.stat("basis-round-trips")
            if j["rc2"] != 0:
                rep.violation("esolver -B with the basis esolver -b wrote exits %s" % j["rc2"], dict(ctx, stderr2=j["err2"][-800:]), signature={"symptom": "basis-readback-exit", "truth": truth})
            elif j["sol2"] is not None:
                try:
                    s2 = parse_sol(j["sol2"])
                    if (s2["status1"], s2["value"]) != (s["status1"], s["value"]):
                        rep.violation("restarting from the written basis gives %s / %s instead of %s / %s" % (s2["status1"], s2["value"], s["status1"], s["value"]), ctx,
                                      signature={"symptom": "basis-readback-differs"})
                except ValueError:
                    rep.violation("solution file of the -B run is malformed", ctx, signature={"symptom": "solfile-malformed"})
        elif j["wb"] and rc == 0 and not j["bas"] and s["status1"] == "OPTIMAL":
            rep.violation("esolver -b exits 0 without writing the basis file (status %s)" % s["status1"], ctx, signature={"symptom": "no-basis-file", "status": s["status1"]})
    model2.run()
    model3 = solvelib.Model(pinf, ninf)
    pend3 = []
    for j, s, ks, ctx in pend:
        vec = {sec: proto.get(model2.ans(k), "vec")[1:] for sec, k in ks.items()}
        k3 = model3.ask("certok %s %s %s" % (j["lp"].line(), "%d %s" % (len(vec["VARS"]), " ".join(vec["VARS"])) if vec["VARS"] else "0",
                                            "%d %s" % (len(vec["PI"]), " ".join(vec["PI"])) if vec["PI"] else "0"))
        pend3.append((j, s, vec, k3, ctx))
    model3.run()
    for j, s, vec, k3, ctx in pend3:
        a = model3.ans(k3)
        ev.cov["traces_validated_against_impl"] += 1
        ev.stat("optimal-solution-files-certified")
        if proto.get(a, "ok") != ["1"]:
            rep.violation("the solution listed in the file does not pass the exact optimality check", ctx, signature={"symptom": "solution-not-optimal"})
            continue
        if proto.get(a, "val") != [s["value"]]:
            rep.violation("the value in the file (%s) is not the objective of the listed solution (%s)" % (s["value"], proto.get(a, "val")), ctx, signature={"symptom": "value-wrong"})
        if proto.get(a, "slack")[1:] != vec["SLACK"]:
            rep.violation("the slacks in the file are not the slacks of the listed solution: file %s, computed %s" % (vec["SLACK"], proto.get(a, "slack")[1:]), ctx,
                          signature={"symptom": "slack-wrong"})
        if proto.get(a, "rc")[1:] != vec["REDUCED COST"]:
            rep.violation("the reduced costs in the file are not those of the listed duals: file %s, computed %s" % (vec["REDUCED COST"], proto.get(a, "rc")[1:]), ctx,
                          signature={"symptom": "rc-wrong"})

    # ---------------------------------------------------------------- unreadable / malformed files
    bad_dir = os.path.join(work, "bad")
    os.makedirs(bad_dir)
    good = next((mk for mk in made if mk is not None), None)
    cases = [("missing.lp", None), ("empty.lp", b""), ("empty.mps", b""), ("garbage.lp", bytes(rng.below(256) for _ in range(400))),
             ("garbage.mps", bytes(rng.below(256) for _ in range(400))), ("truncated.lp", b"Minimize\n obj: x + \nSubject"),
             ("nosection.mps", b"NAME x\nROWS\n N obj\n L c1\nCOLUMNS\n x obj 1 c9 2\n"), ("notgz.lp.gz", b"Minimize\n obj: x\nEnd\n"),
             ("notbz.mps.bz2", b"NAME x\nENDATA\n"), ("dir.lp", "DIR")]
    if good:
        cases += [("cut.lp", good[1][: len(good[1]) // 2]), ("cut.mps", good[2][: len(good[2]) // 2]),
                  ("lp-as-mps.mps", good[1]), ("mps-as-lp.lp", good[2]), ("halfgz.lp.gz", gzip.compress(good[1])[: 40])]
    for name, data in cases:
        p = os.path.join(bad_dir, name)
        if data == "DIR":
            os.makedirs(p)
        elif data is not None:
            open(p, "wb").write(data)
        rc, err = run_esolver(esolver, ["-O", "o.sol", name], bad_dir, timeout=120)
        ev.count("bad|" + name)
        ev.stat("malformed-inputs")
        ctx = {"cmd": "esolver -m %s -O o.sol %s" % (MEM, name), "content_hex": (data.hex()[:2000] if isinstance(data, bytes) else str(data)), "stderr": err[-1500:]}
        if rc == "timeout" or rc == 99 or (isinstance(rc, int) and rc < 0) or "runtime error:" in err or "AddressSanitizer" in err:
            rep.violation("esolver crashes or hangs (exit %s) on the unreadable / malformed file %s" % (rc, name), ctx, signature={"symptom": "crash", "phase": "malformed", "case": name})
        elif rc == 0 and name not in ("cut.lp", "cut.mps", "nosection.mps"):
            # a cut file may happen to be well formed; every other case is unreadable by construction
            rep.violation("esolver exits 0 on the unreadable / malformed file %s" % name, ctx, signature={"symptom": "exit-zero-on-bad-file", "case": name})

    if pr["failed"]:
        for thm, why in pr["failed"]:
            rep.violation("proof obligation %s no longer checks: %s" % (thm, why), {"theorem": thm, "why": why, "log": pr["log"][-3000:]},
                          signature={"theorem": thm}, found_input=False)
    ev.cov["rule"] = ("esolver (sanitized build of the working tree) on named problems written as LP / MPS text, plain / gz / bz2, name shapes (upper case, dotted, no extension, -L), "
                      "options -O name[.gz|.bz2] -p -d -S -P -b -B: exit 0, status line == certified reference status, OPTIMAL files parsed, sections read back by name through the "
                      "Lean decodeSec and the rebuilt solution passed through the proved certOK with value / slack / reduced costs compared, -b basis fed back with -B; unreadable and "
                      "malformed files: non-zero exit, no crash")
    ev.assumptions += ["esolver is run with -m 2^46 (its default 4 GB address-space limit is incompatible with the sanitizer runtime)",
                       "problem text comes from the library's own writers (their fidelity is C08/C09); containers are produced by python"]
    ev.write()
    return rep.finish()
