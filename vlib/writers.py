"""Translator part for C20: the list of call sites, after preprocessing, that write to the process's
standard output / standard error directly (not through QSlog), each tagged with the function it
ends up in."""
import os, re, subprocess
from concurrent.futures import ThreadPoolExecutor
from . import build

CALL = re.compile(r"\b(fprintf|vfprintf|fputs|fputc|putc|fwrite)\s*\(\s*([^;]*?)\b(stderr|stdout)\b|\b(printf|vprintf|puts|putchar|perror)\s*\(|\bwrite\s*\(\s*(1|2|STDOUT_FILENO|STDERR_FILENO)\s*,|\bEGioOpenFILE\s*\(\s*(stdout|stderr)")
FUNC = re.compile(r"^[A-Za-z_][\w\s\*]*?\b([A-Za-z_]\w*)\s*\([^;{]*$")


def preprocess(libdir, f):
    r = subprocess.run(["gcc", "-E", "-P", "-DHAVE_CONFIG_H", "-D" + build.GUARD, "-I" + libdir, "-I" + os.path.join(libdir, "qsopt_ex"),
                        os.path.join(libdir, f)], capture_output=True, text=True)
    return r.stdout


def scan(text, fname):
    """brace-depth tracker: (function, callee, stream) for every direct write call"""
    out = []
    depth = 0
    cur = None
    pending = None
    # drop string literals and comments to keep brace counting honest
    text = re.sub(r'"(\\.|[^"\\])*"', '""', text)
    text = re.sub(r"'(\\.|[^'\\])*'", "''", text)
    for line in text.split("\n"):
        if depth == 0:
            m = re.match(r"^\s*(?:static\s+|extern\s+|inline\s+|const\s+|unsigned\s+|struct\s+)*[A-Za-z_][\w\s\*]*?\b([A-Za-z_]\w*)\s*\(", line)
            if m and not line.strip().endswith(";") and m.group(1) not in ("if", "while", "for", "switch", "return", "sizeof", "__attribute__"):
                pending = m.group(1)
        for m in CALL.finditer(line):
            if depth > 0:
                callee = m.group(1) or m.group(4) or ("write" if m.group(5) else "EGioOpenFILE")
                stream = m.group(3) or m.group(6) or ({"1": "stdout", "2": "stderr", "STDOUT_FILENO": "stdout", "STDERR_FILENO": "stderr"}.get(m.group(5)) if m.group(5) else ("stderr" if callee == "perror" else "stdout"))
                out.append((cur or "?", callee, stream))
        for ch in line:
            if ch == "{":
                if depth == 0:
                    cur = pending
                depth += 1
            elif ch == "}":
                depth -= 1
                if depth == 0:
                    cur = None
                    pending = None
        if depth == 0 and line.strip().endswith(";"):
            pending = None
    return out


def library_sources(libdir):
    main, tsrc, thdr = build.source_lists()
    files = list(main)
    for f in tsrc:
        base = f[:-2]
        files.append(base + "_mpq.c")        # the three instantiations are textually identical up to the type name
    return files


def direct_writers(libdir):
    files = library_sources(libdir)
    with ThreadPoolExecutor(build.NCPU) as ex:
        texts = list(ex.map(lambda f: preprocess(libdir, f), files))
    table = []
    for f, t in zip(files, texts):
        for fn, callee, stream in scan(t, f):
            table.append((os.path.basename(f), fn, callee, stream))
    # deduplicate keeping counts
    agg = {}
    for e in table:
        agg[e] = agg.get(e, 0) + 1
    return sorted((f, fn, c, s, n) for (f, fn, c, s), n in agg.items())


if __name__ == "__main__":
    d = build.build()
    for e in direct_writers(d):
        print(e)
