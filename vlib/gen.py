"""Deterministic generators.  Every random choice derives from one splitmix64 state."""
from fractions import Fraction as F
import itertools, sys
sys.set_int_max_str_digits(0)

INF = "inf"
NINF = "-inf"


class Rng:
    def __init__(self, seed):
        self.s = (seed * 0x9E3779B97F4A7C15 + 0x1234567) & 0xFFFFFFFFFFFFFFFF

    def next(self):
        self.s = (self.s + 0x9E3779B97F4A7C15) & 0xFFFFFFFFFFFFFFFF
        z = self.s
        z = ((z ^ (z >> 30)) * 0xBF58476D1CE4E5B9) & 0xFFFFFFFFFFFFFFFF
        z = ((z ^ (z >> 27)) * 0x94D049BB133111EB) & 0xFFFFFFFFFFFFFFFF
        return z ^ (z >> 31)

    def below(self, n):
        return self.next() % n if n > 0 else 0

    def rint(self, a, b):
        return a + self.below(b - a + 1)

    def chance(self, p):
        return (self.next() % 10000) < int(p * 10000)

    def choice(self, xs):
        return xs[self.below(len(xs))]

    def wchoice(self, pairs):
        tot = sum(w for _, w in pairs)
        r = self.below(tot)
        for x, w in pairs:
            if r < w:
                return x
            r -= w
        return pairs[-1][0]

    def shuffle(self, xs):
        xs = list(xs)
        for i in range(len(xs) - 1, 0, -1):
            j = self.below(i + 1)
            xs[i], xs[j] = xs[j], xs[i]
        return xs

    def fork(self, tag):
        return Rng(self.next() ^ (hash_str(tag)))

    def small_rat(self, lim=5, dens=(1, 1, 1, 2, 3)):
        return F(self.rint(-lim, lim), self.choice(dens))

    def rat(self, kind=None):
        kind = kind or self.wchoice([("small", 70), ("frac", 15), ("big", 8), ("tiny", 7)])
        if kind == "small":
            return F(self.rint(-6, 6))
        if kind == "frac":
            return F(self.rint(-20, 20), self.rint(1, 12))
        if kind == "big":
            return F(self.rint(-9, 9) * 10 ** self.rint(3, 30) + self.rint(-5, 5), self.choice([1, 1, 7, 10 ** 9 + 7]))
        return F(self.rint(-9, 9), 2 ** self.rint(10, 90))


def hash_str(s):
    h = 1469598103934665603
    for ch in s.encode():
        h = ((h ^ ch) * 1099511628211) & 0xFFFFFFFFFFFFFFFF
    return h


def q2s(q):
    if q == INF or q == NINF:
        return q
    q = F(q)
    return str(q.numerator) if q.denominator == 1 else "%d/%d" % (q.numerator, q.denominator)


def s2q(s):
    if s in (INF, NINF):
        return s
    return F(s)


class LP:
    """API-level LP.  cols: [obj, lo, up] ; rows: [sense, rhs, range, [(j, a), ...]]"""

    def __init__(self, sense="min", cols=None, rows=None, names=None):
        self.sense = sense
        self.cols = cols or []
        self.rows = rows or []

    def copy(self):
        return LP(self.sense, [list(c) for c in self.cols], [[r[0], r[1], r[2], list(r[3])] for r in self.rows])

    def line(self):
        t = ["lp", self.sense, str(len(self.cols)), str(len(self.rows))]
        for o, l, u in self.cols:
            t += [q2s(o), q2s(l), q2s(u)]
        for s, rhs, rng, ent in self.rows:
            t += [s, q2s(rhs), q2s(rng), str(len(ent))]
            for j, a in ent:
                t += [str(j), q2s(a)]
        return " ".join(t)

    def key(self):
        return self.line()

    @staticmethod
    def parse(tokens):
        it = iter(tokens)
        assert next(it) == "lp"
        sense = next(it)
        nc = int(next(it)); nr = int(next(it))
        cols = [[s2q(next(it)), s2q(next(it)), s2q(next(it))] for _ in range(nc)]
        rows = []
        for _ in range(nr):
            s = next(it); rhs = s2q(next(it)); rng = s2q(next(it)); k = int(next(it))
            ent = [(int(next(it)), s2q(next(it))) for _ in range(k)]
            rows.append([s, rhs, rng, ent])
        return LP(sense, cols, rows)


BOUND_SHAPES = ["default", "free", "fixed", "upper", "negupper", "lowerpos", "box", "lowerneg"]


def bounds_of(rng, shape):
    if shape == "default":
        return F(0), INF
    if shape == "free":
        return NINF, INF
    if shape == "fixed":
        v = rng.small_rat(4)
        return v, v
    if shape == "upper":
        return NINF, rng.small_rat(6)
    if shape == "negupper":
        return NINF, F(-rng.rint(1, 5))
    if shape == "lowerpos":
        return F(rng.rint(1, 4)), INF
    if shape == "lowerneg":
        return F(-rng.rint(1, 4)), INF
    lo = rng.small_rat(4)
    return lo, lo + F(rng.rint(0, 6), rng.choice([1, 1, 2]))


def random_lp(rng, m=None, n=None, dens=None, coef="small", shapes=None, senses="LGER", feas_bias=True):
    """Structured random LP; with feas_bias the rhs is set around a hidden point so that most
    instances are feasible, and the objective/bounds mix gives optimal / unbounded / infeasible."""
    m = m if m is not None else rng.rint(1, 5)
    n = n if n is not None else rng.rint(1, 5)
    dens = dens if dens is not None else rng.choice([0.4, 0.6, 0.9])
    shapes = shapes or ["default"] * 5 + BOUND_SHAPES
    cols = []
    hidden = []
    for j in range(n):
        lo, up = bounds_of(rng, rng.choice(shapes))
        o = rng.rat(coef) if rng.chance(0.85) else F(0)
        cols.append([o, lo, up])
        a = F(0) if lo == NINF else lo
        b = a + 3 if up == INF else up
        if lo == NINF:
            a = b - 3
        hidden.append(a + (b - a) * F(rng.rint(0, 4), 4))
    rows = []
    for i in range(m):
        ent = [(j, rng.rat(coef)) for j in range(n) if rng.chance(dens)]
        ent = [(j, a) for j, a in ent if a != 0]
        if not ent and rng.chance(0.8):
            ent = [(rng.below(n), F(rng.choice([1, -1, 2])))]
        act = sum((a * hidden[j] for j, a in ent), F(0))
        s = rng.choice(senses)
        rngv = F(0)
        if feas_bias and rng.chance(0.8):
            slackv = F(rng.rint(0, 3), rng.choice([1, 2]))
            if s == "L":
                rhs = act + slackv
            elif s == "G":
                rhs = act - slackv
            elif s == "E":
                rhs = act
            else:
                rngv = F(rng.rint(0, 6), rng.choice([1, 2]))
                rhs = act - min(slackv, rngv)
        else:
            rhs = rng.rat(coef)
            if s == "R":
                rngv = F(rng.rint(0, 6), rng.choice([1, 2]))
        rows.append([s, rhs, rngv, ent])
    return LP(rng.choice(["min", "min", "max"]), cols, rows)


def exhaustive_small(m, n, coefs=(-1, 0, 1, 2)):
    """generator over the exhaustive small family (used by C03 thorough)"""
    shapes = [(F(0), INF), (NINF, INF), (F(1), F(1)), (NINF, F(2)), (F(0), F(1))]
    for sense in ("min", "max"):
        for objs in itertools.product((-1, 0, 1), repeat=n):
            for bs in itertools.product(range(len(shapes)), repeat=n):
                for rowspec in itertools.product(itertools.product(coefs, repeat=n), repeat=m):
                    for ss in itertools.product("LGER", repeat=m):
                        for rhs in itertools.product((-1, 0, 2), repeat=m):
                            cols = [[F(objs[j]), shapes[bs[j]][0], shapes[bs[j]][1]] for j in range(n)]
                            rows = [[ss[i], F(rhs[i]), F(1) if ss[i] == "R" else F(0),
                                     [(j, F(a)) for j, a in enumerate(rowspec[i]) if a != 0]] for i in range(m)]
                            yield LP(sense, cols, rows)
