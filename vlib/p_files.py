"""C08 / C09: writing a problem in LP (MPS) format and reading it back yields the same problem;
LP and MPS renderings agree.

proof:  Props.C08 / Props.C09 — the layers the round trip rests on: every rational the writers
        print is read back exactly by the number scanner (scan_render), a ranged row and its two
        one-sided halves have the same feasible set (range_split), the MPS RANGES record decodes
        to the row it was written from (ranges_roundtrip).
tie:    named problems satisfying the property's precondition are built through the API, written by
        the real writer (plain / .gz / .bz2), read back by the real reader and compared, matched by
        name, with the original: objective sense, every column's objective coefficient, bounds and
        integrality, every row (a ranged row may come back as its two halves in LP format; empty
        rows are dropped), every number as the identical rational; chains LP->MPS->LP and
        MPS->LP->MPS; both problems are then solved exactly and must agree.
"""
from fractions import Fraction as F
from . import build, proto, core, gen, translate, solvelib, lpfam, hist
from .gen import q2s, LP, INF, NINF
from .hist import hx

OBL = {
    "C08": [("Qsx.Props.C08", t) for t in ["Qsx.Props.C08.range_split", "Qsx.Props.C08.lp_bounds_roundtrip"]],
    "C09": [("Qsx.Props.C08", "Qsx.Props.C08.range_split"), ("Qsx.Props.C09", "Qsx.Props.C09.mps_bounds_roundtrip"),
            ("Qsx.Props.C09", "Qsx.Props.C09.mps_ranges_roundtrip"), ("Qsx.Props.C09", "Qsx.Props.C09.mps_ranges_meaning")],
}

NAME_POOL = ["x", "y", "z", "var", "e5", "E1", "inf1", "st1", "free1", "x_1", "c2", "c3", "r", "obj2", "Max1", "bnd", "a.b", "v(1)", "w#", "x1", "x2", "x10",
             "BOUND", "RHS", "RANGE", "MARKER", "longer_name_with_underscores_0123456789", "q!", "p&q", "n~", "k{2}", "t|u", "s@t", "d$", "g%", "p%dq", "u%%v", "w%s"]
ROW_POOL = ["r", "c", "obj", "con", "c2", "c3", "c10", "R1", "e5", "lim", "RHS", "RANGE", "BOUND", "obj1", "row.a", "cap(2)", "bal#1", "x", "long_constraint_name_0123456789_abcdefghij", "r%d", "c%%1"]


def named_problem(rng, big=False):
    """(lp, colnames, rownames) satisfying: every column has a non-zero coefficient somewhere, at least one non-empty row"""
    n = rng.rint(1, 7) if not big else rng.rint(20, 90)
    m = rng.rint(1, 6) if not big else rng.rint(10, 40)
    lp = gen.random_lp(rng, m=m, n=n, dens=rng.choice([0.3, 0.6, 0.9]) if not big else 0.15, coef=None, shapes=gen.BOUND_SHAPES + ["default"] * 4)
    # every bound shape incl. (-inf, 0], [0,0], negative upper, -inf..finite
    for c in lp.cols:
        if rng.chance(0.12):
            c[1], c[2] = NINF, F(0)
        if rng.chance(0.05):
            c[1], c[2] = F(0), F(0)
        if rng.chance(0.05):
            c[1], c[2] = F(0), F(1)
    used = set(j for r in lp.rows for j, a in r[3] if a != 0)
    for j, c in enumerate(lp.cols):
        if c[0] == 0 and j not in used:
            c[0] = F(rng.rint(1, 5))
    if not any(r[3] for r in lp.rows):
        lp.rows[0][3] = [(0, F(2))]
    for r in lp.rows:
        r[3] = [(j, a) for j, a in r[3] if a != 0]
        if r[0] == "R" and rng.chance(0.15):
            r[2] = F(0)
        if rng.chance(0.15):
            r[1] = -abs(r[1]) - 1          # negative rhs
    cn, rn = [], []
    for j in range(len(lp.cols)):
        base = rng.choice(NAME_POOL) if not big else "v"
        k = 0
        nm = base
        while nm in cn or nm in rn:
            k += 1
            nm = "%s_%d" % (base, k) if rng.chance(0.5) else "%s%d" % (base, k)
        cn.append(nm)
    for i in range(len(lp.rows)):
        base = rng.choice(ROW_POOL) if not big else "k"
        k = 0
        nm = base
        while nm in rn or nm in cn:
            k += 1
            nm = "%s%d" % (base, k)
        rn.append(nm)
    return lp, cn, rn


def build_lines(slot, lp, cn, rn, rows_first=None):
    lines = ["create %d %s" % (slot, lp.sense)]
    if rows_first if rows_first is not None else gen.hash_str(lp.line()) % 3 == 0:
        # rows first, then the columns with their entries: the structural columns then do not occupy the first matrix
        # columns (structmap is not the identity), which is what a user gets who adds columns to an existing model
        for i, r in enumerate(lp.rows):
            lines.append("newrow %d %s %s %s" % (slot, hx(rn[i]), r[0], q2s(r[1])))
            if r[0] == "R":
                lines.append("chgrange %d %d %s" % (slot, i, q2s(r[2])))
        for j, c in enumerate(lp.cols):
            ent = [(i, a) for i, r in enumerate(lp.rows) for jj, a in r[3] if jj == j]
            lines.append("addcol %d %s %s %s %s %d%s" % (slot, hx(cn[j]), q2s(c[0]), q2s(c[1]), q2s(c[2]), len(ent), "".join(" %d %s" % (i, q2s(a)) for i, a in ent)))
        return lines
    for j, c in enumerate(lp.cols):
        lines.append("newcol %d %s %s %s %s" % (slot, hx(cn[j]), q2s(c[0]), q2s(c[1]), q2s(c[2])))
    for i, r in enumerate(lp.rows):
        lines.append("addrrow %d %s %s %s %s %d%s" % (slot, hx(rn[i]), r[0], q2s(r[1]), q2s(r[2]), len(r[3]), "".join(" %d %s" % (j, q2s(a)) for j, a in r[3])))
    return lines


def parse_dump(block):
    api = proto.get(block, "api")
    if not api or api[0] != "lp":
        return None
    lp = LP.parse(api)
    cn = [bytes.fromhex(v).decode("latin-1") if v != "-" else None for v in (proto.get(block, "colnames") or ["0"])[1:]]
    rn = [bytes.fromhex(v).decode("latin-1") if v != "-" else None for v in (proto.get(block, "rownames") or ["0"])[1:]]
    flags = (proto.get(block, "intflags") or ["0"])[1:]
    return lp, cn, rn, flags


def canon_rows(lp, cn, rn, split_ranges):
    """{name-or-None: (sense, rhs, range, {colname: coef})}; with split_ranges a ranged row becomes its G half under its
    own name plus an anonymous L half; empty rows are dropped"""
    named, anon = {}, []
    for i, r in enumerate(lp.rows):
        ent = {}
        for j, a in r[3]:
            ent[cn[j]] = ent.get(cn[j], F(0)) + F(a)
        if not r[3]:
            continue
        if r[0] == "R" and split_ranges:
            named[rn[i]] = ("G", F(r[1]), F(0), ent)
            anon.append(("L", F(r[1]) + F(r[2]), F(0), ent))
        else:
            named[rn[i]] = (r[0], F(r[1]), F(r[2]) if r[0] == "R" else F(0), ent)
    return named, anon


def compare(orig, back, fmt_chain):
    """orig/back: (lp, cn, rn[, flags]).  fmt_chain contains 'LP' if an LP-format step happened (ranges split)."""
    diffs = []
    lp0, cn0, rn0 = orig[:3]
    lp1, cn1, rn1 = back[:3]
    if lp0.sense != lp1.sense:
        diffs.append("objective sense %s -> %s" % (lp0.sense, lp1.sense))
    c0 = {cn0[j]: tuple(lp0.cols[j]) for j in range(len(cn0))}
    c1 = {cn1[j]: tuple(lp1.cols[j]) for j in range(len(cn1))}
    for nm in c0:
        if nm not in c1:
            diffs.append("column %r missing after read-back" % nm)
        elif c0[nm] != c1[nm]:
            diffs.append("column %r (obj, lower, upper) %s -> %s" % (nm, [q2s(v) for v in c0[nm]], [q2s(v) for v in c1[nm]]))
    for nm in c1:
        if nm not in c0:
            diffs.append("unexpected column %r after read-back" % nm)
    if len(orig) > 3 and len(back) > 3 and orig[3] and back[3]:
        i0 = {cn0[j]: orig[3][j] for j in range(min(len(cn0), len(orig[3])))}
        i1 = {cn1[j]: back[3][j] for j in range(min(len(cn1), len(back[3])))}
        for nm in i0:
            if nm in i1 and i0[nm] != i1[nm]:
                diffs.append("integrality of column %r %s -> %s" % (nm, i0[nm], i1[nm]))
    split = "LP" in fmt_chain
    n0, a0 = canon_rows(lp0, cn0, rn0, split)
    # in the read-back, rows that do not carry an original name are the anonymous halves
    n1, a1 = {}, []
    nb, ab = canon_rows(lp1, cn1, rn1, False)
    for nm, v in nb.items():
        if nm in n0:
            n1[nm] = v
        else:
            a1.append(v)
    for nm in n0:
        if nm not in n1:
            diffs.append("row %r missing after read-back" % nm)
        elif n0[nm] != n1[nm]:
            diffs.append("row %r %s -> %s" % (nm, fmt_row(n0[nm]), fmt_row(n1[nm])))
    rest = list(a1)
    for v in a0:
        if v in rest:
            rest.remove(v)
        else:
            diffs.append("upper half of a ranged row missing after read-back: %s" % fmt_row(v))
    for v in rest:
        diffs.append("unexpected extra row after read-back: %s" % fmt_row(v))
    return diffs


def parse_lp_bounds(text, cn):
    """{column name: canonical line} from the Bounds section of an LP file"""
    out = {}
    if "\nBounds\n" not in text:
        return out
    sec = text.split("\nBounds\n", 1)[1]
    for ln in sec.split("\n"):
        t = ln.split()
        if not t:
            continue
        if t[0] in ("End", "Integer", "Integers", "General", "Generals", "Binary", "Binaries"):
            break
        if len(t) == 3 and t[1] == "=":
            out[t[0]] = "fixed %s" % q2s(gen.s2q(t[2]))
        elif len(t) == 2 and t[1] == "free":
            out[t[0]] = "free"
        elif len(t) == 5 and t[1] == "<=" and t[3] == "<=":
            out[t[2]] = "range %s %s" % (q2s(gen.s2q(t[0])), q2s(gen.s2q(t[4])))
        elif len(t) == 3 and t[1] == "<=" and t[0] in cn and t[2] not in cn:
            out[t[0]] = "range - %s" % q2s(gen.s2q(t[2]))
        elif len(t) == 3 and t[1] == "<=":
            out[t[2]] = "range %s -" % q2s(gen.s2q(t[0]))
        else:
            out["?" + ln] = "unparsed"
    return out


def parse_mps_bounds(text):
    out = {}
    if "\nBOUNDS\n" not in text:
        return out
    sec = text.split("\nBOUNDS\n", 1)[1]
    for ln in sec.split("\n"):
        t = ln.split()
        if not t or t[0] == "ENDATA":
            break
        kind, name = t[0], t[2]
        out[name] = (out.get(name, "") + " " + kind + ((" " + q2s(gen.s2q(t[3]))) if len(t) > 3 else "")).strip()
    return out


def ranges_tie(exe, rng, quick, ev, rep):
    """C09: RANGES records.  (reader) hand-rendered MPS files with a RANGES value of either sign (and zero) on rows of every
    sense are read by the library and compared with the Lean `MpsRanges.readRow`; (writer) ranged rows of written files are
    'G' rows with a RANGES record carrying the range."""
    jobs = []
    for k in range(60 if quick else 1200):
        r = rng.fork("rg%d" % k)
        m = r.rint(1, 4)
        rows = []
        for i in range(m):
            sense = r.choice("GLE")
            rhs = r.rat()
            rv = r.choice([None, None, F(0), r.rat(), -abs(r.rat()) - F(1, 3), abs(r.rat()) + 1])
            rows.append((sense, rhs, rv))
        text = "NAME t\nROWS\n N obj\n" + "".join(" %s r%d\n" % (s_, i) for i, (s_, _, _) in enumerate(rows))
        text += "COLUMNS\n" + "".join("    x obj 1 r%d %d\n" % (i, i + 1) for i in range(m))
        text += "RHS\n" + "".join("    rhs r%d %s\n" % (i, q2s(rhs)) for i, (_, rhs, _) in enumerate(rows) if rhs != 0)
        if any(rv is not None for _, _, rv in rows):
            text += "RANGES\n" + "".join("    rng r%d %s\n" % (i, q2s(rv)) for i, (_, _, rv) in enumerate(rows) if rv is not None)
        text += "ENDATA\n"
        jobs.append((rows, text))
    def work(job):
        rows, text = job
        return proto.run_harness(exe, ["putfile %s %s" % (hx("r.mps"), hx(text)), "read 0 MPS " + hx("r.mps"), "dumpapi 0",
                                       "write 0 MPS " + hx("w.mps"), "getfile " + hx("w.mps")], timeout=120)
    from concurrent.futures import ThreadPoolExecutor
    with ThreadPoolExecutor(build.NCPU) as ex:
        trs = list(ex.map(work, jobs))
    model = solvelib.Model(*proto.INF_LINE.split()[1:3])
    pend = []
    for (rows, text), tr in zip(jobs, trs):
        ctx = {"file": text}
        if tr.crashed and getattr(tr, "returncode", 0) != 3:
            rep.violation("library crashed reading / writing an MPS file with RANGES: " + tr.crashed[-300:], ctx, signature={"symptom": "crash", "at": "ranges"})
            continue
        if proto.get(tr[1][1], "read") != ["ok"]:
            rep.violation("the reader rejects a well-formed MPS file with a RANGES section", ctx, signature={"symptom": "read-rejects", "fmt": "MPS-ranges"})
            continue
        back = parse_dump(tr[2][1])
        if back is None:
            continue
        ks = [model.ask("mpsrange %s %s %s" % (s_, q2s(rhs), "-" if rv is None else q2s(rv))) for s_, rhs, rv in rows]
        pend.append((rows, text, back, ks, tr))
    model.run()
    for rows, text, back, ks, tr in pend:
        lp, cn, rn, flags = back
        ctx = {"file": text}
        ev.count("ranges|" + text)
        ev.cov["traces_validated_against_impl"] += 1
        for i, ((s_, rhs, rv), k) in enumerate(zip(rows, ks)):
            want = proto.get(model.ans(k), "row")
            idx = rn.index("r%d" % i) if ("r%d" % i) in rn else None
            ev.stat("ranges:%s %s" % (s_, "none" if rv is None else "zero" if rv == 0 else "neg" if rv < 0 else "pos"))
            if idx is None:
                rep.violation("row r%d is missing after reading the file" % i, ctx, signature={"symptom": "ranges-row-missing"})
                break
            got = [lp.rows[idx][0], q2s(lp.rows[idx][1]), q2s(lp.rows[idx][2]) if lp.rows[idx][0] == "R" else "0"]
            if got != want:
                rep.violation("a %s row with rhs %s and RANGES value %s is read as %s, the MPS meaning (Lean readRow) is %s" % (s_, q2s(rhs), "none" if rv is None else q2s(rv), got, want),
                              ctx, signature={"symptom": "ranges-read-differs", "sense": s_})
                break
        # writer side: every 'R' row of the read problem must go out as a G row with its range
        fb = proto.get(tr[4][1], "file") if len(tr) >= 5 else None
        if fb and fb[0] not in ("missing", "-"):
            wtxt = bytes.fromhex(fb[0]).decode("latin-1")
            rsec = wtxt.split("\nRANGES\n", 1)[1].split("\nBOUNDS\n")[0].split("\nENDATA")[0] if "\nRANGES\n" in wtxt else ""
            wr = {t.split()[1]: q2s(gen.s2q(t.split()[2])) for t in rsec.split("\n") if len(t.split()) >= 3}
            rowsec = wtxt.split("\nROWS\n", 1)[1].split("\nCOLUMNS\n")[0]
            ws = {t.split()[1]: t.split()[0] for t in rowsec.split("\n") if len(t.split()) == 2}
            for i, r_ in enumerate(lp.rows):
                nm = rn[i]
                exp_s, exp_r = ("G", q2s(r_[2])) if r_[0] == "R" else (r_[0], None)
                if ws.get(nm) != exp_s or wr.get(nm) != exp_r:
                    rep.violation("the MPS writer renders row %s (%s, range %s) as sense %s with RANGES %s; the modelled writer gives %s / %s" %
                                  (nm, r_[0], q2s(r_[2]), ws.get(nm), wr.get(nm), exp_s, exp_r), dict(ctx, written=wtxt[:2000]), signature={"symptom": "ranges-write-differs"})
                    break


def fmt_row(v):
    return "%s rhs=%s range=%s {%s}" % (v[0], q2s(v[1]), q2s(v[2]), ", ".join("%s:%s" % (k, q2s(a)) for k, a in sorted(v[3].items())))


def run(pid, tier, seed):
    ev = core.Evidence(pid, tier, seed, "proof")
    rep = core.Reporter(pid, seed, ev)
    quick = tier == "quick"
    rng = gen.Rng(seed)
    libdir = build.build()
    exe = build.build_harness(libdir)
    translate.generate(libdir)
    pr = core.prove(OBL[pid], thorough=not quick)
    ev.cov["obligations"], ev.cov["discharged"], ev.cov["axioms"] = pr["obligations"], pr["discharged"], pr["axioms"]
    solvelib.get_inf(exe)
    first = "LP" if pid == "C08" else "MPS"
    other = "MPS" if pid == "C08" else "LP"
    ext = {"LP": "lp", "MPS": "mps"}
    probs = [named_problem(rng.fork("p%d" % k)) for k in range(160 if quick else 3000)]
    probs += [named_problem(rng.fork("big%d" % k), big=True) for k in range(4 if quick else 60)]    # expressions long enough to wrap lines
    # long objectives with mixed signs (the writer looks ahead for the sign of the next term when it wraps a line), half of them
    # on problems built rows first (structmap is not the identity)
    nwrap = 6 if quick else 60
    wrap_from = len(probs)
    for k in range(nwrap):
        r = rng.fork("wrapobj%d" % k)
        lp, cn, rn = named_problem(r, big=True)
        for c in lp.cols:
            if r.chance(0.85):
                c[0] = F(r.choice([-1, 1]) * r.rint(1, 9), r.choice([1, 1, 3, 7]))
        probs.append((lp, cn, rn))
    jobs = []
    for k, (lp, cn, rn) in enumerate(probs):
        r = rng.fork("j%d" % k)
        comp = r.choice(["", "", ".gz", ".bz2"])
        f1 = "a%d.%s%s" % (k % 5, ext[first], comp)
        f2 = "b%d.%s" % (k % 5, ext[other])
        f3 = "c%d.%s" % (k % 5, ext[first])
        lines = build_lines(0, lp, cn, rn, rows_first=(None if k < wrap_from else k % 2 == 0)) + ["dumpapi 0",
                 "write 0 %s %s" % (first, hx(f1)), "read 1 %s %s" % (first, hx(f1)), "dumpapi 1",
                 # chain: first -> other -> first
                 "write 1 %s %s" % (other, hx(f2)), "read 2 %s %s" % (other, hx(f2)), "dumpapi 2",
                 "write 2 %s %s" % (first, hx(f3)), "read 3 %s %s" % (first, hx(f3)), "dumpapi 3",
                 # the other format directly, for "LP and MPS renderings agree"
                 "write 0 %s %s" % (other, hx("d%d.%s" % (k % 5, ext[other]))), "read 4 %s %s" % (other, hx("d%d.%s" % (k % 5, ext[other]))), "dumpapi 4",
                 ] + (["solve 0 exact primal none", "solve 1 exact primal none", "solve 4 exact primal none"] if len(lp.cols) <= 12 else []) + [
                 "getfile " + hx(f1 if not comp else f3),
                 # the plain text of both renderings of the original problem (bounds-section tie to the Lean codec)
                 "write 0 LP " + hx("o%d.lp" % (k % 5)), "getfile " + hx("o%d.lp" % (k % 5)), "write 0 MPS " + hx("o%d.mps" % (k % 5)), "getfile " + hx("o%d.mps" % (k % 5))]
        jobs.append((lp, cn, rn, lines, comp))
    def work(job):
        lp, cn, rn, lines, comp = job
        r = gen.Rng(gen.hash_str(lp.line()) & 0xffffffff)
        if not r.chance(0.4):
            return proto.run_harness(exe, lines, timeout=900)
        # integrality marks cannot be set through the API: write the problem as LP text, add an Integer section (and explicit
        # bounds for the integer columns, whose default would otherwise be binary), read that file, and start from there
        nb = lines.index("dumpapi 0")          # the build part of this job (rows first or columns first)
        t0 = proto.run_harness(exe, lines[:nb] + ["write 0 LP " + hx("i.lp"), "getfile " + hx("i.lp")], timeout=300)
        fb = proto.get(t0[-1][1], "file") if len(t0) == nb + 2 else None
        if not fb or fb[0] in ("missing", "-"):
            return proto.run_harness(exe, lines, timeout=900)
        text = bytes.fromhex(fb[0]).decode("latin-1")
        ints = [j for j in range(len(cn)) if r.chance(0.5)] or [0]
        extra = "".join(" 0 <= %s\n" % cn[j] for j in ints if lp.cols[j][1] == 0 and lp.cols[j][2] == INF)
        if "\nBounds\n" in text:
            text = text.replace("\nBounds\n", "\nBounds\n" + extra, 1)
        elif extra:
            text = text.replace("\nEnd", "\nBounds\n" + extra + "End", 1)
        text = text.replace("\nEnd", "\nInteger\n" + "".join(" %s\n" % cn[j] for j in ints) + "End", 1)
        # half of these problems get one more column through the API after they were read from the file (what a file reader attaches to
        # a problem - integrality marks, SOS membership - has to follow the columns)
        grow = ["addcol 0 %s 1 0 inf 1 0 1" % hx("zq_added")] if (lp.rows and "zq_added" not in cn and "zq_added" not in rn and r.chance(0.5)) else []
        l2 = ["putfile %s %s" % (hx("i2.lp"), hx(text)), "read 0 LP " + hx("i2.lp")] + grow + lines[nb:]
        tr = proto.run_harness(exe, l2, timeout=900)
        tr.int_cols = [cn[j] for j in ints]
        job[3][:] = l2
        return tr
    from concurrent.futures import ThreadPoolExecutor
    with ThreadPoolExecutor(build.NCPU) as ex:
        results = list(ex.map(work, jobs))
    bounds_jobs = []
    for (lp, cn, rn, lines, comp), tr in zip(jobs, results):
        key = lp.line() + "|" + "|".join(cn) + "|" + "|".join(rn)
        ev.count(key, nontrivial=True)
        ev.stat("compression:" + (comp or "plain"))
        ev.stat("ranged-rows", sum(1 for r in lp.rows if r[0] == "R"))
        ev.stat("integer-columns", len(getattr(tr, "int_cols", [])))
        blocks = {op: blk for op, blk in tr}
        ctx = {"lp": lp.line(), "colnames": cn, "rownames": rn, "ops": lines[-17:]}
        if tr.crashed and getattr(tr, "returncode", 0) != 3:      # exit 3 = the harness refused an op on an empty slot (a read failed before)
            at = lines[len(tr)] if len(tr) < len(lines) else "?"
            rep.violation("library crashed during write/read round trip at %r: %s" % (at[:60], tr.crashed[-400:]), dict(ctx, stderr=tr.stderr[-2000:], stderr_head=tr.stderr[max(0, tr.stderr.find("ERROR: AddressSanitizer")):][:2500], lines=lines),
                          signature={"symptom": "crash", "at": at.split(" ")[0] + " " + (at.split(" ")[2] if len(at.split(" ")) > 2 else "")})
            continue
        d = [blk for op, blk in tr if op.startswith("dumpapi")]
        d = d + [[]] * 5
        orig = parse_dump(d[0])
        reads = [(op, blk) for op, blk in tr if op.startswith("read")]
        writes = [(op, blk) for op, blk in tr if op.startswith("write")]
        text = ""
        gf = [blk for op, blk in tr if op.startswith("getfile")]
        if gf and proto.get(gf[0], "file") and proto.get(gf[0], "file")[0] not in ("missing", "-"):
            text = bytes.fromhex(proto.get(gf[0], "file")[0]).decode("latin-1")[:3000]
        steps = [("round trip %s" % first, 1, [first]), ("chain %s->%s" % (first, other), 2, [first, other]),
                 ("chain %s->%s->%s" % (first, other, first), 3, [first, other, first]), ("other format %s" % other, 4, [other])]
        ok_all = True
        for (what, idx, chain), (wop, wblk), (rop, rblk) in zip(steps, writes, reads):
            if proto.get(wblk, "write") != ["0"]:
                rep.violation("%s: the writer fails on a problem satisfying the precondition" % what, dict(ctx, step=wop), signature={"symptom": "write-fails", "fmt": chain[-1]})
                ok_all = False
                break
            if proto.get(rblk, "read") != ["ok"]:
                rep.violation("%s: the reader rejects the file the writer produced" % what, dict(ctx, step=rop, file=text), signature={"symptom": "read-rejects", "fmt": chain[-1]})
                ok_all = False
                break
            back = parse_dump(d[idx])
            if back is None:
                ok_all = False
                break
            diffs = compare(orig, back, chain)
            if diffs:
                rep.violation("%s does not give back the same problem: %s" % (what, "; ".join(diffs[:3])), dict(ctx, diffs=diffs, file=text),
                              signature={"symptom": "roundtrip-differs", "fmt": "->".join(chain), "kind": diffs[0].split(" ")[0]})
                ok_all = False
                break
        if ok_all and all(r[3] for r in lp.rows):       # a dropped empty row may have been an infeasible one: compare solves only without empty rows
            sv = [blk for op, blk in tr if op.startswith("solve")]
            res = [(proto.get(b, "rval"), proto.get(b, "status"), proto.get(b, "objval") if proto.get(b, "status") == ["1"] else None) for b in sv]
            # only definitive answers are statements about the problem (a limit or UNSOLVED on one rendering is C03's subject)
            definitive = [r for r in res if r[0] == ["0"] and r[1] in (["1"], ["2"], ["3"])]
            if len(set(map(str, definitive))) > 1 or len(set(str(r[0]) for r in res)) > 1:
                rep.violation("original, read-back and other-format problem solve differently: %s" % res, ctx, signature={"symptom": "solve-differs"})
        gfs = [(op, blk) for op, blk in tr if op.startswith("getfile")]
        if orig is not None and len(gfs) >= 3:
            olp, ocn, orn, oflags = orig
            cols = " ".join("%s %s %d" % (q2s(c[1]), q2s(c[2]), 1 if (j < len(oflags) and oflags[j] == "1") else 0) for j, c in enumerate(olp.cols))
            for fmt, (gop, gblk) in (("lp", gfs[1]), ("mps", gfs[2])):
                fb = proto.get(gblk, "file")
                if not fb or fb[0] in ("missing", "-") or not olp.cols:
                    continue
                ftxt = bytes.fromhex(fb[0]).decode("latin-1")
                bounds_jobs.append((fmt, ftxt, ocn, "bounds %s %d %s" % (fmt, len(olp.cols), cols), dict(ctx, file=ftxt[:3000])))
        if len(ev.cov["samples"]) < 3 and text:
            ev.sample({"file": text[:700]})
    if pid == "C09":
        ranges_tie(exe, rng.fork("ranges"), quick, ev, rep)
    # the Bounds / BOUNDS section the writers produced vs the Lean codec (whose round trip is proved)
    bm = solvelib.Model(*proto.INF_LINE.split()[1:3])
    bks = [bm.ask(j[3]) for j in bounds_jobs]
    if bounds_jobs:
        bm.run()
    for (fmt, ftxt, ocn, line, bctx), k in zip(bounds_jobs, bks):
        want = {}
        for key, v in bm.ans(k):
            if key == "c":
                j = int(v[0])
                rest = " ".join(v[1:])
                if rest and rest != "none":
                    want[ocn[j]] = rest
        got = parse_lp_bounds(ftxt, ocn) if fmt == "lp" else parse_mps_bounds(ftxt)
        ev.stat("bounds-sections-compared:" + fmt)
        ev.cov["traces_validated_against_impl"] += 1
        if got != want:
            dn = sorted(set(got) | set(want), key=str)
            dn = [n for n in dn if got.get(n) != want.get(n)]
            rep.violation("the %s writer's bounds section differs from the modelled writer for column %r: file %r, model %r" % (fmt.upper(), dn[0], got.get(dn[0]), want.get(dn[0])),
                          bctx, signature={"symptom": "bounds-section-differs", "fmt": fmt})
    for thm, why in pr["failed"]:
        rep.violation("proof obligation no longer checks: %s (%s)" % (thm, why), {"theorem": thm, "why": why, "log": pr["log"][-2000:]},
                      signature={"symptom": "proof", "theorem": thm}, found_input=False)
    ev.cov["rule"] = ("named problems (names from a pool containing keyword-like, exponent-like, generated-name-like and punctuation-bearing names) with every sense "
                      "incl. ranges (range 0 too), every bound shape, negative rhs, rationals of all magnitudes, 1-7 columns (and 20-90 columns so that expressions "
                      "wrap), each column used somewhere, at least one non-empty row; written to plain/.gz/.bz2, read back, compared by name; chains through the "
                      "other format; exact solves compared. distinct = distinct named problems.")
    ev.assumptions += ["names that need repair by the writer (white space, leading digits) are not generated: the property matches by name",
                       "layout below the token level is not proved (C11 covers robustness)"]
    code = rep.finish()
    ev.write()
    return code
