"""C13: LU-based solves are exact.

proof:  Props.C13 — the contract of the solves as executable multiplication checks and what passing
        them means for every dimension and every column-replacement history: inverse rows determine
        and make unique every forward solve; a kernel certificate excludes inverse rows (a singular
        matrix cannot pass as solved); a zero spike entry makes the updated matrix singular, a
        non-zero one keeps it invertible (product-form update); tableau rows read `δ` on the basic
        columns and hold as equations on every solution of the rows.
tie:    (a) component level: mpq_ILLfactor / _ftran / _btran / _ftran_update / _update driven
            directly on structured sparse matrices with sequences of column replacements (forcing
            refactorization through the eta limit, singular replacements), every output multiplied
            back against the dense matrix kept by the checker (python, exact; for small dimensions
            the whole session is also replayed through the Lean checkers);
        (b) API level: QSget_binv_row / QSget_tableau_row / QSget_basis_order after primal / dual
            simplex runs and QSopt_pivotin_row / _col sequences, multiplied back against the LP.
"""
import itertools
from fractions import Fraction as F
from . import build, proto, core, gen, translate, solvelib, lpfam
from .gen import q2s, s2q, LP, INF, NINF
from .p_c12 import internal

OBL = [("Qsx.Props.C13", t) for t in ["Qsx.Props.C13.forward_solve_determined", "Qsx.Props.C13.forward_solve_unique",
                                      "Qsx.Props.C13.singular_not_invertible", "Qsx.Props.C13.zero_spike_singular",
                                      "Qsx.Props.C13.nonzero_spike_invertible", "Qsx.Props.C13.tableau_basic_entries",
                                      "Qsx.Props.C13.tableau_equation"]]
E_CODES = {"0": "ok", "8": "blowup", "9": "nospace", "10": "singular_row", "11": "singular_col"}


# ------------------------------------------------------------------ exact dense reference
def kernel_vector(cols, n):
    """non-zero v with B v = 0, or None when the n x n matrix (list of column dicts) is non-singular"""
    A = [[cols[k].get(i, F(0)) for k in range(n)] for i in range(n)]
    piv = []
    r = 0
    for c in range(n):
        p = next((i for i in range(r, n) if A[i][c] != 0), None)
        if p is None:
            continue
        A[r], A[p] = A[p], A[r]
        inv = 1 / A[r][c]
        A[r] = [v * inv for v in A[r]]
        for i in range(n):
            if i != r and A[i][c] != 0:
                f = A[i][c]
                A[i] = [a - f * b for a, b in zip(A[i], A[r])]
        piv.append(c)
        r += 1
    if r == n:
        return None
    free = next(c for c in range(n) if c not in piv)
    v = [F(0)] * n
    v[free] = F(1)
    for row, c in enumerate(piv):
        v[c] = -A[row][free]
    return v


def mul_cols(cols, n, x):
    out = [F(0)] * n
    for k in range(n):
        if x[k] != 0:
            for i, a in cols[k].items():
                out[i] += a * x[k]
    return out


def tmul_cols(cols, n, y):
    return [sum((a * y[i] for i, a in cols[k].items()), F(0)) for k in range(n)]


# ------------------------------------------------------------------ matrix families
def rnd_val(rng, kind):
    if kind == "int":
        v = rng.rint(-4, 4)
        return F(v if v else 1)
    if kind == "rat":
        return rng.rat()
    v = rng.rint(-3, 3)
    return F(v if v else 2, rng.choice([1, 1, 2, 3, 7]))


def gen_matrix(rng, n):
    """(kind, columns as dicts)"""
    kind = rng.choice(["nucleus", "nucleus", "identity-perm", "triangular", "dense-block", "singletons", "near-singular", "singular-dupcol", "singular-zerocol",
                       "singular-deprow", "sparse", "sparse", "arrow", "dense"])
    vk = rng.choice(["int", "int", "mix", "rat"])
    cols = [dict() for _ in range(n)]
    pr, pc = rng.shuffle(list(range(n))), rng.shuffle(list(range(n)))
    def put(i, k, v):
        if v != 0:
            cols[pc[k]][pr[i]] = v
    if kind == "nucleus":
        # small-integer nucleus (exact cancellations during elimination) plus row singletons whose columns
        # are not singletons: those columns are pivoted last and carry entries through the nucleus rows
        k = rng.rint(min(2, n), max(min(2, n), n - 1))
        for i in range(k):
            for j in range(n):
                if rng.chance(0.6):
                    put(i, j, F(rng.choice([1, 1, 2, 3, -1])))
        for i in range(k, n):
            put(i, i, F(1))
    elif kind == "identity-perm":
        for i in range(n):
            put(i, i, rnd_val(rng, vk))
    elif kind == "triangular":
        for i in range(n):
            put(i, i, rnd_val(rng, vk))
            for k in range(i):
                if rng.chance(0.3):
                    put(i, k, rnd_val(rng, vk))
    elif kind == "dense-block":
        b = rng.rint(1, max(1, min(n, 8)))
        for i in range(n):
            put(i, i, rnd_val(rng, vk))
        for i in range(b):
            for k in range(b):
                if i != k:
                    put(i, k, rnd_val(rng, vk))
    elif kind == "singletons":
        for i in range(n):
            put(i, i, rnd_val(rng, vk))
        for _ in range(max(1, n // 3)):
            put(rng.below(n), rng.below(n), rnd_val(rng, vk))
    elif kind in ("sparse", "near-singular", "singular-dupcol", "singular-zerocol", "singular-deprow", "dense"):
        dens = 0.9 if kind == "dense" else rng.choice([0.15, 0.3, 0.5])
        for i in range(n):
            put(i, i, rnd_val(rng, vk))
            for k in range(n):
                if k != i and rng.chance(dens):
                    put(i, k, rnd_val(rng, vk))
    elif kind == "arrow":
        for i in range(n):
            put(i, i, rnd_val(rng, vk))
            put(i, 0, rnd_val(rng, vk))
            put(0, i, rnd_val(rng, vk))
    if n >= 2:
        a, b = rng.below(n), rng.below(n)
        if a != b:
            if kind == "singular-dupcol":
                cols[a] = {i: v * 3 for i, v in cols[b].items()}
            elif kind == "singular-zerocol":
                cols[a] = {}
            elif kind in ("singular-deprow", "near-singular"):
                # row a := row b + row c (+ a tiny perturbation for near-singular)
                c = rng.below(n)
                for k in range(n):
                    v = cols[k].get(b, F(0)) + (cols[k].get(c, F(0)) if c != b else 0)
                    if v != 0:
                        cols[k][a] = v
                    else:
                        cols[k].pop(a, None)
                if kind == "near-singular":
                    k = rng.below(n)
                    cols[k][a] = cols[k].get(a, F(0)) + F(1, 2 ** rng.choice([20, 60, 200]))
                    if cols[k][a] == 0:
                        del cols[k][a]
    return kind, cols


def gen_pool(rng, cols, n, extra):
    """replacement columns: units, random sparse, copies / combinations of basis columns"""
    out = []
    for _ in range(extra):
        k = rng.choice(["unit", "sparse", "sparse", "copy", "combo", "dense", "zero"] if rng.chance(0.5) else ["unit", "sparse", "sparse", "dense", "combo"])
        if k == "unit":
            out.append({rng.below(n): rnd_val(rng, "int")})
        elif k == "sparse":
            out.append({rng.below(n): rnd_val(rng, "mix") for _ in range(rng.rint(1, max(1, min(n, 4))))})
        elif k == "dense":
            out.append({i: rnd_val(rng, "int") for i in range(n) if rng.chance(0.8)} or {0: F(1)})
        elif k == "copy":
            out.append(dict(cols[rng.below(n)]))
        elif k == "zero":
            out.append({})
        else:
            a, b = cols[rng.below(n)], cols[rng.below(n)]
            c = dict(a)
            for i, v in b.items():
                c[i] = c.get(i, F(0)) + 2 * v
            out.append({i: v for i, v in c.items() if v != 0})
    return out


def svec(rng, n):
    k = rng.rint(0, min(n, 4)) if rng.chance(0.8) else n
    idx = rng.shuffle(list(range(n)))[:k]
    return {i: rnd_val(rng, "mix") for i in idx}


def sv_line(d):
    return "%d %s" % (len(d), " ".join("%d %s" % (i, q2s(v)) for i, v in d.items())) if d else "0"


def gen_bump_session(rng):
    """more than 20 rows, identity plus a small integer bump (exact cancellations in the L stage), sparse right-hand
    sides: the sparse ftran / btran stages and the sparse update path, every row and column of the inverse before and
    after a run of column replacements without refactorization"""
    n = rng.choice([30, 45, 45, 64, 90, 120]) + rng.rint(-3, 3)     # sparse mode needs fewer than 0.05 n non-zeros in the work vector
    b = rng.rint(4, 8)
    pr, pc = rng.shuffle(list(range(n))), rng.shuffle(list(range(n)))
    cols = [dict() for _ in range(n)]
    for i in range(n):
        cols[pc[i]][pr[i]] = F(rng.choice([1, 1, 1, 2, -1]))
    for i in range(b):
        for k in range(b):
            if i != k and rng.chance(0.7):
                cols[pc[k]][pr[i]] = F(rng.choice([1, 1, 2, 3, -1, -2]))
    # a few entries outside the bump (short rows / columns through the identity part)
    if rng.chance(0.5):
        for _ in range(rng.rint(1, max(1, n // 10))):
            cols[pc[rng.below(n)]][pr[rng.below(n)]] = F(rng.choice([1, -1, 2]))
    extra = []
    hot_rows = [pr[i] for i in range(min(n, b + 4))]
    for _ in range(rng.rint(8, 20)):
        k = rng.rint(1, 4)
        src = hot_rows if rng.chance(0.7) else list(range(n))      # replacement columns that meet the bump rows
        extra.append({i: F(rng.choice([1, 1, 2, -1, 3])) for i in rng.shuffle(list(src))[:k]})
    hot_pos = [pc[i] for i in range(min(n, b + 2))]
    pool = cols + extra
    sweep = [("b", {i: F(1)}) for i in range(n)] + [("f", {i: F(1)}) for i in rng.shuffle(list(range(n)))[:8]]
    ops = list(sweep)
    for _ in range(rng.rint(6, 24)):
        ops.append(("u", rng.choice(hot_pos) if rng.chance(0.7) else rng.below(n), n + rng.below(len(extra))))
        if rng.chance(0.3):
            ops.append(("b", svec(rng, n)))
    ops += [("b", {i: F(1)}) for i in range(n)] + [("f", svec(rng, n))]
    par = [-1, -1, -1, -1]
    lines = ["fnew %d %d %s %s %s" % (n, len(pool), " ".join(sv_line(c) for c in pool), " ".join(str(k) for k in range(n)),
                                      " ".join(str(p) for p in par))]
    for op in ops:
        lines.append("fupd %d %d" % (op[1], op[2]) if op[0] == "u" else ("fftran " if op[0] == "f" else "fbtran ") + sv_line(op[1]))
    return {"n": n, "kind": "bump", "pool": pool, "ops": ops, "lines": lines, "par": par}


def gen_sparse_update_session(rng):
    """30-60 rows, about three small integers per column, forty column replacements without refactorization (the default
    eta limit is 100): the sparse-elimination branch of the update with its row / column cross references; rows of the
    inverse are read after every replacement and all of them at the end"""
    n = rng.rint(28, 60)
    cols = []
    for k in range(n):
        c = {k: F(rng.choice([1, 2, 3, -1, -2]))}
        for i in rng.shuffle(list(range(n)))[:rng.rint(1, 3)]:
            c.setdefault(i, F(rng.choice([1, 2, 3, -1, -2, -3])))
        cols.append(c)
    extra = [{i: F(rng.choice([1, 2, 3, -1, -2, -3])) for i in rng.shuffle(list(range(n)))[:3]} for _ in range(40)]
    pool = cols + extra
    ops = [("b", {i: F(1)}) for i in rng.shuffle(list(range(n)))[:6]]
    used = []
    for k in range(40):
        # the same basis position is replaced again and again (row etas of one pivot row pile up) as often as a new one
        pos = rng.choice(used) if used and rng.chance(0.5) else rng.below(n)
        used.append(pos)
        ops.append(("u", pos, n + k))
        ops += [("b", {i: F(1)}) for i in [pos] + rng.shuffle(list(range(n)))[:4]]
        ops += [("f", {i: F(1)}) for i in [pos] + rng.shuffle(list(range(n)))[:3]]
        if rng.chance(0.3):
            ops.append(("f", svec(rng, n)))
    ops += [("b", {i: F(1)}) for i in range(n)]
    ops += [("f", {i: F(1)}) for i in range(n)]
    par = [-1, -1, -1, -1]
    lines = ["fnew %d %d %s %s %s" % (n, len(pool), " ".join(sv_line(c) for c in pool), " ".join(str(k) for k in range(n)),
                                      " ".join(str(p) for p in par))]
    for op in ops:
        lines.append("fupd %d %d" % (op[1], op[2]) if op[0] == "u" else ("fftran " if op[0] == "f" else "fbtran ") + sv_line(op[1]))
    return {"n": n, "kind": "sparse-updates", "pool": pool, "ops": ops, "lines": lines, "par": par}


def gen_session(rng, quick):
    if rng.chance(0.08):
        return gen_bump_session(rng)
    if rng.chance(0.03):
        return gen_sparse_update_session(rng)
    n = rng.wchoice([(1, 1), (2, 3), (3, 3), (4, 3), (6, 3), (10, 3), (18, 2), (30, 1 if quick else 2), (60, 0 if quick else 1), (130, 0)]) if not (not quick and rng.chance(0.004)) else 130
    n = max(1, n + rng.rint(-1, 1)) if n > 3 else n
    kind, cols = gen_matrix(rng, n)
    extra = gen_pool(rng, cols, n, rng.rint(2, 12))
    pool = cols + extra
    etamax = rng.choice([-1, -1, 1, 2, 3, 5])
    par = [rng.choice([-1, -1, 1, 2]), etamax, rng.choice([-1, -1, 2, 5]), rng.choice([-1, -1, -1, 20])]
    nops = rng.rint(3, 14) if n <= 10 else rng.rint(3, 8)
    if rng.chance(0.15) and n <= 30:
        nops = 110 + rng.rint(0, 15)          # beyond the default eta limit of 100
    ops = []
    if n <= 12 and (kind == "nucleus" or rng.chance(0.3)):
        # the whole inverse, column by column and row by row
        ops += [("f", {i: F(1)}) for i in range(n)] + [("b", {i: F(1)}) for i in range(n)]
    for _ in range(nops):
        w = rng.wchoice([("f", 3), ("b", 3), ("u", 4 if nops < 50 else 12)])
        if w == "u":
            ops.append(("u", rng.below(n), n + rng.below(len(extra))))
        else:
            ops.append((w, svec(rng, n)))
    ops += [("f", svec(rng, n)), ("b", svec(rng, n))]
    lines = ["fnew %d %d %s %s %s" % (n, len(pool), " ".join(sv_line(c) for c in pool), " ".join(str(k) for k in range(n)),
                                      " ".join(str(p) for p in par))]
    for op in ops:
        lines.append("fupd %d %d" % (op[1], op[2]) if op[0] == "u" else ("fftran " if op[0] == "f" else "fbtran ") + sv_line(op[1]))
    return {"n": n, "kind": kind, "pool": pool, "ops": ops, "lines": lines, "par": par}


def dense(d, n):
    return [d.get(i, F(0)) for i in range(n)]


def check_session(sess, tr, rep, ev, lean_lines):
    n, pool, ops = sess["n"], sess["pool"], sess["ops"]
    ctx = {"lines": sess["lines"], "kind": sess["kind"], "n": n}
    cur = [dict(c) for c in pool[:n]]
    blk = tr[0][1]
    ev.stat("matrix:" + sess["kind"])
    ev.stat("dim:%s" % ("1-3" if n <= 3 else "4-10" if n <= 10 else "11-40" if n <= 40 else "41+"))
    small = n <= 8
    lean = ["linsess %d %s" % (n, " ".join(q2s(cur[k].get(i, F(0))) for i in range(n) for k in range(n)))] if small else None
    lops = []
    def fin():
        if lean is not None:
            lean_lines.append((" ".join(lean + [str(len(lops))] + [t for o in lops for t in o]), sess, len(lops)))
    kv = kernel_vector(cur, n)
    rc, nsing = proto.get(blk, "factor.rc", ["?"])[0], proto.get(blk, "factor.nsing", ["?"])[0]
    if rc != "0":
        rep.violation("ILLfactor fails with code %s on a %dx%d %s matrix" % (rc, n, n, sess["kind"]), ctx, signature={"symptom": "factor-rc", "level": "component"})
        return
    if kv is not None:
        ev.stat("factor:singular")
        if lean is not None:
            lops.append(["k"] + [q2s(v) for v in kv])
        fin()
        if nsing == "0":
            rep.violation("a singular %dx%d matrix (%s) is factored without a singularity report" % (n, n, sess["kind"]), ctx, signature={"symptom": "singular-missed", "level": "component"})
        return
    ev.stat("factor:nonsingular")
    if nsing != "0":
        rep.violation("a non-singular %dx%d matrix (%s) is reported singular (nsing=%s)" % (n, n, sess["kind"], nsing), ctx, signature={"symptom": "false-singular", "level": "component"})
        return
    nupd = 0
    for (op, b), o in zip(tr[1:], ops):
        if proto.get(b, "nofactor") is not None or any(k == "nofactor" for k, _ in b):
            break
        if proto.get(b, "x.malformed"):
            rep.violation("solve returns a malformed sparse vector (index out of range or repeated)", dict(ctx, op=op), signature={"symptom": "malformed", "level": "component"})
            return
        x = [s2q(t) for t in proto.get(b, "x")[1:]]
        ev.count("%s|%d|%s" % (sess["lines"][0][:200], nupd, op[:80]))
        if o[0] == "f":
            a = dense(o[1], n)
            ok = mul_cols(cur, n, x) == a
            ev.stat("solve:ftran after %s updates" % ("0" if nupd == 0 else "1-5" if nupd <= 5 else "6-50" if nupd <= 50 else "51+"))
            if lean is not None:
                lops.append(["f"] + [q2s(v) for v in a] + [q2s(v) for v in x])
            if not ok:
                rep.violation("ftran result does not satisfy B x = a after %d column replacements (%dx%d %s)" % (nupd, n, n, sess["kind"]), dict(ctx, op=op),
                              signature={"symptom": "ftran-wrong", "level": "component"})
                fin()
                return
        elif o[0] == "b":
            c = dense(o[1], n)
            ok = tmul_cols(cur, n, x) == c
            ev.stat("solve:btran after %s updates" % ("0" if nupd == 0 else "1-5" if nupd <= 5 else "6-50" if nupd <= 50 else "51+"))
            if lean is not None:
                lops.append(["b"] + [q2s(v) for v in c] + [q2s(v) for v in x])
            if not ok:
                rep.violation("btran result does not satisfy y^T B = c^T after %d column replacements (%dx%d %s)" % (nupd, n, n, sess["kind"]), dict(ctx, op=op),
                              signature={"symptom": "btran-wrong", "level": "component"})
                fin()
                return
        else:
            pos, col = o[1], o[2]
            a = dense(pool[col], n)
            if mul_cols(cur, n, x) != a:
                rep.violation("ftran_update result does not satisfy B x = a after %d column replacements" % nupd, dict(ctx, op=op),
                              signature={"symptom": "ftran-update-wrong", "level": "component"})
                fin()
                return
            if lean is not None:
                lops.append(["f"] + [q2s(v) for v in a] + [q2s(v) for v in x])
                lops.append(["u", str(pos)] + [q2s(v) for v in a])
            urc, refac = proto.get(b, "update.rc")[0], proto.get(b, "update.refactor")[0]
            rrc, rns = proto.get(b, "refactor.rc"), proto.get(b, "refactor.nsing")
            ev.stat("update:%s%s" % (E_CODES.get(urc, "rc" + urc), "" if rrc is None else "+refactor"))
            if urc not in E_CODES:
                rep.violation("ILLfactor_update fails with code %s" % urc, dict(ctx, op=op), signature={"symptom": "update-rc", "level": "component"})
                fin()
                return
            cur[pos] = dict(pool[col])
            nupd += 1
            if x[pos] == 0:
                ev.stat("update:singular replacement")
                v = list(x)
                v[pos] = F(-1)
                if lean is not None:
                    lops.append(["k"] + [q2s(t) for t in v])
                if rrc is None or rns == ["0"]:
                    rep.violation("a column replacement that makes the basis singular (spike entry 0) is accepted: update rc=%s refactor=%s nsing=%s" % (urc, refac, rns),
                                  dict(ctx, op=op), signature={"symptom": "singular-update-missed", "level": "component"})
                fin()
                return
            if rrc is not None and (rrc != ["0"] or rns != ["0"]):
                rep.violation("refactorization after a non-singular column replacement reports rc=%s nsing=%s" % (rrc, rns), dict(ctx, op=op),
                              signature={"symptom": "false-singular-update", "level": "component"})
                fin()
                return
    ev.stat("updates-per-session:%s" % ("0" if nupd == 0 else "1-5" if nupd <= 5 else "6-50" if nupd <= 50 else "51+"))
    fin()


# ------------------------------------------------------------------ API level
def api_jobs(rng, quick):
    lps = lpfam.mixed(rng.fork("mixed"), 60 if quick else 300)
    lps += [("random", gen.random_lp(rng, m=rng.rint(2, 9), n=rng.rint(2, 9), dens=0.6)) for _ in range(40 if quick else 200)]
    lps += [("wide", lpfam.wide_chain(rng, n)) for n in ([50] * 2 if quick else [50] * 10 + [100] * 4)]
    jobs = []
    # long pivot-in walks over a completely degenerate LP (min 0, A x <= 0, x >= 0: every basis is optimal), re-optimised
    # after a cache-invalidating edit: more than etamax (100) updates accumulate between refactorizations
    for w in range(4 if quick else 16):
        r = rng.fork("walk%d" % w)
        filling = w % 2 == 0
        # 'filling' walks: few rows, many columns (most pivot-ins are real basis changes), always re-optimised, so that no
        # refactorization intervenes before the eta limit is reached
        m, n = (r.rint(5, 7), r.rint(24, 32)) if filling else (r.rint(6, 10), r.rint(12, 18))
        rows = [["L", F(0), F(0), [(j, F(r.choice([1, 2, 3, -1, -2]))) for j in range(n) if r.chance(0.55)] or [(0, F(1))]] for _ in range(m)]
        lp = LP("min", [[F(0), F(0), INF] for _ in range(n)], rows)
        lines = ["new 0 " + lp.line(), "solve 0 primal"]
        for step in range(450 if filling else 260):
            lines.append("pivotin 0 c 1 %d" % r.below(n) if (filling or r.chance(0.85)) else "pivotin 0 r 1 %d" % r.below(m))
            if filling or r.chance(0.75):
                lines += ["chgobj 0 0 0", "solve 0 " + ("primal" if filling else r.choice(["primal", "dual"]))]
            lines += ["basisorder 0", "getbasis 0"]
            for i in r.shuffle(list(range(m)))[:(1 if filling else 2)]:
                lines += ["binvrow 0 %d" % i, "tabrow 0 %d" % i]
        jobs.append(("walk", lp, lines))
    for kind, lp in lps:
        if not lp.rows or not lp.cols:
            continue
        if not (all(c[1] == NINF or c[2] == INF or F(c[1]) <= F(c[2]) for c in lp.cols) and all(F(r[2]) >= 0 for r in lp.rows)):
            continue
        r = rng.fork("api" + lp.line())
        nc, nr = len(lp.cols), len(lp.rows)
        entry = r.choice(["primal", "dual"])
        lines = ["new 0 " + lp.line(), "setparam 0 0 %d" % r.choice([1, 2, 3, 4]), "setparam 0 2 %d" % r.choice([6, 7, 8, 9]), "solve 0 " + entry]
        def probes():
            rows = list(range(nr)) if nr <= 12 else r.shuffle(list(range(nr)))[:6]
            out = ["basisorder 0", "getbasis 0"]
            for i in rows:
                out += ["binvrow 0 %d" % i, "tabrow 0 %d" % i]
            return out
        lines += probes()
        for _ in range(r.rint(0, 4)):
            if r.chance(0.5):
                lines.append("pivotin 0 r %d %s" % (1, r.below(nr)))
            else:
                k = r.rint(1, min(2, nc))
                lines.append("pivotin 0 c %d %s" % (k, " ".join(str(j) for j in r.shuffle(list(range(nc)))[:k])))
            lines += probes()
        jobs.append((kind, lp, lines))
    return jobs


def check_api(kind, lp, lines, tr, rep, ev, lean_lines):
    ctx = {"lp": lp.line(), "lines": lines}
    cols, rhs = internal(lp)
    nc, nr = len(lp.cols), len(lp.rows)
    nall = nc + nr
    order = None
    npiv = 0
    failed = False
    ev.stat("api:lp")
    for op, b in tr:
        t = op.split()
        if t[0] == "solve":
            if proto.get(b, "rval") != ["0"] or proto.get(b, "status") != ["1"]:
                ev.stat("api:not-optimal")
                return
        elif t[0] == "pivotin":
            if proto.get(b, "rc") != ["0"]:
                ev.stat("api:pivotin-refused")
                failed = True      # QSget_basis is not refreshed by a pivot-in that reports an error; only order/rows are compared from here on
            npiv += 1
            order = None
        elif t[0] == "basisorder":
            if proto.get(b, "rc") != ["0"]:
                order = None
                continue
            order = [int(v) for v in proto.get(b, "order")[1:]]
            if sorted(set(order)) != sorted(order) or any(k < 0 or k >= nall for k in order):
                rep.violation("QSget_basis_order returns an invalid order %s (after %d pivot-ins)" % (order, npiv), dict(ctx, op=op), signature={"symptom": "order-invalid", "level": "api"})
                return
        elif t[0] == "getbasis" and order is not None and not failed:
            bs = proto.get(b, "basis")
            if bs and bs != ["none"]:
                st = ("" if bs[0] == "-" else bs[0]) + ("" if bs[1] == "-" else bs[1])
                if sorted(k for k, c in enumerate(st) if c == "1") != sorted(order):
                    rep.violation("QSget_basis_order %s names other columns than the basis statuses %s (after %d pivot-ins)" % (order, bs, npiv), dict(ctx, op=op),
                                  signature={"symptom": "order-vs-basis", "level": "api"})
                    return
        elif t[0] in ("binvrow", "tabrow") and order is not None:
            if proto.get(b, "rc") != ["0"]:
                continue
            i = int(t[2])
            row = [s2q(v) for v in proto.get(b, "row")[1:]]
            ev.count("%s|%s|%d" % (lp.line(), op, npiv))
            ev.stat("api:%s after %d pivot-ins" % (t[0], min(npiv, 4)))
            if t[0] == "binvrow":
                last = (i, row)
                got = [sum((a * row[l] for l, a in cols[order[k]][0].items()), F(0)) for k in range(nr)]
                if got != [F(1) if k == i else F(0) for k in range(nr)]:
                    rep.violation("binv row %d times the basis (order %s) is not e_%d after %d pivot-ins: %s" % (i, order, i, npiv, " ".join(q2s(v) for v in got)[:200]),
                                  dict(ctx, op=op), signature={"symptom": "binvrow-wrong", "level": "api"})
                    return
            else:
                # tableau row i = binv row i * [A | logicals]; the binv row is recomputed from the tableau's logical part
                # (logical column of row l has the single entry coef_l in row l)
                r = [row[nc + l] / cols[nc + l][0][l] for l in range(nr)]
                want = [sum((a * r[l] for l, a in cols[j][0].items()), F(0)) for j in range(nall)]
                basic_ok = all(row[order[k]] == (1 if k == i else 0) for k in range(nr))
                if want != row or not basic_ok:
                    rep.violation("tableau row %d is not (row %d of the basis inverse) * [A | logicals] / does not read delta on the basic columns (order %s, after %d pivot-ins)" %
                                  (i, i, order, npiv), dict(ctx, op=op), signature={"symptom": "tabrow-wrong", "level": "api"})
                    return
                if nr <= 6 and nall <= 14 and len(lean_lines) < 4000:
                    A = " ".join(q2s(cols[j][0].get(l, F(0))) for l in range(nr) for j in range(nall))
                    lean_lines.append(("tabcheck %d %d %s %s %d %s %s" % (nr, nall, A, " ".join(map(str, order)), i, " ".join(q2s(v) for v in r), " ".join(q2s(v) for v in row)),
                                       {"lines": lines, "lp": lp.line(), "op": op}, -1))


def run(pid, tier, seed):
    ev = core.Evidence(pid, tier, seed, "proof")
    rep = core.Reporter(pid, seed, ev)
    quick = tier == "quick"
    rng = gen.Rng(seed)
    libdir = build.build()
    exe = build.build_harness(libdir)
    translate.generate(libdir)
    pr = core.prove(OBL, thorough=not quick)
    ev.cov["obligations"], ev.cov["discharged"], ev.cov["axioms"] = pr["obligations"], pr["discharged"], pr["axioms"]
    pinf, ninf = solvelib.get_inf(exe)
    from concurrent.futures import ThreadPoolExecutor

    # ---------------- (a) component level
    sessions = []
    # exhaustive 2x2 over {-1,0,1,2} (thorough: also a slice of 3x3 over {-1,0,1}); each followed by solves and one replacement
    ex = [(2, e) for e in itertools.product((-1, 0, 1, 2), repeat=4)]
    ex3 = list(itertools.product((-1, 0, 1), repeat=9))
    ex += [(3, e) for k, e in enumerate(ex3) if k % (97 if quick else 3) == seed % (97 if quick else 3)]
    r0 = rng.fork("ex")
    for n, e in ex:
        cols = [{i: F(e[i * n + k]) for i in range(n) if e[i * n + k] != 0} for k in range(n)]
        pool = cols + [{0: F(1)}, {i: F(1) for i in range(n)}, dict(cols[0])]
        ops = [("f", {0: F(1)}), ("b", {n - 1: F(2), 0: F(1)}), ("u", r0.below(n), n + r0.below(3)), ("f", {i: F(i + 1) for i in range(n)}), ("b", {0: F(1)})]
        lines = ["fnew %d %d %s %s" % (n, len(pool), " ".join(sv_line(c) for c in pool), " ".join(str(k) for k in range(n)))]
        for op in ops:
            lines.append("fupd %d %d" % (op[1], op[2]) if op[0] == "u" else ("fftran " if op[0] == "f" else "fbtran ") + sv_line(op[1]))
        sessions.append({"n": n, "kind": "exhaustive %dx%d" % (n, n), "pool": pool, "ops": ops, "lines": lines, "par": []})
    r1 = rng.fork("sessions")
    for _ in range(500 if quick else 4000):
        sessions.append(gen_session(r1, quick))
    groups = core.chunks(sessions, build.NCPU * 4)
    def work(group):
        out = []
        for s in group:
            out.append(proto.run_harness(exe, s["lines"], timeout=600))
        return out
    with ThreadPoolExecutor(build.NCPU) as exr:
        trs = [t for g in exr.map(work, groups) for t in g]
    lean_lines = []
    for s, tr in zip(sessions, trs):
        if tr.crashed:
            rep.violation("the factorization code crashed (%dx%d %s): %s" % (s["n"], s["n"], s["kind"], tr.crashed[-300:]), {"lines": s["lines"], "stderr": tr.stderr[-1500:]},
                          signature={"symptom": "crash", "level": "component"})
            continue
        check_session(s, tr, rep, ev, lean_lines)

    # ---------------- (b) API level
    jobs = api_jobs(rng.fork("api"), quick)
    with ThreadPoolExecutor(build.NCPU) as exr:
        atr = list(exr.map(lambda j: proto.run_harness(exe, j[2], timeout=600), jobs))
    for (kind, lp, lines), tr in zip(jobs, atr):
        if tr.crashed:
            rep.violation("library crashed in a basis-inverse / tableau / pivot-in call: " + tr.crashed[-300:], {"lp": lp.line(), "lines": lines, "stderr": tr.stderr[-1500:]},
                          signature={"symptom": "crash", "level": "api"})
            continue
        check_api(kind, lp, lines, tr, rep, ev, lean_lines)

    # ---------------- the same checks through the Lean checkers
    model = solvelib.Model(pinf, ninf)
    ks = [model.ask(l) for l, _, _ in lean_lines]
    model.run()
    for (l, info, nops), k in zip(lean_lines, ks):
        ans = model.ans(k)
        ev.cov["traces_validated_against_impl"] += 1
        bad = [e for e in ans if (e[1] and e[1][0] != "1")] or ([("bad-op", [])] if any(e[0] == "bad-op" for e in ans) else [])
        if bad:
            ctx = {"lines": info["lines"], "model_line": l[:4000], "model_answer": [[e[0]] + list(e[1]) for e in ans]}
            rep.violation("the Lean checker rejects an output that the reference multiplication accepted, or a singularity certificate: %s" % (bad[:3],), ctx,
                          signature={"symptom": "lean-checker-disagrees"})

    if pr["failed"]:
        for thm, why in pr["failed"]:
            rep.violation("proof obligation %s no longer checks: %s" % (thm, why), {"theorem": thm, "why": why, "log": pr["log"][-3000:]},
                          signature={"theorem": thm}, found_input=False)
    ev.cov["rule"] = ("component: every ftran/btran/ftran_update output multiplied back against the dense matrix after the replacement history; singular <=> reported singular "
                      "(initial factor: kernel vector; replacement: spike entry 0); API: binv rows * basis(order) = e_i, tableau row = binv row * [A|logicals], delta on basic columns, "
                      "order consistent with QSget_basis, after solves and pivot-in sequences; small cases replayed through the Lean checkers")
    ev.assumptions += ["simplex runs stopped by an iteration limit expose no basis inverse through the API (no cache): only optimal runs and pivot-in sequences are observed at API level",
                       "E_UPDATE_NOSPACE / blow-up paths are reached only if the generated histories trigger them (reported in the distribution)"]
    ev.write()
    return rep.finish()
