"""Running the C harness and the Lean model driver over the line protocol."""
import os, subprocess, sys, tempfile, shutil, time, fcntl
from . import build

VERIF = build.VERIF
LEAN_DIR = os.path.join(VERIF, "lean")
DRV = os.path.join(LEAN_DIR, ".lake", "build", "bin", "qsxdrv")


class Transcript(list):
    """list of (op_line, [(key, [tokens])...]) ; crashed = description or None"""
    crashed = None
    stderr = ""


def parse_blocks(text, ops):
    blocks = []
    cur = []
    for ln in text.split("\n"):
        if ln == ".":
            blocks.append(cur)
            cur = []
        elif ln:
            sp = ln.split(" ")
            cur.append((sp[0], sp[1:]))
    res = Transcript()
    for i, op in enumerate(ops):
        if i < len(blocks):
            res.append((op, blocks[i]))
    res.partial = cur
    return res


def scratch_dir():
    base = os.environ.get("QSX_TMP", "/var/tmp")
    return tempfile.mkdtemp(prefix="qsx.", dir=base)


def run_harness(exe, ops, timeout=600, cwd=None, env_extra=None):
    """ops: list of lines.  Returns Transcript; .crashed set when the process died early."""
    own = cwd is None
    if own:
        cwd = scratch_dir()
    env = dict(os.environ)
    env.setdefault("ASAN_OPTIONS", "detect_leaks=0:abort_on_error=0:allocator_may_return_null=1")
    env.setdefault("UBSAN_OPTIONS", "print_stacktrace=1")
    if env_extra:
        env.update(env_extra)
    try:
        try:
            r = subprocess.run(exe if isinstance(exe, list) else [exe], input="\n".join(ops) + "\n", capture_output=True, text=True, cwd=cwd,
                               env=env, timeout=timeout, errors="replace")
            out, err, rc = r.stdout, r.stderr, r.returncode
        except subprocess.TimeoutExpired as e:
            out = e.stdout.decode(errors="replace") if isinstance(e.stdout, bytes) else (e.stdout or "")
            err = "TIMEOUT"
            rc = -999
        t = parse_blocks(out, ops)
        t.stderr = err
        t.returncode = rc
        t.raw = out
        if len(t) < len(ops) or rc != 0:
            t.crashed = "harness exit %s after %d/%d ops; stderr tail: %s" % (rc, len(t), len(ops), err[-1500:])
        return t
    finally:
        if own:
            shutil.rmtree(cwd, ignore_errors=True)


INF_LINE = None


def run_model(lines, timeout=900):
    """when INF_LINE is set (the values of the two infinity encodings, obtained from the harness) it
    is sent first so that `inf`/`-inf` tokens mean the same on both sides"""
    pre = [INF_LINE] if INF_LINE and not (lines and lines[0].startswith("inf ")) else []
    r = subprocess.run([DRV], input="\n".join(pre + list(lines)) + "\n", capture_output=True, text=True, timeout=timeout)
    out = r.stdout
    if pre:
        out = out.split("\n.\n", 1)[1] if "\n.\n" in out else ""
    t = parse_blocks(out, lines)
    t.stderr = r.stderr
    t.returncode = r.returncode
    if len(t) < len(lines) or r.returncode != 0:
        t.crashed = "model driver exit %s after %d/%d lines: %s" % (r.returncode, len(t), len(lines), r.stderr[-1000:])
    return t


def get(block, key, default=None):
    for k, v in block:
        if k == key:
            return v
    return default


def get_all(block, key):
    return [v for k, v in block if k == key]


def lake_build(quiet=True):
    """(ok, log).  Serialised with a lock: several checks may run at once."""
    os.makedirs(os.path.join(LEAN_DIR, ".lake"), exist_ok=True)
    with open(os.path.join(LEAN_DIR, ".lake", ".qsx-lock"), "w") as lk:
        fcntl.flock(lk, fcntl.LOCK_EX)
        r = subprocess.run(["lake", "build"], cwd=LEAN_DIR, capture_output=True, text=True)
        return r.returncode == 0, r.stdout + r.stderr
