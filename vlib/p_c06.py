"""C06: query functions reflect exactly the edits made (model conformance).

proof:  Props.C06 (refinement of the column store to the reference model, staged)
tie:    (a) after every operation of generated histories the whole problem seen through the query
            API (counts, nzcount, coefficients row-wise, rhs, sense, range, objective, bounds,
            objective sense, names, name->index lookups, single coefficients) is compared with the
            Lean reference model Spec;
        (b) the raw arrays of the column store are compared with the Lean Store model (when built).
"""
from fractions import Fraction as F
from . import build, proto, core, gen, translate, solvelib, lpfam, hist, histrun

OBL = [("Qsx.Props.C06", t) for t in ["Qsx.Props.C06.step_total", "Qsx.Props.C06.err_unchanged", "Qsx.Props.C06.symtab_history",
                                      "Qsx.Props.C06.symtab_lookup_history", "Qsx.Props.C06.symtab_getindex_after_reset"]]


STORE_W = {"addcol": 20, "newcol": 3, "addrow": 25, "addrrow": 8, "newrow": 3, "delrow": 3, "delrows": 3, "delsetrows": 2, "delcol": 3, "delcols": 3,
           "delsetcols": 2, "chgcoef": 25, "chgsense": 2, "chgobj": 1, "chgrhs": 1}
RAWF = ["matrows", "matcols", "matsize", "matfree", "matcolsize", "nstruct"]


def store_op(line):
    """the column-store operation a harness line performs (None: it does not touch the store's index arrays)"""
    t = line.split()
    c = t[0]
    if c in ("addrow", "addrrow", "newrow"):
        coef = "-1" if t[3] in ("G", "R") else "1"
        rest = t[5:] if c == "addrow" else t[6:] if c == "addrrow" else ["0"]
        return "ar %s %s" % (coef, " ".join(rest))
    if c in ("addcol", "newcol"):
        rest = t[6:] if c == "addcol" else ["0"]
        return "ac " + " ".join(rest)
    if c == "chgcoef":
        return "cc %s %s %s" % (t[2], t[3], t[4])
    if c in ("delrow", "delcol"):
        return "%s 1 %s" % ("dr" if c == "delrow" else "dc", t[2])
    if c in ("delrows", "delcols"):
        return "%s %s" % ("dr" if c == "delrows" else "dc", " ".join(t[2:]))
    if c in ("delsetrows", "delsetcols"):
        idx = [str(i) for i, f in enumerate(t[3:]) if f != "0"]
        if not idx:
            return None
        return "%s %d %s" % ("dr" if c == "delsetrows" else "dc", len(idx), " ".join(idx))
    return None


def raw_view(block):
    """the index arrays of a dumpraw block in the model's vocabulary"""
    v = proto.get(block, "raw")
    if not v:
        return None
    d = dict(x.split("=") for x in v)
    out = {"raw": [d[k] for k in RAWF]}
    for k in ("structmap", "rowmap", "matbeg", "matcnt", "matind"):
        out[k] = proto.get(block, k)
    return out


def store_tie(exe, rng, quick, ev, rep, pinf_ninf):
    """(b) raw arrays of the column store vs the Lean Store model, after every call"""
    jobs = []
    for k in range(40 if quick else 600):
        r = rng.fork("store%d" % k)
        if r.chance(0.3):
            lp = gen.random_lp(r, m=r.rint(1, 5), n=r.rint(1, 6), dens=0.7)
            start, m0 = "new 0 " + lp.line(), lp
        else:
            start, m0 = "create 0 min", None
        ops, kinds = histrun.gen_history(r, r.rint(5, 60), start_lp=m0, weights=STORE_W, probes=False, p_invalid=0.03)
        jobs.append((start, ops))
    for k in range(3 if quick else 30):
        # long, add-heavy: the store is rebuilt (matrix_addrow_end) and grown (matrix_addcol) many times
        r = rng.fork("storelong%d" % k)
        ops, kinds = histrun.gen_history(r, 300 if quick else 700, start_lp=None, weights=dict(STORE_W, addrow=40, addcol=30, chgcoef=40), probes=False)
        jobs.append(("create 0 min", ops))
    def work(job):
        start, ops = job
        lines = [start, "dumpraw 0"]
        for o in ops:
            lines += [o, "dumpraw 0"]
        return lines, proto.run_harness(exe, lines, timeout=900)
    from concurrent.futures import ThreadPoolExecutor
    with ThreadPoolExecutor(build.NCPU) as ex:
        res = list(ex.map(work, jobs))
    model = solvelib.Model(*pinf_ninf)
    pend = []
    for (start, ops), (lines, tr) in zip(jobs, res):
        ctx = {"start": start, "ops": ops[:200]}
        if tr.crashed:
            continue        # crashes are reported by tie (a)
        views = [raw_view(blk) for op, blk in tr if op.startswith("dumpraw")]
        rcs = [proto.get(blk, "rc") for op, blk in tr if not op.startswith("dumpraw")][1:]
        if any(v is None for v in views) or len(views) != len(ops) + 1:
            continue
        sops, expect = [], []
        for o, rc, before, after in zip(ops, rcs, views, views[1:]):
            so = store_op(o) if rc == ["0"] else None
            if so is None:
                if before != after:
                    rep.violation("a call that does not edit the matrix (or was rejected) changed the raw column store: %r" % o, dict(ctx, before=before, after=after),
                                  signature={"symptom": "store-changed-by-non-edit", "op": o.split()[0]})
                    break
                continue
            sops.append(so)
            expect.append((o, after))
        v0 = views[0]
        def arr(v):
            return " ".join(v) if v else "0"
        init = "%s %s %s %s %s %s" % (" ".join(v0["raw"]), arr(v0["matbeg"]), arr(v0["matcnt"]), arr(v0["matind"]), arr(v0["structmap"]), arr(v0["rowmap"]))
        if sops:
            pend.append((model.ask("store %s %d %s" % (init, len(sops), " ".join(sops))), expect, ctx))
    model.run()
    for k, expect, ctx in pend:
        ans = model.ans(k)
        if any(e[0] == "bad-op" for e in ans):
            raise RuntimeError("model driver rejected a store line")
        blocks, cur = [], None
        for e in ans:
            if e[0] == "raw":
                cur = []
                blocks.append(cur)
            if cur is not None:
                cur.append(e)
        ev.cov["traces_validated_against_impl"] += 1
        for i, (o, after) in enumerate(expect):
            blk = blocks[i] if i < len(blocks) else []
            acct = proto.get(blk, "acct")
            if acct:
                ev.stat("addrow-accounting:" + acct[0].split(":")[0])
                if acct[0].startswith("MISMATCH"):
                    rep.violation("the free-space accounting abstraction (StoreAcct) does not describe what the Store model did for %r" % o, ctx,
                                  signature={"symptom": "accounting-mismatch"}, found_input=True)
                    break
            got = {"raw": [x.split("=")[1] for x in proto.get(blk, "raw")]}
            for key in ("structmap", "rowmap", "matbeg", "matcnt", "matind"):
                got[key] = proto.get(blk, key)
            ev.count("store|" + o[:80] + str(after["raw"]))
            ev.stat("store-op:" + o.split()[0])
            w = proto.get(blk, "writes")
            if w and w[2] != "1":
                rep.violation("the Store model itself writes outside the array for %r (index %s of %s)" % (o, w[1], got["raw"][2]), ctx, signature={"symptom": "store-model-oob"})
                break
            if got != after:
                bad = [key for key in after if after[key] != got.get(key)]
                rep.violation("raw column store after %r differs from the Store model in %s: C %s, model %s" % (o, bad[0], " ".join(after[bad[0]] or [])[:200], " ".join(got.get(bad[0]) or [])[:200]),
                              dict(ctx, at=o, field=bad[0], correspondence="raw column store vs Qsx.Store (lean/Qsx/Model/Store.lean)"),
                              signature={"symptom": "store-differs", "op": o.split()[0], "field": bad[0]}, found_input=False)
                break


def run(pid, tier, seed):
    ev = core.Evidence(pid, tier, seed, "proof")
    rep = core.Reporter(pid, seed, ev)
    quick = tier == "quick"
    rng = gen.Rng(seed)
    libdir = build.build()
    exe = build.build_harness(libdir)
    translate.generate(libdir)
    pr = core.prove(OBL, thorough=not quick)
    ev.cov["obligations"], ev.cov["discharged"], ev.cov["axioms"] = pr["obligations"], pr["discharged"], pr["axioms"]
    solvelib.get_inf(exe)

    jobs = []    # (start line, ops, kinds, tag)
    seeds = [lp for _, lp in lpfam.mixed(rng.fork("seeds"), 12)]
    # short histories from several starting LPs (incl. the empty problem)
    for k in range(120 if quick else 1500):
        r = rng.fork("short%d" % k)
        lp = r.choice(seeds + [None, None])
        # every second history contains rejected calls: what follows them must still behave like the reference model
        ops, kinds = histrun.gen_history(r, r.rint(3, 14), start_lp=lp, p_invalid=0.08 if k % 2 else 0.0)
        jobs.append(("new 0 " + lp.line() if lp is not None else "create 0 " + r.choice(["min", "max"]), ops, kinds, "short"))
    # long histories that cross the growth thresholds (100 rows/cols, 1000 non-zeros)
    for k in range(3 if quick else 24):
        r = rng.fork("long%d" % k)
        ops, kinds = histrun.gen_history(r, 330 if quick else 600, start_lp=None, weights=histrun.GROW)
        jobs.append(("create 0 min", ops, kinds, "long"))
    # name-heavy histories (generated names clashing with explicit ones, deletes by name)
    W = dict(histrun.GROW); W.update({"delnamedrow": 12, "delnamedcol": 12, "delnamedrows": 6, "delnamedcols": 6, "chgcoef": 5})
    for k in range(30 if quick else 300):
        r = rng.fork("names%d" % k)
        ops, kinds = histrun.gen_history(r, r.rint(10, 40), start_lp=None, weights=W)
        jobs.append(("create 0 min", ops, kinds, "names"))

    def work(job):
        start, ops, kinds, tag = job
        lines = histrun.with_dumps(start, ops)
        # probes: single coefficients and name lookups at the end
        r = gen.Rng(hash(start + ops[-1]) & 0xffffffff)
        m = hist.Mirror()
        lines += ["getcoef 0 %d %d" % (r.below(6), r.below(6)) for _ in range(4)]
        ctr = proto.run_harness(exe, lines, timeout=600)
        return lines, ctr

    from concurrent.futures import ThreadPoolExecutor
    with ThreadPoolExecutor(build.NCPU) as ex:
        results = list(ex.map(work, jobs))
    # model: one process per job batch (state is per process: run each job's lines separately but in few processes)
    def model_work(chunk):
        out = []
        for lines, ctr in chunk:
            out.append(proto.run_model(lines))
        return out
    with ThreadPoolExecutor(build.NCPU) as ex:
        mres = sum(ex.map(model_work, core.chunks(results, build.NCPU)), [])
    for (start, ops, kinds, tag), (lines, ctr), mtr in zip(jobs, results, mres):
        ev.stat("history:" + tag)
        for kind, valid in kinds:
            ev.stat("op:" + kind)
        nontriv = sum(1 for _, v in kinds if v) >= 2
        ev.count(start + "|" + "|".join(ops), nontrivial=nontriv)
        ev.cov["traces_validated_against_impl"] += 1
        if mtr.crashed:
            rep.violation("model driver failed on a history: " + mtr.crashed, {"lines": lines[:50]}, signature={"symptom": "model-crash"}, found_input=False)
            continue
        div = histrun.first_divergence(ctr, mtr)
        if ctr.crashed and (div is None or div[0] >= len(ctr) - 1):
            at = len(ctr)
            rep.violation("library crashed during an edit history at op %r: %s" % (lines[at] if at < len(lines) else "?", ctr.crashed[-600:]),
                          {"start": start, "ops": ops, "crash_at_line": at, "line": lines[at] if at < len(lines) else None},
                          signature={"symptom": "crash", "op": (lines[at].split(" ")[0] if at < len(lines) else "?")})
            continue
        if div is None:
            if len(ev.cov["samples"]) < 3:
                ev.sample({"start": start[:200], "ops": ops[:6], "final": " ".join(proto.get(ctr[-5][1], "api") or [])[:300]})
            continue
        i, key, cv, mv = div
        # the op that caused it: the last non-dump line at or before i
        j = i
        while j > 0 and lines[j].split(" ")[0] in ("dumpapi", "colindex", "rowindex", "getcoef"):
            j -= 1
        opk = lines[j].split(" ")[0]

        def still(cand):
            l2 = histrun.with_dumps(start, cand)
            c2, m2 = histrun.run_pair(exe, l2)
            return (histrun.first_divergence(c2, m2) is not None) or bool(c2.crashed)
        upto = len([l for l in lines[1:i + 1] if l.split(" ")[0] != "dumpapi"])
        small = histrun.minimize(exe, start, ops[:upto], 0, still, budget=40 if quick else 120)
        rep.violation("query API differs from the reference model after %s: %s C=%s model=%s" % (opk, key, " ".join(cv or ["-"])[:300], " ".join(mv or ["-"])[:300]),
                      {"start": start, "ops_minimized": small, "first_divergence_line": lines[i], "after_op": lines[j], "key": key,
                       "c": cv, "model": mv}, signature={"symptom": "api-differs", "op": opk, "key": key})
    store_tie(exe, rng.fork("storetie"), quick, ev, rep, proto.INF_LINE.split()[1:3])
    # the symbol table driven directly vs Qsx.Symtab
    from . import symtie
    smodel = solvelib.Model(*proto.INF_LINE.split()[1:3])
    sym_compare = symtie.run(ev, rep, rng.fork("symtie"), exe, smodel, quick)
    smodel.run()
    sym_compare()
    for thm, why in pr["failed"]:
        rep.violation("proof obligation no longer checks: %s (%s)" % (thm, why), {"theorem": thm, "why": why, "log": pr["log"][-2000:]},
                      signature={"symptom": "proof", "theorem": thm}, found_input=False)
    ev.cov["rule"] = ("histories of edit calls (24 op kinds incl. list, set and named variants) from the empty problem and from seed LPs: short (3-14 ops), "
                      "long (330/600 ops, add-heavy so that 100 rows/cols and 1000 non-zeros are crossed) and name-heavy; after every op the full "
                      "query-API dump is compared with the Lean reference model. distinct = distinct histories; non-trivial = at least two successful edits.")
    ev.assumptions += ["duplicate column indices inside one added row / row indices inside one added column are not generated (their documented meaning is undefined)",
                       "name tables are modelled as finite maps; symtab.c hashing is not modelled"]
    code = rep.finish()
    ev.write()
    return code
