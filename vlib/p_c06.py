"""C06: query functions reflect exactly the edits made (model conformance).

proof:  Props.C06 (refinement of the column store to the reference model, staged)
tie:    (a) after every operation of generated histories the whole problem seen through the query
            API (counts, nzcount, coefficients row-wise, rhs, sense, range, objective, bounds,
            objective sense, names, name->index lookups, single coefficients) is compared with the
            Lean reference model Spec;
        (b) the raw arrays of the column store are compared with the Lean Store model (when built).
"""
from fractions import Fraction as F
from . import build, proto, core, gen, translate, solvelib, lpfam, hist, histrun

OBL = [("Qsx.Props.C06", t) for t in ["Qsx.Props.C06.step_total", "Qsx.Props.C06.err_unchanged"]]


def run(pid, tier, seed):
    ev = core.Evidence(pid, tier, seed, "proof")
    rep = core.Reporter(pid, seed, ev)
    quick = tier == "quick"
    rng = gen.Rng(seed)
    libdir = build.build()
    exe = build.build_harness(libdir)
    translate.generate(libdir)
    pr = core.prove(OBL, thorough=not quick)
    ev.cov["obligations"], ev.cov["discharged"], ev.cov["axioms"] = pr["obligations"], pr["discharged"], pr["axioms"]
    solvelib.get_inf(exe)

    jobs = []    # (start line, ops, kinds, tag)
    seeds = [lp for _, lp in lpfam.mixed(rng.fork("seeds"), 12)]
    # short histories from several starting LPs (incl. the empty problem)
    for k in range(120 if quick else 1500):
        r = rng.fork("short%d" % k)
        lp = r.choice(seeds + [None, None])
        ops, kinds = histrun.gen_history(r, r.rint(3, 14), start_lp=lp)
        jobs.append(("new 0 " + lp.line() if lp is not None else "create 0 " + r.choice(["min", "max"]), ops, kinds, "short"))
    # long histories that cross the growth thresholds (100 rows/cols, 1000 non-zeros)
    for k in range(3 if quick else 24):
        r = rng.fork("long%d" % k)
        ops, kinds = histrun.gen_history(r, 330 if quick else 600, start_lp=None, weights=histrun.GROW)
        jobs.append(("create 0 min", ops, kinds, "long"))
    # name-heavy histories (generated names clashing with explicit ones, deletes by name)
    W = dict(histrun.GROW); W.update({"delnamedrow": 12, "delnamedcol": 12, "delnamedrows": 6, "delnamedcols": 6, "chgcoef": 5})
    for k in range(30 if quick else 300):
        r = rng.fork("names%d" % k)
        ops, kinds = histrun.gen_history(r, r.rint(10, 40), start_lp=None, weights=W)
        jobs.append(("create 0 min", ops, kinds, "names"))

    def work(job):
        start, ops, kinds, tag = job
        lines = histrun.with_dumps(start, ops)
        # probes: single coefficients and name lookups at the end
        r = gen.Rng(hash(start + ops[-1]) & 0xffffffff)
        m = hist.Mirror()
        lines += ["getcoef 0 %d %d" % (r.below(6), r.below(6)) for _ in range(4)]
        ctr = proto.run_harness(exe, lines, timeout=600)
        return lines, ctr

    from concurrent.futures import ThreadPoolExecutor
    with ThreadPoolExecutor(build.NCPU) as ex:
        results = list(ex.map(work, jobs))
    # model: one process per job batch (state is per process: run each job's lines separately but in few processes)
    def model_work(chunk):
        out = []
        for lines, ctr in chunk:
            out.append(proto.run_model(lines))
        return out
    with ThreadPoolExecutor(build.NCPU) as ex:
        mres = sum(ex.map(model_work, core.chunks(results, build.NCPU)), [])
    for (start, ops, kinds, tag), (lines, ctr), mtr in zip(jobs, results, mres):
        ev.stat("history:" + tag)
        for kind, valid in kinds:
            ev.stat("op:" + kind)
        nontriv = sum(1 for _, v in kinds if v) >= 2
        ev.count(start + "|" + "|".join(ops), nontrivial=nontriv)
        ev.cov["traces_validated_against_impl"] += 1
        if mtr.crashed:
            rep.violation("model driver failed on a history: " + mtr.crashed, {"lines": lines[:50]}, signature={"symptom": "model-crash"}, found_input=False)
            continue
        div = histrun.first_divergence(ctr, mtr)
        if ctr.crashed and (div is None or div[0] >= len(ctr) - 1):
            at = len(ctr)
            rep.violation("library crashed during an edit history at op %r: %s" % (lines[at] if at < len(lines) else "?", ctr.crashed[-600:]),
                          {"start": start, "ops": ops, "crash_at_line": at, "line": lines[at] if at < len(lines) else None},
                          signature={"symptom": "crash", "op": (lines[at].split(" ")[0] if at < len(lines) else "?")})
            continue
        if div is None:
            if len(ev.cov["samples"]) < 3:
                ev.sample({"start": start[:200], "ops": ops[:6], "final": " ".join(proto.get(ctr[-5][1], "api") or [])[:300]})
            continue
        i, key, cv, mv = div
        # the op that caused it: the last non-dump line at or before i
        j = i
        while j > 0 and lines[j].split(" ")[0] in ("dumpapi", "colindex", "rowindex", "getcoef"):
            j -= 1
        opk = lines[j].split(" ")[0]

        def still(cand):
            l2 = histrun.with_dumps(start, cand)
            c2, m2 = histrun.run_pair(exe, l2)
            return (histrun.first_divergence(c2, m2) is not None) or bool(c2.crashed)
        upto = len([l for l in lines[1:i + 1] if l.split(" ")[0] != "dumpapi"])
        small = histrun.minimize(exe, start, ops[:upto], 0, still, budget=40 if quick else 120)
        rep.violation("query API differs from the reference model after %s: %s C=%s model=%s" % (opk, key, " ".join(cv or ["-"])[:300], " ".join(mv or ["-"])[:300]),
                      {"start": start, "ops_minimized": small, "first_divergence_line": lines[i], "after_op": lines[j], "key": key,
                       "c": cv, "model": mv}, signature={"symptom": "api-differs", "op": opk, "key": key})
    for thm, why in pr["failed"]:
        rep.violation("proof obligation no longer checks: %s (%s)" % (thm, why), {"theorem": thm, "why": why, "log": pr["log"][-2000:]},
                      signature={"symptom": "proof", "theorem": thm}, found_input=False)
    ev.cov["rule"] = ("histories of edit calls (24 op kinds incl. list, set and named variants) from the empty problem and from seed LPs: short (3-14 ops), "
                      "long (330/600 ops, add-heavy so that 100 rows/cols and 1000 non-zeros are crossed) and name-heavy; after every op the full "
                      "query-API dump is compared with the Lean reference model. distinct = distinct histories; non-trivial = at least two successful edits.")
    ev.assumptions += ["duplicate column indices inside one added row / row indices inside one added column are not generated (their documented meaning is undefined)",
                       "name tables are modelled as finite maps; symtab.c hashing is not modelled"]
    code = rep.finish()
    ev.write()
    return code
