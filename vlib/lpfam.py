"""LP families shared by several properties (DESIGN section 6)."""
from fractions import Fraction as F
from .gen import LP, INF, NINF, random_lp, Rng, BOUND_SHAPES


def margin(rng, k=None):
    """feasibility or optimality decided by 2^-k, far below double precision"""
    k = k if k is not None else rng.choice([30, 60, 80, 200, 400])
    eps = F(1, 2 ** k)
    kind = rng.choice(["infeas", "feas-point", "feas-thin", "opt-tilt", "infeas2", "eq-parallel", "eq-parallel", "eq-parallel-z"])
    if kind.startswith("eq-parallel"):
        # two parallel equality rows whose right-hand sides differ by less than the floating-point tolerances
        e2 = rng.choice([F(1, 10 ** 7), F(1, 2 ** 30), F(1, 10 ** 9), eps, F(3, 10 ** 8)])
        a, b = F(rng.rint(1, 3)), F(rng.rint(1, 3))
        rhs = F(rng.rint(1, 5))
        cols = [[F(1), F(0), INF], [F(2), F(0), INF]]
        r2 = [(0, a), (1, b)]
        if kind == "eq-parallel-z":
            cols.append([F(0), F(0), F(1)])
            r2 = r2 + [(2, F(1))]
        rows = [["E", rhs, F(0), [(0, a), (1, b)]], ["E", rhs + rng.choice([1, -1]) * e2, F(0), r2]]
        return LP(rng.choice(["max", "min"]), cols, rows)
    if kind == "infeas":          # x <= 1 , x >= 1 + eps
        return LP("min", [[F(1), NINF, INF]], [["L", F(1), F(0), [(0, F(1))]], ["G", 1 + eps, F(0), [(0, F(1))]]])
    if kind == "feas-point":      # x <= 1+eps , x >= 1+eps
        return LP(rng.choice(["min", "max"]), [[F(1), NINF, INF]],
                  [["L", 1 + eps, F(0), [(0, F(1))]], ["G", 1 + eps, F(0), [(0, F(1))]]])
    if kind == "feas-thin":       # x + y <= 2 , x + (1+eps) y >= 2  with y in [0,1]
        return LP("max", [[F(1), F(0), INF], [F(1), F(0), F(1)]],
                  [["L", F(2), F(0), [(0, F(1)), (1, F(1))]], ["G", F(2), F(0), [(0, F(1)), (1, 1 + eps)]]])
    if kind == "opt-tilt":        # objective almost parallel to a facet
        return LP("max", [[F(1), F(0), INF], [1 + eps, F(0), INF]],
                  [["L", F(4), F(0), [(0, F(1)), (1, F(1))]], ["L", F(3), F(0), [(0, F(1))]], ["L", F(3), F(0), [(1, F(1))]]])
    # x + y >= 2 + eps, x <= 1, y <= 1
    return LP("min", [[F(1), F(0), F(1)], [F(1), F(0), F(1)]], [["G", 2 + eps, F(0), [(0, F(1)), (1, F(1))]]])


def scale(rng, e=None):
    """coefficients 10^±e"""
    e = e if e is not None else rng.choice([8, 20, 40])
    big = F(10) ** e
    small = F(1) / big
    lp = random_lp(rng, m=rng.rint(2, 4), n=rng.rint(2, 4), shapes=["default", "box", "default"])
    for r in lp.rows:
        f = rng.choice([big, small, F(1)])
        r[1] = r[1] * f
        r[3] = [(j, a * f) for j, a in r[3]]
        if r[0] == "R":
            r[2] = r[2] * f
    for c in lp.cols:
        c[0] = c[0] * rng.choice([big, small, F(1)])
    return lp


def degenerate(rng):
    """many constraints through one vertex; cycling-prone"""
    n = rng.rint(2, 4)
    m = rng.rint(n + 1, n + 4)
    pt = [F(rng.rint(0, 3)) for _ in range(n)]
    rows = []
    for i in range(m):
        ent = [(j, F(rng.rint(-3, 3))) for j in range(n)]
        ent = [(j, a) for j, a in ent if a != 0] or [(0, F(1))]
        act = sum(a * pt[j] for j, a in ent)
        rows.append([rng.choice("LG"), act, F(0), ent])
    cols = [[F(rng.rint(-3, 3)), F(0), rng.choice([INF, F(5)])] for _ in range(n)]
    return LP(rng.choice(["min", "max"]), cols, rows)


def beale():
    """Beale's cycling example"""
    return LP("min", [[F(-3, 4), F(0), INF], [F(150), F(0), INF], [F(-1, 50), F(0), INF], [F(6), F(0), INF]],
              [["L", F(0), F(0), [(0, F(1, 4)), (1, F(-60)), (2, F(-1, 25)), (3, F(9))]],
               ["L", F(0), F(0), [(0, F(1, 2)), (1, F(-90)), (2, F(-1, 50)), (3, F(3))]],
               ["L", F(1), F(0), [(2, F(1))]]])


def klee_minty(n):
    cols = [[F(2) ** (n - 1 - j), F(0), INF] for j in range(n)]
    rows = []
    for i in range(n):
        ent = [(j, F(2) ** (i - j + 1)) for j in range(i)] + [(i, F(1))]
        rows.append(["L", F(5) ** (i + 1), F(0), ent])
    return LP("max", cols, rows)


def denom(rng):
    """awkward denominators (large primes)"""
    primes = [1000000007, 998244353, 2147483647, 6700417]
    lp = random_lp(rng, m=rng.rint(1, 4), n=rng.rint(1, 4))
    for r in lp.rows:
        r[3] = [(j, a + F(rng.rint(-3, 3), rng.choice(primes))) for j, a in r[3]]
        r[3] = [(j, a) for j, a in r[3] if a != 0]
        r[1] = r[1] + F(rng.rint(-3, 3), rng.choice(primes))
    return lp


def shape(rng):
    """every sense x bound-shape combination incl. empty rows/columns, free and fixed"""
    lp = random_lp(rng, m=rng.rint(1, 4), n=rng.rint(1, 4), shapes=BOUND_SHAPES)
    if rng.chance(0.3):
        lp.rows.append([rng.choice("LGER"), F(rng.rint(-2, 2)), F(1), []])   # empty row
    if rng.chance(0.3):
        from .gen import bounds_of
        lo, up = bounds_of(rng, rng.choice(BOUND_SHAPES))
        lp.cols.append([F(rng.rint(-2, 2)), lo, up])                         # empty column
    return lp


def sparse(rng, m, n, d=0.15):
    return random_lp(rng, m=m, n=n, dens=d)


def wide_chain(rng, n):
    """n columns (n a multiple of the partial-pricing group size is the interesting case), bounded and feasible:
    the objective sits on a few columns whose growth is limited through difference rows x_a - x_b <= c by other
    columns that only become attractive after an earlier pivot"""
    cols = [[F(0), F(0), INF] for _ in range(n)]
    rows = []
    heads = rng.shuffle(list(range(n)))[: rng.rint(1, 3)]
    used = set(heads)
    for h in heads:
        cols[h][0] = F(-rng.rint(1, 3))
        a = h
        for depth in range(rng.rint(1, 3)):
            b = rng.below(n)
            if b in used:
                continue
            used.add(b)
            rows.append(["L", F(rng.rint(0, 3)), F(0), [(a, F(1)), (b, F(-1))]])
            a = b
        if rng.chance(0.5):
            cols[a][2] = F(rng.rint(1, 9))
        else:
            rest = [j for j in range(n) if j not in heads]
            pick = sorted(set([a] + rng.shuffle(rest)[: rng.rint(3, 12)]))
            rows.append(["L", F(rng.rint(2, 12)), F(0), [(j, F(1)) for j in pick]])
    rest = [j for j in range(n) if j not in heads]
    rows.append(["L", F(rng.rint(5, 20)), F(0), [(j, F(1)) for j in rest]])
    return LP("min", cols, rows)


def tinycoef(rng):
    """feasible (or bounded) only through a coefficient far below the floating-point tolerances: the double and mpf
    simplex misjudge it, only the exact tests protect the answer"""
    eps = F(1, 10 ** rng.choice([12, 13, 15, 18]))
    kind = rng.choice(["feas", "feas", "feas-fixed", "bounded", "tinycost", "tinycost"])
    if kind == "tinycost":
        # min/max of (+-eps z + y): the free (or one-sided) z has a reduced cost below every floating-point dual
        # tolerance, so the floating-point simplex stops with z non-basic although it must move
        s = rng.choice([1, -1])
        zb = rng.choice([(NINF, INF), (NINF, INF), (NINF, F(0)), (F(0), INF)])
        cols = [[s * eps, zb[0], zb[1]], [F(1), F(0), F(10)]]
        rows = [["G", F(-rng.rint(2, 9)), F(0), [(0, F(1)), (1, F(1))]], ["L", F(rng.rint(2, 9)), F(0), [(0, F(1)), (1, F(-1))]]]
        return LP("min", cols, rows)
    if kind == "feas":
        # x <= 0 ; x + eps f >= 1/2 ; f + h <= 1/eps
        cols = [[F(rng.choice([0, 1, -1])), NINF, F(0)], [F(rng.choice([0, 1])), F(0), INF], [F(0), F(0), INF]]
        rows = [["G", F(1, 2), F(0), [(0, F(1)), (1, eps)]], ["L", 1 / eps, F(0), [(1, F(1)), (2, F(1))]]]
        return LP(rng.choice(["min", "max"]) if cols[0][0] == 0 and cols[1][0] == 0 else "min", cols, rows)
    if kind == "feas-fixed":
        # x <= 0 ; x + eps f + g >= 3/2 ; f + h <= 1/eps ; g fixed at 1
        cols = [[F(0), NINF, F(0)], [F(1), F(0), INF], [F(0), F(1), F(1)], [F(0), F(0), INF]]
        rows = [["G", F(3, 2), F(0), [(0, F(1)), (1, eps), (2, F(1))]], ["L", 1 / eps, F(0), [(1, F(1)), (3, F(1))]]]
        return LP("min", cols, rows)
    # max x  s.t. eps x <= 1, x >= 0   (bounded only through eps)
    return LP("max", [[F(1), F(0), INF], [F(rng.choice([0, 1])), F(0), F(5)]], [["L", F(1), F(0), [(0, eps)]], ["L", F(7), F(0), [(1, F(1))]]])


def mixed(rng, n_lps, small=True):
    """the default mixture"""
    out = []
    for k in range(n_lps):
        kind = rng.wchoice([("random", 40), ("shape", 20), ("degenerate", 10), ("margin", 8), ("scale", 7),
                            ("denom", 7), ("named", 3), ("sparse", 5)])
        if kind == "random":
            lp = random_lp(rng)
        elif kind == "shape":
            lp = shape(rng)
        elif kind == "degenerate":
            lp = degenerate(rng)
        elif kind == "margin":
            lp = margin(rng)
        elif kind == "scale":
            lp = scale(rng)
        elif kind == "denom":
            lp = denom(rng)
        elif kind == "named":
            lp = rng.choice([beale(), klee_minty(3), klee_minty(4)])
        else:
            lp = sparse(rng, rng.rint(5, 9), rng.rint(5, 9), 0.3)
        out.append((kind, lp))
    return out


def data_range(*lps):
    """(smallest, largest) absolute value among the non-zero finite data of the problems"""
    vals = []
    for lp in lps:
        vals += [c[0] for c in lp.cols] + [r[1] for r in lp.rows] + [r[2] for r in lp.rows] + [a for r in lp.rows for _, a in r[3]]
        vals += [v for c in lp.cols for v in c[1:3] if v not in (INF, NINF)]
    vals = [abs(F(v)) for v in vals if v != 0]
    return (min(vals), max(vals)) if vals else (F(1), F(1))


def wide_range(*lps):
    """data spanning 30 or more orders of magnitude (or lying outside 10^-30 .. 10^30): the floating-point stages work with
    absolute tolerances, so redundant rows at such different scales can look inconsistent at every precision of the ladder"""
    lo, hi = data_range(*lps)
    big = F(10) ** 30
    return hi >= lo * big or hi > big or lo * big < 1


def corpus(name):
    """minimised past failures, always replayed first: corpus/<name>/*.lp (one LP line per file)"""
    import os
    d = os.path.join(os.path.dirname(os.path.dirname(os.path.abspath(__file__))), "corpus", name)
    out = []
    if os.path.isdir(d):
        for f in sorted(os.listdir(d)):
            if f.endswith(".lp"):
                out.append(("corpus:" + f[:-3], LP.parse(open(os.path.join(d, f)).read().split())))
    return out
