"""Independent grammar-driven LP / MPS file generator (C10 file level, also used by C11).

A known rational problem is rendered as text with the lexical and layout freedoms the formats permit
(keyword spellings and case, literal forms of every number, omitted unit coefficients, repeated
terms, optional names, comments, blank lines, line breaks inside expressions, every spelling of the
senses, every bound form and the implicit-bound rules).  The real reader must deliver exactly the
known problem.  Nothing here shares code with the library or with the Lean models.
"""
from fractions import Fraction as F
from . import proto, gen, build
from .gen import q2s, INF, NINF, LP
from .hist import hx


def pow25(d):
    for p in (2, 5):
        while d % p == 0:
            d //= p
    return d == 1


def literal(rng, v, allow_sign=True):
    """a text spelling of the non-negative rational v (sign handled by the caller)"""
    v = F(v)
    assert v >= 0
    forms = []
    if v.denominator == 1:
        n = v.numerator
        forms += [str(n), str(n), "%d." % n, "%d.0" % n, "%d.000" % n, "0%d" % n]
        if n % 10 == 0 and n > 0:
            k = len(str(n)) - len(str(n).rstrip("0"))
            forms += ["%de%d" % (n // 10 ** k, k), "%dE+%d" % (n // 10 ** k, k)]
        forms += ["%d0e-1" % n, "%d/1" % n, "%d/%d" % (3 * n, 3)]
    elif pow25(v.denominator):
        # terminating decimal
        k = 0
        w = v
        while w.denominator != 1:
            w *= 10
            k += 1
        digits = str(w.numerator).rjust(k + 1, "0")
        dec = digits[:-k] + "." + digits[-k:]
        forms += [dec, dec + "0", dec.lstrip("0") if dec.startswith("0.") else dec, "%de-%d" % (w.numerator, k), "%dE-%d" % (w.numerator, k),
                  "%d/%d" % (v.numerator, v.denominator)]
    else:
        forms += ["%d/%d" % (v.numerator, v.denominator), "%d/%d" % (2 * v.numerator, 2 * v.denominator),
                  "%d.0/%d" % (v.numerator, v.denominator), "%de1/%d0" % (v.numerator, v.denominator)]
    return rng.choice(forms)


def term(rng, coef, name, first):
    """one signed term of a linear expression"""
    coef = F(coef)
    sign = "-" if coef < 0 else "+"
    a = abs(coef)
    if a == 1 and rng.chance(0.7):
        body = name
    else:
        lit = literal(rng, a)
        sep = " " if (name[0] in "eE" or "/" in lit or rng.chance(0.7)) else ""
        body = lit + sep + name
    if first and sign == "+" and rng.chance(0.7):
        return body
    return sign + rng.choice(["", " ", "  "]) + body


def expr(rng, ent, names):
    """linear expression; a coefficient may be split into repeated terms that add up"""
    parts = []
    for j, a in ent:
        a = F(a)
        if rng.chance(0.15) and a != 0:
            b = F(rng.rint(1, 3)) * (1 if a > 0 else -1)
            if a - b != 0:
                parts.append((a - b, names[j]))
                parts.append((b, names[j]))
                continue
        parts.append((a, names[j]))
    if rng.chance(0.3):
        parts = rng.shuffle(parts)
    out = []
    for k, (a, nm) in enumerate(parts):
        out.append(term(rng, a, nm, k == 0))
        if rng.chance(0.12):
            out.append(rng.choice(["\n   ", "\n", " \\ a comment in the middle\n  ", " \\ note: a colon, st and <= 3 in a comment\n  "]))
    return " ".join(out)


SENSES = {"L": ["<=", "=<", "<"], "G": [">=", "=>", ">"], "E": ["="]}


def signed(rng, v):
    v = F(v)
    if v < 0:
        return "-" + literal(rng, -v)        # right-hand sides and bound values: the sign is part of the number token
    return rng.choice(["", "", "+"]) + literal(rng, v)


OBJ_LABEL = [""]      # label chosen by the last render_lp call ("" = unnamed objective)


def render_lp(rng, lp, cn, rn, ints=()):
    """(text, expected) — expected = (sense, {col: (obj, lo, up, isint)}, [(name-or-None, sense, rhs, {col: coef})])"""
    kw = lambda *alts: rng.choice(alts)
    lines = []
    if rng.chance(0.3):
        lines.append(kw("Problem", "PROBLEM", "prob", "Prob") + rng.choice([" ", "\n "]) + "demo")
    if rng.chance(0.3):
        lines.append("\\ leading comment line")
    lines.append(kw("Minimize", "MINIMIZE", "min", "Min", "MINIMUM", "minimum") if lp.sense == "min" else kw("Maximize", "MAXIMIZE", "max", "Max", "MAXIMUM", "maximum"))
    objent = [(j, c[0]) for j, c in enumerate(lp.cols) if c[0] != 0]
    label = rng.choice(["obj: ", "cost: ", "", ""])
    if label.rstrip(": ") in rn:
        label = "z_obj: "                 # a label equal to a row name would be a genuinely repeated name
    OBJ_LABEL[0] = label
    lines.append(" " + label + (expr(rng, objent, cn) if objent else ""))
    lines.append(kw("Subject To", "SUBJECT TO", "subject to", "st", "ST", "St"))
    rows = []
    for i, r in enumerate(lp.rows):
        s, rhs, rg, ent = r
        if not ent:
            continue
        named = rng.chance(0.7)
        head = (" %s: " % rn[i]) if named else " "
        if s == "R":
            # a ranged row is written as its two halves
            lines.append(head + expr(rng, ent, cn) + " " + rng.choice(SENSES["G"]) + " " + signed(rng, rhs))
            lines.append(" " + expr(rng, ent, cn) + " " + rng.choice(SENSES["L"]) + " " + signed(rng, F(rhs) + F(rg)))
            rows.append((rn[i] if named else None, "G", F(rhs), ent))
            rows.append((None, "L", F(rhs) + F(rg), ent))
        else:
            lines.append(head + expr(rng, ent, cn) + " " + rng.choice(SENSES[s]) + " " + signed(rng, rhs) + rng.choice(["", "", "   \\ trailing comment", "  \\ ratio: 3/4 (comment with a colon)", " \\bounds: x >= 1"]))
            rows.append((rn[i] if named else None, s, F(rhs), ent))
        if rng.chance(0.1):
            lines.append("")
    # bounds
    blines = []
    cols = {}
    for j, c in enumerate(lp.cols):
        o, lo, up = c
        isint = j in ints
        nm = cn[j]
        if lo == 0 and up == INF:
            if isint:
                blines.append(" 0 <= %s" % nm)          # explicit lower: [0, +inf) instead of the binary default
            elif rng.chance(0.2):
                blines.append(rng.choice([" 0 <= %s" % nm, " %s <= inf" % nm, " 0 <= %s <= +inf" % nm, " 0.0 <= %s <= INF" % nm]))
        elif lo == NINF and up == INF:
            blines.append(rng.choice([" %s free" % nm, " %s FREE" % nm, " %s Free" % nm, " -inf <= %s" % nm, " -inf <= %s <= inf" % nm, " -INF <= %s <= +Inf" % nm]))
        elif lo != NINF and up != INF and F(lo) == F(up) == 0 and rng.chance(0.5):
            blines.append(" %s <= %s" % (nm, rng.choice(["0", "0.0", "-0", "0/5"])))      # implicit rule: a zero upper bound alone fixes the variable at 0
        elif lo != NINF and up != INF and F(lo) == F(up):
            blines.append(rng.choice([" %s = %s" % (nm, signed(rng, lo)), " %s <= %s <= %s" % (signed(rng, lo), nm, signed(rng, up))]))
        elif lo == NINF:
            u = F(up)
            if u < 0 and rng.chance(0.5):
                blines.append(" %s <= %s" % (nm, signed(rng, u)))      # implicit rule: a negative upper bound alone makes the lower bound -inf
            else:
                blines.append(rng.choice([" -inf <= %s <= %s" % (nm, signed(rng, u)), " -inf <= %s\n %s <= %s" % (nm, nm, signed(rng, u))]))
        elif up == INF:
            blines.append(rng.choice([" %s <= %s" % (signed(rng, lo), nm), " %s <= %s <= inf" % (signed(rng, lo), nm)]))
        else:
            l, u = F(lo), F(up)
            if l == 0 and u >= 0 and rng.chance(0.5):
                blines.append(" %s <= %s" % (nm, signed(rng, u)))      # implicit rule: lower stays 0 for an upper bound >= 0 (0 fixes the variable)
            else:
                blines.append(rng.choice([" %s <= %s <= %s" % (signed(rng, l), nm, signed(rng, u)), " %s <= %s\n %s <= %s" % (signed(rng, l), nm, nm, signed(rng, u))]))
        cols[nm] = (F(o), lo, up, isint)
    if blines:
        lines.append(kw("Bounds", "BOUNDS", "bounds", "Bound", "BOUND"))
        lines += rng.shuffle(blines)
    if ints:
        lines.append(kw("Integer", "INTEGER", "integer", "InTeGeR"))
        lines.append(" " + " ".join(cn[j] for j in ints))
    lines.append(kw("End", "END", "end"))
    text = "\n".join(lines) + "\n"
    if rng.chance(0.2):
        text = text.replace("\n", "\n\n", 2)
    return text, (lp.sense, cols, rows)


def compare_expected(expected, back, cn_of):
    """back = (lp, colnames, rownames, intflags) from the API dump"""
    sense, cols, rows = expected
    lp1, cn1, rn1, flags = back
    diffs = []
    if lp1.sense != sense:
        diffs.append("objective sense %s read as %s" % (sense, lp1.sense))
    got = {cn1[j]: (F(lp1.cols[j][0]), lp1.cols[j][1], lp1.cols[j][2], (flags[j] != "0") if j < len(flags) else False) for j in range(len(cn1))}
    for nm, v in cols.items():
        if nm not in got:
            diffs.append("column %s not delivered" % nm)
        else:
            g = got[nm]
            w = (v[0], v[1] if v[1] in (INF, NINF) else F(v[1]), v[2] if v[2] in (INF, NINF) else F(v[2]), v[3])
            g2 = (g[0], g[1] if g[1] in (INF, NINF) else F(g[1]), g[2] if g[2] in (INF, NINF) else F(g[2]), g[3])
            if w != g2:
                diffs.append("column %s (obj, lower, upper, integer) denotes %s but was read as %s" % (nm, [q2s(x) if not isinstance(x, bool) else x for x in w],
                                                                                                        [q2s(x) if not isinstance(x, bool) else x for x in g2]))
    for nm in got:
        if nm not in cols:
            diffs.append("unexpected column %s" % nm)
    # rows: order is preserved by the reader; compare as a sequence, names only where given
    exp_rows = rows
    if len(lp1.rows) != len(exp_rows):
        diffs.append("%d rows denoted, %d delivered" % (len(exp_rows), len(lp1.rows)))
    else:
        for i, (nm, s, rhs, ent) in enumerate(exp_rows):
            r = lp1.rows[i]
            want = {}
            for j, a in ent:
                want[cn_of[j]] = want.get(cn_of[j], F(0)) + F(a)
            have = {}
            for j, a in r[3]:
                have[cn1[j]] = have.get(cn1[j], F(0)) + F(a)
            want = {k: v for k, v in want.items()}
            if nm is not None and rn1[i] != nm:
                diffs.append("row %d is named %s in the text but %s after reading" % (i, nm, rn1[i]))
            if r[0] != s or F(r[1]) != rhs or have != want:
                diffs.append("row %d denotes %s %s {%s} but was read as %s %s {%s}" % (i, s, q2s(rhs), ", ".join("%s:%s" % (k, q2s(v)) for k, v in sorted(want.items())),
                                                                                     r[0], q2s(r[1]), ", ".join("%s:%s" % (k, q2s(v)) for k, v in sorted(have.items()))))
    return diffs


NOTE = {}


def run_c10(ev, rep, rng, exe, quick, pinf, ninf):
    from . import p_files
    jobs = []
    # fixed case (known finding KF-C10-default-objname-clash is reproduced on every run)
    fixed = "Minimize\n x\nSubject To\n obj: x >= 1\nEnd\n"
    NOTE[fixed] = "unnamed-objective-and-row-obj"
    jobs.append((fixed, ("min", {"x": (F(1), F(0), INF, False)}, [("obj", "G", F(1), [(0, F(1))])]), ["x"]))
    for k in range(250 if quick else 5000):
        r = rng.fork("f%d" % k)
        lp, cn, rn = p_files.named_problem(r)
        cn = [n for n in cn]
        # keep names the LP grammar cannot confuse with numbers / keywords inside expressions
        cn = [("v" + n if n[0] in "eE" and len(n) > 1 and n[1].isdigit() else n) for n in cn]
        cn = [n if n.lower() not in ("free", "inf", "st", "end", "min", "max", "bounds", "bound", "integer", "subject") else n + "_" for n in cn]
        if all(c[0] == 0 for c in lp.cols):
            lp.cols[0][0] = F(1)           # an objective without any term is not a valid LP-format objective
        ints = sorted(set(r.below(len(cn)) for _ in range(r.rint(0, 2)))) if r.chance(0.3) else []
        text, expected = render_lp(r, lp, cn, rn, ints)
        if OBJ_LABEL[0] == "" and any(row[0] == "obj" for row in expected[2]):
            NOTE[text] = "unnamed-objective-and-row-obj"
        jobs.append((text, expected, cn))
    batches = [jobs[i:i + 12] for i in range(0, len(jobs), 12)]

    def work(batch):
        lines = []
        for n, (text, expected, cn) in enumerate(batch):
            f = "g%d.lp" % n
            lines += ["putfile %s %s" % (hx(f), hx(text)), "read 0 LP " + hx(f), "dumpapi 0"]
        return proto.run_harness(exe, lines, timeout=600, env_extra={"QSX_LOGMSG": "1"})
    from concurrent.futures import ThreadPoolExecutor
    with ThreadPoolExecutor(build.NCPU) as ex:
        results = list(ex.map(work, batches))
    for batch, tr in zip(batches, results):
        for n, (text, expected, cn) in enumerate(batch):
            if 3 * n + 2 >= len(tr):
                if tr.crashed and getattr(tr, "returncode", 0) != 3:
                    rep.violation("reader crashed on a generated LP file: " + tr.crashed[-300:], {"file": text}, signature={"symptom": "file-crash"})
                break
            rb, db = tr[3 * n + 1][1], tr[3 * n + 2][1]
            ev.count("file|" + text, nontrivial=True)
            ev.stat("file:lp")
            if proto.get(rb, "read") != ["ok"]:
                msgs = [bytes.fromhex(v[0].replace("-", "")).decode("latin-1") for k, v in rb if k == "logmsg"]
                rep.violation("the LP reader rejects a syntactically valid generated file: %s" % " ".join(msgs)[:200], {"file": text, "messages": msgs[:12]},
                              signature={"symptom": "file-rejected", "cause": NOTE.get(text, "?")})
                if getattr(tr, "returncode", 0) == 3:
                    break
                continue
            from .p_files import parse_dump
            back = parse_dump(db)
            if back is None:
                continue
            diffs = compare_expected(expected, back, cn)
            if diffs:
                rep.violation("a generated LP file is not read as the problem its text denotes: " + "; ".join(diffs[:2]), {"file": text, "diffs": diffs},
                              signature={"symptom": "file-denotation", "kind": diffs[0].split(" ")[0]})
            if len(ev.cov["samples"]) < 7 and n == 0:
                ev.sample({"generated_file": text[:500]})
