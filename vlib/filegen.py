"""Independent grammar-driven LP / MPS file generator (C10 file level, also used by C11).

A known rational problem is rendered as text with the lexical and layout freedoms the formats permit
(keyword spellings and case, literal forms of every number, omitted unit coefficients, repeated
terms, optional names, comments, blank lines, line breaks inside expressions, every spelling of the
senses, every bound form and the implicit-bound rules).  The real reader must deliver exactly the
known problem.  Nothing here shares code with the library or with the Lean models.
"""
from fractions import Fraction as F
from . import proto, gen, build
from .gen import q2s, INF, NINF, LP
from .hist import hx


def pow25(d):
    for p in (2, 5):
        while d % p == 0:
            d //= p
    return d == 1


def literal(rng, v, allow_sign=True):
    """a text spelling of the non-negative rational v (sign handled by the caller)"""
    v = F(v)
    assert v >= 0
    forms = []
    if v.denominator == 1:
        n = v.numerator
        forms += [str(n), str(n), "%d." % n, "%d.0" % n, "%d.000" % n, "0%d" % n]
        if n % 10 == 0 and n > 0:
            k = len(str(n)) - len(str(n).rstrip("0"))
            forms += ["%de%d" % (n // 10 ** k, k), "%dE+%d" % (n // 10 ** k, k)]
        forms += ["%d0e-1" % n, "%d/1" % n, "%d/%d" % (3 * n, 3)]
    elif pow25(v.denominator):
        # terminating decimal
        k = 0
        w = v
        while w.denominator != 1:
            w *= 10
            k += 1
        digits = str(w.numerator).rjust(k + 1, "0")
        dec = digits[:-k] + "." + digits[-k:]
        forms += [dec, dec + "0", dec.lstrip("0") if dec.startswith("0.") else dec, "%de-%d" % (w.numerator, k), "%dE-%d" % (w.numerator, k),
                  "%d/%d" % (v.numerator, v.denominator)]
    else:
        forms += ["%d/%d" % (v.numerator, v.denominator), "%d/%d" % (2 * v.numerator, 2 * v.denominator),
                  "%d.0/%d" % (v.numerator, v.denominator), "%de1/%d0" % (v.numerator, v.denominator)]
    return rng.choice(forms)


def term(rng, coef, name, first):
    """one signed term of a linear expression"""
    coef = F(coef)
    sign = "-" if coef < 0 else "+"
    a = abs(coef)
    if a == 1 and rng.chance(0.7):
        body = name
    else:
        lit = literal(rng, a)
        sep = " " if (name[0] in "eE" or "/" in lit or rng.chance(0.7)) else ""
        body = lit + sep + name
    if first and sign == "+" and rng.chance(0.7):
        return body
    return sign + rng.choice(["", " ", "  "]) + body


def expr(rng, ent, names):
    """linear expression; a coefficient may be split into repeated terms that add up"""
    parts = []
    for j, a in ent:
        a = F(a)
        if rng.chance(0.15) and a != 0:
            b = F(rng.rint(1, 3)) * (1 if a > 0 else -1)
            if a - b != 0:
                parts.append((a - b, names[j]))
                parts.append((b, names[j]))
                continue
        parts.append((a, names[j]))
    if rng.chance(0.3):
        parts = rng.shuffle(parts)
    out = []
    for k, (a, nm) in enumerate(parts):
        out.append(term(rng, a, nm, k == 0))
        if rng.chance(0.12):
            out.append(rng.choice(["\n   ", "\n", " \\ a comment in the middle\n  ", " \\ note: a colon, st and <= 3 in a comment\n  "]))
    return " ".join(out)


SENSES = {"L": ["<=", "=<", "<"], "G": [">=", "=>", ">"], "E": ["="]}


def signed(rng, v):
    v = F(v)
    if v < 0:
        return "-" + literal(rng, -v)        # right-hand sides and bound values: the sign is part of the number token
    return rng.choice(["", "", "+"]) + literal(rng, v)


OBJ_LABEL = [""]      # label chosen by the last render_lp call ("" = unnamed objective)


def render_lp(rng, lp, cn, rn, ints=()):
    """(text, expected) — expected = (sense, {col: (obj, lo, up, isint)}, [(name-or-None, sense, rhs, {col: coef})])"""
    kw = lambda *alts: rng.choice(alts)
    lines = []
    if rng.chance(0.3):
        lines.append(kw("Problem", "PROBLEM", "prob", "Prob") + rng.choice([" ", "\n "]) + "demo")
    if rng.chance(0.3):
        lines.append("\\ leading comment line")
    lines.append(kw("Minimize", "MINIMIZE", "min", "Min", "MINIMUM", "minimum") if lp.sense == "min" else kw("Maximize", "MAXIMIZE", "max", "Max", "MAXIMUM", "maximum"))
    objent = [(j, c[0]) for j, c in enumerate(lp.cols) if c[0] != 0]
    label = rng.choice(["obj: ", "cost: ", "", ""])
    if label.rstrip(": ") in rn:
        label = "z_obj: "                 # a label equal to a row name would be a genuinely repeated name
    OBJ_LABEL[0] = label
    lines.append(" " + label + (expr(rng, objent, cn) if objent else ""))
    lines.append(kw("Subject To", "SUBJECT TO", "subject to", "st", "ST", "St"))
    rows = []
    for i, r in enumerate(lp.rows):
        s, rhs, rg, ent = r
        if not ent:
            continue
        named = rng.chance(0.7)
        head = (" %s: " % rn[i]) if named else " "
        if s == "R":
            # a ranged row is written as its two halves
            lines.append(head + expr(rng, ent, cn) + " " + rng.choice(SENSES["G"]) + " " + signed(rng, rhs))
            lines.append(" " + expr(rng, ent, cn) + " " + rng.choice(SENSES["L"]) + " " + signed(rng, F(rhs) + F(rg)))
            rows.append((rn[i] if named else None, "G", F(rhs), ent))
            rows.append((None, "L", F(rhs) + F(rg), ent))
        else:
            lines.append(head + expr(rng, ent, cn) + " " + rng.choice(SENSES[s]) + " " + signed(rng, rhs) + rng.choice(["", "", "   \\ trailing comment", "  \\ ratio: 3/4 (comment with a colon)", " \\bounds: x >= 1"]))
            rows.append((rn[i] if named else None, s, F(rhs), ent))
        if rng.chance(0.1):
            lines.append("")
    # bounds
    blines = []
    cols = {}
    for j, c in enumerate(lp.cols):
        o, lo, up = c
        isint = j in ints
        nm = cn[j]
        if lo == 0 and up == INF:
            if isint:
                blines.append(" 0 <= %s" % nm)          # explicit lower: [0, +inf) instead of the binary default
            elif rng.chance(0.2):
                blines.append(rng.choice([" 0 <= %s" % nm, " %s <= inf" % nm, " 0 <= %s <= +inf" % nm, " 0.0 <= %s <= INF" % nm]))
        elif lo == NINF and up == INF:
            blines.append(rng.choice([" %s free" % nm, " %s FREE" % nm, " %s Free" % nm, " -inf <= %s" % nm, " -inf <= %s <= inf" % nm, " -INF <= %s <= +Inf" % nm]))
        elif lo != NINF and up != INF and F(lo) == F(up) == 0 and rng.chance(0.5):
            blines.append(" %s <= %s" % (nm, rng.choice(["0", "0.0", "-0", "0/5"])))      # implicit rule: a zero upper bound alone fixes the variable at 0
        elif lo != NINF and up != INF and F(lo) == F(up):
            blines.append(rng.choice([" %s = %s" % (nm, signed(rng, lo)), " %s <= %s <= %s" % (signed(rng, lo), nm, signed(rng, up))]))
        elif lo == NINF:
            u = F(up)
            if u < 0 and rng.chance(0.5):
                blines.append(" %s <= %s" % (nm, signed(rng, u)))      # implicit rule: a negative upper bound alone makes the lower bound -inf
            else:
                blines.append(rng.choice([" -inf <= %s <= %s" % (nm, signed(rng, u)), " -inf <= %s\n %s <= %s" % (nm, nm, signed(rng, u))]))
        elif up == INF:
            blines.append(rng.choice([" %s <= %s" % (signed(rng, lo), nm), " %s <= %s <= inf" % (signed(rng, lo), nm)]))
        else:
            l, u = F(lo), F(up)
            if l == 0 and u >= 0 and rng.chance(0.5):
                blines.append(" %s <= %s" % (nm, signed(rng, u)))      # implicit rule: lower stays 0 for an upper bound >= 0 (0 fixes the variable)
            else:
                blines.append(rng.choice([" %s <= %s <= %s" % (signed(rng, l), nm, signed(rng, u)), " %s <= %s\n %s <= %s" % (signed(rng, l), nm, nm, signed(rng, u))]))
        cols[nm] = (F(o), lo, up, isint)
    if blines:
        lines.append(kw("Bounds", "BOUNDS", "bounds", "Bound", "BOUND"))
        lines += rng.shuffle(blines)
    if ints:
        lines.append(kw("Integer", "INTEGER", "integer", "InTeGeR"))
        lines.append(" " + " ".join(cn[j] for j in ints))
    lines.append(kw("End", "END", "end"))
    text = "\n".join(lines) + "\n"
    if rng.chance(0.2):
        text = text.replace("\n", "\n\n", 2)
    return text, (lp.sense, cols, rows)


def compare_expected(expected, back, cn_of, optional=()):
    """back = (lp, colnames, rownames, intflags) from the API dump"""
    sense, cols, rows = expected
    lp1, cn1, rn1, flags = back
    diffs = []
    if lp1.sense != sense:
        diffs.append("objective sense %s read as %s" % (sense, lp1.sense))
    got = {cn1[j]: (F(lp1.cols[j][0]), lp1.cols[j][1], lp1.cols[j][2], (flags[j] != "0") if j < len(flags) else False) for j in range(len(cn1))}
    for nm, v in cols.items():
        if nm not in got:
            diffs.append("column %s not delivered" % nm)
        else:
            g = got[nm]
            w = (v[0], v[1] if v[1] in (INF, NINF) else F(v[1]), v[2] if v[2] in (INF, NINF) else F(v[2]), v[3])
            g2 = (g[0], g[1] if g[1] in (INF, NINF) else F(g[1]), g[2] if g[2] in (INF, NINF) else F(g[2]), g[3])
            if w != g2:
                diffs.append("column %s (obj, lower, upper, integer) denotes %s but was read as %s" % (nm, [q2s(x) if not isinstance(x, bool) else x for x in w],
                                                                                                        [q2s(x) if not isinstance(x, bool) else x for x in g2]))
    for nm in got:
        if nm not in cols and nm not in optional:
            diffs.append("unexpected column %s" % nm)
    # rows: order is preserved by the reader; compare as a sequence, names only where given
    exp_rows = rows
    if len(lp1.rows) != len(exp_rows):
        diffs.append("%d rows denoted, %d delivered" % (len(exp_rows), len(lp1.rows)))
    else:
        for i, row_ in enumerate(exp_rows):
            nm, s, rhs, ent = row_[:4]
            r = lp1.rows[i]
            if len(row_) > 4 and row_[4] is not None and (r[0] != "R" or F(r[2]) != F(row_[4])):
                diffs.append("row %d denotes a ranged row of width %s but was read as %s with range %s" % (i, q2s(row_[4]), r[0], q2s(r[2])))
            want = {}
            for j, a in ent:
                want[cn_of[j]] = want.get(cn_of[j], F(0)) + F(a)
            have = {}
            for j, a in r[3]:
                have[cn1[j]] = have.get(cn1[j], F(0)) + F(a)
            want = {k: v for k, v in want.items()}
            if nm is not None and rn1[i] != nm:
                diffs.append("row %d is named %s in the text but %s after reading" % (i, nm, rn1[i]))
            if r[0] != s or F(r[1]) != rhs or have != want:
                diffs.append("row %d denotes %s %s {%s} but was read as %s %s {%s}" % (i, s, q2s(rhs), ", ".join("%s:%s" % (k, q2s(v)) for k, v in sorted(want.items())),
                                                                                     r[0], q2s(r[1]), ", ".join("%s:%s" % (k, q2s(v)) for k, v in sorted(have.items()))))
    return diffs


def render_mps(rng, lp, cn, rn, ints=()):
    """Independent MPS rendering of a known problem: (text, expected, optional columns).  Free layout (blank-separated fields), one or two
    entries per record, comment lines, `$` comments where the reader's field count allows them, zero right-hand sides omitted, a ranged row as
    G / L / E row plus a RANGES record (sign conventions of the format), every bound type, integer markers, an OBJSENSE section, additional
    free (N) rows after the objective (they are no constraints; a column that occurs in such a row only is not part of the problem), a second
    RHS / BOUNDS / RANGES set (only the first one counts)."""
    sp = lambda: rng.choice([" ", "  ", "    ", "\t", "          "])
    num = lambda v: ("-" if F(v) < 0 else rng.choice(["", "", "", "+"])) + literal(rng, abs(F(v)))
    L = []
    dollar = lambda: rng.choice(["", "", "", sp() + "$ comment in place of a second pair", sp() + "$"])    # field 5 of COLUMNS / RHS / RANGES records
    if rng.chance(0.3):
        L.append("* generated")
    L.append("NAME" + sp() + "demo")
    if lp.sense == "max" or rng.chance(0.2):
        L += ["OBJSENSE", sp() + (rng.choice(["MAX", "max", "Maximize", "MAXIMIZE"]) if lp.sense == "max" else rng.choice(["MIN", "min", "Minimize"]))]
    objname = "obj" if "obj" not in rn else "zz_cost"
    L.append("ROWS")
    L.append(" N" + sp() + objname)
    extraN = rng.chance(0.35)
    rows_out, rng_recs, rhs_recs = [], [], []
    rowsyms = []
    for i, r in enumerate(lp.rows):
        s, rhs, rg, ent = r
        if s != "R":
            rowsyms.append((rn[i], s))
            if F(rhs) != 0 or rng.chance(0.2):
                rhs_recs.append((rn[i], F(rhs)))
            rows_out.append((rn[i], s, F(rhs), ent, None))
        else:
            lo, w = F(rhs), F(rg)
            form = rng.choice(["G", "L", "E+", "E-"]) if w != 0 else rng.choice(["G", "L"])
            if form == "G":
                rowsyms.append((rn[i], "G")); rhsv = lo; rv = w * rng.choice([1, -1])
            elif form == "L":
                rowsyms.append((rn[i], "L")); rhsv = lo + w; rv = w * rng.choice([1, -1])
            elif form == "E+":
                rowsyms.append((rn[i], "E")); rhsv = lo; rv = w
            else:
                rowsyms.append((rn[i], "E")); rhsv = lo + w; rv = -w
            if rhsv != 0 or rng.chance(0.2):
                rhs_recs.append((rn[i], rhsv))
            rng_recs.append((rn[i], rv))
            rows_out.append((rn[i], "R", lo, ent, w))
    for k, (nm, s) in enumerate(rowsyms):
        if extraN and k == len(rowsyms) // 2:
            L.append(" N" + sp() + "nfree_")
        L.append(" " + s + sp() + nm)
        if rng.chance(0.08):
            L.append("* a comment line")
    if extraN and not rowsyms:
        L.append(" N" + sp() + "nfree_")
    L.append("COLUMNS")
    colent = {j: [] for j in range(len(cn))}
    for j, c in enumerate(lp.cols):
        if c[0] != 0:
            colent[j].append((objname, F(c[0])))
    for i, r in enumerate(lp.rows):
        for j, a in r[3]:
            colent[j].append((rn[i], F(a)))
    optional = []
    order = list(range(len(cn)))
    inmark = False
    dropped_at = rng.below(len(cn) + 1) if (extraN and rng.chance(0.6)) else None

    def emit(name, ents):
        ents = rng.shuffle(list(ents)) if rng.chance(0.5) else list(ents)
        k = 0
        while k < len(ents):
            if k + 1 < len(ents) and rng.chance(0.5):
                L.append(sp() + name + sp() + ents[k][0] + sp() + num(ents[k][1]) + sp() + ents[k + 1][0] + sp() + num(ents[k + 1][1]))
                k += 2
            else:
                L.append(sp() + name + sp() + ents[k][0] + sp() + num(ents[k][1]) + dollar())
                k += 1
    for pos, j in enumerate(order):
        if dropped_at == pos:
            if inmark:
                L.append(sp() + "MK" + sp() + "'MARKER'" + sp() + "'INTEND'"); inmark = False
            emit("zdrop_", [("nfree_", F(rng.rint(1, 9)))])
            optional.append("zdrop_")
        isint = j in ints
        if isint and not inmark:
            L.append(sp() + "MK" + sp() + "'MARKER'" + sp() + "'INTORG'"); inmark = True
        if not isint and inmark:
            L.append(sp() + "MK" + sp() + "'MARKER'" + sp() + "'INTEND'"); inmark = False
        ents = list(colent[j])
        if extraN and rng.chance(0.4):
            ents.append(("nfree_", F(rng.rint(-5, 5)) or F(1)))
        emit(cn[j], ents)
    if dropped_at == len(order):
        if inmark:
            L.append(sp() + "MK" + sp() + "'MARKER'" + sp() + "'INTEND'"); inmark = False
        emit("zdrop_", [("nfree_", F(2))])
        optional.append("zdrop_")
    if inmark:
        L.append(sp() + "MK" + sp() + "'MARKER'" + sp() + "'INTEND'")
    if rhs_recs or rng.chance(0.3):
        L.append("RHS")
        second = rng.chance(0.25)
        k = 0
        while k < len(rhs_recs):
            if k + 1 < len(rhs_recs) and rng.chance(0.4):
                L.append(sp() + "rhsA" + sp() + rhs_recs[k][0] + sp() + num(rhs_recs[k][1]) + sp() + rhs_recs[k + 1][0] + sp() + num(rhs_recs[k + 1][1]))
                k += 2
            else:
                L.append(sp() + "rhsA" + sp() + rhs_recs[k][0] + sp() + num(rhs_recs[k][1]) + dollar())
                k += 1
            if second and rng.chance(0.5) and rowsyms:
                L.append(sp() + "rhsB" + sp() + rng.choice(rowsyms)[0] + sp() + num(F(77)))
    if rng_recs:
        L.append("RANGES")
        for nm, v in rng_recs:
            L.append(sp() + "rngA" + sp() + nm + sp() + num(v) + dollar())
    cols = {}
    B = []
    for j, c in enumerate(lp.cols):
        o, lo, up = c
        nm = cn[j]
        isint = j in ints
        rec = lambda t, v=None: B.append(" " + t + sp() + "bndA" + sp() + nm + ((sp() + v) if v is not None else "") + (rng.choice(["", "", sp() + "$ a comment"]) if v is not None else ""))
        if isint:
            # integer columns always get explicit bounds (the default for an unbounded integer column differs between dialects)
            if lo == NINF or up == INF:
                lo, up = F(0), INF
                rec("LO", num(0)); rec("PL")
            else:
                rec("LO", num(lo)); rec("UP", num(up))
        elif lo == 0 and up == INF:
            if rng.chance(0.15):
                rec(rng.choice(["PL"]))
        elif lo == NINF and up == INF:
            if rng.chance(0.7):
                rec("FR")
            else:
                rec("MI"); rec("PL")
        elif lo != NINF and up != INF and F(lo) == F(up):
            if rng.chance(0.7):
                rec("FX", num(lo))
            else:
                rec("LO", num(lo)); rec("UP", num(up))
        elif lo == NINF:
            if F(up) < 0 and rng.chance(0.4):
                rec("UP", num(up))                       # a negative upper bound alone: the lower bound becomes -infinity
            elif rng.chance(0.5):
                rec("MI"); rec("UP", num(up))
            else:
                rec("LO", rng.choice(["-inf", "-INF", "-Infinity", "-1e30" if False else "-inf"])); rec("UP", num(up))
        elif up == INF:
            rec("LO", num(lo))
            if rng.chance(0.2):
                rec("UP", rng.choice(["inf", "+inf", "INFINITY", "+Infinity"]))
        else:
            if F(lo) == 0 and F(up) > 0 and rng.chance(0.5):
                rec("UP", num(up))
            else:
                if rng.chance(0.5):
                    rec("LO", num(lo)); rec("UP", num(up))
                else:
                    rec("UP", num(up)); rec("LO", num(lo))
        cols[nm] = (F(o), lo, up, isint)
    if B:
        L.append("BOUNDS")
        if rng.chance(0.2) and cn:
            B.insert(rng.below(len(B)) + 1, " UP" + sp() + "bndB" + sp() + cn[0] + sp() + "12345")      # second bound set: ignored
        L += B
    L.append("ENDATA")
    text = "\n".join(L) + ("\n" if rng.chance(0.85) else "")
    return text, (lp.sense, cols, rows_out), optional


NOTE = {}


def run_c10(ev, rep, rng, exe, quick, pinf, ninf):
    from . import p_files
    jobs = []
    # fixed case (known finding KF-C10-default-objname-clash is reproduced on every run)
    fixed = "Minimize\n x\nSubject To\n obj: x >= 1\nEnd\n"
    NOTE[fixed] = "unnamed-objective-and-row-obj"
    jobs.append((fixed, ("min", {"x": (F(1), F(0), INF, False)}, [("obj", "G", F(1), [(0, F(1))])]), ["x"]))
    for k in range(250 if quick else 5000):
        r = rng.fork("f%d" % k)
        lp, cn, rn = p_files.named_problem(r)
        cn = [n for n in cn]
        # keep names the LP grammar cannot confuse with numbers / keywords inside expressions
        cn = [("v" + n if n[0] in "eE" and len(n) > 1 and n[1].isdigit() else n) for n in cn]
        cn = [n if n.lower() not in ("free", "inf", "st", "end", "min", "max", "bounds", "bound", "integer", "subject") else n + "_" for n in cn]
        if all(c[0] == 0 for c in lp.cols):
            lp.cols[0][0] = F(1)           # an objective without any term is not a valid LP-format objective
        ints = sorted(set(r.below(len(cn)) for _ in range(r.rint(0, 2)))) if r.chance(0.3) else []
        text, expected = render_lp(r, lp, cn, rn, ints)
        if OBJ_LABEL[0] == "" and any(row[0] == "obj" for row in expected[2]):
            NOTE[text] = "unnamed-objective-and-row-obj"
        jobs.append((text, expected, cn))
    OPT = {}
    FMT = {}
    for k in range(150 if quick else 3000):
        r = rng.fork("m%d" % k)
        lp, cn, rn = p_files.named_problem(r)
        if all(c[0] == 0 for c in lp.cols):
            lp.cols[0][0] = F(1)
        for row in lp.rows:
            if row[0] == "R" and F(row[2]) < 0:
                row[2] = -F(row[2])
        ints = sorted(set(r.below(len(cn)) for _ in range(r.rint(0, 2)))) if r.chance(0.3) else []
        text, expected, optional = render_mps(r, lp, cn, rn, ints)
        OPT[text] = optional
        FMT[text] = "MPS"
        jobs.append((text, expected, cn))
    batches = [jobs[i:i + 12] for i in range(0, len(jobs), 12)]

    def work(batch):
        lines = []
        for n, (text, expected, cn) in enumerate(batch):
            f = "g%d.%s" % (n, "mps" if FMT.get(text) == "MPS" else "lp")
            lines += ["putfile %s %s" % (hx(f), hx(text)), "read 0 %s " % FMT.get(text, "LP") + hx(f), "dumpapi 0"]
        return proto.run_harness(exe, lines, timeout=600, env_extra={"QSX_LOGMSG": "1"})
    from concurrent.futures import ThreadPoolExecutor
    with ThreadPoolExecutor(build.NCPU) as ex:
        results = list(ex.map(work, batches))
    for batch, tr in zip(batches, results):
        for n, (text, expected, cn) in enumerate(batch):
            if 3 * n + 2 >= len(tr):
                if tr.crashed and getattr(tr, "returncode", 0) != 3:
                    rep.violation("reader crashed on a generated LP file: " + tr.crashed[-300:], {"file": text}, signature={"symptom": "file-crash"})
                break
            rb, db = tr[3 * n + 1][1], tr[3 * n + 2][1]
            ev.count("file|" + text, nontrivial=True)
            ev.stat("file:" + FMT.get(text, "LP").lower())
            if proto.get(rb, "read") != ["ok"]:
                msgs = [bytes.fromhex(v[0].replace("-", "")).decode("latin-1") for k, v in rb if k == "logmsg"]
                rep.violation("the %s reader rejects a syntactically valid generated file: %s" % (FMT.get(text, "LP"), " ".join(msgs)[:200]), {"file": text, "messages": msgs[:12]},
                              signature={"symptom": "file-rejected", "cause": NOTE.get(text, "?"), "fmt": FMT.get(text, "LP")})
                if getattr(tr, "returncode", 0) == 3:
                    break
                continue
            from .p_files import parse_dump
            back = parse_dump(db)
            if back is None:
                continue
            diffs = compare_expected(expected, back, cn, OPT.get(text, ()))
            if diffs:
                rep.violation("a generated " + FMT.get(text, "LP") + " file is not read as the problem its text denotes: " + "; ".join(diffs[:2]), {"file": text, "diffs": diffs},
                              signature={"symptom": "file-denotation", "kind": diffs[0].split(" ")[0]})
            if len(ev.cov["samples"]) < 7 and n == 0:
                ev.sample({"generated_file": text[:500]})
