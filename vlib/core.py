"""Check framework: proof audit, evidence, violations, known findings."""
import fcntl, hashlib, json, os, re, subprocess, sys, time
from . import build, proto, translate

VERIF = build.VERIF
LEAN_DIR = proto.LEAN_DIR
ALLOWED_AXIOMS = {"propext", "Classical.choice", "Quot.sound"}
FORBIDDEN = re.compile(r"\bsorry\b|\badmit\b|^\s*axiom\s|native_decide|bv_decide|implemented_by|\bunsafe\s|maxHeartbeats\s+0", re.M)

TRUSTED_BASE = [
    "Lean 4.33 kernel (re-checked by leanchecker in the thorough tier)",
    "axioms: propext, Classical.choice, Quot.sound only (audited with #print axioms on every run); no native_decide/bv_decide/sorry",
    "statement of each property theorem in lean/Qsx/Props",
    "correspondence check: harness/qsx_harness.c + vlib generators + compiled model driver qsxdrv (Lean compiler/runtime, GMP)",
    "translator vlib/translate.py (tables re-extracted from /repo)",
    "GMP rational arithmetic modelled as exact field arithmetic",
]


class Violation(Exception):
    def __init__(self, pid, what, replay, found_input=True, signature=None):
        self.pid, self.what, self.replay, self.found_input, self.signature = pid, what, replay, found_input, signature


def strip_comments(src):
    src = re.sub(r"/-.*?-/", "", src, flags=re.S)
    src = re.sub(r"--[^\n]*", "", src)
    return src


def grep_forbidden():
    hits = []
    for root, _, files in os.walk(os.path.join(LEAN_DIR, "Qsx")):
        for f in files:
            if f.endswith(".lean"):
                p = os.path.join(root, f)
                for m in FORBIDDEN.finditer(strip_comments(open(p).read())):
                    hits.append("%s: %s" % (os.path.relpath(p, LEAN_DIR), m.group(0).strip()))
    p = os.path.join(LEAN_DIR, "Main.lean")
    for m in FORBIDDEN.finditer(strip_comments(open(p).read())):
        hits.append("Main.lean: %s" % m.group(0).strip())
    return hits


def lake(args, timeout=3600):
    os.makedirs(os.path.join(LEAN_DIR, ".lake"), exist_ok=True)
    with open(os.path.join(LEAN_DIR, ".lake", ".qsx-lock"), "w") as lk:
        fcntl.flock(lk, fcntl.LOCK_EX)
        r = subprocess.run(["lake"] + args, cwd=LEAN_DIR, capture_output=True, text=True, timeout=timeout)
    return r.returncode, r.stdout + r.stderr


def prove(obligations, thorough=False):
    """obligations: list of (module, theorem).  Builds the modules (and the driver), audits axioms.
    Returns dict(obligations, discharged, failed=[(thm, why)], log)"""
    mods = sorted(set(m for m, _ in obligations))
    res = {"obligations": len(obligations), "discharged": 0, "failed": [], "log": "", "axioms": {}}
    hits = grep_forbidden()
    if hits:
        res["failed"] = [(t, "forbidden construct in sources: " + "; ".join(hits[:5])) for _, t in obligations]
        return res
    rc, log = lake(["build", "qsxdrv"] + mods)
    res["log"] = log[-6000:]
    built = set(mods)
    if rc != 0:
        # find which modules failed
        built = set()
        for m in mods:
            rc1, _ = lake(["build", m])
            if rc1 == 0:
                built.add(m)
    ok_obl = [(m, t) for m, t in obligations if m in built]
    for m, t in obligations:
        if m not in built:
            res["failed"].append((t, "module %s does not build" % m))
    if ok_obl:
        src = "\n".join("import %s" % m for m in sorted(built)) + "\n" + "\n".join("#print axioms %s" % t for _, t in ok_obl) + "\n"
        f = os.path.join(LEAN_DIR, ".lake", "audit_%d.lean" % os.getpid())
        open(f, "w").write(src)
        rc, out = lake(["env", "lean", f])
        os.unlink(f)
        for _, t in ok_obl:
            m = re.search(r"'%s' depends on axioms: \[([^\]]*)\]" % re.escape(t), out)
            m0 = re.search(r"'%s' does not depend on any axioms" % re.escape(t), out)
            if m0:
                res["axioms"][t] = []
                res["discharged"] += 1
            elif m:
                ax = [a.strip() for a in m.group(1).replace("\n", " ").split(",") if a.strip()]
                res["axioms"][t] = ax
                bad = [a for a in ax if a not in ALLOWED_AXIOMS]
                if bad:
                    res["failed"].append((t, "depends on axioms %s" % bad))
                else:
                    res["discharged"] += 1
            else:
                res["failed"].append((t, "theorem not found by #print axioms: " + out[-400:]))
    if thorough and not res["failed"]:
        for m in mods:
            rc, out = lake(["env", "leanchecker", m], timeout=1800)
            if rc != 0:
                res["failed"].append((m, "leanchecker rejected module: " + out[-400:]))
        res["leanchecker_modules"] = mods
    return res


class Evidence:
    def __init__(self, pid, tier, seed, level):
        self.pid, self.tier, self.seed, self.level = pid, tier, seed, level
        self.t0 = time.time()
        self.cov = {"evaluations": 0, "distinct_nontrivial": 0, "rule": "", "samples": [],
                    "obligations": 0, "discharged": 0,
                    "checker_cmd": "cd lean && lake build <modules> && lake env lean <audit: #print axioms for every obligation>",
                    "trusted_base": list(TRUSTED_BASE), "traces_validated_against_impl": 0}
        self.assumptions = []
        self.violations = 0
        self._seen = set()
        self.stats = {}

    def count(self, key, nontrivial=True):
        """one evaluated case; key identifies distinct cases"""
        self.cov["evaluations"] += 1
        h = hashlib.blake2b(key.encode(), digest_size=8).digest()
        if nontrivial and h not in self._seen:
            self._seen.add(h)
            self.cov["distinct_nontrivial"] += 1

    def stat(self, name, k=1):
        self.stats[name] = self.stats.get(name, 0) + k

    def sample(self, s, limit=6):
        if len(self.cov["samples"]) < limit:
            self.cov["samples"].append(s if len(str(s)) < 1500 else str(s)[:1500] + "...")

    def write(self):
        self.cov["distribution"] = dict(sorted(self.stats.items()))
        d = {"property_id": self.pid, "tier": self.tier, "seed": self.seed, "level": self.level,
             "coverage": self.cov, "assumptions": self.assumptions, "wall_s": round(time.time() - self.t0, 2),
             "violations": self.violations}
        os.makedirs(os.path.join(VERIF, "evidence"), exist_ok=True)
        p = os.path.join(VERIF, "evidence", self.pid + ".json")
        tmp = p + ".tmp%d" % os.getpid()
        with open(tmp, "w") as fh:
            json.dump(d, fh, indent=1)
        os.replace(tmp, p)


def crash_cause(stderr):
    """a short, stable description of why the process died (part of crash signatures, so that a known finding
    about one crash does not hide other crashes)"""
    m = re.search(r"ERROR: AddressSanitizer: ([a-zA-Z-]+)", stderr or "")
    kind = m.group(1) if m else None
    if "__gmp_divide_by_zero" in (stderr or ""):
        f = re.search(r"#\d+ 0x[0-9a-f]+ in (\w+) /var/tmp/qsx-cache", stderr)
        return "gmp-divide-by-zero:" + (re.sub(r"^(mpq|dbl|mpf)_", "", f.group(1)) if f else "?")
    if kind:
        f = re.search(r"#\d+ 0x[0-9a-f]+ in (\w+) /var/tmp/qsx-cache", stderr)
        return "asan-%s:%s" % (kind, re.sub(r"^(mpq|dbl|mpf)_", "", f.group(1)) if f else "?")
    if "runtime error:" in (stderr or ""):
        return "ubsan"
    return "other"


def load_known():
    p = os.path.join(VERIF, "known_findings.json")
    if not os.path.exists(p):
        return {"findings": [], "fixed": []}
    return json.load(open(p))


def write_replay(pid, seed, k, payload):
    d = os.path.join(VERIF, "replay")
    os.makedirs(d, exist_ok=True)
    p = os.path.join(d, "%s-%s-%d.json" % (pid, seed, k))
    with open(p, "w") as fh:
        json.dump(payload, fh, indent=1)
    return p


class Reporter:
    """collects violations of one run, classifies against known findings, prints the lines"""

    def __init__(self, pid, seed, ev):
        self.pid, self.seed, self.ev = pid, seed, ev
        self.known = [f for f in load_known().get("findings", []) if f.get("property") == pid]
        self.k = 0
        # replays of earlier runs of this property/seed are stale
        d = os.path.join(VERIF, "replay")
        if os.path.isdir(d):
            for f in os.listdir(d):
                if f.startswith("%s-%s-" % (pid, seed)):
                    os.unlink(os.path.join(d, f))
        self.sigs = set()
        self.known_hit = {}
        self.exit = 0

    def violation(self, what, payload, signature=None, found_input=True):
        """signature: dict used to match known findings; distinct signatures are reported once"""
        sig = json.dumps(signature, sort_keys=True) if signature else what
        for f in self.known:
            if signature is not None and all(signature.get(k) == v for k, v in f.get("signature", {}).items()):
                if f["id"] not in self.known_hit:
                    self.known_hit[f["id"]] = what
                return
        if sig in self.sigs:
            return
        self.sigs.add(sig)
        self.k += 1
        payload = dict(payload)
        payload.update({"property": self.pid, "what": what, "signature": signature, "seed": self.seed})
        path = write_replay(self.pid, self.seed, self.k, payload)
        self.ev.violations += 1
        self.exit = 1
        print("VIOLATION property=%s replay=%s%s" % (self.pid, path, "" if found_input else " no-failing-input-found"))
        print("  # " + what[:400])
        sys.stdout.flush()

    def finish(self):
        for f in self.known:
            if f["id"] in self.known_hit:
                print("KNOWN-FINDING: property=%s %s (%s)" % (self.pid, f["what"], f["id"]))
            else:
                # listed for this property but not exercised by this tier / seed: still announced, so that every listed
                # finding appears on every run of the property's check
                print("KNOWN-FINDING: property=%s %s (%s; not reproduced in this run, see known_findings.json for its replay)" % (self.pid, f["what"], f["id"]))
        sys.stdout.flush()
        return self.exit


def parallel_harness(exe, groups, timeout=900, workers=None):
    """groups: list of op lists, each self-contained.  Returns list of Transcripts."""
    from concurrent.futures import ThreadPoolExecutor
    workers = workers or build.NCPU
    with ThreadPoolExecutor(workers) as ex:
        return list(ex.map(lambda g: proto.run_harness(exe, g, timeout=timeout), groups))


def chunks(xs, n):
    n = max(1, n)
    k = (len(xs) + n - 1) // n if xs else 1
    return [xs[i:i + k] for i in range(0, len(xs), k)] or [[]]
