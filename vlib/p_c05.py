"""C05: re-solving after edits equals solving from scratch; no stale solution is served.

proof:  Props.C05 (session state machine: which calls drop the cached solution / the
        factorization, accessors fail without a cache; delete-of-basic-rows exception)
tie:    histories of edits interleaved with solves (QSexact_solver, mpq_QSopt_primal, mpq_QSopt_dual)
        on the real object.  After every solve: status and value are compared with a FRESH copy of
        the current problem (built through the API from the query dump and solved by the exact
        solver) and every OPTIMAL goes through the proved checker certOK against the current
        problem.  After every edit: each accessor either fails or returns a solution that still
        passes certOK for the problem as it now stands; the session fields (cache present, status)
        are compared with the Lean session model.
"""
from fractions import Fraction as F
from . import build, proto, core, gen, translate, solvelib, lpfam, hist, histrun, refsolve
from .gen import LP

OBL = [("Qsx.Props.C05", t) for t in ["Qsx.Props.C05.edit_drops_cache", "Qsx.Props.C05.accessors_need_cache",
                                     "Qsx.Props.C05.cache_only_after_optimal", "Qsx.Props.C05.session_inv"]]

EDITW = {"addcol": 8, "newcol": 3, "addrow": 8, "addrrow": 6, "newrow": 2, "delrow": 5, "delrows": 3, "delsetrows": 1,
         "delnamedrow": 1, "delcol": 5, "delcols": 3, "delsetcols": 1, "delnamedcol": 1,
         "chgcoef": 10, "chgobj": 8, "chgrhs": 8, "chgrange": 6, "chgsense": 6, "chgsenses": 2, "chgbound": 10, "chgbounds": 2,
         "chgobjsense": 3}
SOLVES = ["solve 0 exact primal none", "solve 0 exact dual none", "solve 0 primal", "solve 0 dual", "solve 0 dual", "solve 0 primal"]


def gen_job(rng, lp, length):
    m = hist.Mirror(lp)
    ops = []
    for _ in range(length):
        if rng.chance(0.45):
            ops.append(rng.choice(SOLVES))
        else:
            line, valid, kind = hist.gen_op(rng, m, p_invalid=0.0, weights=EDITW, allow_names=False)
            ops.append(line)
    ops.append(rng.choice(SOLVES))
    return ops


def st_fields(block):
    st = proto.get(block, "state")
    if not st:
        return None
    d = dict(t.split("=", 1) for t in st if "=" in t)
    return {"basis": d.get("basis"), "cache": d.get("cache"), "factorok": d.get("factorok"), "qstatus": d.get("qstatus")}


KEEP = ("chgobj", "chgrhs", "chgobjsense")
MATRIX = ("chgcoef", "chgsense", "chgsenses", "chgrange")


def session_tokens(tr):
    """(tokens, observed states) for the Lean session model; oracle answers (solver status, the two delrows flags,
    factorok after addrows) are read off the observed state"""
    toks, obs = [], []
    sense = None
    for li, (op, blk) in enumerate(tr):
        w = op.split(" ")[0]
        if w == "dumpapi":
            api = proto.get(blk, "api")
            sense = api[1] if api and len(api) > 1 else sense
        if w == "setlim":
            continue
        if w == "state" and not toks and li == 1:
            f0 = st_fields(blk)
            if f0:
                toks.append("init:%s:%s:%s:%s" % (f0["basis"], f0["cache"], f0["factorok"], f0["qstatus"]))
        if w in ("new", "newcg", "create", "sol", "state", "dumpapi"):
            continue
        after = st_fields(blk) if w == "solve" else None
        if after is None:
            for lj in range(li + 1, min(li + 4, len(tr))):
                if tr[lj][0].startswith("state"):
                    after = st_fields(tr[lj][1])
                    break
        if after is None:
            break
        rc = proto.get(blk, "rc")
        if w == "solve":
            how = op.split(" ")[2]
            rv, stt = proto.get(blk, "rval", ["1"])[0], proto.get(blk, "status", ["0"])[0]
            after = dict(after, solve_status=stt if rv == "0" else "err")
            tk = {"primal": "optprimal", "dual": "optdual", "exact": "exact"}[how] + ":%s:%s" % (stt, rv)
            if how == "exact":
                tk += ":%s:%s" % (after["basis"], after["factorok"])      # oracle for the non-optimal outcomes (by-products of the basis tests)
            toks.append(tk)
        elif rc == ["1"]:
            toks.append("failed")
        elif w in ("addcol", "newcol"):
            toks.append("addcols")
        elif w == "newrow":
            toks.append("newrow")
        elif w in ("addrow", "addrrow"):
            toks.append("addrows:" + after["factorok"])
        elif w in ("delsetrows", "delsetcols") and "1" not in op.split(" ")[3:]:
            toks.append("failed")          # nothing selected: the wrapper does not call delete at all
        elif w.startswith("del") and "row" in w:
            toks.append("delrows:%s:%s" % (after["basis"], after["cache"]))
        elif w.startswith("del"):
            toks.append("delcols:" + after["basis"])
        elif w == "chgobjsense" and op.split(" ")[2] == sense:
            toks.append("failed")          # same sense as before: the wrapper does nothing
        elif w in ("chgbound", "chgbounds"):
            # oracle: whether the stored basis had to be repaired (a non-basic column at a bound that became infinite)
            toks.append("chgbound:" + after["factorok"])
        elif w in KEEP:
            toks.append("chgkeep")
        elif w in MATRIX:
            toks.append("chgmatrix")
        else:
            break
        obs.append((op, after))
    return toks, obs


def split_start(start):
    """start may carry parameter lines after the problem: 'new 0 lp ... ;; setlim 0 U 10'"""
    parts = start.split(" ;; ")
    return parts[0], parts[1:]


def lines_for(start, ops):
    s0, extra = split_start(start)
    lines = [s0, "state 0", "dumpapi 0"] + extra
    for op in ops:
        lines.append(op)
        if not op.startswith("solve"):
            lines.append("sol 0")
            lines.append("state 0")
        lines.append("dumpapi 0")
    return lines


def run(pid, tier, seed):
    ev = core.Evidence(pid, tier, seed, "proof")
    rep = core.Reporter(pid, seed, ev)
    quick = tier == "quick"
    rng = gen.Rng(seed)
    libdir = build.build()
    exe = build.build_harness(libdir)
    translate.generate(libdir)
    pr = core.prove(OBL, thorough=not quick)
    ev.cov["obligations"], ev.cov["discharged"], ev.cov["axioms"] = pr["obligations"], pr["discharged"], pr["axioms"]
    pinf, ninf = solvelib.get_inf(exe)

    jobs = []
    # corpus of past failures first
    import os, json
    cdir = os.path.join(build.VERIF, "corpus", "c05")
    if os.path.isdir(cdir):
        for f in sorted(os.listdir(cdir)):
            if f.endswith(".json"):
                d = json.load(open(os.path.join(cdir, f)))
                jobs.append((d["start"], d["ops"], "corpus:" + f[:-5]))
    seeds = [lp for kind, lp in lpfam.mixed(rng.fork("seeds"), 40) if kind in ("random", "shape", "degenerate", "sparse")][:16]
    for k in range(70 if quick else 900):
        r = rng.fork("h%d" % k)
        lp = r.choice(seeds)
        start = ("newcg 0 " if r.chance(0.3) else "new 0 ") + lp.line()
        if r.chance(0.25):
            # objective limits: a dormant limit of the other sense must come alive when the objective sense is flipped
            start += " ;; setlim 0 %s %s" % (r.choice("UL"), r.choice(["10", "-30", "0", "5/2", "-4"]))
            if r.chance(0.4):
                start += " ;; setlim 0 %s %s" % (r.choice("UL"), r.choice(["7", "-12", "1"]))
        jobs.append((start, gen_job(r, lp, r.rint(2, 9)), "random"))
    # bounded-exhaustive short histories on three seed LPs: every pair (edit kind, solver) after an initial solve
    small = [LP("min", [[F(-1), F(0), gen.INF], [F(-1), F(0), gen.INF]], [["L", F(4), F(0), [(0, F(1)), (1, F(2))]], ["L", F(6), F(0), [(0, F(3)), (1, F(1))]]]),
             LP("max", [[F(1), F(0), F(3)], [F(2), F(0), gen.INF]], [["R", F(0), F(1), [(0, F(1))]], ["G", F(-2), F(0), [(0, F(1)), (1, F(-1))]], ["L", F(8), F(0), [(0, F(1)), (1, F(1))]]]),
             # several non-binding rows with different slacks: deleting one of them keeps the stored solution, whose surviving
             # row entries (pi, slack) must move to their new positions
             LP("min", [[F(-2), F(0), gen.INF], [F(-1), F(0), gen.INF]], [["L", F(4), F(0), [(0, F(1)), (1, F(1))]], ["L", F(10), F(0), [(0, F(1))]],
                                                                            ["L", F(3), F(0), [(1, F(1))]], ["L", F(6), F(0), [(0, F(1))]]])]
    edits = ["delrow 0 2", "delrow 0 3", "chgcoef 0 0 0 5", "chgobj 0 1 3", "chgrhs 0 0 1", "chgbound 0 0 U 1", "chgbound 0 1 L 1/2", "chgsense 0 0 G", "chgsense 0 1 R",
             "addrow 0 - L 3 2 0 1 1 1", "addrrow 0 - R 1 1 1 0 1", "addcol 0 - -2 0 2 1 0 1", "delrow 0 0", "delrow 0 1", "delcol 0 0", "delcol 0 1",
             "chgobjsense 0 max", "chgobjsense 0 min", "chgrange 0 0 1/2", "newcol 0 - 1 0 inf", "newrow 0 - G 1",
             # columns entering a live basis with every bound shape (which bound the new non-basic column starts at)
             "addcol 0 - -2 -inf 2 1 0 1", "addcol 0 - 1 -inf 7 1 0 1", "newcol 0 - -1 -inf 3", "addcol 0 - 1 -inf inf 1 1 1",
             "addcol 0 - -1 -5 3 2 0 1 1 1", "addcol 0 - 1 -3 50 1 1 2", "addrow 0 - G -2 1 0 1", "addrow 0 - E 1 2 0 1 1 -1",
             "chgbound 0 0 L -3", "chgbound 0 1 U 0", "chgbound 0 0 B 1", "chgrhs 0 1 -1", "chgcoef 0 1 1 0",
             "chgobj 0 0 0", "chgobj 0 1 0", "chgsense 0 0 R", "chgsenses 0 2 0 R 1 R", "chgsenses 0 2 0 L 1 R"]
    for lp in small:
        for s1 in ("solve 0 dual", "solve 0 primal", "solve 0 exact primal none"):
            for e in edits:
                if lp is small[2] and e.split()[0] not in ("delrow", "chgrhs", "chgobj", "chgbound", "chgcoef"):
                    continue        # the third LP is there for its non-binding rows (other edits make it unbounded: QSopt_dual's known finding, C04)
                for s2 in ("solve 0 dual", "solve 0 primal") + (("solve 0 exact dual none",) if not quick else ()):
                    jobs.append(("new 0 " + lp.line(), [s1, e, s2], "exhaustive"))
                    if s2 == "solve 0 primal" and e.split()[0] in ("chgobj", "chgcoef", "chgbound", "chgrhs", "delcol", "chgsense", "chgsenses", "chgrange"):
                        jobs.append(("newcg 0 " + lp.line(), [s1, e, s2], "exhaustive-rowsfirst"))
            for lim in ("setlim 0 U 10", "setlim 0 L -30", "setlim 0 U -3", "setlim 0 L 4"):
                for e in ("chgobjsense 0 max", "chgobjsense 0 min"):
                    jobs.append(("new 0 " + lp.line() + " ;; " + lim, [s1, e, "solve 0 dual"], "exhaustive-limits"))
            if not quick and lp is not small[2]:
                for e1 in edits:
                    for e2 in edits[::3]:
                        jobs.append(("new 0 " + lp.line(), [s1, e1, "solve 0 dual", e2, "solve 0 primal"], "exhaustive2"))

    def work(job):
        start, ops, tag = job
        return proto.run_harness(exe, lines_for(start, ops), timeout=900)
    from concurrent.futures import ThreadPoolExecutor
    with ThreadPoolExecutor(build.NCPU) as ex:
        results = list(ex.map(work, jobs))

    # second pass: fresh copies of the problem as it stands after each solve / edit, solved from scratch with the same
    # entry point as the re-solve (after an edit: with the exact solver)
    fresh_need = set()
    for ji, ((start, ops, tag), tr) in enumerate(zip(jobs, results)):
        extra = tuple(e.replace("setlim 0", "setlim 1") for e in split_start(start)[1])
        for li, (op, blk) in enumerate(tr):
            if op.startswith("dumpapi"):
                api = proto.get(blk, "api")
                if api and api[0] == "lp":
                    prev = tr[li - 1][0] if li > 0 else ""
                    how = " ".join(prev.split(" ")[2:]) if prev.startswith("solve") else "exact primal none"
                    fresh_need.add((" ".join(api), how, extra))
    uniq = sorted(fresh_need)
    groups = core.chunks(uniq, build.NCPU * 2)
    fres = {}
    flat = [["new 1 " + l] + list(ex) + ["solve 1 " + how] for l, how, ex in uniq]
    trs = core.parallel_harness(exe, [sum([flat[uniq.index(key)] for key in g], []) for g in groups], timeout=1500)
    for g, tr in zip(groups, trs):
        pos = 0
        for key in g:
            n = len(flat[uniq.index(key)])
            if pos + n - 1 < len(tr):
                fres[key] = tr[pos + n - 1][1]
            pos += n
    model = solvelib.Model(pinf, ninf)
    asks = []
    sess = []
    for ji, ((start, ops, tag), tr) in enumerate(zip(jobs, results)):
        toks, obs = session_tokens(tr)
        if toks:
            sess.append((model.ask("session " + " ".join(toks)), toks, obs, start, ops))
    for ji, ((start, ops, tag), tr) in enumerate(zip(jobs, results)):
        lines = lines_for(start, ops)
        ev.stat("history:" + tag)
        nontriv = any(o.startswith("solve") for o in ops[:-1]) and any(not o.startswith("solve") for o in ops)
        ev.count(start + "|" + "|".join(ops), nontrivial=nontriv)
        ev.cov["traces_validated_against_impl"] += 1
        if tr.crashed:
            at = len(tr)
            bad = lines[at] if at < len(lines) else "?"
            prefix = [l for l in lines[1:at + 1] if l.split(" ")[0] not in ("sol", "state", "dumpapi")]
            rep.violation("library crashed in an edit/solve history at %r: %s" % (bad, tr.crashed[-500:]),
                          {"start": start, "ops": ops, "ops_until_crash": prefix, "stderr": tr.stderr[-2500:]},
                          signature={"symptom": "crash", "at": bad.split(" ")[0] + (" " + bad.split(" ")[2] if bad.startswith("solve") else ""),
                                     "after": (prefix[-2].split(" ")[0] if len(prefix) > 1 else "-"), "cause": core.crash_cause(tr.stderr)})
        # walk
        cur_lp = None
        last_edit = None
        for li, (op, blk) in enumerate(tr):
            w = op.split(" ")[0]
            if w == "solve":
                ev.stat("op:" + " ".join(op.split(" ")[2:3]))
                # the dump right after
                api = proto.get(tr[li + 1][1], "api") if li + 1 < len(tr) else None
                if not api:
                    continue
                lpl = " ".join(api)
                extra = tuple(e.replace("setlim 0", "setlim 1") for e in split_start(start)[1])
                f = fres.get((lpl, " ".join(op.split(" ")[2:]), extra))
                rv, st = proto.get(blk, "rval", ["?"])[0], proto.get(blk, "status", ["?"])[0]
                ctx = {"start": start, "ops": ops[: sum(1 for l in lines[1:li + 1] if l.split(" ")[0] not in ("sol", "state", "dumpapi"))], "solve": op,
                       "current_lp": lpl}
                if f is not None:
                    fst, frv = proto.get(f, "status", ["?"])[0], proto.get(f, "rval", ["?"])[0]
                    definitive = lambda s: s in ("1", "2", "3", "9")
                    # an objective limit is legitimately reached on the way to an infeasible / unbounded verdict
                    limit_ok = (st == "9" and fst in ("2", "3")) or (fst == "9" and st in ("2", "3"))
                    if rv == "0" and frv == "0" and definitive(st) and definitive(fst) and not limit_ok:
                        if st != fst:
                            rep.violation("re-solve after edits reports %s but a fresh copy of the same problem is %s (after %s, %s)" %
                                          (solvelib.ST.get(st, st), solvelib.ST.get(fst, fst), last_edit, op), ctx,
                                          signature={"symptom": "status-differs", "edit": (last_edit or "-").split(" ")[0], "solver": " ".join(op.split(" ")[2:3])})
                        elif st == "1" and proto.get(blk, "objval") != proto.get(f, "objval"):
                            rep.violation("re-solve after edits gives optimal value %s but a fresh copy gives %s (after %s, %s)" %
                                          (proto.get(blk, "objval"), proto.get(f, "objval"), last_edit, op), ctx,
                                          signature={"symptom": "value-differs", "edit": (last_edit or "-").split(" ")[0], "solver": " ".join(op.split(" ")[2:3])})
                    elif rv == "0" and frv == "0" and definitive(fst) and not definitive(st):
                        ev.stat("non-definitive-resolve:" + solvelib.ST.get(st, st))
                if rv == "0" and st == "1":
                    x, pi = proto.get(blk, "x"), proto.get(blk, "pi")
                    if x and pi and x != ["err"] and pi != ["err"]:
                        asks.append((model.ask("certok %s %s %s" % (lpl, " ".join(x), " ".join(pi))), ctx, "solve", last_edit, op, (proto.get(blk, "slack"), proto.get(blk, "rc"))))
            elif w == "sol":
                # accessor state between an edit and the next solve: compare against the dump that follows
                api = None
                for lj in range(li + 1, min(li + 3, len(tr))):
                    api = proto.get(tr[lj][1], "api") or api
                x, pi = proto.get(blk, "x"), proto.get(blk, "pi")
                ev.stat("accessors-after-edit:" + ("fail" if x == ["err"] else "serve"))
                if api and x and pi and x != ["err"] and pi != ["err"]:
                    ctx = {"start": start, "ops": ops[: sum(1 for l in lines[1:li + 1] if l.split(" ")[0] not in ("sol", "state", "dumpapi"))],
                           "current_lp": " ".join(api)}
                    asks.append((model.ask("certok %s %s %s" % (" ".join(api), " ".join(x), " ".join(pi))), ctx, "stale", last_edit, None, (proto.get(blk, "slack"), proto.get(blk, "rc"))))
                    extra = tuple(e.replace("setlim 0", "setlim 1") for e in split_start(start)[1])
                    f = fres.get((" ".join(api), "exact primal none", extra))
                    ov = proto.get(blk, "objval")
                    if f is not None and ov and ov[0] == "0" and proto.get(f, "status") == ["1"] and proto.get(f, "objval") != ov:
                        rep.violation("after %s the accessors still serve objective value %s; the problem as it stands has optimum %s" %
                                      (last_edit, ov[1], proto.get(f, "objval")[1]), ctx,
                                      signature={"symptom": "stale-objval", "edit": (last_edit or "-").split(" ")[0]})
            elif w not in ("state", "dumpapi", "new", "newcg"):
                last_edit = op
                ev.stat("op:" + w)
        if len(ev.cov["samples"]) < 3 and not tr.crashed:
            ev.sample({"start": start[:160], "ops": ops})
    model.run()
    dict_blocks = {}
    for k, toks, obs, start, ops in sess:
        a = [v for kk, v in model.ans(k) if kk == "s"]
        for n, ((op, after), pred) in enumerate(zip(obs, a)):
            pd = dict(t.split("=", 1) for t in pred)
            # exact solver: the rational object's factorok/basis are by-products of basis loading; compare cache and status only
            if op.startswith("solve 0 exact"):
                keys = ("cache", "qstatus") if after.get("solve_status") in ("1", "2") else ("cache",)
            else:
                keys = ("basis", "cache", "factorok", "qstatus")
            ev.stat("session-step")
            diff = [kk for kk in keys if pd.get(kk) != after.get(kk)]
            if diff:
                w = op.split(" ")[0]
                stale = "cache" in diff and after.get("cache") == "1"
                rep.violation("session state after %r differs from the session model: %s (library %s, model %s)" %
                              (op, ",".join(diff), {kk: after.get(kk) for kk in diff}, {kk: pd.get(kk) for kk in diff}),
                              {"start": start, "ops": ops, "tokens": toks[: n + 1], "at": op},
                              signature={"symptom": "session-differs", "op": w, "field": diff[0]}, found_input=stale)
                break
    for k, ctx, kind, last_edit, op, (obs_slack, obs_rc) in asks:
        a = model.ans(k)
        if proto.get(a, "ok") == ["1"]:
            # the slacks and reduced costs served with a certified (x, pi) must be the ones that x and pi determine
            for nm, obs_v in (("slack", obs_slack), ("rc", obs_rc)):
                if obs_v and obs_v != ["err"] and proto.get(a, nm) is not None and obs_v != proto.get(a, nm):
                    rep.violation("the %s array served %s is not the one of the served x / pi for the problem as it stands: served %s, determined %s" %
                                  (nm, "after the re-solve (%s, %s)" % (last_edit, op) if kind == "solve" else "after %s" % last_edit, " ".join(obs_v)[:160], " ".join(proto.get(a, nm))[:160]),
                                  ctx, signature={"symptom": "accessor-inconsistent", "which": nm, "edit": (last_edit or "-").split(" ")[0]})
        if proto.get(a, "ok") != ["1"]:
            if kind == "solve":
                rep.violation("OPTIMAL after edits (%s, %s) hands back a solution that is not optimal for the problem as it stands (certOK rejects)" % (last_edit, op),
                              ctx, signature={"symptom": "resolve-not-optimal", "edit": (last_edit or "-").split(" ")[0], "solver": " ".join((op or "").split(" ")[2:3])})
            else:
                rep.violation("after %s the accessors serve a solution that is no longer optimal for the edited problem" % last_edit, ctx,
                              signature={"symptom": "stale-solution", "edit": (last_edit or "-").split(" ")[0]})
    for thm, why in pr["failed"]:
        rep.violation("proof obligation no longer checks: %s (%s)" % (thm, why), {"theorem": thm, "why": why, "log": pr["log"][-2000:]},
                      signature={"symptom": "proof", "theorem": thm}, found_input=False)
    ev.cov["rule"] = ("random histories (2-9 steps, 45% solves) over 22 edit kinds x {QSexact_solver primal/dual, QSopt_primal, QSopt_dual} from seed LPs, "
                      "plus bounded-exhaustive histories solve;edit;solve (and solve;edit;solve;edit;solve in the thorough tier) over 19 concrete edits on two "
                      "small LPs; oracle = fresh copy solved from scratch + certOK. distinct = distinct histories; non-trivial = an edit lies between two solves.")
    ev.assumptions += ["the fresh copy is built from the library's own query dump (its faithfulness is C06)",
                       "UNBOUNDED / non-definitive re-solve results are counted, not judged (C03)"]
    code = rep.finish()
    ev.write()
    return code
