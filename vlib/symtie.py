"""C06: tie between Qsx.Symtab (lean/Qsx/Model/Symtab.lean) and symtab.c, driven directly (harness/qsx_symtab.c).

Random operation sequences on one table - register (named / NULL), delete, rename, lookup, getindex, index_reset - from a
small name pool (re-registrations, hash collisions, bytes >= 128, long names for pool growth and compaction) and a tiny
initial size (table growth).  After every operation the whole table is dumped on both sides: sizes and capacities, entries
in table order, every chain in chain order, pool counters."""
from . import proto

POOL = ["a", "b", "c", "x1", "x2", "row", "col", "obj", "RHS", "c10", "c11", "r_0", "r_1", "zz", "q", "\xe9t\xe9", "\xff", "\x80\x81",
        "a_rather_long_name_to_fill_the_string_pool_quickly_0123456789", "another_long_name_that_differs_only_late_A",
        "another_long_name_that_differs_only_late_B", "ab", "ba", "aa", "bb", "k", "kk", "kkk"]


def hx(s):
    return s.encode("latin-1").hex() or "00"


def gen_session(rng, n_ops):
    init = rng.choice([1, 1, 2, 3, 4, 7])
    live = []          # names we believe are in the table (may be stale after rename: fine)
    ops = []
    nent = 0
    for _ in range(n_ops):
        k = rng.wchoice([("reg", 40), ("regnull", 6), ("del", 18), ("ren", 10), ("look", 12), ("getidx", 6), ("reset", 4), ("rennull", 4)])
        if k == "reg":
            nm = rng.choice(POOL) if rng.chance(0.8) else "g%d" % rng.rint(0, 400)
            ops.append("reg %s %d" % (hx(nm), rng.choice([-1, nent, nent, 5])))
            if nm not in live:
                live.append(nm)
                nent += 1
        elif k == "regnull":
            ops.append("reg - %d" % rng.choice([-1, nent]))
            nent += 1
        elif k == "del":
            nm = rng.choice(live) if live and rng.chance(0.8) else rng.choice(POOL)
            ops.append("del " + hx(nm))
            if nm in live:
                live.remove(nm)
                nent -= 1
        elif k in ("ren", "rennull"):
            if nent <= 0:
                continue
            i = rng.below(max(nent, 1))
            nm = "-" if k == "rennull" else hx(rng.choice(POOL) if rng.chance(0.6) else "n%d" % rng.rint(0, 60))
            ops.append("ren %d %s" % (i, nm))
            if nm != "-":
                live.append(bytes.fromhex(nm).decode("latin-1"))
        elif k == "look":
            ops.append("look " + hx(rng.choice(live) if live and rng.chance(0.6) else rng.choice(POOL)))
        elif k == "getidx":
            ops.append("getidx " + hx(rng.choice(live) if live and rng.chance(0.7) else rng.choice(POOL)))
        else:
            names = rng.shuffle(list(dict.fromkeys(live)))[: max(nent, 0)] if rng.chance(0.7) else [rng.choice(POOL) for _ in range(rng.rint(0, 3))]
            ops.append("reset %d %s" % (len(names), " ".join(hx(n) for n in names)))
    return init, ops


def c_lines(init, ops):
    out = ["stnew %d" % init, "stdump"]
    for o in ops:
        out += ["st" + o, "stdump"]
    return out + ["stfree"]


def run(ev, rep, rng, exe, model, quick):
    sessions = [gen_session(rng.fork("s%d" % k), rng.rint(4, 60 if quick else 200)) for k in range(250 if quick else 4000)]
    ks = [model.ask("symtab %d %d %s" % (init, len(ops), " ".join(ops))) for init, ops in sessions]
    from concurrent.futures import ThreadPoolExecutor
    from . import build
    with ThreadPoolExecutor(build.NCPU) as ex:
        trs = list(ex.map(lambda s: proto.run_harness(exe, c_lines(*s), timeout=300), sessions))

    def compare():
        kinds = {}
        for (init, ops), k, tr in zip(sessions, ks, trs):
            ev.cov["traces_validated_against_impl"] += 1
            ev.count("symtab|%d|%s" % (init, " ".join(ops)), nontrivial=len(ops) > 3)
            for o in ops:
                kinds[o.split()[0]] = kinds.get(o.split()[0], 0) + 1
            if tr.crashed and getattr(tr, "returncode", 0) != 0:
                rep.violation("the symbol table crashes in a direct session: " + tr.crashed[-300:], {"lines": c_lines(init, ops), "stderr": tr.stderr[-1500:]},
                              signature={"symptom": "crash", "where": "symtab", "cause": __import__("vlib.core", fromlist=["x"]).crash_cause(tr.stderr)})
                break
            # the hypothesis of theorem symtab_pool_write_fits on every real state: live strings fit below strsize <= strspace
            for op, blk in tr[:-1]:
                stl = proto.get(blk, "st")
                if stl and len(stl) >= 7:
                    used = sum(len(v[1]) // 2 + 1 if v[1] != "00" else 1 for k_, v in blk if k_ == "ent" and v[1] != "-")
                    if not (used <= int(stl[4]) <= int(stl[5]) and int(stl[5]) > 0):
                        rep.violation("string pool accounting of the symbol table broken: live strings need %d bytes, strsize %s, strspace %s" % (used, stl[4], stl[5]),
                                      {"lines": c_lines(init, ops)}, signature={"symptom": "symtab-pool-accounting"})
                        break
            got = [(key, list(vals)) for op, blk in tr[:-1] for key, vals in blk]
            want = [(key, list(vals)) for key, vals in (model.ans(k) or [])]
            if got != want:
                at = next((i for i, (a, b) in enumerate(zip(got, want)) if a != b), min(len(got), len(want)))
                rep.violation("symtab.c differs from Qsx.Symtab at output line %d: C %s, model %s" % (at, got[at] if at < len(got) else None, want[at] if at < len(want) else None),
                              {"lines": c_lines(init, ops), "model_line": "symtab %d %d %s" % (init, len(ops), " ".join(ops)), "c": got[max(0, at - 3):at + 3], "model": want[max(0, at - 3):at + 3]},
                              signature={"symptom": "symtab-model-differs"})
                break
        for kk, v in sorted(kinds.items()):
            ev.stat("symtab-op:" + kk, v)
    return compare
