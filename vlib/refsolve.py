"""Self-certifying exact reference classification of small LPs.

Unverified search (dense two-phase simplex over Fractions, Bland's rule) that returns a
*certificate*: ("optimal", val, x, pi) | ("infeasible", y) | ("unbounded", x, ray).
Nothing here is trusted: every certificate is passed through the Lean checkers whose soundness is
proved (certOK / checkFarkas / checkRay), and a certificate that fails there is reported as a
reference failure (never as a violation of the implementation).
"""
from fractions import Fraction as F
from .gen import INF, NINF


class RefError(Exception):
    pass


def _std_form(lp):
    """min c z + c0, A z = b, z >= 0.  Returns (A, b, c, c0, recover) with the first len(lp.rows)
    rows of A corresponding to the original rows."""
    n = len(lp.cols)
    sgn = 1 if lp.sense == "min" else -1
    zmap = []  # per original var: list of (zindex, coef), const
    nz = 0
    extra_rows = []  # (coeffs dict, rhs)  : z_k + t = ub
    for j, (o, lo, up) in enumerate(lp.cols):
        if lo != NINF:
            zmap.append(([(nz, F(1))], F(lo)))
            if up != INF:
                if F(up) < F(lo):
                    return None
                extra_rows.append(({nz: F(1)}, F(up) - F(lo)))
            nz += 1
        elif up != INF:
            zmap.append(([(nz, F(-1))], F(up)))
            nz += 1
        else:
            zmap.append(([(nz, F(1)), (nz + 1, F(-1))], F(0)))
            nz += 2
    rows = []
    rhs = []
    for (s, r, rg, ent) in lp.rows:
        co = {}
        const = F(0)
        for j, a in ent:
            a = F(a)
            for k, c in zmap[j][0]:
                co[k] = co.get(k, F(0)) + a * c
            const += a * zmap[j][1]
        rows.append([co, s, F(r) - const, F(rg)])
    # slacks
    A = []
    b = []
    range_rows = []
    for (co, s, r, rg) in rows:
        co = dict(co)
        if s == "L":
            co[nz] = F(1); nz += 1
        elif s == "G":
            co[nz] = F(-1); nz += 1
        elif s == "R":
            if rg < 0:
                return None
            co[nz] = F(-1)
            range_rows.append(({nz: F(1)}, rg))
            nz += 1
        A.append(co); b.append(r)
    for co, ub in extra_rows + range_rows:
        co = dict(co)
        co[nz] = F(1); nz += 1
        A.append(co); b.append(ub)
    c = [F(0)] * nz
    c0 = F(0)
    for j, (o, lo, up) in enumerate(lp.cols):
        o = F(o) * sgn
        for k, cc in zmap[j][0]:
            c[k] += o * cc
        c0 += o * zmap[j][1]
    dense = [[row.get(k, F(0)) for k in range(nz)] for row in A]

    def recover(z):
        return [sum((cc * z[k] for k, cc in zm), F(0)) + const for zm, const in zmap]

    def recover_dir(dz):
        return [sum((cc * dz[k] for k, cc in zm), F(0)) for zm, const in zmap]

    return dense, b, c, c0, recover, recover_dir, sgn


def _solve_sq(M, rhs):
    """solve M y = rhs exactly (M square, nonsingular)"""
    n = len(M)
    a = [list(M[i]) + [rhs[i]] for i in range(n)]
    for col in range(n):
        piv = next((r for r in range(col, n) if a[r][col] != 0), None)
        if piv is None:
            raise RefError("singular basis in reference solver")
        a[col], a[piv] = a[piv], a[col]
        pv = a[col][col]
        a[col] = [v / pv for v in a[col]]
        for r in range(n):
            if r != col and a[r][col] != 0:
                f = a[r][col]
                a[r] = [x - f * y for x, y in zip(a[r], a[col])]
    return [a[i][n] for i in range(n)]


def _simplex(T, basis, cost, ncols, maxit=20000):
    """T: m rows of length ncols+1 (last = rhs) in canonical form w.r.t. basis.  Bland's rule.
    Returns ("optimal",) or ("unbounded", entering)"""
    m = len(T)
    it = 0
    while True:
        it += 1
        if it > maxit:
            raise RefError("reference simplex iteration limit")
        # reduced costs
        cb = [cost[basis[i]] for i in range(m)]
        ent = None
        for j in range(ncols):
            if j in basis:
                continue
            d = cost[j] - sum((cb[i] * T[i][j] for i in range(m) if T[i][j] != 0), F(0))
            if d < 0:
                ent = j
                break
        if ent is None:
            return ("optimal",)
        best = None
        for i in range(m):
            if T[i][ent] > 0:
                ratio = T[i][-1] / T[i][ent]
                if best is None or ratio < best[0] or (ratio == best[0] and basis[i] < basis[best[1]]):
                    best = (ratio, i)
        if best is None:
            return ("unbounded", ent)
        r = best[1]
        pv = T[r][ent]
        T[r] = [v / pv for v in T[r]]
        for i in range(m):
            if i != r and T[i][ent] != 0:
                f = T[i][ent]
                T[i] = [x - f * y for x, y in zip(T[i], T[r])]
        basis[r] = ent


def classify(lp):
    """returns dict(status=..., val, x, pi, y, ray)"""
    sf = _std_form(lp)
    if sf is None:
        return {"status": "malformed"}
    A, b, c, c0, recover, recover_dir, sgn = sf
    m = len(A)
    nz = len(c)
    norig = len(lp.rows)
    if m == 0:
        # no rows at all: each variable independently
        x = []
        for (o, lo, up) in lp.cols:
            o = F(o) * sgn
            if o > 0:
                if lo == NINF:
                    return _unb_norows(lp, sgn)
                x.append(F(lo))
            elif o < 0:
                if up == INF:
                    return _unb_norows(lp, sgn)
                x.append(F(up))
            else:
                x.append(F(lo) if lo != NINF else (F(up) if up != INF else F(0)))
        val = sum((F(o) * xv for (o, _, _), xv in zip(lp.cols, x)), F(0))
        return {"status": "optimal", "val": val, "x": x, "pi": []}
    # make b >= 0
    sign = [1 if b[i] >= 0 else -1 for i in range(m)]
    T = [[sign[i] * v for v in A[i]] + [F(1) if k == i else F(0) for k in range(m)] + [sign[i] * b[i]] for i in range(m)]
    basis = [nz + i for i in range(m)]
    cost1 = [F(0)] * nz + [F(1)] * m
    _simplex(T, basis, cost1, nz + m)
    w = sum((T[i][-1] for i in range(m) if basis[i] >= nz), F(0))
    if w > 0:
        # Farkas: y = c1_B B^-1 in terms of the signed rows; y^T A <= 0 , y^T b > 0
        Bm = [[(sign[r] * A[r][basis[i]] if basis[i] < nz else (F(1) if basis[i] - nz == r else F(0))) for r in range(m)] for i in range(m)]
        y = _solve_sq(Bm, [cost1[basis[i]] for i in range(m)])
        y = [sign[i] * y[i] for i in range(m)]
        return {"status": "infeasible", "y": y[:norig], "yfull": y}
    # drive artificials out of the basis
    for i in range(m):
        if basis[i] >= nz:
            piv = next((j for j in range(nz) if T[i][j] != 0), None)
            if piv is None:
                continue  # redundant row; artificial stays at zero
            pv = T[i][piv]
            T[i] = [v / pv for v in T[i]]
            for r in range(m):
                if r != i and T[r][piv] != 0:
                    f = T[r][piv]
                    T[r] = [x - f * y2 for x, y2 in zip(T[r], T[i])]
            basis[i] = piv
    # forbid artificials from entering: give them cost 0 but remove from candidate set by slicing
    cost2 = list(c) + [F(0)] * m
    # phase II over the structural columns only (artificial columns kept for bookkeeping)
    res = _simplex_restricted(T, basis, cost2, nz)
    z = [F(0)] * (nz + m)
    for i in range(m):
        z[basis[i]] = T[i][-1]
    if res[0] == "unbounded":
        ent = res[1]
        dz = [F(0)] * nz
        dz[ent] = F(1)
        for i in range(m):
            if basis[i] < nz:
                dz[basis[i]] = -T[i][ent]
        return {"status": "unbounded", "x": recover(z[:nz]), "ray": recover_dir(dz)}
    Bm = [[(sign[r] * A[r][basis[i]] if basis[i] < nz else (F(1) if basis[i] - nz == r else F(0))) for r in range(m)] for i in range(m)]
    y = _solve_sq(Bm, [cost2[basis[i]] for i in range(m)])
    y = [sign[i] * y[i] for i in range(m)]
    x = recover(z[:nz])
    val = sum((F(o) * xv for (o, _, _), xv in zip(lp.cols, x)), F(0))
    pi = [sgn * v for v in y[:norig]]
    return {"status": "optimal", "val": val, "x": x, "pi": pi}


def _unb_norows(lp, sgn):
    x = []
    ray = []
    for (o, lo, up) in lp.cols:
        o = F(o) * sgn
        x.append(F(lo) if lo != NINF else (F(up) if up != INF else F(0)))
        if o > 0 and lo == NINF:
            ray.append(F(-1))
        elif o < 0 and up == INF:
            ray.append(F(1))
        else:
            ray.append(F(0))
    return {"status": "unbounded", "x": x, "ray": ray}


def _simplex_restricted(T, basis, cost, nz, maxit=20000):
    m = len(T)
    it = 0
    while True:
        it += 1
        if it > maxit:
            raise RefError("reference simplex iteration limit")
        cb = [cost[basis[i]] for i in range(m)]
        ent = None
        for j in range(nz):
            if j in basis:
                continue
            d = cost[j] - sum((cb[i] * T[i][j] for i in range(m) if T[i][j] != 0), F(0))
            if d < 0:
                ent = j
                break
        if ent is None:
            return ("optimal",)
        best = None
        for i in range(m):
            if T[i][ent] > 0:
                ratio = T[i][-1] / T[i][ent]
                if best is None or ratio < best[0] or (ratio == best[0] and basis[i] < basis[best[1]]):
                    best = (ratio, i)
            elif basis[i] >= nz and T[i][ent] < 0:
                # artificial (at zero) would become positive: pivot it out first (degenerate)
                best = (F(0), i) if best is None or best[0] > 0 else best
        if best is None:
            return ("unbounded", ent)
        r = best[1]
        pv = T[r][ent]
        T[r] = [v / pv for v in T[r]]
        for i in range(m):
            if i != r and T[i][ent] != 0:
                f = T[i][ent]
                T[i] = [x - f * y for x, y in zip(T[i], T[r])]
        basis[r] = ent
