"""C20: with a log handler installed the library writes nothing to stdout or stderr.

proof:  Props.C20 — QSlog with a handler delivers one complete message and touches no descriptor;
        the table of direct writers to fd 1/2, re-extracted from /repo's preprocessed sources on
        every run, contains only the allowed sites (decide over the whole table).
tie:    every battery below runs with a handler installed and fd 1 / fd 2 redirected to capture
        files; after each operation the harness reports the bytes that arrived there (must be 0)
        and the messages the handler received: failing calls (missing / unopenable / malformed
        files, rejected arguments, NULL arrays), solves at every display level, edit histories,
        and a sweep of message lengths (path names of growing length) checking that each message
        arrives complete.
"""
import os
from fractions import Fraction as F
from . import build, proto, core, gen, translate, solvelib, lpfam, hist, histrun, p_c07

OBL = [("Qsx.Props.C20", t) for t in ["Qsx.Props.C20.qslog_handler_silent", "Qsx.Props.C20.no_direct_writers", "Qsx.Props.C20.trace_flags_off"]]
ENV = {"QSX_CAPTURE": "1", "QSX_LOGMSG": "1"}
hx = hist.hx


def battery(rng, quick):
    """list of (tag, [lines])"""
    jobs = []
    lp = lpfam.shape(rng)
    base = "new 0 " + gen.LP("min", [[F(-1), F(0), gen.INF], [F(-1), F(0), gen.INF]],
                              [["L", F(4), F(0), [(0, F(1)), (1, F(2))]], ["R", F(1), F(3), [(0, F(3)), (1, F(1))]]]).line()
    # 1. files that cannot be read / written
    lines = [base]
    for ft in ("LP", "MPS"):
        for name in ("/nonexistent_dir_qsx/a.lp", "/nonexistent_dir_qsx/a.mps.gz", "/nonexistent_dir_qsx/a.lp.bz2", "missing_here.lp", "/", ""):
            lines.append("read 1 %s %s" % (ft, hx(name) if name else "00"))
            lines.append("write 0 %s %s" % (ft, hx(name) if name else "00"))
    lines += ["readbasis 0 " + hx("/nonexistent_dir_qsx/b.bas"), "writebasis 0 own " + hx("/nonexistent_dir_qsx/b.bas"),
              "solve 0 dual", "writebasis 0 own " + hx("/nonexistent_dir_qsx/b.bas"), "writebasis 0 own " + hx("ok.bas"), "readbasis 0 " + hx("ok.bas")]
    jobs.append(("files", lines))
    # 2. malformed files
    bad = ["", "garbage\n", "Minimize\n obj: x +\nSubject To\n c1: x >= \nEnd\n", "NAME p\nROWS\n N obj\n Q c1\nCOLUMNS\n x c1 1\nENDATA\n",
           "Maximize\n x\nSubject To\n c: x + y <= 1e\nBounds\n x <= zz\nEnd\n", "NAME\nROWS\nCOLUMNS\nRHS\nBOUNDS\n XX b x 1\nENDATA\n",
           "\x00\x01\x02", "Min\n x\nst\n" + "c: " + " + ".join("x%d" % i for i in range(300)) + " <= 1\nEnd\n"]
    lines = []
    for k, content in enumerate(bad):
        for ft, ext in (("LP", "lp"), ("MPS", "mps")):
            f = "bad%d.%s" % (k, ext)
            lines += ["putfile %s %s" % (hx(f), hx(content) if content else "-"), "read 1 %s %s" % (ft, hx(f))]
        lines += ["putfile %s %s" % (hx("bad%d.bas" % k), hx(content) if content else "-"), base, "readbasis 0 " + hx("bad%d.bas" % k)]
    jobs.append(("malformed", lines))
    # 2b. the same diagnostics in a second library session of the process (QSexactClear / QSexactStart in between)
    jobs.append(("second-session", [base, "solve 0 dual", "restart", base, "read 1 LP " + hx("missing_here.lp"), "readbasis 0 " + hx("/nonexistent_dir_qsx/b.bas"),
                                    "chgcoef 0 99 0 1", "solve 0 dual", "restart", base, "write 0 MPS " + hx("/nonexistent_dir_qsx/a.mps"), "delrow 0 17"]))
    # 3. rejected arguments in several lifecycle states
    lp3 = gen.LP("min", [[F(-1), F(0), gen.INF], [F(-1), F(0), gen.INF], [F(0), gen.NINF, gen.INF]],
                 [["L", F(4), F(0), [(0, F(1)), (1, F(2))]], ["R", F(1), F(2), [(0, F(3)), (1, F(1)), (2, F(1))]], ["E", F(0), F(0), [(2, F(1))]]])
    for prep in (["new 0 " + lp3.line()], ["new 0 " + lp3.line(), "solve 0 dual"]):
        jobs.append(("rejected", prep + [op for op, _ in p_c07.invalid_ops(lp3)] + ["infeasnull 0", "solve 0 dual", "infeasnull 0", "pivotin 0 c 1 0", "pivotin 0 r 1 0",
                                                                                      "pivotin 0 c 1 99", "getbasisarray 0", "getparam 0 99"]))
    # 4. solves at every display level, every entry point, on all classes of problems
    for kind, lp in lpfam.mixed(rng.fork("solve"), 10 if quick else 80):
        for disp in (0, 1, 2, 3):
            jobs.append(("solve", ["new 0 " + lp.line(), "setparam 0 4 %d" % disp, "solve 0 exact primal none", "solve 0 dual", "solve 0 primal",
                                   "sol 0", "chgobjsense 0 max", "solve 0 primal", "setparam 0 7 0", "solve 0 dual", "write 0 LP " + hx("o.lp"), "write 0 MPS " + hx("o.mps"),
                                   "read 1 LP " + hx("o.lp"), "read 2 MPS " + hx("o.mps"), "copy 0 3", "solve 3 dual"]))
    # 5. edit histories incl. invalid arguments
    for k in range(12 if quick else 150):
        r = rng.fork("h%d" % k)
        ops, kinds = histrun.gen_history(r, r.rint(5, 25), p_invalid=0.3)
        jobs.append(("history", ["create 0 min"] + ops + ["solve 0 dual"]))
    # 6. message completeness: the same failing call with path names of every length around the buffer sizes
    lines = [base]
    for n in list(range(120, 300)) + [500, 1000, 4000]:
        lines.append("write 0 LP " + hx("/nonexistent_dir_qsx/" + "a" * n))
    jobs.append(("lengths-write", lines))
    lines = []
    for n in list(range(120, 300)) + [500, 1000, 4000]:
        lines.append("read 1 LP " + hx("/nonexistent_dir_qsx/" + "b" * n))
    jobs.append(("lengths-read", lines))
    return jobs


def run(pid, tier, seed):
    ev = core.Evidence(pid, tier, seed, "proof")
    rep = core.Reporter(pid, seed, ev)
    quick = tier == "quick"
    rng = gen.Rng(seed)
    libdir = build.build()
    exe = build.build_harness(libdir)
    translate.generate(libdir)
    pr = core.prove(OBL, thorough=not quick)
    ev.cov["obligations"], ev.cov["discharged"], ev.cov["axioms"] = pr["obligations"], pr["discharged"], pr["axioms"]
    # which sites are outside the allowed set according to the (executable) model
    new_sites = []
    m = proto.run_model(["writers"])
    if len(m):
        w = proto.get(m[0][1], "writers")
        ev.cov["direct_writer_sites_in_table"] = int(w[0]) if w else None
        new_sites = [" ".join(v) for k, v in m[0][1] if k == "site"]

    jobs = battery(rng, quick)
    from concurrent.futures import ThreadPoolExecutor
    with ThreadPoolExecutor(build.NCPU) as ex:
        results = list(ex.map(lambda j: proto.run_harness(exe, j[1], timeout=900, env_extra=ENV), jobs))
    hit_fd = False
    for (tag, lines), tr in zip(jobs, results):
        ev.stat("battery:" + tag)
        if tr.crashed and tag not in ("malformed",):
            ev.stat("harness-ended-early:" + tag)
        msgs_by_len = []
        for op, blk in tr:
            w = op.split(" ")[0]
            ev.count(tag + "|" + op, nontrivial=True)
            nmsg = int((proto.get(blk, "logcount") or ["0"])[0])
            ev.stat("messages", nmsg)
            fb = proto.get(blk, "fdbytes")
            if fb:
                by_design = w == "write" and op.split(" ")[-1] == "NULL"
                if not by_design:
                    hit_fd = True
                    txt = bytes.fromhex(fb[2]).decode("latin-1") if len(fb) > 2 else ""
                    rep.violation("%s writes %s byte(s) to stdout and %s byte(s) to stderr although a log handler is installed: %r" % (w, fb[0], fb[1], txt[:120]),
                                  {"battery": tag, "op": op, "lines_before": lines[: lines.index(op) + 1][-6:], "bytes": txt[:400]},
                                  signature={"symptom": "fd-bytes", "op": w, "stream": "stderr" if fb[1] != "0" else "stdout"})
            if tag.startswith("lengths") and w in ("write", "read"):
                texts = [bytes.fromhex(v[0].replace("-", "")).decode("latin-1") for k, v in blk if k == "logmsg"]
                path = bytes.fromhex(op.split(" ")[-1]).decode("latin-1")
                msgs_by_len.append((len(path), path, texts))
        if tag.startswith("lengths") and msgs_by_len:
            # every message that mentions the path must contain it completely, and the message shape must not depend on the length
            ref = None
            for n, path, texts in msgs_by_len:
                shape = []
                for t in texts:
                    if path[:40] in t:
                        if path not in t:
                            rep.violation("a diagnostic is delivered truncated: path of length %d does not appear completely in %r" % (n, t[:80] + "..." + t[-40:]),
                                          {"op_path_length": n, "message": t}, signature={"symptom": "message-truncated"})
                        shape.append(t.replace(path, "<P>"))
                    else:
                        shape.append(t if "/var/tmp" not in t and "(" not in t else "<loc>")
                if ref is None:
                    ref = shape
                elif shape != ref:
                    rep.violation("the diagnostics for the same failing call differ in shape when only the path length changes (length %d): %r vs %r" % (n, shape[:2], ref[:2]),
                                  {"path_length": n, "messages": texts, "reference_shape": ref}, signature={"symptom": "message-shape"})
                    break
        if len(ev.cov["samples"]) < 4 and len(tr):
            ev.sample({"battery": tag, "op": tr[-1][0][:120], "messages": [bytes.fromhex(v[0].replace("-", "")).decode("latin-1")[:100] for k, v in tr[-1][1] if k == "logmsg"][:2]})
    for thm, why in pr["failed"]:
        rep.violation("proof obligation no longer checks: %s (%s)%s" % (thm, why, ("; direct writers outside the allowed set: " + "; ".join(new_sites)) if new_sites else ""),
                      {"theorem": thm, "why": why, "new_direct_writer_sites": new_sites, "log": pr["log"][-2000:]},
                      signature={"symptom": "proof", "theorem": thm}, found_input=hit_fd)
    ev.cov["rule"] = ("batteries run with a handler installed and fd 1/2 captured: unreadable/unwritable/malformed LP, MPS and basis files (plain, .gz, .bz2), every "
                      "rejected-argument call of the C07 list in two lifecycle states, NULL output arrays, pivot-in calls, solves at display levels 0-3 through all "
                      "entry points with write/read/copy, random edit histories with 30% invalid arguments, and a sweep of failing calls whose path names have every "
                      "length from 120 to 299 (and 500, 1000, 4000). distinct = distinct (battery, operation).")
    ev.assumptions += ["QSwrite_prob with a NULL file name writes to stdout by documented design and is excluded",
                       "the interactive editor is not driven (it is a terminal tool)"]
    code = rep.finish()
    ev.write()
    return code
