"""C17: no call sequence or input is memory-unsafe, and results are reproducible.

proof:  Props.C17 — the size bookkeeping of the growable per-row / per-column arrays (lib.c growth
        rule, EXTRA_* re-extracted from the source): for every history of additions and deletions
        each write index lies inside the array as sized after the growth step (invariant by
        induction over the history).  This is the part of the property a model can carry.
tie:    counts and capacities of the real object (rowsize, colsize, structsize, matcolsize, ...)
        are compared with the Cap model after every call of long add-heavy histories.
partial: actual memory accesses, undefined behaviour and reproducibility are runtime behaviour that
        the model cannot exhibit.  They are *observed*, not proved: a battery of histories, solves
        and (mutated) input files runs on the ASan+UBSan build (GMP memory is malloc'ed: the EG
        memory pool is disabled), a subset under Valgrind memcheck on the plain build, and every
        transcript is re-executed on the plain build with different allocator fill patterns and
        with address-space randomisation switched off: all transcripts must be byte-identical.
"""
import os, shutil, subprocess
from fractions import Fraction as F
from . import build, proto, core, gen, translate, solvelib, lpfam, hist, histrun, p_c16, p_c11, p_files
from .gen import q2s, LP, INF, NINF

OBL = [("Qsx.Props.C17", "Qsx.Props.C17." + t) for t in ["step_safe", "history_safe", "history_inv", "addrow_guard_sufficient", "addrow_guard_tight", "addcol_safe", "addcoef_move_safe", "symtab_pool_write_fits", "symtab_pool_history"]]
RAW_KEYS = ["nrows", "ncols", "nstruct", "matcols", "rowsize", "colsize", "structsize", "matcolsize"]


def memcheck_cause(stderr):
    """the distinct (kind of report : first frame inside the library) pairs of a memcheck log, e.g. ['uninit-cond:add_nonzero']"""
    import re
    kinds = [("Conditional jump or move depends on uninitialised", "uninit-cond"), ("Use of uninitialised value", "uninit-use"),
             ("Invalid read", "invalid-read"), ("Invalid write", "invalid-write"), ("Invalid free", "invalid-free"),
             ("Syscall param", "uninit-syscall")]
    lines = stderr.split("\n")
    out = []
    for i, l in enumerate(lines):
        for pat, tag in kinds:
            if pat in l:
                c = tag + ":?"
                for m in lines[i + 1:i + 25]:
                    f = re.search(r"(?:at|by) 0x[0-9A-Fa-f]+: (\w+) \((\w+)_(?:mpq|dbl|mpf)\.c:\d+\)", m) or re.search(r"(?:at|by) 0x[0-9A-Fa-f]+: (\w+) \((symtab|exact|eg_\w+|util|allocrus)\.c:\d+\)", m)
                    if f:
                        c = "%s:%s" % (tag, f.group(1))
                        break
                    if m.strip().endswith("=="):
                        break
                if c not in out:
                    out.append(c)
    return out or ["?"]


def raw_of(block):
    v = proto.get(block, "raw")
    if not v:
        return None
    d = dict(t.split("=") for t in v)
    return [int(d[k]) for k in RAW_KEYS]


def battery(rng, quick):
    """self-contained transcripts exercising edits, copies, solves, files, verdicts, pivots"""
    out = []
    for k in range(24 if quick else 600):
        r = rng.fork("multi%d" % k)
        lines, target = p_c16.gen_session(r, quick)
        out.append(("multi-object", p_c16.with_all_dumps(lines, target)[0]))
    for kind, lp in lpfam.mixed(rng.fork("solve"), 40 if quick else 900):
        r = rng.fork("s" + lp.line()[:100])
        nr, nc = len(lp.rows), len(lp.cols)
        if not nr or not nc:
            continue
        lines = ["new 0 " + lp.line(), "setparam 0 0 %d" % r.choice([1, 2, 3, 4]), "setparam 0 2 %d" % r.choice([6, 7, 8, 9]),
                 "solve 0 " + r.choice(["exact primal none", "exact dual none", "primal", "dual"]), "sol 0", "getbasis 0", "dumpall 0"]
        if r.chance(0.5):
            lines += ["chgobj 0 %d %s" % (r.below(nc), q2s(r.rat())), "solve 0 primal", "sol 0", "binvrow 0 0", "tabrow 0 0", "basisorder 0"]
        if r.chance(0.3):
            lines += ["delrow 0 %d" % r.below(nr), "solve 0 dual", "sol 0"]
        if r.chance(0.3):
            lines += ["write 0 LP " + "a.lp".encode().hex(), "readcheck LP " + "a.lp".encode().hex(), "write 0 MPS " + "a.mps".encode().hex(),
                      "readcheck MPS " + "a.mps".encode().hex(), "writebasis 0 own " + "a.bas".encode().hex(), "readbasis 0 " + "a.bas".encode().hex()]
        out.append(("solve", lines))
    for k in range(2 if quick else 40):
        r = rng.fork("long%d" % k)
        ops, _ = histrun.gen_history(r, 150 if quick else 600, start_lp=None, weights=histrun.GROW)
        out.append(("long-edit", histrun.with_dumps("create 0 min", ops) + ["solve 0 primal", "sol 0"]))
    # add-heavy histories on a dense problem with solves and factor-invalidating edits in between: the column storage is
    # reallocated while a basis with row norms is alive
    for k in range(6 if quick else 80):
        r = rng.fork("dense%d" % k)
        m, n = r.rint(8, 14), r.rint(16, 30)
        lp = gen.random_lp(r, m=m, n=n, dens=0.9, shapes=["default", "box"], senses="LLG")
        lines = ["new 0 " + lp.line(), "setparam 0 2 7"]
        nr = m
        for step in range(r.rint(12, 30)):
            w = r.wchoice([("addrow", 6), ("solve", 3), ("chgcoef", 2), ("chgsense", 1), ("delrow", 1), ("norms", 1)])
            if w == "addrow":
                cols = [j for j in range(n) if r.chance(0.8)] or [0]
                lines.append("addrow 0 - %s %s %d %s" % (r.choice("LG"), q2s(F(r.rint(-20, 40))), len(cols), " ".join("%d %s" % (j, q2s(F(r.rint(1, 5)))) for j in cols)))
                nr += 1
            elif w == "solve":
                e = r.choice(["dual", "dual", "primal"])
                lines += ["solve 0 " + e, "sol 0"]
                if e == "dual" and r.chance(0.6):
                    # basis with row norms alive, factorization invalidated, then rows that make the column store move
                    lines.append("chgcoef 0 %d %d %s" % (r.below(nr), r.below(n), q2s(F(r.rint(2, 7)))))
                    for _ in range(2):
                        cols = [j for j in range(n) if r.chance(0.9)] or [0]
                        lines.append("addrow 0 - L %s %d %s" % (q2s(F(r.rint(50, 90))), len(cols), " ".join("%d %s" % (j, q2s(F(r.rint(1, 5)))) for j in cols)))
                        nr += 1
            elif w == "chgcoef":
                lines.append("chgcoef 0 %d %d %s" % (r.below(nr), r.below(n), q2s(F(r.rint(1, 6)))))
            elif w == "chgsense":
                lines.append("chgsense 0 %d %s" % (r.below(nr), r.choice("LG")))
            elif w == "delrow" and nr > 2:
                lines.append("delrow 0 %d" % r.below(nr))
                nr -= 1
            elif w == "norms":
                lines += ["getbasis 0"]
        lines += ["solve 0 dual", "sol 0", "solve 0 exact primal none"]
        out.append(("dense-resolve", lines))
    # the same pattern repeated until the store has certainly been reallocated several times
    for k in range(2 if quick else 60):
        r = rng.fork("normsrealloc%d" % k)
        m, n = r.rint(8, 12), r.rint(16, 24)
        lp = gen.random_lp(r, m=m, n=n, dens=0.9, shapes=["default", "box"], senses="LLG")
        lines = ["new 0 " + lp.line(), "setparam 0 2 7"]
        for rnd in range(6):
            lines += ["solve 0 dual", r.choice(["chgcoef 0 0 0 %d" % (rnd + 2), "chgsense 0 0 L", "chgcoef 0 1 1 %d" % (rnd + 3)])]
            for _ in range(2):
                cols = [j for j in range(n) if r.chance(0.9)] or [0]
                lines.append("addrow 0 - L %s %d %s" % (q2s(F(r.rint(50, 90))), len(cols), " ".join("%d %s" % (j, q2s(F(r.rint(1, 5)))) for j in cols)))
        lines += ["solve 0 dual", "sol 0"]
        out.append(("norms-realloc", lines))
    # malformed input files through the readers
    for k in range(20 if quick else 500):
        r = rng.fork("file%d" % k)
        lp, cn, rn = p_files.named_problem(r)
        base = p_files.build_lines(0, lp, cn, rn)
        out.append(("file", base + ["write 0 LP " + "m.lp".encode().hex(), "write 0 MPS " + "m.mps".encode().hex(), "mutate"]))
    return out


def _raw(block):
    d = dict(t.split("=") for t in proto.get(block, "raw"))
    g = lambda k: [int(v) for v in (proto.get(block, k) or ["0"])[1:]]
    return {k: int(v) for k, v in d.items()}, g("structmap"), g("matbeg"), g("matcnt"), g("matind")


def boundary_histories(exe, rng, count, ev):
    """edit histories steered (by looking at the raw column store after each step) to the points where the free-space
    tests of the coefficient store decide: an added row whose space demand `delta` is exactly / one off the free space,
    a column of exactly / one off the free length, a new coefficient in a column with no room"""
    import itertools
    out = []
    for k in range(count):
        r = rng.fork("b%d" % k)
        m, n = r.rint(3, 6), r.rint(6, 11)
        lp = gen.random_lp(r, m=m, n=n, dens=0.7, shapes=["default", "box"], senses="LG")
        lines = ["new 0 " + lp.line()]
        hit = 0
        for step in range(70):
            if hit >= 5:
                break
            t = proto.run_harness(exe, lines + ["dumpraw 0"], timeout=120)
            if t.crashed:
                break
            raw, smap, beg, cnt, ind = _raw(t[-1][1])
            used = raw["matsize"] - raw["matfree"]
            free = raw["matfree"]
            nst, nrw = raw["nstruct"], raw["nrows"]
            def needs_move(c):
                e = beg[c] + cnt[c]
                return cnt[c] > 0 and (e + 1 > raw["matsize"] or (e < used and ind[e] != -1))
            w = {j: cnt[smap[j]] + 2 for j in range(nst) if needs_move(smap[j])}
            other = [j for j in range(nst) if j not in w]
            done = False
            if w and free <= sum(w.values()) + 1:
                mode = r.choice(["row", "row", "row", "coef"])
                if mode == "row":
                    for d in r.shuffle([0, 0, -1, 1]):
                        target = free + d
                        sums = {0: []}
                        for j, wj in sorted(w.items()):
                            for sm, sub in list(sums.items()):
                                if sm + wj <= target and sm + wj not in sums:
                                    sums[sm + wj] = sub + [j]
                        if target in sums and sums[target]:
                            cols = sums[target]
                            endcol = [j for j in range(nst) if beg[smap[j]] + cnt[smap[j]] == used and cnt[smap[j]] > 0 and j not in cols and j not in w]
                            cols = endcol[:1] + cols + [j for j in other if j not in endcol and r.chance(0.3)]
                            lines.append("addrow 0 - L %s %d %s" % (q2s(F(r.rint(5, 50))), len(cols), " ".join("%d %s" % (j, q2s(F(r.rint(1, 4)))) for j in cols)))
                            hit += 1
                            done = True
                            ev.stat("boundary:addrow delta-free=%+d" % (-d))
                            break
                else:
                    cand = [(j, i) for j in sorted(w) for i in range(nrw) if i not in set(ind[beg[smap[j]]: beg[smap[j]] + cnt[smap[j]]]) and abs(w[j] - free) <= 1]
                    if cand:
                        j, i = r.choice(cand)
                        lines.append("chgcoef 0 %d %d %s" % (i, j, q2s(F(r.rint(1, 4)))))
                        hit += 1
                        done = True
                        ev.stat("boundary:addcoef delta-free=%+d" % (w[j] - free))
            if not done and w and free <= sum(w.values()) + 1 and free > 1:
                # no subset of the columns demands exactly the free space: burn free space with a filler column
                # (an empty column takes one slot, a column with c entries takes c) down to a demand that can be met
                sums = {0}
                for wj in w.values():
                    sums |= {sm + wj for sm in sums}
                below = [sm for sm in sums if 0 < sm < free]
                if below:
                    burn = free - max(below)
                    cnt_new = min(burn, nrw)
                    rows = r.shuffle(list(range(nrw)))[:cnt_new]
                    if cnt_new >= 1 or burn == 1:
                        lines.append("addcol 0 - 0 0 inf %d %s" % (len(rows), " ".join("%d %s" % (i, q2s(F(r.rint(1, 4)))) for i in rows)) if rows else "addcol 0 - 0 0 inf 0")
                        done = "filler"
            if not done and nrw and free <= nrw + 1 and r.chance(0.5):
                want = r.choice([free, free - 1, max(0, free - 2)])
                if 0 <= want <= nrw:
                    rows = r.shuffle(list(range(nrw)))[:want]
                    lines.append("addcol 0 - 1 0 inf %d %s" % (len(rows), " ".join("%d %s" % (i, q2s(F(r.rint(1, 4)))) for i in rows)))
                    hit += 1
                    done = True
                    ev.stat("boundary:addcol len-free=%+d" % (want - free))
            if done == "filler":
                continue
            if not done:
                # consume free space: a (nearly) dense row moves the columns to the end of the store
                cols = [j for j in range(nst) if r.chance(0.85)] or [0]
                lines.append("addrow 0 - G %s %d %s" % (q2s(F(-r.rint(1, 50))), len(cols), " ".join("%d %s" % (j, q2s(F(r.rint(1, 4)))) for j in cols)))
            else:
                lines += ["dumpapi 0", "getcoef 0 %d %d" % (r.below(max(1, nrw)), r.below(max(1, nst)))]
        ev.stat("boundary-ops-placed", hit)
        lines += ["dumpapi 0", "solve 0 primal", "sol 0"]
        out.append(("boundary", lines))
    return out


def run(pid, tier, seed):
    ev = core.Evidence(pid, tier, seed, "proof")
    rep = core.Reporter(pid, seed, ev)
    quick = tier == "quick"
    rng = gen.Rng(seed)
    libdir = build.build()
    exe = build.build_harness(libdir)
    plain_dir = build.build(sanitize=False)
    plain = build.build_harness(plain_dir, sanitize=False)
    translate.generate(libdir)
    pr = core.prove(OBL, thorough=not quick)
    ev.cov["obligations"], ev.cov["discharged"], ev.cov["axioms"] = pr["obligations"], pr["discharged"], pr["axioms"]
    pinf, ninf = solvelib.get_inf(exe)
    from concurrent.futures import ThreadPoolExecutor

    # ------------------------------------------------------------ capacity bookkeeping vs the Cap model
    hjobs = []
    for k in range(3 if quick else 60):
        r = rng.fork("cap%d" % k)
        ops, _ = histrun.gen_history(r, 330 if quick else 700, start_lp=None, weights=histrun.GROW, probes=False)
        lines = ["create 0 min", "dumpraw 0"]
        for o in ops:
            lines += [o, "dumpraw 0"]
        hjobs.append(lines)
    for k in range(20 if quick else 300):
        r = rng.fork("caps%d" % k)
        lp = r.choice([lp for _, lp in lpfam.mixed(r, 4)])
        ops, _ = histrun.gen_history(r, r.rint(5, 40), start_lp=lp, probes=False)
        lines = ["new 0 " + lp.line(), "dumpraw 0"]
        for o in ops:
            lines += [o, "dumpraw 0"]
        hjobs.append(lines)
    with ThreadPoolExecutor(build.NCPU) as ex:
        htrs = list(ex.map(lambda l: proto.run_harness(exe, l, timeout=900), hjobs))
    model = solvelib.Model(pinf, ninf)
    pend = []
    for lines, tr in zip(hjobs, htrs):
        ctx = {"lines": [l for l in lines if not l.startswith("dumpraw")][:400]}
        if tr.crashed:
            at = len(tr)
            rep.violation("library crashed during an edit history at %r: %s" % (lines[at] if at < len(lines) else "?", tr.crashed[-300:]), dict(ctx, stderr=tr.stderr[-1500:]),
                          signature={"symptom": "crash", "battery": "capacity"})
            continue
        raws = [(op, raw_of(blk)) for op, blk in tr if op.startswith("dumpraw")]
        cmds = [op for op, blk in tr if not op.startswith("dumpraw")]
        if any(r is None for _, r in raws):
            continue
        ops, seq = [], []
        for i in range(1, len(raws)):
            a, b = raws[i - 1][1], raws[i][1]
            cmd = cmds[i] if i < len(cmds) else "?"
            if b[0] == a[0] + 1 and b[2] == a[2]:
                ops.append("r")
            elif b[2] == a[2] + 1 and b[0] == a[0]:
                ops.append("c")
            elif b[0] < a[0] and b[2] == a[2]:
                ops.append("dr %d" % (a[0] - b[0]))
            elif b[2] < a[2] and b[0] == a[0]:
                ops.append("dc %d" % (a[2] - b[2]))
            elif b[0] == a[0] and b[2] == a[2]:
                ops.append(None)
            else:
                rep.violation("one call changes row and column counts at once (%s): %s -> %s" % (cmd, a, b), ctx, signature={"symptom": "counts-jump"})
                ops = None
                break
            seq.append((cmd, a, b))
        if ops is None:
            continue
        # a rejected call (duplicate name, bad index) may have grown an array before it was turned down: capacities only grow,
        # counts stay - the bookkeeping model is restarted from the observed state at such a point
        segs, cur_ops, cur_seq, start = [], [], [], raws[0][1]
        for o, (cmd, a, b) in zip(ops, seq):
            if o is None and a != b and a[:4] == b[:4] and all(y >= x for x, y in zip(a[4:], b[4:])):
                ev.stat("cap-resync-after-rejected-call")
                segs.append((start, cur_ops, cur_seq))
                cur_ops, cur_seq, start = [], [], b
                continue
            cur_ops.append(o)
            cur_seq.append((cmd, a, b))
        segs.append((start, cur_ops, cur_seq))
        for start, sops, sseq in segs:
            real = [o for o in sops if o is not None]
            k = model.ask("cap %s %d %s" % (" ".join(map(str, start)), len(real), " ".join(real)))
            pend.append((k, sops, sseq, ctx))
    model.run()
    for k, ops, seq, ctx in pend:
        ans = [e[1] for e in model.ans(k) if e[0] == "s"]
        j = 0
        ev.cov["traces_validated_against_impl"] += 1
        for o, (cmd, a, b) in zip(ops, seq):
            ev.count("cap|" + cmd[:60] + str(a))
            if o is None:
                if a != b:
                    rep.violation("a call that adds or deletes nothing changes a capacity (%s): %s -> %s" % (cmd, a, b), ctx, signature={"symptom": "capacity-differs", "op": cmd.split()[0]})
                    break
                continue
            want = [int(v) for v in ans[j]]
            j += 1
            ev.stat("cap-op:" + o.split()[0])
            if want != b:
                rep.violation("counts / capacities after %r differ from the bookkeeping model: %s, model %s (order %s)" % (cmd, b, want, RAW_KEYS),
                              dict(ctx, correspondence="counts / capacities vs Qsx.Cap (lean/Qsx/Model/Cap.lean)"),
                              signature={"symptom": "capacity-differs", "op": cmd.split()[0]}, found_input=False)
                break
            if not (b[0] <= b[4] and b[1] <= b[5] and b[2] <= b[6] and b[3] <= b[7] and b[1] == b[0] + b[2]):
                rep.violation("a count exceeds its capacity after %r: %s" % (cmd, dict(zip(RAW_KEYS, b))), ctx, signature={"symptom": "count-exceeds-capacity"})
                break

    # ------------------------------------------------------------ sanitizers, memcheck, reproducibility
    bat = battery(rng.fork("battery"), quick)
    # problems with integrality marks (only obtainable through files), copied, columns added to the copy and to the original
    for k in range(10 if quick else 150):
        r = rng.fork("intb%d" % k)
        got = p_c16.int_problem_lines(r, exe)
        if not got:
            continue
        pre, nc, nr = got
        lines = pre + ["dumpapi 0", "copy 0 1"]
        for tgt in (1, 0, 1):
            for _ in range(r.rint(1, 4)):
                lines.append("newcol %d - %s 0 inf" % (tgt, q2s(F(r.rint(-3, 3)))))
            lines += ["dumpapi 0", "dumpapi 1", "write %d LP %s" % (tgt, ("i%d.lp" % tgt).encode().hex()), "getfile " + ("i%d.lp" % tgt).encode().hex()]
        lines += ["delcol 1 0", "newcol 1 - 1 0 inf", "dumpapi 1"]
        bat.append(("int-marks", lines))
    bat += boundary_histories(exe, rng.fork("boundary"), 14 if quick else 120, ev)
    base = "/var/tmp/qsx-c17-%d-%s" % (os.getpid(), seed)
    shutil.rmtree(base, ignore_errors=True)
    os.makedirs(base)
    vg = shutil.which("valgrind")
    setarch = shutil.which("setarch")
    try:
        def prep(i, kind, lines):
            """files for the 'file' transcripts are mutated deterministically from the library's own output"""
            d = os.path.join(base, "t%d" % i)
            os.makedirs(d)
            if kind != "file":
                return d, lines
            t = proto.run_harness(exe, lines[:-1] + ["getfile " + "m.lp".encode().hex(), "getfile " + "m.mps".encode().hex()], timeout=120, cwd=d)
            if t.crashed:
                return d, lines[:-1]
            r = gen.Rng(i * 7919 + 13)
            extra = []
            for name, blk in (("m.lp", t[-2][1]), ("m.mps", t[-1][1])):
                fb = proto.get(blk, "file")
                if not fb or fb[0] in ("missing", "-"):
                    continue
                data = bytearray(bytes.fromhex(fb[0]))
                for _ in range(r.rint(1, 6)):
                    if not data:
                        break
                    w = r.below(4)
                    pos = r.below(len(data))
                    if w == 0:
                        data[pos] = r.below(256)
                    elif w == 1:
                        del data[pos:pos + r.rint(1, 20)]
                    elif w == 2:
                        data[pos:pos] = bytes(r.choice([b" ", b"\n", b"-", b"1e99999", b"RANGES", b"free", b"<=", b"/0", b"\x00", b"9" * 300]))
                    else:
                        data = data[:pos]
                extra += ["putfile %s %s" % (("x" + name).encode().hex(), bytes(data).decode("latin-1").encode("latin-1").hex() or "-"),
                          "readcheck %s %s" % ("LP" if name.endswith("lp") else "MPS", ("x" + name).encode().hex())]
            return d, lines[:-1] + extra
        def work(job):
            i, (kind, lines) = job
            d, lines = prep(i, kind, lines)
            res = {"kind": kind, "lines": lines}
            t0 = proto.run_harness(exe, lines, timeout=900, cwd=d)
            res["san"] = t0
            envs = [{"MALLOC_PERTURB_": "85"}, {"MALLOC_PERTURB_": "170", "MALLOC_ARENA_MAX": "1"}]
            outs = []
            for e in envs:
                d2 = d + "_p%d" % len(outs)
                os.makedirs(d2)
                if kind == "file":
                    pass
                outs.append(proto.run_harness(plain, lines, timeout=900, cwd=d2, env_extra=e))
            if setarch:
                d3 = d + "_noaslr"
                os.makedirs(d3)
                wrapper = os.path.join(d3, "run.sh")
                open(wrapper, "w").write("#!/bin/sh\nexec %s -R %s\n" % (setarch + " " + os.uname().machine, plain))
                os.chmod(wrapper, 0o755)
                outs.append(proto.run_harness(["/bin/sh", wrapper], lines, timeout=900, cwd=d3, env_extra={"MALLOC_PERTURB_": "3"}))   # not exec'ed itself: ETXTBSY race with forks of other threads
            res["plain"] = outs
            if vg and (i % (12 if quick else 5) == 0) and (kind not in ("long-edit", "norms-realloc", "dense-resolve", "boundary") or not quick):
                d4 = d + "_vg"
                os.makedirs(d4)
                wrapper = os.path.join(d4, "run.sh")
                open(wrapper, "w").write("#!/bin/sh\nexec %s -q --error-exitcode=97 --track-origins=no --child-silent-after-fork=no %s\n" % (vg, plain))
                os.chmod(wrapper, 0o755)
                res["vg"] = proto.run_harness(["/bin/sh", wrapper], lines, timeout=1800, cwd=d4)
            for dd in (d, d + "_p0", d + "_p1", d + "_noaslr", d + "_vg"):
                shutil.rmtree(dd, ignore_errors=True)
            return res
        with ThreadPoolExecutor(build.NCPU) as ex:
            results = list(ex.map(work, list(enumerate(bat))))
    finally:
        shutil.rmtree(base, ignore_errors=True)
    for res in results:
        kind, lines = res["kind"], res["lines"]
        ctx = {"lines": lines[:300]}
        ev.stat("battery:" + kind)
        ev.count("bat|" + "|".join(lines)[:2000])
        t0 = res["san"]
        if t0.crashed:
            at = len(t0)
            rep.violation("sanitizer build: the library crashed / a sanitizer fired at %r: %s" % (lines[at][:80] if at < len(lines) else "?", t0.crashed[-400:]),
                          dict(ctx, stderr=t0.stderr[-2000:]), signature={"symptom": "sanitizer", "battery": kind, "op": (lines[at].split()[0] if at < len(lines) else "?"), "cause": core.crash_cause(t0.stderr)})
            continue
        ev.stat("sanitizer-clean-transcripts")
        outs = res["plain"]
        ref = t0.raw
        for n, o in enumerate(outs):
            if o.crashed:
                rep.violation("plain build run %d crashed where the sanitizer build did not: %s" % (n, o.crashed[-300:]), ctx, signature={"symptom": "plain-crash", "battery": kind})
                break
            if o.raw != ref:
                a, b = ref.split("\n"), o.raw.split("\n")
                k = next((i for i in range(min(len(a), len(b))) if a[i] != b[i]), min(len(a), len(b)))
                rep.violation("the transcript is not reproducible (run %d: %s): first difference at output line %d: %r vs %r" %
                              (n, ["allocator fill 0x55", "allocator fill 0xAA, one arena", "no address-space randomisation"][n], k, a[k][:150] if k < len(a) else "", b[k][:150] if k < len(b) else ""),
                              ctx, signature={"symptom": "not-reproducible", "battery": kind})
                break
        else:
            ev.stat("reproduced-runs", len(outs))
        if "vg" in res:
            v = res["vg"]
            ev.stat("memcheck-transcripts")
            if v.returncode == 97 or "Invalid read" in v.stderr or "Invalid write" in v.stderr or "uninitialised" in v.stderr:
                for cause in memcheck_cause(v.stderr):
                    rep.violation("Valgrind memcheck reports an error (%s): %s" % (cause, v.stderr[-600:]), dict(ctx, stderr=v.stderr[-3000:]),
                                  signature={"symptom": "memcheck", "cause": cause})
            elif not v.crashed and v.raw != ref:
                rep.violation("the transcript under Valgrind differs from the native one", ctx, signature={"symptom": "not-reproducible", "battery": kind, "how": "valgrind"})

    if pr["failed"]:
        for thm, why in pr["failed"]:
            rep.violation("proof obligation %s no longer checks: %s" % (thm, why), {"theorem": thm, "why": why, "log": pr["log"][-3000:]},
                          signature={"theorem": thm}, found_input=False)
    ev.cov["rule"] = ("(proved + tied) counts and capacities after every call of add-heavy histories == Cap model, count <= capacity; (observed) battery of multi-object interleavings, "
                      "solves with warm restarts / tableau calls / file round trips, long edit histories and mutated LP / MPS inputs: clean under ASan+UBSan, a subset clean under "
                      "Valgrind memcheck, and byte-identical transcripts across the sanitizer build and three plain-build runs (allocator fill 0x55 / 0xAA + single arena / no ASLR)")
    ev.assumptions += ["memory safety beyond the size bookkeeping and reproducibility are observations on the generated battery, not theorems (runtime behaviour the model cannot exhibit)",
                       "every other check also runs on the sanitizer build and reports crashes under its own property"]
    ev.write()
    return rep.finish()
