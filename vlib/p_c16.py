"""C16: copies are faithful and independent; reduced-precision copies agree up to conversion error.

proof:  Props.C16 — in the store-of-objects model (Qsx.Multi: reference editing semantics per
        object, copy, free) a copy shows the original's data, no command changes what another
        object shows, and a copy keeps showing the data of copy time under every later command
        sequence on other objects; within-one-ulp (Qsx.Round.ulpOK) implies a relative error of at
        most 2^(1-p) and maps zeros to zeros.
tie:    (a) interleavings of edits / copies / frees / solves on up to four objects: after every
            command every live object's query-API dump is compared with the model driver's slots
            (same protocol lines), and - model-free - with its own dump before the command when
            the command addressed another object;
        (b) right after QScopy_prob: data, names, sense, integrality marks, objective name and
            the integer / rational parameters of copy and original are equal;
        (c) QScopy_prob_mpq_dbl / _mpq_mpf: structure, senses, order and integer parameters equal,
            every number passes the Lean conversion check at 53 bits resp. the working precision,
            infinite bounds map to the target type's infinity.
"""
import copy as pycopy
from fractions import Fraction as F
from . import build, proto, core, gen, translate, solvelib, lpfam, hist, histrun
from .gen import q2s, s2q, LP, INF, NINF

OBL = [("Qsx.Props.C16", "Qsx.Props.C16." + t) for t in
       ["copy_faithful", "copy_independent", "original_independent", "objects_isolated", "conversion_relative_error", "conversion_zero"]]
NSL = 4
IPAR = [0, 2, 4, 5, 7]      # primal pricing, dual pricing, display, max iterations, scaling
DUMP_KEYS = ("api", "nzcount", "colnames", "rownames", "intflags", "objname")


def hx(s):
    return s.encode().hex() if s else "-"


def gen_session(rng, quick):
    """lines + bookkeeping: which slot each command addresses"""
    lines, target = [], []
    mir = [None] * NSL
    seeds = [lp for _, lp in lpfam.mixed(rng.fork("seeds"), 6)]
    def start(k):
        lp = rng.choice(seeds + [None])
        if lp is None:
            lines.append("create %d %s" % (k, rng.choice(["min", "max"])))
            mir[k] = hist.Mirror()
        else:
            lines.append("new %d %s" % (k, lp.line()))
            mir[k] = hist.Mirror(lp)
        target.append(k)
    start(0)
    for _ in range(rng.rint(6, 30)):
        live = [k for k in range(NSL) if mir[k] is not None]
        w = rng.wchoice([("edit", 50), ("copy", 14), ("free", 5), ("solve", 8), ("start", 4), ("param", 6)])
        if w == "edit":
            k = rng.choice(live)
            line, valid, kind = hist.gen_op(rng, mir[k], slot=k, p_invalid=0.05)
            lines.append(line); target.append(k)
        elif w == "copy":
            a = rng.choice(live)
            b = rng.choice([k for k in range(NSL) if k != a])
            lines.append("copy %d %d" % (a, b)); target.append(b)
            mir[b] = pycopy.deepcopy(mir[a])
            if rng.chance(0.5):
                # equal problems with equal parameters must be solved alike
                e = rng.choice(["primal", "dual", "dual"])
                lines.append("solve %d %s" % (a, e)); target.append(a)
                lines.append("solve %d %s" % (b, e)); target.append(b)
        elif w == "free" and len(live) > 1:
            k = rng.choice(live)
            lines.append("free %d" % k); target.append(k)
            mir[k] = None
        elif w == "solve":
            k = rng.choice(live)
            lines.append("solve %d %s" % (k, rng.choice(["primal", "dual", "exact primal none"]))); target.append(k)
        elif w == "start":
            dead = [k for k in range(NSL) if mir[k] is None]
            if dead:
                start(rng.choice(dead))
        elif w == "param":
            k = rng.choice(live)
            pid, val = rng.choice([(0, rng.choice([1, 2, 3, 4])), (2, rng.choice([6, 7, 8, 9])), (5, rng.rint(1, 5000)), (7, rng.choice([0, 1])), (4, 0)])
            lines.append("setparam %d %d %d" % (k, pid, val)); target.append(k)
            if rng.chance(0.4):
                lines.append("setlim %d %s %s" % (k, rng.choice("UL"), q2s(rng.rat()))); target.append(k)
    return lines, target


def with_all_dumps(lines, target):
    """after every command: dump every live slot (tracked), params of live slots after copies"""
    out, meta = [], []
    live = set()
    for ln, tg in zip(lines, target):
        t = ln.split()
        out.append(ln); meta.append(("cmd", tg, ln))
        if t[0] in ("create", "new", "copy"):
            live.add(tg)
        elif t[0] == "free":
            live.discard(tg)
        for k in sorted(live):
            out.append("dumpapi %d" % k); meta.append(("dump", k, ln))
        if t[0] == "copy":
            a = int(t[1])
            for k in (a, tg):
                out.append("qparams %d" % k); meta.append(("params", k, ln))
    return out, meta


def int_problem_lines(rng, exe):
    """a problem with integrality marks in slot 0 (only obtainable through a file), or None"""
    lp = gen.random_lp(rng, m=rng.rint(1, 4), n=rng.rint(2, 6), dens=0.7)
    if not lp.rows or not any(r[3] for r in lp.rows):
        return None
    pre = ["new 0 " + lp.line(), "write 0 LP " + hx("i.lp"), "getfile " + hx("i.lp")]
    t0 = proto.run_harness(exe, pre, timeout=120)
    fb = proto.get(t0[-1][1], "file") if len(t0) == 3 else None
    if not fb or fb[0] in ("missing", "-"):
        return None
    text = bytes.fromhex(fb[0]).decode("latin-1")
    names = ["x%d" % j for j in range(len(lp.cols))]
    body = text.split("\nBounds\n")[0]
    present = [n for n in names if (" " + n + " ") in body.replace("\n", " \n") or (" " + n + "\n") in body]
    if len(present) != len(names):
        return None          # a column that appears in no row and not in the objective cannot be named in the Bounds section
    ints = [n for n in present if rng.chance(0.5)] or present[:1]
    if not ints:
        return None
    extra = "".join(" 0 <= %s\n" % n for n in ints if lp.cols[int(n[1:])][1] == 0 and lp.cols[int(n[1:])][2] == INF)
    if "\nBounds\n" in text:
        text = text.replace("\nBounds\n", "\nBounds\n" + extra, 1)
    elif extra:
        text = text.replace("\nEnd", "\nBounds\n" + extra + "End", 1)
    text = text.replace("\nEnd", "\nInteger\n" + "".join(" %s\n" % n for n in ints) + "End", 1)
    return ["putfile %s %s" % (hx("i2.lp"), hx(text)), "read 0 LP " + hx("i2.lp")], len(lp.cols), len(lp.rows)


def run(pid, tier, seed):
    ev = core.Evidence(pid, tier, seed, "proof")
    rep = core.Reporter(pid, seed, ev)
    quick = tier == "quick"
    rng = gen.Rng(seed)
    libdir = build.build()
    exe = build.build_harness(libdir)
    translate.generate(libdir)
    pr = core.prove(OBL, thorough=not quick)
    ev.cov["obligations"], ev.cov["discharged"], ev.cov["axioms"] = pr["obligations"], pr["discharged"], pr["axioms"]
    pinf, ninf = solvelib.get_inf(exe)
    from concurrent.futures import ThreadPoolExecutor

    # ------------------------------------------------------------ (a)+(b) interleavings on several objects
    sessions = []
    for k in range(150 if quick else 3000):
        r = rng.fork("sess%d" % k)
        lines, target = gen_session(r, quick)
        sessions.append(with_all_dumps(lines, target) + (lines,))
    for k in range(80 if quick else 1500):
        r = rng.fork("lim%d" % k)
        lp = gen.random_lp(r, m=r.rint(1, 4), n=r.rint(1, 4), dens=0.8, shapes=["box", "default", "box"])
        lp.sense = r.choice(["min", "max"])
        lines = ["new 0 " + lp.line(), "setlim 0 %s %s" % (r.choice("UL"), q2s(F(r.rint(-12, 12), r.choice([1, 2])))), "setparam 0 2 %d" % r.choice([6, 7, 9]),
                 "copy 0 1"]
        e = r.choice(["dual", "dual", "primal"])
        lines += ["solve 0 " + e, "solve 1 " + e]
        target = [0, 0, 0, 1, 0, 1]
        sessions.append(with_all_dumps(lines, target) + (lines,))
    def work(s):
        return proto.run_harness(exe, s[0], timeout=600)
    with ThreadPoolExecutor(build.NCPU) as ex:
        ctrs = list(ex.map(work, sessions))
    def mwork(chunk):
        return [proto.run_model([l for l in s[0] if not l.startswith(("solve", "setparam", "setlim", "qparams"))]) for s in chunk]
    with ThreadPoolExecutor(build.NCPU) as ex:
        mtrs = sum(ex.map(mwork, core.chunks(sessions, build.NCPU)), [])
    for (lines, meta, cmds), ctr, mtr in zip(sessions, ctrs, mtrs):
        ev.count("|".join(cmds), nontrivial=any(c.startswith("copy") for c in cmds))
        for c in cmds:
            ev.stat("cmd:" + c.split()[0])
        ctx = {"lines": cmds}
        if ctr.crashed:
            at = len(ctr)
            bad = meta[at][2] if at < len(meta) else "?"
            rep.violation("library crashed in an interleaving on several problem objects at %r: %s" % (bad, ctr.crashed[-400:]), dict(ctx, stderr=ctr.stderr[-1500:]),
                          signature={"symptom": "crash", "op": bad.split()[0], "cause": core.crash_cause(ctr.stderr)})
            continue
        # model-free independence: a command addressed to slot t leaves the dump of every other slot unchanged
        last = {}
        bad = None
        for (kind, k, cmd), (op, blk) in zip(meta, ctr):
            if kind == "dump":
                cur = {key: proto.get(blk, key) for key in DUMP_KEYS}
                tgt = None
                # which slot did `cmd` address?
                t = cmd.split()
                tgt = int(t[2]) if t[0] == "copy" else int(t[1])
                if k in last and k != tgt and last[k] != cur and bad is None:
                    dk = [key for key in DUMP_KEYS if last[k][key] != cur[key]]
                    bad = (cmd, k, dk, last[k], cur)
                last[k] = cur
            elif kind == "cmd" and cmd.split()[0] == "free":
                last.pop(k, None)
        if bad:
            cmd, k, dk, before, after = bad
            rep.violation("%r changed what problem object %d shows (%s): before %s, after %s" % (cmd, k, ",".join(dk), str(before[dk[0]])[:200], str(after[dk[0]])[:200]), ctx,
                          signature={"symptom": "not-independent", "op": cmd.split()[0], "key": dk[0]})
            continue
        # faithful: after "copy a b" the dumps and parameters of a and b agree
        i = 0
        blocks = list(zip(meta, ctr))
        for idx, ((kind, k, cmd), (op, blk)) in enumerate(blocks):
            if kind == "cmd" and cmd.split()[0] == "copy" and proto.get(blk, "rc") == ["0"]:
                a, b = int(cmd.split()[1]), int(cmd.split()[2])
                d = {}
                for (kd, kk, c2), (_, b2) in blocks[idx + 1:]:
                    if c2 != cmd:
                        break
                    d[(kd, kk)] = b2
                if ("dump", a) in d and ("dump", b) in d:
                    ev.stat("copies-compared")
                    for key in DUMP_KEYS:
                        if proto.get(d[("dump", a)], key) != proto.get(d[("dump", b)], key):
                            rep.violation("the copy differs from the original right after QScopy_prob in %s: original %s, copy %s" %
                                          (key, str(proto.get(d[("dump", a)], key))[:200], str(proto.get(d[("dump", b)], key))[:200]), dict(ctx, at=cmd),
                                          signature={"symptom": "copy-differs", "key": key})
                            break
                    pa, pb = d.get(("params", a)), d.get(("params", b))
                    if pa is not None and pb is not None:
                        for key in ("iparams", "qparams"):
                            if proto.get(pa, key) != proto.get(pb, key):
                                rep.violation("the copy has other parameters than the original (%s): original %s, copy %s" % (key, proto.get(pa, key), proto.get(pb, key)),
                                              dict(ctx, at=cmd), signature={"symptom": "copy-params-differ", "key": key, "which": [x != y for x, y in zip(proto.get(pa, key), proto.get(pb, key))].index(True)})
        # paired solves right after a copy: same status and value
        for idx in range(len(blocks) - 1):
            (kd, ka, ca), (_, ba) = blocks[idx]
            if kd != "cmd" or not ca.startswith("solve "):
                continue
            nxt = next(((c2, b2) for (kd2, k2, c2), (_, b2) in blocks[idx + 1:] if kd2 == "cmd"), None)
            prev = next((c0 for (kd0, k0, c0), _ in reversed(blocks[:idx]) if kd0 == "cmd"), "")
            if nxt is None or not prev.startswith("copy ") or not nxt[0].startswith("solve ") or nxt[0].split()[2:] != ca.split()[2:]:
                continue
            if prev.split()[1:3] != [ca.split()[1], nxt[0].split()[1]]:
                continue          # the two solves are not "original, then its fresh copy"
            ra = (proto.get(ba, "rval"), proto.get(ba, "status"), proto.get(ba, "objval") if proto.get(ba, "status") == ["1"] else None)
            rb = (proto.get(nxt[1], "rval"), proto.get(nxt[1], "status"), proto.get(nxt[1], "objval") if proto.get(nxt[1], "status") == ["1"] else None)
            ev.stat("paired-solves")
            ev.stat("paired-solve-status:%s" % (ra[1][0] if ra[1] else "?"))
            sa, sb = (ra[1] or ["?"])[0], (rb[1] or ["?"])[0]
            definitive = ("1", "2", "3")
            # OPTIMAL on one side and OBJ_LIMIT on the other: which of the two a run reports depends on its path (warm or cold
            # start, primal or dual pivots), but OBJ_LIMIT is only a legitimate early stop when the optimum lies beyond a limit.
            # So the pair is consistent iff the reported optimal value is outside the open interval of the original's limits
            # (taken from the parameter dump made right after the copy); a copy with garbled limits shows up here.
            objlim_clash = False
            if {sa, sb} == {"1", "9"}:
                val = (ra[2] if sa == "1" else rb[2]) or ["1", "0"]
                qp = next((proto.get(b0, "qparams") for (kd0, k0, c0), (_, b0) in reversed(blocks[:idx]) if kd0 == "params" and str(k0) == ca.split()[1] and proto.get(b0, "qparams")), None)
                if val[0] == "0" and qp and len(qp) >= 3:
                    v = gen.s2q(val[1])
                    up = None if qp[1] in ("inf", "err") else gen.s2q(qp[1])
                    lo = None if qp[2] in ("-inf", "err") else gen.s2q(qp[2])
                    objlim_clash = (up is None or v < up) and (lo is None or v > lo)
            differs = ra[0] != rb[0] or (sa in definitive and sb in definitive and ra != rb) or objlim_clash
            if ra != rb and not differs:
                # a fresh copy starts from scratch while the original may continue from its last basis: iteration / time limits,
                # UNSOLVED, and OBJ_LIMIT versus INFEASIBLE / UNBOUNDED are not statements about the problem
                ev.stat("paired-solve-nondefinitive-difference:%s" % "/".join(sorted([sa, sb])))
            if differs:
                rep.violation("original and copy are solved differently right after the copy (%s): original %s, copy %s" % (" ".join(ca.split()[2:]), ra, rb), dict(ctx, at=prev),
                              signature={"symptom": "copy-solves-differently", "entry": ca.split()[2], "statuses": "/".join(sorted([sa, sb]))})
                break
        # model tie
        ev.cov["traces_validated_against_impl"] += 1
        if mtr.crashed:
            rep.violation("model driver failed: " + mtr.crashed, ctx, signature={"symptom": "model-crash"}, found_input=False)
            continue
        cb = [(op, blk) for op, blk in ctr if not op.startswith(("solve", "setparam", "setlim", "qparams"))]
        div = histrun.first_divergence(cb, mtr)
        if div is not None:
            i, key, cv, mv = div
            rep.violation("after %r the library's objects differ from the store-of-objects model at %r: %s C=%s model=%s" %
                          (cb[i][0] if cb[i][0].split()[0] != "dumpapi" else "(see lines)", cb[i][0], key, " ".join(cv or ["-"])[:200], " ".join(mv or ["-"])[:200]),
                          dict(ctx, first_divergence=cb[i][0]), signature={"symptom": "model-differs", "key": key})

    # ------------------------------------------------------------ integrality marks (C-only: model-free faithful + independent)
    ijobs = []
    for k in range(40 if quick else 500):
        r = rng.fork("int%d" % k)
        got = int_problem_lines(r, exe)
        if not got:
            continue
        pre, nc, nr = got
        m = hist.Mirror(LP("min", [[F(0), F(0), INF]] * nc, [["L", F(0), F(0), []]] * nr))
        lines = pre + ["dumpapi 0", "copy 0 1", "dumpapi 0", "dumpapi 1"]
        # edit the copy (adding columns first: the marks array has to grow with the column arrays), then the original
        for tgt in (1, 0):
            mm = pycopy.deepcopy(m)
            for _ in range(r.rint(2, 8)):
                line, valid, kind = hist.gen_op(r, mm, slot=tgt, p_invalid=0.0, weights={"addcol": 30, "newcol": 30, "delcol": 10, "chgbound": 5, "addrow": 5, "chgcoef": 5})
                lines.append(line)
            lines += ["dumpapi 0", "dumpapi 1"]
        lines += ["free 0", "dumpapi 1", "solve 1 primal"]
        ijobs.append(lines)
    with ThreadPoolExecutor(build.NCPU) as ex:
        itrs = list(ex.map(lambda l: proto.run_harness(exe, l, timeout=300), ijobs))
    for lines, tr in zip(ijobs, itrs):
        ev.stat("int-sessions")
        ev.count("|".join(lines))
        ctx = {"lines": lines}
        if tr.crashed and getattr(tr, "returncode", 0) == 3 and len(tr) <= 3:
            ev.stat("int-sessions-file-not-readable")
            continue
        if tr.crashed:
            at = len(tr)
            rep.violation("library crashed while working with a copy of a problem with integrality marks at %r: %s" % (lines[at] if at < len(lines) else "?", tr.crashed[-300:]),
                          dict(ctx, stderr=tr.stderr[-1500:]), signature={"symptom": "crash-intmarks", "op": (lines[at].split()[0] if at < len(lines) else "?")})
            continue
        dumps = [(op, blk) for op, blk in tr if op.startswith("dumpapi")]
        if len(dumps) >= 3:
            o, c = dumps[1][1], dumps[2][1]
            ev.stat("int-marked-columns", sum(1 for v in (proto.get(o, "intflags") or ["0"])[1:] if v == "1"))
            for key in DUMP_KEYS:
                if proto.get(o, key) != proto.get(c, key):
                    rep.violation("the copy of a problem with integrality marks differs from the original in %s: original %s, copy %s" %
                                  (key, str(proto.get(o, key))[:200], str(proto.get(c, key))[:200]), ctx, signature={"symptom": "copy-differs", "key": key})
                    break
        if len(dumps) >= 7:
            # integrality marks follow the columns: a deleted column takes its mark with it, a new column is continuous
            def expect_flags(flags, tgt):
                flags = list(flags)
                for l in lines:
                    t = l.split()
                    if len(t) > 2 and t[0] in ("addcol", "newcol") and t[1] == str(tgt):
                        flags.append("0")
                    elif len(t) > 2 and t[0] == "delcol" and t[1] == str(tgt) and int(t[2]) < len(flags):
                        del flags[int(t[2])]
                return flags
            f0 = (proto.get(dumps[1][1], "intflags") or ["0"])[1:]
            for tgt, dump in ((1, dumps[4][1]), (0, dumps[5][1])):
                got = (proto.get(dump, "intflags") or ["0"])[1:]
                want = expect_flags(f0, tgt)
                if got != want and len(got) == len(want):
                    rep.violation("integrality marks after adding / deleting columns are %s, expected %s (marks move with their columns, new columns are continuous)" %
                                  ("".join(got), "".join(want)), ctx, signature={"symptom": "intflags-after-edit"})
                    break
            # after editing the copy (dumps[3], dumps[4]) the original still equals dumps[1]; after editing the original (dumps[5], dumps[6]) the copy equals dumps[4]
            for key in DUMP_KEYS:
                if proto.get(dumps[3][1], key) != proto.get(dumps[1][1], key):
                    rep.violation("editing the copy changed the original (%s)" % key, ctx, signature={"symptom": "not-independent", "key": key, "op": "edit-copy"})
                    break
                if proto.get(dumps[6][1], key) != proto.get(dumps[4][1], key):
                    rep.violation("editing the original changed the copy (%s)" % key, ctx, signature={"symptom": "not-independent", "key": key, "op": "edit-original"})
                    break
            if len(dumps) >= 8:
                for key in DUMP_KEYS:
                    if proto.get(dumps[7][1], key) != proto.get(dumps[6][1], key):
                        rep.violation("freeing the original changed the copy (%s)" % key, ctx, signature={"symptom": "not-independent", "key": key, "op": "free"})
                        break

    # ------------------------------------------------------------ (b') cold pairs: a never-solved problem with an objective limit and its copy
    # start from the same state, so the same algorithm must give the same answer - including "objective limit reached"
    cjobs = []
    cr = rng.fork("coldpairs")
    for k in range(120 if quick else 1500):
        lp = gen.random_lp(cr, m=cr.rint(2, 6), n=cr.rint(2, 6), dens=0.7, shapes=["box", "default", "box", "default", "upper"])
        lp.sense = cr.choice(["min", "max"])
        lines = ["new 0 " + lp.line()]
        for _ in range(cr.rint(1, 2)):
            lines.append("setlim 0 %s %s" % (cr.choice("UL"), q2s(F(cr.rint(-30, 30), cr.choice([1, 2, 3])))))
        lines += ["copy 0 1", "qparams 0", "qparams 1"]
        alg = cr.choice(["primal", "dual", "dual"])
        lines += ["solve 0 " + alg, "solve 1 " + alg]
        cjobs.append(lines)
    with ThreadPoolExecutor(build.NCPU) as ex:
        ctrs = list(ex.map(lambda l: proto.run_harness(exe, l, timeout=300), cjobs))
    for lines, tr in zip(cjobs, ctrs):
        ev.stat("cold-pairs")
        ev.count("|".join(lines))
        if tr.crashed or len(tr) < len(lines):
            rep.violation("library crashed on a fresh problem with an objective limit and its copy: " + (tr.crashed or "")[-300:], {"lines": lines, "stderr": tr.stderr[-1500:]},
                          signature={"symptom": "crash", "op": "cold-pair"})
            continue
        ba, bb = tr[-2][1], tr[-1][1]
        ra = (proto.get(ba, "rval"), proto.get(ba, "status"), proto.get(ba, "objval") if proto.get(ba, "status") == ["1"] else None)
        rb = (proto.get(bb, "rval"), proto.get(bb, "status"), proto.get(bb, "objval") if proto.get(bb, "status") == ["1"] else None)
        ev.stat("cold-pair-status:%s" % (ra[1][0] if ra[1] else "?"))
        if ra != rb:
            rep.violation("a never-solved problem and its copy are solved differently by the same algorithm: original %s, copy %s" % (ra, rb), {"lines": lines},
                          signature={"symptom": "cold-pair-differs", "statuses": "/".join(sorted([(ra[1] or ["?"])[0], (rb[1] or ["?"])[0]]))})

    # ------------------------------------------------------------ (c) reduced-precision copies
    lps = lpfam.mixed(rng.fork("lowprec"), 150 if quick else 3000)
    lps += [("empty", LP("min", [], [])), ("cols only", LP("max", [[F(1, 3), NINF, F(2, 7)], [F(0), F(0), INF]], [])),
            ("empty rows", LP("min", [[F(1), F(0), INF]], [["L", F(1, 3), F(0), []], ["R", F(-2, 3), F(5, 7), []]]))]
    lps += [("denominators", LP("min", [[F(1, 3 ** k), F(-1, 7 ** k), F(10 ** k, 3)] for k in range(1, 12)],
                                [["R", F(2, 3 ** 30), F(1, 10 ** 20), [(j, F(1, 3 ** (j + 1))) for j in range(11)]]]))]
    # values of ordinary size whose numerator and denominator are very long (beyond 53 and beyond 1024 bits): the conversion has to
    # look at the quotient, not at the two parts
    def longq(r):
        k = r.choice([18, 25, 60, 120, 310, 330, 400])
        kind = r.choice(["near1", "third", "rand"])
        if kind == "near1":
            return F(10 ** k + r.rint(1, 9), 10 ** k) * r.choice([1, -1, 7])
        if kind == "third":
            return F(10 ** k + 1, 3 * 10 ** k + r.rint(1, 5))
        return F(r.rint(10 ** (k - 1), 10 ** k), r.rint(10 ** (k - 1), 10 ** k) | 1) * r.choice([1, -1])
    for k in range(8 if quick else 150):
        r = rng.fork("longparts%d" % k)
        n, m = r.rint(1, 4), r.rint(1, 3)
        cols = [[longq(r), -abs(longq(r)), abs(longq(r)) + 1] if r.chance(0.7) else [longq(r), NINF, INF] for _ in range(n)]
        rows = [[r.choice("LGE"), longq(r), F(0), [(j, longq(r)) for j in range(n) if r.chance(0.8)]] for _ in range(m)]
        lps.append(("longparts", LP(r.choice(["min", "max"]), cols, rows)))
    def moderate(lp):
        nums = [v for c in lp.cols for v in c if v not in (INF, NINF)] + [v for r in lp.rows for v in (r[1], r[2])] + [a for r in lp.rows for _, a in r[3]]
        return all(v == 0 or F(1, 2 ** 900) < abs(F(v)) < F(2 ** 900) for v in nums)
    lps = [(k, lp) for k, lp in lps if moderate(lp)]
    ljobs = []
    for kind, lp in lps:
        r = rng.fork("lp" + lp.line()[:200])
        prec = r.choice([64, 128, 192, 256])
        pre = ["new 0 " + lp.line()] if (lp.cols or lp.rows) else ["create 0 " + lp.sense]
        if r.chance(0.5):
            pre += ["setparam 0 0 %d" % r.choice([1, 2, 3, 4]), "setparam 0 2 %d" % r.choice([6, 7, 8, 9]), "setparam 0 5 %d" % r.rint(1, 9999), "setparam 0 7 %d" % r.choice([0, 1]),
                    "setlim 0 U %s" % q2s(r.rat()), "setlim 0 L %s" % q2s(-abs(r.rat()) - 1)]
        ljobs.append((kind, lp, prec, pre + ["dumpapi 0", "qparams 0", "copydbl 0", "setprec %d" % prec, "copympf 0", "dumpapi 0"]))
    with ThreadPoolExecutor(build.NCPU) as ex:
        ltrs = list(ex.map(lambda j: proto.run_harness(exe, j[3], timeout=300), ljobs))
    model = solvelib.Model(pinf, ninf)
    pend = []
    for (kind, lp, prec, lines), tr in zip(ljobs, ltrs):
        ctx = {"lp": lp.line()[:5000], "lines": lines}
        ev.stat("lowprec:" + kind.split()[0])
        ev.count("lowprec|" + lp.line()[:500])
        if tr.crashed:
            rep.violation("library crashed while making a reduced-precision copy: " + tr.crashed[-300:], dict(ctx, stderr=tr.stderr[-1500:]), signature={"symptom": "crash-lowprec"})
            continue
        blocks = {op.split()[0]: blk for op, blk in tr}
        first_dump = next(blk for op, blk in tr if op.startswith("dumpapi"))
        last_dump = [blk for op, blk in tr if op.startswith("dumpapi")][-1]
        if proto.get(first_dump, "api") != proto.get(last_dump, "api"):
            rep.violation("making reduced-precision copies changed the rational problem", ctx, signature={"symptom": "lowprec-changes-original"})
        orig = proto.get(first_dump, "api")
        qpar = blocks.get("qparams")
        for which, p in (("dbl", 53), ("mpf", prec)):
            blk = blocks.get("copy" + which)
            got = proto.get(blk, which) if blk else None
            if got is None or got == ["err"]:
                rep.violation("QScopy_prob_mpq_%s fails on a valid problem" % which, ctx, signature={"symptom": "lowprec-fails", "which": which})
                continue
            if which == "mpf" and proto.get(blk, "prec") != [str(prec)]:
                ev.stat("mpf-precision-differs")
            # same token positions: structure, senses, indices identical; numbers compared through the conversion check
            if len(got) != len(orig):
                rep.violation("the %s copy has another structure than the rational problem (%d vs %d tokens)" % (which, len(got), len(orig)), ctx,
                              signature={"symptom": "lowprec-structure", "which": which})
                continue
            it = iter(range(len(orig)))
            pairs, struct_bad = [], None
            # walk the lp line: lp sense nc nr | nc*(obj lo up) | nr*(sense rhs range k k*(j a))
            pos = 4
            nc, nr = int(orig[2]), int(orig[3])
            if got[:4] != orig[:4]:
                struct_bad = "header %s vs %s" % (got[:4], orig[:4])
            numpos = []
            for j in range(nc):
                numpos += [pos, pos + 1, pos + 2]; pos += 3
            for i in range(nr):
                if got[pos] != orig[pos]:
                    struct_bad = struct_bad or "sense of row %d: %s vs %s" % (i, got[pos], orig[pos])
                numpos += [pos + 1, pos + 2]
                k = int(orig[pos + 3])
                if got[pos + 3] != orig[pos + 3]:
                    struct_bad = struct_bad or "count of row %d" % i
                    break
                pos += 4
                for _ in range(k):
                    if got[pos] != orig[pos]:
                        struct_bad = struct_bad or "column index in row %d" % i
                    numpos.append(pos + 1); pos += 2
            if struct_bad:
                rep.violation("the %s copy differs structurally from the rational problem: %s" % (which, struct_bad), ctx, signature={"symptom": "lowprec-structure", "which": which})
                continue
            inf_bad = [(orig[q], got[q]) for q in numpos if (orig[q] in ("inf", "-inf") or got[q] in ("inf", "-inf")) and orig[q] != got[q]]
            if inf_bad:
                rep.violation("an infinite bound is not mapped to the %s infinity (or a finite number is): %s -> %s" % (which, inf_bad[0][0], inf_bad[0][1]), ctx,
                              signature={"symptom": "lowprec-infinity", "which": which})
                continue
            prs = [(orig[q], got[q]) for q in numpos if orig[q] not in ("inf", "-inf")]
            import re as _re
            notnum = [pr_ for pr_ in prs if not _re.fullmatch(r"-?\d+(/\d+)?", pr_[1])]
            if notnum:
                rep.violation("a number of the %s copy is not a number: %s -> %s" % (which, notnum[0][0][:80], notnum[0][1][:40]), dict(ctx, pair=list(notnum[0])),
                              signature={"symptom": "lowprec-conversion", "which": which})
                continue
            # parameters: integer ones identical, rational ones through the conversion check (limits at +-infinity compared as numbers)
            if qpar is not None:
                if proto.get(qpar, "iparams") != proto.get(blk, "iparams"):
                    rep.violation("the %s copy has other integer parameters %s than the rational problem %s" % (which, proto.get(blk, "iparams"), proto.get(qpar, "iparams")), ctx,
                                  signature={"symptom": "lowprec-iparams", "which": which})
                for a, b in zip(proto.get(qpar, "qparams"), proto.get(blk, "qparams")):
                    a2 = pinf if a == "inf" else ninf if a == "-inf" else a
                    b2 = pinf if b == "inf" else ninf if b == "-inf" else b
                    prs.append((a2, b2))
            if prs:
                kq = model.ask("conv %d %d %s" % (p, len(prs), " ".join("%s %s" % pr_ for pr_ in prs)))
                pend.append((kq, which, p, prs, ctx))
    model.run()
    for kq, which, p, prs, ctx in pend:
        a = proto.get(model.ans(kq), "conv")
        ev.cov["traces_validated_against_impl"] += 1
        ev.stat("numbers-converted:" + which, len(prs))
        if a is None:
            raise RuntimeError("model driver rejected a conv line")
        if a[1] != "0":
            i = int(a[2])
            rep.violation("a number of the %s copy is not within one unit in the last place (%d bits) of the rational value: %s -> %s" % (which, p, prs[i][0][:80], prs[i][1][:80]),
                          dict(ctx, pair=list(prs[i])), signature={"symptom": "lowprec-conversion", "which": which})

    if pr["failed"]:
        for thm, why in pr["failed"]:
            rep.violation("proof obligation %s no longer checks: %s" % (thm, why), {"theorem": thm, "why": why, "log": pr["log"][-3000:]},
                          signature={"theorem": thm}, found_input=False)
    ev.cov["rule"] = ("interleavings of edits / copies / frees / solves / parameter changes on up to 4 objects with a dump of every live object after every command: == store-of-objects "
                      "model, unchanged when another object was addressed, copy == original (data, names, integrality marks, objective name, parameters) right after the copy; problems "
                      "with integrality marks (via LP files) copied, copy and original edited and freed; dbl / mpf copies: same structure, infinities mapped, every number within one ulp "
                      "(Lean check) at 53 / 64-256 bits")
    ev.assumptions += ["numbers between 2^-900 and 2^900 (no double underflow / overflow) for the dbl copy", "the problem name is the one argument by which a copy may differ"]
    ev.write()
    return rep.finish()
