"""C03: tie between Qsx.Ratio (lean/Qsx/Model/Ratio.lean) and ILLratio_pII_test (ratio.c).

  (a) exact instance: random rows / tolerances / directions; the whole ratio_res of mpq_ILLratio_pII_test is compared
      with the model (`ratiop2` on both sides);
  (b) mpf instance at several precisions on rows of large magnitude with a tolerance that is negligible against
      them: theorem ratio_pII_never_failed says RATIO_FAILED (4) is unreachable in any arithmetic - observed here on
      the truncating one; a row that blocks must also not be reported UNBOUNDED-free, i.e. status in {1,2,3}.
"""
from fractions import Fraction as F
from . import proto, gen
from .gen import q2s

FIXED_MPF = [
    # the rows of corpus/solve/F12 at the failing pivot (RATIO_FAILED before fix f07d9ed at 128, 192, 432, ... bits)
    "128 1 0 0 0 0 1/37778931862957161709568 3 4 800000000000000000000 0 inf 5 1400000000000000000000 0 inf 22/5 402000000000000000000 0 inf",
]


def tokq(v):
    return v if isinstance(v, str) else q2s(F(v))


def gen_case(rng, feasible=True):
    n = rng.rint(0, 6)
    incr = rng.rint(0, 1)
    eb = 1 if rng.chance(0.3) else 0
    el = rng.small_rat(4)
    eu = el + abs(rng.small_rat(6)) if eb else "inf"
    pv = F(0)      # mpq_EGlpNumIsNeqZero ignores its tolerance argument (sign test): the exact instance has pivtol = 0
    pf = rng.choice([F(0), F(0), F(0), F(1, 1000), F(1, 4)])
    rows = []
    for _ in range(n):
        y = rng.choice([rng.small_rat(5), rng.small_rat(5), F(0), F(rng.rint(-3, 3)), F(rng.rint(-20, 20), 10)])
        shape = rng.choice(["box", "box", "lower", "upper", "free", "fixed"])
        lo = rng.small_rat(5)
        w = abs(rng.small_rat(6))
        if shape == "fixed":
            w = F(0)
        l, u = lo, lo + w
        if feasible:
            x = l + w * F(rng.rint(0, 4), 4)
        else:
            x = l + w * F(rng.rint(-2, 6), 4) + rng.choice([F(0), F(0), F(-1, 3), F(1, 3)])
        if shape in ("lower", "free"):
            u = "inf"
        if shape in ("upper", "free"):
            l = "-inf"
        rows.append((y, x, l, u))
    # ties on purpose: duplicate a row / scale it
    if rows and rng.chance(0.3):
        y, x, l, u = rng.choice(rows)
        rows.append((y * 2, x, l, u) if rng.chance(0.5) else (y, x, l, u))
    toks = [str(incr), str(eb), tokq(el), tokq(eu), tokq(pv), tokq(pf), str(len(rows))]
    for r in rows:
        toks += [tokq(v) for v in r]
    return " ".join(toks)


def gen_mpf_case(rng):
    """large x - l against a tolerance of about 2^(32-prec): the sum x - l + tol truncates"""
    n = rng.rint(1, 5)
    e = rng.choice([18, 20, 21, 25, 30])
    prec = rng.choice([128, 192, 288, 432, 648, 972])
    pf = F(1, 2 ** (prec - 33))
    rows = []
    for _ in range(n):
        y = F(rng.rint(1, 60), rng.choice([1, 5, 10, 3, 7])) * rng.choice([1, 1, -1])
        x = F(rng.rint(1, 5000), rng.choice([1, 1, 7, 3])) * F(10) ** e
        if rng.chance(0.5):
            rows.append((y, x, F(0), "inf"))
        else:
            rows.append((y, x, "-inf", x * 2))
    incr = rng.rint(0, 1)
    toks = [str(prec), str(incr), "0", "0", "0", "0", tokq(pf), str(len(rows))]
    for r in rows:
        toks += [tokq(v) for v in r]
    return " ".join(toks)


def gen_dcase(rng, feasible=True):
    n = rng.rint(0, 6)
    lvu = rng.rint(0, 1)
    df = rng.choice([F(0), F(0), F(0), F(1, 1000), F(1, 4)])
    toks = [str(lvu), "0", tokq(df)]
    cols = []
    for _ in range(n):
        zA = rng.choice([rng.small_rat(5), rng.small_rat(5), F(0), F(rng.rint(-3, 3)), F(rng.rint(-20, 20), 10)])
        vs = rng.choice([2, 3, 3, 4])
        mag = abs(rng.small_rat(6)) * rng.choice([0, 1, 1, 1])
        dz = mag if vs == 3 else (-mag if vs == 2 else F(0))
        if not feasible and rng.chance(0.4):
            dz = rng.small_rat(4)
        cols.append((zA, dz, rng.small_rat(4), vs, 1 if rng.chance(0.15) else 0))
    if cols and rng.chance(0.3):
        zA, dz, cz, vs, sk = rng.choice(cols)
        cols.append((zA * 2, dz, cz, vs, sk) if rng.chance(0.5) else (zA, dz, cz, vs, sk))
    toks.append(str(len(cols)))
    for zA, dz, cz, vs, sk in cols:
        toks += [tokq(zA), tokq(dz), tokq(cz), str(vs), str(sk)]
    return " ".join(toks)


def gen_mpf_dcase(rng):
    n = rng.rint(1, 5)
    e = rng.choice([18, 20, 21, 25, 30])
    prec = rng.choice([128, 192, 288, 432, 648, 972])
    df = F(1, 2 ** (prec - 33))
    lvu = rng.rint(0, 1)
    toks = [str(prec), str(lvu), "0", tokq(df), str(n)]
    for _ in range(n):
        zA = F(rng.rint(1, 60), rng.choice([1, 5, 10, 3, 7])) * rng.choice([1, -1])
        vs = rng.choice([2, 3])
        mag = F(rng.rint(1, 5000), rng.choice([1, 1, 7, 3])) * F(10) ** e
        toks += [tokq(zA), tokq(mag if vs == 3 else -mag), "0", str(vs), "0"]
    return " ".join(toks)


def run(ev, rep, rng, exe, model, quick):
    """queues model questions on `model` (caller runs it) and returns a closure that compares afterwards"""
    r1 = rng.fork("ratio-exact")
    cases = [gen_case(r1, feasible=(k % 4 != 3)) for k in range(1500 if quick else 30000)]
    cases = list(dict.fromkeys(cases))
    ks = [model.ask("ratiop2 " + c) for c in cases]
    r2 = rng.fork("ratio-mpf")
    mpf = FIXED_MPF + [gen_mpf_case(r2) for _ in range(600 if quick else 12000)]
    # the fixed rows at every precision of the ladder's first half
    body = FIXED_MPF[0].split(" ", 1)[1]
    mpf += ["%d %s" % (p, body.replace("1/37778931862957161709568", "1/%d" % 2 ** (p - 33), 1)) for p in (192, 288, 432, 648, 972, 1458)]
    mpf_ops = ["ratiop2f " + c for c in mpf]
    r3 = rng.fork("ratio-dual")
    dcases = list(dict.fromkeys(gen_dcase(r3, feasible=(k % 4 != 3)) for k in range(1500 if quick else 30000)))
    dks = [model.ask("ratiod2 " + c) for c in dcases]
    r4 = rng.fork("ratio-dual-mpf")
    mpf_ops += ["ratiod2f " + gen_mpf_dcase(r4) for _ in range(600 if quick else 12000)]
    td = proto.run_harness(exe, ["ratiod2 " + c for c in dcases], timeout=900)
    tr = proto.run_harness(exe, ["ratiop2 " + c for c in cases], timeout=900)
    tf = proto.run_harness(exe, mpf_ops, timeout=900)

    def compare():
        if tr.crashed:
            rep.violation("harness died in the ratio-test battery: " + tr.crashed[-300:], {"stderr": tr.stderr[-1500:]},
                          signature={"symptom": "crash", "where": "ratiop2"})
        stats = {}
        for c, k, (op, blk) in zip(cases, ks, tr):
            ans = model.ans(k)
            got = proto.get(blk, "res")
            want = proto.get(ans, "res")
            ev.cov["traces_validated_against_impl"] += 1
            ev.count("ratio|" + c, nontrivial=len(c.split()) > 7)
            if got:
                stats[got[0]] = stats.get(got[0], 0) + 1
            if got != want:
                rep.violation("ILLratio_pII_test differs from Qsx.Ratio.pII: C %s, model %s" % (got, want),
                              {"lines": ["ratiop2 " + c], "c": got, "model": want}, signature={"symptom": "ratio-model-differs"})
                break
        for k, v in sorted(stats.items()):
            ev.stat("ratio-exact:stat%s" % k, v)
        if td.crashed:
            rep.violation("harness died in the dual ratio-test battery: " + td.crashed[-300:], {"stderr": td.stderr[-1500:]},
                          signature={"symptom": "crash", "where": "ratiod2"})
        dstats = {}
        for c, k, (op, blk) in zip(dcases, dks, td):
            got, want = proto.get(blk, "res"), proto.get(model.ans(k), "res")
            ev.cov["traces_validated_against_impl"] += 1
            ev.count("ratiod|" + c, nontrivial=len(c.split()) > 4)
            if got:
                dstats[got[0]] = dstats.get(got[0], 0) + 1
            if got != want:
                rep.violation("ILLratio_dII_test differs from Qsx.Ratio.dII: C %s, model %s" % (got, want),
                              {"lines": ["ratiod2 " + c], "c": got, "model": want}, signature={"symptom": "ratio-model-differs", "test": "dII"})
                break
        for k, v in sorted(dstats.items()):
            ev.stat("ratio-dual-exact:stat%s" % k, v)
        if tf.crashed:
            rep.violation("harness died in the mpf ratio-test battery: " + tf.crashed[-300:], {"stderr": tf.stderr[-1500:]},
                          signature={"symptom": "crash", "where": "ratiop2f"})
        nf = 0
        for (op, blk) in tf:
            got = proto.get(blk, "res")
            ev.cov["traces_validated_against_impl"] += 1
            nf += 1
            if got and got[0] == "4":
                rep.violation("%s ends RATIO_FAILED although a row blocks the step (theorems ratio_pII_never_failed / ratio_dII_never_failed: "
                              "unreachable in any arithmetic)" % ("mpf_ILLratio_dII_test" if op.startswith("ratiod2f") else "mpf_ILLratio_pII_test"),
                              {"lines": [op]}, signature={"symptom": "ratio-failed-mpf"})
                break
        ev.stat("ratio-mpf:cases", nf)
    return compare
