"""Shared machinery for the solver-facing properties (C01-C05, C12, C15): running solves on the real
library, replaying the H1 trace through the Lean driver model, certificate oracles."""
from fractions import Fraction as F
from . import proto, core, gen
from .gen import q2s, LP

ST = {"1": "optimal", "2": "infeasible", "3": "unbounded", "4": "iter_limit", "5": "time_limit",
      "6": "unsolved", "7": "aborted", "8": "numerr", "9": "obj_limit", "100": "modified"}


def arr(a):
    a = list(a)
    return "%d %s" % (len(a), " ".join(x if isinstance(x, str) else q2s(x) for x in a)) if a else "0"


def get_inf(exe):
    t = proto.run_harness(exe, ["inf"])
    if t.crashed:
        raise RuntimeError("harness cannot start: " + t.crashed)
    pinf, ninf = proto.get(t[0][1], "pinf")[0], proto.get(t[0][1], "ninf")[0]
    proto.INF_LINE = "inf %s %s" % (pinf, ninf)
    return pinf, ninf


def parse_trace(block):
    events = []
    cur = None
    for k, v in block:
        if k == "trace":
            cur = {"what": v[0], "a": int(v[1]), "b": int(v[2])}
            events.append(cur)
        elif k == "trace.v1" and cur is not None:
            cur["v1"] = v[1:]
        elif k == "trace.v2" and cur is not None:
            cur["v2"] = v[1:]
        elif k == "trace.basis" and cur is not None:
            cur["basis"] = (v[0], v[1])
    return events


def stages_from_events(events):
    """reconstruct the oracle answers (one dict per floating-point stage) from the hook trace"""
    def new():
        return {"solveFail": 0, "fstatus": 0, "iter": 0, "basis": ("-", "-"), "x": [], "y": [], "infeasFail": 0,
                "bfail": 0, "bstatus": 0, "getFail": 0, "x2": [], "y2": [], "_bcalled": False, "_bdone": False,
                "_t1": False, "_t2": False, "_fs": False, "prec": None}
    stages = []
    st = new()
    final = None
    unexplained = None
    for e in events:
        w = e["what"]
        if w == "rung":
            stages.append(st)
            st = new()
            st["prec"] = e["a"]
        elif w == "fsolve_fail":
            st["solveFail"] = 1
        elif w == "fstatus":
            st["fstatus"], st["iter"], st["_fs"] = e["a"], e["b"], True
        elif w == "opttest_in":
            if not st["_t1"]:
                st["x"], st["y"], st["basis"], st["_t1"] = e.get("v1", []), e.get("v2", []), e.get("basis", ("-", "-")), True
            else:
                st["x2"], st["y2"], st["_t2"] = e.get("v1", []), e.get("v2", []), True
        elif w == "inftest_in":
            if not st["_t1"]:
                st["y"], st["_t1"] = e.get("v2", []), True
            else:
                st["y2"], st["_t2"] = e.get("v2", []), True
        elif w == "finfeas_fail":
            st["infeasFail"] = 1
        elif w == "bstatus_in":
            st["basis"], st["_bcalled"] = e.get("basis", ("-", "-")), True
        elif w == "bstatus":
            st["bstatus"], st["_bdone"] = e["a"], True
        elif w == "exit":
            final = e
    stages.append(st)
    for st in stages:
        if st["_bcalled"] and not st["_bdone"]:
            st["bfail"] = 1
        if st["_bdone"] and not st["_t2"] and st["bstatus"] == st["fstatus"] and st["fstatus"] in (1, 2):
            st["getFail"] = 1
        if st["_fs"] and st["fstatus"] == 2 and not st["_t1"] and not st["infeasFail"]:
            st["infeasFail"] = 1     # mpf: EGcallD(mpf_QSget_infeas_array) failed
        if not st["solveFail"] and not st["_fs"]:
            unexplained = "stage without status and without solve failure (error in a get_status call)"
    return stages, final, unexplained


def stage_tokens(st):
    return " ".join([str(st["solveFail"]), str(st["fstatus"]), str(st["iter"]), st["basis"][0], st["basis"][1],
                     arr(st["x"]), arr(st["y"]), str(st["infeasFail"]), str(st["bfail"]), str(st["bstatus"]),
                     str(st["getFail"]), arr(st["x2"]), arr(st["y2"])])


def model_solve_line(block):
    """model input line for one `solve ... exact` block of the harness transcript, or None"""
    ilp = proto.get(block, "ilp")
    if ilp is None:
        return None, "no ilp dump"
    events = parse_trace(block)
    stages, final, unexplained = stages_from_events(events)
    if final is None:
        return None, "no exit event"
    if unexplained:
        return None, unexplained
    line = "solve ilp " + " ".join(ilp) + " " + stage_tokens(stages[0]) + " %d " % (len(stages) - 1) + \
           " ".join(stage_tokens(s) for s in stages[1:])
    return line, {"stages": stages, "final": final}


def compare_solve(cblock, mblock, info):
    """list of differences between the real run and the model's replay"""
    diffs = []
    crv = proto.get(cblock, "rval")[0]
    mrv = proto.get(mblock, "rval", ["?"])[0]
    if crv != mrv:
        diffs.append("rval C=%s model=%s" % (crv, mrv))
        return diffs
    if crv != "0":
        return diffs
    for key in ("status", "xout", "yout"):
        cv, mv = proto.get(cblock, key), proto.get(mblock, key)
        if cv != mv:
            diffs.append("%s C=%s model=%s" % (key, " ".join(cv or ["-"])[:200], " ".join(mv or ["-"])[:200]))
    fb = info["final"].get("basis")
    mb = proto.get(mblock, "basis")
    mbt = None if (mb is None or mb == ["none"]) else (mb[0], mb[1])
    if fb != mbt:
        diffs.append("basis-at-exit C=%s model=%s" % (fb, mbt))
    return diffs


def lp_from_block_api(lp):
    return lp


def certok_line(lp, x, pi):
    return "certok %s %s %s" % (lp.line(), arr(x), arr(pi))


def farkas_line(lp, y):
    return "farkas %s %s" % (lp.line(), arr(y))


def ray_line(lp, x, r):
    return "ray %s %s %s" % (lp.line(), arr(x), arr(r))


class Model:
    """batching interface to the Lean driver: queue lines, run once, fetch answers"""

    def __init__(self, pinf, ninf):
        self.lines = ["inf %s %s" % (pinf, ninf)]
        self.res = None

    def ask(self, line):
        self.lines.append(line)
        return len(self.lines) - 1

    def run(self):
        self.res = proto.run_model(self.lines)
        if self.res.crashed:
            raise RuntimeError("model driver failed: " + self.res.crashed)

    def ans(self, k):
        return self.res[k][1]
