"""C10: files are read as the exact problem their text denotes.

proof:  Props.C10 (scan_literal: every literal of the grammar denotes exactly its rational;
        totality / consumption bound / no division by zero)
tie:    (a) differential test of the exported scanner mpq_EGlpNumReadStrXc against the Lean state
            machine on grammar-derived literals (up to thousands of digits), fractions,
            near-literals and random strings over the scanner's alphabet;
        (b) independent grammar-driven LP / MPS file generator rendering a known rational problem
            with every lexical and layout freedom, read by the real reader and compared with the
            known problem (vlib/filegen.py).
"""
from fractions import Fraction as F
from . import build, proto, core, gen, translate, solvelib
from .gen import q2s

OBL = [("Qsx.Props.C10", t) for t in ["Qsx.Props.C10.scan_literal", "Qsx.Props.C10.scan_consumes_le",
                                     "Qsx.Props.C10.scan_no_div_zero", "Qsx.Props.C10.scan_exponent_guard",
                                     "Qsx.Props.C10.exponent_below_100000_ok", "Qsx.Props.C10.has_colon_spec"]]

STOP = [" ", "\n", "x", "\t", ")", "<", ">", "=", ":", "a", "_", ""]


def hx(s):
    return s.encode("latin-1").hex() if s else "-"


def gen_digits(rng, big):
    n = rng.wchoice([(1, 30), (2, 25), (3, 15), (rng.rint(4, 18), 20), (rng.rint(19, 60), 7), (rng.rint(100, 5000) if big else rng.rint(60, 300), 3)])
    return "".join(str(rng.below(10)) for _ in range(n))


def gen_literal(rng, big=False):
    """(text, exact value) of a grammar literal"""
    sg = rng.choice(["", "", "+", "-"])
    ip = gen_digits(rng, big) if rng.chance(0.9) else ""
    fp = None
    if rng.chance(0.5) or not ip:
        fp = gen_digits(rng, big) if (rng.chance(0.9) or not ip) else ""
    ex = None
    if rng.chance(0.35):
        nd = rng.wchoice([(rng.rint(0, 3), 90), (4, 4), (5, 2), (rng.rint(6, 9), 4)])
        ex = (rng.choice("eE"), rng.choice(["", "+", "-"]), ("0" * rng.rint(0, 3) if rng.chance(0.1) else "") + "".join(str(rng.below(10)) for _ in range(nd)))
    text = sg + ip + ("." + fp if fp is not None else "") + (ex[0] + ex[1] + ex[2] if ex else "")
    mant = F(int(ip or "0") * 10 ** len(fp or "") + int(fp or "0"), 10 ** len(fp or ""))
    if ex:
        # the exponent guard (fix d278e6f, modelled): a further digit arriving when the exponent read so far exceeds 9999
        # makes the scanner give up - nothing read
        acc = 0
        for ch in ex[2]:
            if acc > 9999:
                return text, None
            acc = 10 * acc + int(ch)
        e = int(ex[2] or "0")
        mant = mant / 10 ** e if ex[1] == "-" else mant * 10 ** e
    return text, (-mant if sg == "-" else mant)


def run(pid, tier, seed):
    ev = core.Evidence(pid, tier, seed, "proof")
    rep = core.Reporter(pid, seed, ev)
    quick = tier == "quick"
    rng = gen.Rng(seed)
    libdir = build.build()
    exe = build.build_harness(libdir)
    translate.generate(libdir)
    pr = core.prove(OBL, thorough=not quick)
    ev.cov["obligations"], ev.cov["discharged"], ev.cov["axioms"] = pr["obligations"], pr["discharged"], pr["axioms"]
    pinf, ninf = solvelib.get_inf(exe)

    # ---- (a) scanner differential
    cases = []   # (kind, text, expected (n, value) or None)
    n_lit = 1500 if quick else 30000
    for _ in range(n_lit):
        t, v = gen_literal(rng, big=not quick or rng.chance(0.05))
        stop = rng.choice(STOP)
        cases.append(("literal", t + stop + rng.choice(["", "12", " x"] if stop else [""]), (len(t), v) if v is not None else (0, None)))
    for _ in range(n_lit // 3):
        (t1, v1), (t2, v2) = gen_literal(rng), gen_literal(rng)
        stop = rng.choice(STOP)
        cases.append(("fraction", t1 + "/" + t2 + stop, (0, None) if (v1 is None or v2 is None or v2 == 0) else (len(t1) + 1 + len(t2), v1 / v2)))
    alphabet = "0123456789.eE+-/ x"
    import re
    for _ in range(n_lit // 2):
        t = "".join(rng.choice(alphabet) for _ in range(rng.rint(0, 12)))
        cases.append(("random", t, None))
    for t in ["", "1/0", "1/", "/", "/5", "--1", "1e", "1e-", "1e5.3", ".", "-.", "+", "e5", "1.2.3", "1e5e3", "1/2/3", "0/0", "-0", "1//2",
              "1/-0.0e5", "1 /2", "5e+", ".e1", "1e+5-3", "-1/-2", "00012", "1/0.000"]:
        cases.append(("corner", t, None))
    # the overflow guard of the scanner (fix d278e6f) is part of the model (St.fail, theorem scan_exponent_guard)
    for t in ["1e100000", "3/2e-123456", "1.5E+9999999999", "-2e999999/3", "1/1e100000", "7e00000000001", "7e000012x", "2e99999", "1e-99999", "5e100000x", "1e10000", "1e9999/3e10001"]:
        cases.append(("exp-guard", t, None))
    batches = core.chunks(cases, build.NCPU)
    trs = core.parallel_harness(exe, [["scan " + hx(t) for _, t, _ in b] for b in batches], timeout=900)
    model = solvelib.Model(pinf, ninf)
    keys = []
    crashed_batches = []
    for b, tr in zip(batches, trs):
        if tr.crashed:
            crashed_batches.append((b, tr))
        for (kind, t, exp), (op, blk) in zip(b, tr):
            keys.append((kind, t, exp, blk, model.ask("scan " + hx(t))))
    model.run()
    for kind, t, exp, blk, k in keys:
        m = model.ans(k)
        cn, cv = proto.get(blk, "n"), proto.get(blk, "val")
        mn, mv = proto.get(m, "n"), proto.get(m, "val")
        ev.count("scan|" + t, nontrivial=len(t) > 0)
        ev.stat("scan:" + kind)
        ev.stat("scan-result:" + ("none" if mv == ["none"] else "value"))
        if (cn, cv) != (mn, mv):
            found = False
            if exp is not None:
                found = (cn, cv) != ([str(exp[0])], [q2s(exp[1])] if exp[1] is not None else ["none"])
            rep.violation("scanner disagrees with its model on %r: C=(%s,%s) model=(%s,%s)" % (t[:80], cn, (cv or ["?"])[0][:60], mn, (mv or ["?"])[0][:60]),
                          {"text": t, "c": [cn, cv], "model": [mn, mv], "expected": [exp[0], q2s(exp[1]) if exp[1] is not None else "none"] if exp else None},
                          signature={"symptom": "scan-disagree", "kind": kind}, found_input=found)
        elif exp is not None and (mn, mv) != ([str(exp[0])], [q2s(exp[1])] if exp[1] is not None else ["none"]):
            # both agree but differ from the independently computed denotation
            rep.violation("scanner and model agree but the literal %r does not denote that value" % t[:80],
                          {"text": t, "got": [mn, mv], "expected": [exp[0], q2s(exp[1]) if exp[1] is not None else "none"]},
                          signature={"symptom": "scan-denotation", "kind": kind})
        if len(ev.cov["samples"]) < 5 and kind != "random":
            ev.sample({"text": t[:120], "consumed": (cn or ["?"])[0], "value": (cv or ["?"])[0][:120]})
    for b, tr in crashed_batches:
        # pin the crashing input with forked children
        done = len(tr)
        culprit = b[done][1] if done < len(b) else "?"
        t2 = proto.run_harness(exe, ["fork scan " + hx(culprit)])
        rep.violation("scanner crashes on %r: %s" % (culprit[:80], (t2[0][1] if len(t2) else tr.crashed)),
                      {"text": culprit, "stderr": tr.stderr[-1500:]}, signature={"symptom": "scan-crash"})

    # ---- (b) file level
    try:
        from . import filegen
        filegen.run_c10(ev, rep, rng.fork("files"), exe, quick, pinf, ninf)
    except ImportError:
        ev.assumptions.append("file-level stream not available in this revision")

    for thm, why in pr["failed"]:
        rep.violation("proof obligation no longer checks: %s (%s)" % (thm, why), {"theorem": thm, "why": why, "log": pr["log"][-2000:]},
                      signature={"symptom": "proof", "theorem": thm}, found_input=False)
    ev.cov["rule"] = ("grammar-derived literals [±]digits[.digits][e[±]digits] with 1..5000 digits and a random following character, "
                      "fractions lit/lit, random strings over the scanner alphabet and a fixed corner list, each sent to the exported "
                      "mpq_EGlpNumReadStrXc and to the Lean state machine (consumed count and exact value compared) and, for grammar "
                      "literals, to an independent python denotation; distinct = distinct texts; non-trivial = non-empty text.")
    ev.assumptions += ["l_exp is an int in C and a Nat in the model; the modelled guard keeps it below 100000 on both sides",
                       "token-level reader semantics (omitted coefficient = 1, repeated terms add up, keywords, default bounds) are tied by the file-level stream, not proved"]
    code = rep.finish()
    ev.write()
    return code
