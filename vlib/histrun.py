"""Running edit histories on the real library and on the Lean reference model, comparing after
every operation, minimising diverging histories."""
from . import proto, core, build, gen, hist, lpfam

CMP_KEYS = ("rc", "api", "nzcount", "colnames", "rownames", "coef", "index")


def with_dumps(start, ops, slot=0, extra=()):
    lines = [start]
    for op in ops:
        lines.append(op)
        if op.split(" ")[0] in ("colindex", "rowindex", "getcoef"):
            continue
        lines.append("dumpapi %d" % slot)
        for e in extra:
            lines.append(e)
    return lines


def first_divergence(ctr, mtr, keys=CMP_KEYS):
    """index into the line list, key, C value, model value — or None"""
    n = min(len(ctr), len(mtr))
    for i in range(n):
        cb, mb = ctr[i][1], mtr[i][1]
        for k in keys:
            cv, mv = proto.get(cb, k), proto.get(mb, k)
            if cv != mv and not (cv is None and mv is None):
                return i, k, cv, mv
    return None


def run_pair(exe, lines, timeout=300):
    ctr = proto.run_harness(exe, lines, timeout=timeout)
    mtr = proto.run_model(lines)
    return ctr, mtr


def minimize(exe, start, ops, slot, still_fails, budget=60):
    """greedy one-at-a-time removal, bounded"""
    cur = list(ops)
    i = 0
    runs = 0
    while i < len(cur) and runs < budget:
        cand = cur[:i] + cur[i + 1:]
        runs += 1
        if still_fails(cand):
            cur = cand
        else:
            i += 1
    return cur


def gen_history(rng, length, start_lp=None, p_invalid=0.0, weights=None, slot=0, probes=True):
    m = hist.Mirror(start_lp)
    ops, kinds = [], []
    for _ in range(length):
        line, valid, kind = hist.gen_op(rng, m, slot=slot, p_invalid=p_invalid, weights=weights)
        ops.append(line)
        kinds.append((kind, valid))
        # probes: name -> index lookups and single coefficients (pure queries, compared like everything else)
        if probes and rng.chance(0.6):
            if m.cols and rng.chance(0.7):
                ops.append("colindex %d %s" % (slot, hist.hx(rng.choice(m.cols))))
                kinds.append(("probe:colindex", True))
            if m.rows and rng.chance(0.7):
                ops.append("rowindex %d %s" % (slot, hist.hx(rng.choice(m.rows)[0])))
                kinds.append(("probe:rowindex", True))
            if m.cols and m.rows and rng.chance(0.3):
                ops.append("getcoef %d %d %d" % (slot, rng.below(len(m.rows)), rng.below(len(m.cols))))
                kinds.append(("probe:getcoef", True))
    return ops, kinds


GROW = {"addcol": 30, "newcol": 3, "addrow": 30, "addrrow": 15, "newrow": 3, "delrow": 2, "delrows": 2, "delsetrows": 1,
        "delnamedrow": 1, "delnamedrows": 1, "delcol": 2, "delcols": 2, "delsetcols": 1, "delnamedcol": 1, "delnamedcols": 1,
        "chgcoef": 25, "chgobj": 3, "chgrhs": 3, "chgrange": 2, "chgsense": 3, "chgsenses": 1, "chgbound": 3, "chgbounds": 1,
        "chgobjsense": 1}
