"""C15: equivalent formulations of an LP receive equivalent answers.

proof:  Props.C15 — `Sim L L' a b` (feasible points correspond, values related by v' = a v + b)
        implies same status and transformed optimal value; Sim is closed under composition; each
        listed transformation, as implemented by Qsx.Xform, is a Sim (row / column permutation,
        row scaling incl. negative with sense flip, variable shift and rescale, objective negation
        with min/max flip, row duplication, redundant row, equality as two inequalities).
tie:    the generator's transformations (python) are compared line by line with Qsx.Xform run in
        the model driver on every composition; original and transformed problem are both solved
        with the real library and status / value (through the proved value map) compared.
"""
from fractions import Fraction as F
from . import build, proto, core, gen, translate, solvelib, lpfam
from .gen import q2s, s2q, LP, INF, NINF

OBL = [("Qsx.Props.C15", "Qsx.Props.C15." + t) for t in
       ["status_infeasible", "status_unbounded", "optimal_value", "sim_trans", "neg_objective", "scale_row", "duplicate_row", "redundant_row",
        "split_equality", "shift_variable", "scale_variable", "permute_rows", "permute_columns"]]


# ------------------------------------------------------------------ the transformations (mirror of lean/Qsx/Model/Xform.lean)
def ent_at(ent, j):
    return sum((a for k, a in ent if k == j), F(0))


def apply_op(lp, op, a, b):
    """returns (lp', a', b') with value' = a' v + b'"""
    k = op[0]
    cols = [list(c) for c in lp.cols]
    rows = [[r[0], r[1], r[2], list(r[3])] for r in lp.rows]
    sense = lp.sense
    if k == "neg":
        for c in cols:
            c[0] = -c[0]
        sense = "max" if sense == "min" else "min"
        a, b = -a, -b
    elif k == "srow":
        i, t = op[1], op[2]
        s, rhs, rg, ent = rows[i]
        ent2 = [(j, t * v) for j, v in ent]
        if t > 0:
            rows[i] = [s, t * rhs, t * rg, ent2]
        elif s == "L":
            rows[i] = ["G", t * rhs, -(t * rg), ent2]
        elif s == "G":
            rows[i] = ["L", t * rhs, -(t * rg), ent2]
        elif s == "E":
            rows[i] = ["E", t * rhs, -(t * rg), ent2]
        else:
            rows[i] = [s, t * (rhs + rg), -(t * rg), ent2]
    elif k == "dup":
        r = rows[op[1]]
        rows.append([r[0], r[1], r[2], list(r[3])])
    elif k == "red":
        s, rhs, rg, ent = rows[op[1]]
        t = op[2]
        if s == "L":
            rows.append(["L", rhs + t, rg, list(ent)])
        elif s == "G":
            rows.append(["G", rhs - t, rg, list(ent)])
        elif s == "E":
            rows.append(["L", rhs + t, rg, list(ent)])
        else:
            rows.append([s, rhs - t, rg + 2 * t, list(ent)])
    elif k == "split":
        i = op[1]
        if rows[i][0] == "E":
            r = rows[i]
            rows[i] = ["L", r[1], r[2], list(r[3])]
            rows.append(["G", r[1], r[2], list(r[3])])
    elif k == "shift":
        j, d = op[1], op[2]
        # value' = value - c_j d  (in the *current* problem's objective); composed with the map so far
        lo, up = cols[j][1], cols[j][2]
        cj = cols[j][0]
        cols[j][1] = lo if lo == NINF else lo - d
        cols[j][2] = up if up == INF else up - d
        for r in rows:
            r[1] = r[1] - d * ent_at(r[3], j)
        b = b - cj * d
    elif k == "scale":
        j, m = op[1], op[2]
        cols[j][0] = m * cols[j][0]
        if cols[j][1] != NINF:
            cols[j][1] = cols[j][1] / m
        if cols[j][2] != INF:
            cols[j][2] = cols[j][2] / m
        for r in rows:
            r[3] = [(kk, m * v) if kk == j else (kk, v) for kk, v in r[3]]
    elif k == "prow":
        sg = op[1]
        rows = [rows[sg[kk]] for kk in range(len(rows))]
    elif k == "pcol":
        sg = op[1]
        inv = {j: kk for kk, j in enumerate(sg)}
        cols = [cols[sg[kk]] for kk in range(len(cols))]
        for r in rows:
            r[3] = [(inv[j], v) for j, v in r[3]]
    return LP(sense, cols, rows), a, b


def op_tokens(op):
    k = op[0]
    if k == "neg":
        return "neg"
    if k in ("srow", "red", "shift", "scale"):
        return "%s %d %s" % (k, op[1], q2s(op[2]))
    if k in ("dup", "split"):
        return "%s %d" % (k, op[1])
    return "%s %d %s" % (k, len(op[1]), " ".join(map(str, op[1])))


def gen_ops(rng, lp, n_ops):
    """a composition; indices refer to the problem as transformed so far"""
    ops = []
    cur, a, b = lp, F(1), F(0)
    for _ in range(n_ops):
        nc, nr = len(cur.cols), len(cur.rows)
        kinds = ["neg"]
        if nr:
            kinds += ["srow", "srow", "dup", "red", "prow"]
            if any(r[0] == "E" for r in cur.rows):
                kinds += ["split", "split"]
        if nc:
            kinds += ["shift", "scale", "pcol"]
        k = rng.choice(kinds)
        if k == "neg":
            op = ("neg",)
        elif k == "srow":
            t = rng.choice([F(2), F(1, 3), F(-1), F(-5, 2), F(7), F(-1, 4), F(10 ** 6), F(-1, 10 ** 6)])
            op = ("srow", rng.below(nr), t)
        elif k == "dup":
            op = ("dup", rng.below(nr))
        elif k == "red":
            op = ("red", rng.below(nr), rng.choice([F(0), F(1), F(5, 2), F(1, 10 ** 9)]))
        elif k == "split":
            op = ("split", rng.choice([i for i, r in enumerate(cur.rows) if r[0] == "E"]))
        elif k == "shift":
            op = ("shift", rng.below(nc), rng.choice([F(1), F(-3), F(5, 2), F(-1, 7), F(1000)]))
        elif k == "scale":
            op = ("scale", rng.below(nc), rng.choice([F(2), F(1, 2), F(3, 7), F(1000), F(1, 1000)]))
        elif k == "prow":
            op = ("prow", rng.shuffle(list(range(nr))))
        else:
            op = ("pcol", rng.shuffle(list(range(nc))))
        cur, a, b = apply_op(cur, op, a, b)
        ops.append(op)
    return ops, cur, a, b


def extreme(*lps):
    """some datum outside 10^-30 .. 10^30"""
    big = F(10) ** 30
    for lp in lps:
        vals = [c[0] for c in lp.cols] + [r[1] for r in lp.rows] + [a for r in lp.rows for _, a in r[3]]
        vals += [v for c in lp.cols for v in c[1:3] if v not in (INF, NINF)]
        if any(v != 0 and (abs(v) > big or abs(v) * big < 1) for v in vals):
            return True
    return False


def wf(lp):
    return all(c[1] == NINF or c[2] == INF or F(c[1]) <= F(c[2]) for c in lp.cols) and all(F(r[2]) >= 0 for r in lp.rows)


def big_lp(rng, m, n):
    """hundreds of rows / columns, sparse, boxed so that most instances are optimal; crash / partial pricing / refactorization active"""
    lp = gen.random_lp(rng, m=m, n=n, dens=min(0.5, 4.0 / n), shapes=["default", "box", "box", "lowerneg", "box"], senses="LLGER")
    return lp


def run(pid, tier, seed):
    ev = core.Evidence(pid, tier, seed, "proof")
    rep = core.Reporter(pid, seed, ev)
    quick = tier == "quick"
    rng = gen.Rng(seed)
    libdir = build.build()
    exe = build.build_harness(libdir)
    translate.generate(libdir)
    pr = core.prove(OBL, thorough=not quick)
    ev.cov["obligations"], ev.cov["discharged"], ev.cov["axioms"] = pr["obligations"], pr["discharged"], pr["axioms"]
    pinf, ninf = solvelib.get_inf(exe)

    base = lpfam.mixed(rng.fork("mixed"), 120 if quick else 2500)
    base += [("random 10", gen.random_lp(rng, m=rng.rint(4, 10), n=rng.rint(4, 10), dens=0.5)) for _ in range(30 if quick else 500)]
    base += [("wide", lpfam.wide_chain(rng, n)) for n in ([50, 100] if quick else [50] * 10 + [100] * 10 + [150] * 4)]
    for m, n in ([(60, 90), (120, 150), (150, 220)] if quick else [(60, 90)] * 12 + [(120, 150)] * 10 + [(150, 220)] * 8 + [(300, 400)] * 4):
        base.append(("big %dx%d" % (m, n), big_lp(rng, m, n)))
    # boxed variables entering without a blocking row (bound flips): the path where UNBOUNDED is decided by floating point alone
    for _ in range(90 if quick else 900):
        base.append(("boxed", gen.random_lp(rng, m=rng.rint(8, 16), n=rng.rint(10, 22), dens=0.3, shapes=["box", "box", "default", "box"], senses="LLGE")))
    # free structural variables non-basic at zero when phase II starts: the entering direction is decided by the sign of
    # the reduced cost alone
    for _ in range(60 if quick else 600):
        base.append(("boxed free", gen.random_lp(rng, m=rng.rint(3, 9), n=rng.rint(4, 10), dens=0.5, shapes=["free", "free", "default", "box"], senses="LLGE")))
    base = [(k, lp) for k, lp in base if wf(lp) and lp.cols]
    jobs = []
    for kind, lp in base:
        r = rng.fork("ops" + lp.line()[:300])
        for _ in range(1 if kind.startswith("big") else (2 if quick and kind.startswith("boxed") else 1 if quick else 3)):
            ops, lp2, a, b = gen_ops(r, lp, r.rint(1, 5))
            if lp.rows and r.chance(0.25):
                # appended rows only (singleton / short rows too): the transformed problem is then built by API edits of the original
                ops, cur, a, b = [], lp, F(1), F(0)
                for _k in range(r.rint(1, 3)):
                    o = r.choice([("dup", r.below(len(cur.rows))), ("red", r.below(len(cur.rows)), r.choice([F(0), F(1), F(5, 2)]))])
                    cur, a, b = apply_op(cur, o, a, b)
                    ops.append(o)
                lp2 = cur
            entry = "exact primal" if kind.startswith("boxed") else r.choice(["exact primal", "exact dual", "exact primal"])
            jobs.append((kind, lp, ops, lp2, a, b, entry))

    # ---- model tie: the same composition through Qsx.Xform
    model = solvelib.Model(pinf, ninf)
    ks = [model.ask("xform %d %s %s" % (len(ops), " ".join(op_tokens(o) for o in ops), lp.line())) for _, lp, ops, _, _, _, _ in jobs]
    model.run()
    for (kind, lp, ops, lp2, a, b, entry), k in zip(jobs, ks):
        ans = model.ans(k)
        ev.cov["traces_validated_against_impl"] += 1
        mline = " ".join([ans[0][0]] + list(ans[0][1])) if ans else "?"
        mmap = proto.get(ans, "map")
        if mline != lp2.line() or mmap != [q2s(a), q2s(b)]:
            rep.violation("the generator's transformation differs from Qsx.Xform for %s" % " ; ".join(op_tokens(o) for o in ops),
                          {"lp": lp.line(), "ops": [op_tokens(o) for o in ops], "python": lp2.line()[:3000], "model": mline[:3000], "map": [q2s(a), q2s(b), mmap]},
                          signature={"symptom": "generator-vs-model"})

    # ---- solve original and transformed
    def api_lines(lp, ops):
        """the transformed problem built by editing the loaded original through the API (appended rows only), or None"""
        if not ops or any(o[0] not in ("dup", "red") for o in ops):
            return None
        cur, a, b = lp, F(1), F(0)
        lines = ["new 0 " + lp.line()]
        for o in ops:
            nxt, a, b = apply_op(cur, o, a, b)
            s, rhs, rg, ent = nxt.rows[-1]
            if s == "R":
                lines.append("addrrow 0 - R %s %s %d %s" % (q2s(rhs), q2s(rg), len(ent), " ".join("%d %s" % (j, q2s(v)) for j, v in ent)))
            else:
                lines.append("addrow 0 - %s %s %d %s" % (s, q2s(rhs), len(ent), " ".join("%d %s" % (j, q2s(v)) for j, v in ent)))
            cur = nxt
        return lines
    def work(job):
        kind, lp, ops, lp2, a, b, entry = job
        t1 = proto.run_harness(exe, ["new 0 " + lp.line(), "solve 0 %s none" % entry], timeout=1800)
        al = api_lines(lp, ops)
        t2 = proto.run_harness(exe, (al if al else ["new 0 " + lp2.line()]) + ["solve 0 %s none" % entry], timeout=1800)
        return t1, t2
    from concurrent.futures import ThreadPoolExecutor
    with ThreadPoolExecutor(build.NCPU) as ex:
        results = list(ex.map(work, jobs))
    for (kind, lp, ops, lp2, a, b, entry), (t1, t2) in zip(jobs, results):
        optoks = [op_tokens(o) for o in ops]
        ctx = {"lp": lp.line()[:20000], "ops": optoks, "transformed": lp2.line()[:20000], "entry": entry,
               "lines": ["new 0 <lp>", "solve 0 %s none" % entry]}
        ev.stat("family:" + kind.split(" ")[0])
        for o in ops:
            ev.stat("op:" + o[0])
        ev.stat("ops-per-composition:%d" % len(ops))
        ev.count(lp.line()[:400] + "|" + " ".join(optoks)[:400], nontrivial=len(lp.rows) > 0)
        if t1.crashed or t2.crashed:
            rep.violation("library crashed on %s problem: %s" % ("the original" if t1.crashed else "the transformed", (t1.crashed or t2.crashed)[-300:]), ctx,
                          signature={"symptom": "crash"})
            continue
        b1, b2 = t1[-1][1], t2[-1][1]
        r1, r2 = proto.get(b1, "rval", ["?"])[0], proto.get(b2, "rval", ["?"])[0]
        s1, s2 = proto.get(b1, "status", ["?"])[0], proto.get(b2, "status", ["?"])[0]
        if r1 != "0" or r2 != "0":
            ev.stat("solve:error")
            if r1 != r2:
                rep.violation("the solver fails on one formulation only (rval %s vs %s) for %s" % (r1, r2, " ; ".join(optoks)), ctx, signature={"symptom": "rval-differs"})
            continue
        ev.stat("status:%s" % solvelib.ST.get(s1, s1))
        definitive = ("1", "2", "3")
        if s1 != s2 and not (s1 in definitive and s2 in definitive) and lpfam.wide_range(lp, lp2):
            # one formulation got no answer at all (not a different one) on data of 10^+-40 magnitude: the precision
            # ladder's absolute tolerances do not reach that far (DESIGN.md 11, false alarms); counted, not a violation
            ev.stat("non-definitive on extreme-magnitude data")
            continue
        if s1 != s2 and (s1 in definitive or s2 in definitive):
            rep.violation("status %s for the original, %s for the equivalent formulation (%s)" % (solvelib.ST.get(s1, s1), solvelib.ST.get(s2, s2), " ; ".join(optoks)), ctx,
                          signature={"symptom": "status-differs"})
            continue
        if s1 == "1":
            v1, v2 = proto.get(b1, "objval"), proto.get(b2, "objval")
            if not v1 or not v2 or v1[0] != "0" or v2[0] != "0":
                continue
            want = a * s2q(v1[1]) + b
            if want != s2q(v2[1]):
                rep.violation("optimal value %s for the original, %s for the equivalent formulation; the transformation maps the value to %s (%s)" %
                              (v1[1], v2[1], q2s(want), " ; ".join(optoks)), ctx, signature={"symptom": "value-differs"})

    if pr["failed"]:
        for thm, why in pr["failed"]:
            rep.violation("proof obligation %s no longer checks: %s" % (thm, why), {"theorem": thm, "why": why, "log": pr["log"][-3000:]},
                          signature={"theorem": thm}, found_input=False)
    ev.cov["rule"] = ("compositions of 1-5 transformations (objective negation, row scaling by +/- rationals incl. 10^±6, duplicate / redundant rows, equality split, variable shift / "
                      "rescale, row / column permutation); generator == Qsx.Xform line by line; original and transformed solved by QSexact_solver (primal / dual), same definitive "
                      "status and value mapped by v' = a v + b; sizes from 1x1 to 150x220 (quick) / 300x400 (thorough)")
    ev.assumptions += ["the hypotheses of the Sim theorems (indices in range, factor non-zero / positive, finite bounds not moved onto the infinity encoding) hold by construction of the generator"]
    ev.write()
    return rep.finish()
