"""C10 / C11: tie between Qsx.LpLex (lean/Qsx/Model/LpLex.lean) and the lexical layer of read_lp.c, driven directly
(harness/qsx_lplex.c) on one reader state fed from a memory buffer.

Sessions: a text (LP-grammar fragments with every layout freedom, comments containing ':' and keywords, vertical tabs,
NUL bytes, bytes >= 128, CR LF, missing final newline, words that merely start like INF / FREE / a keyword, very long
lines that fgets splits) and a sequence of lexer calls - parser-like runs (name, colon, sign, value, name, sense, value)
mixed with arbitrary calls.  After every call both sides print the whole observable state: return code, eof, line
number, cursor offset, field, fieldOnFirstCol, sense_val, bound_val (and the sign / coefficient written).  The harness
poisons everything behind the string terminators with bytes (':' '\\n' name characters) that change the answer of any
function that looks there; the model answers `OOB` if it would read there."""
from concurrent.futures import ThreadPoolExecutor
from . import proto, build

WORDS = ["x", "y1", "x_2", "obj", "c1", "free", "FREE", "free1", "inf", "INF", "Infinity", "infinity", "infx", "INFINITY2", "in", "e5", "E", "st", "ST",
         "St", "s.t.", "subject", "SUBJECT", "to", "TO", "Subject", "min", "MINIMIZE", "Maximize", "MAX", "maximum", "minimum", "bounds", "Bound", "BOUNDS",
         "integer", "INTEGER", "end", "END", "End", "endx", "problem", "PROB", "prob", "a!b", "q\"#$%&()/,;?@_`'{}|~z", ".5x", "2x", "x.y", "\xe9t\xe9", "\xff",
         "a" * 40, "name_with_300_chars_" + "z" * 280]
NUMS = ["1", "0", "-1", "+3", "2.5", ".5", "5.", "1e3", "1E-2", "3/4", "-7/2", "1/0", "12345678901234567890", "0.1", "1e", "1e+", "1.2.3", "--1", "+-2", "1e400", "2E-310",
        "1e123456", "7/", "/3", "e5", "1 2", "00012"]
PUNCT = [":", "::", ": ", " :", "+", "-", "+ ", "- ", "<=", "=<", ">=", "=>", "=", "<", ">", "==", "<>", "=<=", "\\", "\\ comment: with colon", "\\ st", " ", "  ", "\t", "\r",
         "\x0b", "\x0c", "\x00", "\x00:", "\n", "\n\n", "\r\n", " \n", "\n ", "\\\n", ":\n"]
OPS = [("nf", 10), ("nfl", 6), ("pf", 5), ("nv", 16), ("colon", 8), ("hc", 10), ("nc", 6), ("sign", 10), ("val", 12), ("pbv", 10), ("ts 0", 5), ("ts 1", 6),
       ("sense", 6), ("cst", 5), ("nis", 8), ("tkw", 5), ("kw", 4)]
KWS = [["MIN", "MINIMUM", "MINIMIZE"], ["MAX", "MAXIMUM", "MAXIMIZE"], ["BOUNDS", "BOUND"], ["END"], ["INTEGER"], ["ST", "SUBJECT"], ["x", "free"]]
PARSERLIKE = [["hc", "nv", "colon", "sign", "val", "nv", "sign", "val", "nv", "sense", "val", "nc"], ["nf", "tkw", "hc", "nv", "colon"], ["cst", "hc", "nv", "sign", "val", "nv", "ts 1", "val"],
              ["pbv", "ts 0", "nv", "ts 0", "pbv", "nc"], ["nis free", "nv", "nis free"], ["sign", "val", "nv", "pf", "nf", "pf", "nv"], ["nc", "nf", "kw", "nc", "nf", "pf", "pf"]]


def hx(s):
    b = s.encode("latin-1")
    return b.hex() if b else "-"


def gen_text(rng):
    kind = rng.wchoice([("lp", 45), ("soup", 45), ("long", 3), ("tiny", 7)])
    if kind == "tiny":
        return rng.choice(["", "\n", " ", "x", ":", "\\", "\x00", "x:", "inf", "-inf", "1", "st", "subject to", "free", " \t\r\x0c", "a\\", "x\n", "=<", "<", "=", "\x0b x"])
    if kind == "long":
        n = rng.choice([131068, 131069, 131070, 131071, 140000, 262200])
        body = ("x + " * (n // 4 + 1))[:n - 7] + rng.choice([" : abc", "inf   ", " <= 12", "      "])
        return rng.choice(["", "min\n"]) + body + rng.choice(["\n", ""]) + rng.choice(["", "st\n x: y >= 1\n"])
    parts = []
    n = rng.rint(1, 40)
    for _ in range(n):
        k = rng.wchoice([("w", 40), ("n", 22), ("p", 38)]) if kind == "soup" else rng.wchoice([("w", 35), ("n", 25), ("p", 25), ("sp", 15)])
        parts.append(rng.choice(WORDS) if k == "w" else rng.choice(NUMS) if k == "n" else rng.choice(PUNCT) if k == "p" else rng.choice([" ", " ", "\n ", "\n"]))
        if kind == "lp" and rng.chance(0.6):
            parts.append(" ")
    t = "".join(parts)
    if rng.chance(0.5):
        t += "\n"
    return t


def gen_ops(rng, nops):
    ops = []
    while len(ops) < nops:
        if rng.chance(0.4):
            seq = rng.choice(PARSERLIKE)
            for o in seq:
                if o in ("tkw", "kw"):
                    w = rng.choice(KWS)
                    o = "%s %d %s" % (o, len(w), " ".join(hx(x) for x in w))
                ops.append("nis " + hx("free") if o == "nis free" else o)
        else:
            o = rng.wchoice(OPS)
            if o == "nis":
                o = "nis " + hx(rng.choice(["free", "FREE", "inf", "x", "st", "to", "-", "<="]))
            elif o in ("tkw", "kw"):
                w = rng.choice(KWS)
                o = "%s %d %s" % (o, len(w), " ".join(hx(x) for x in w))
            ops.append(o)
    return ops[:nops]


def c_lines(text, ops):
    return ["lxnew " + hx(text)] + ["lx" + o for o in ops] + ["lxfree"]


def model_line(text, ops):
    return "lplex %s %d %s" % (hx(text), len(ops), " ".join(ops))


def run(ev, rep, rng, exe, model, quick, pid="C11"):
    nsess = 400 if quick else 6000
    sessions = []
    for k in range(nsess):
        r = rng.fork("lx%d" % k)
        text = gen_text(r)
        sessions.append((text, gen_ops(r, r.rint(3, 30 if quick else 80))))
    # directed: a colon inside a comment, a last line without newline, words that start like INF
    sessions += [("x + y >= 1 \\ ratio: 3\n", ["hc", "nv", "colon", "sign", "nv", "sense", "val"]),
                 ("Subject To\n x + y >= 1", ["cst", "hc", "nv", "sign", "val", "nv", "sense", "val", "nc"]),
                 ("c: x\\:\n", ["hc", "nv", "colon", "hc", "nv", "hc"]),
                 ("-infinity x -inf\ninfx INF", ["pbv", "pbv", "nv", "pbv", "pbv", "nv", "pbv"]),
                 ("\x0b  abc def", ["nf", "nf", "pf", "nf"]),
                 ("subject x\nsubject  to y\n a subject to", ["cst", "nv", "cst", "nv", "nv", "cst"])]
    ks = [model.ask(model_line(t, o)) for t, o in sessions]
    with ThreadPoolExecutor(build.NCPU) as ex:
        trs = list(ex.map(lambda s: proto.run_harness(exe, c_lines(*s), timeout=300), sessions))

    def compare():
        stats = {}
        for (text, ops), k, tr in zip(sessions, ks, trs):
            ev.cov["traces_validated_against_impl"] += 1
            ev.count("lplex|" + hx(text) + "|" + " ".join(ops), nontrivial=len(text) > 3 and len(ops) > 2)
            replay = {"lines": c_lines(text, ops), "model_line": model_line(text, ops), "text": text[:400]}
            if tr.crashed and getattr(tr, "returncode", 0) != 0:
                rep.violation("the LP lexer crashes in a direct session: " + tr.crashed[-300:], dict(replay, stderr=tr.stderr[-1500:]),
                              signature={"symptom": "crash", "where": "lplex"})
                break
            esc = [(op, vals) for op, blk in tr[:-1] for key, vals in blk if key == "escaped"]
            if esc:
                rep.violation("the cursor of the LP lexer leaves the string of its line buffer (offset %s, string length %s) in %s" % (esc[0][1][0], esc[0][1][1], esc[0][0]), replay,
                              signature={"symptom": "lplex-cursor-escapes"})
                break
            got = [list(vals) for op, blk in tr[:-1] for key, vals in blk if key == "lx"]
            want = [list(vals) for key, vals in (model.ans(k) or []) if key == "lx"]
            for o, g in zip(["new"] + ops, got):
                kk = o.split()[0] + ":" + g[0]
                stats[kk] = stats.get(kk, 0) + 1
            if any(w and w[0] == "OOB" for w in want):
                at = next(i for i, w in enumerate(want) if w and w[0] == "OOB")
                rep.violation("Qsx.LpLex reads behind the string terminator in %s (theorem lplex_safe says it cannot): the model no longer matches the code" % (["new"] + ops)[at],
                              replay, signature={"symptom": "lplex-model-oob"}, found_input=False)
                break
            if got != want:
                # does the C answer depend on what lies behind the string terminators?  (second poison pattern)
                tr2 = proto.run_harness(exe, c_lines(text, ops), timeout=300, env_extra={"QSX_LXPOISON": "1"})
                got2 = [list(vals) for op, blk in tr2[:-1] for key, vals in blk if key == "lx"]
                if got2 != got:
                    at = next((i for i, (a, b) in enumerate(zip(got, got2)) if a != b), min(len(got), len(got2)))
                    rep.violation("the LP lexer reads behind the string terminator of its line buffer: the answer of call %d (%s) changes with the bytes stored there: %s vs %s" %
                                  (at, (["new"] + ops)[at] if at <= len(ops) else "?", got[at] if at < len(got) else None, got2[at] if at < len(got2) else None),
                                  dict(replay, env="QSX_LXPOISON=0 / 1"), signature={"symptom": "lplex-reads-behind-terminator"})
                    break
                at = next((i for i, (a, b) in enumerate(zip(got, want)) if a != b), min(len(got), len(want)))
                rep.violation("read_lp.c differs from Qsx.LpLex after call %d (%s): C %s, model %s  [rc eof line_num p field firstCol sense bound extra]" %
                              (at, (["new"] + ops)[at] if at <= len(ops) else "?", got[at] if at < len(got) else None, want[at] if at < len(want) else None),
                              dict(replay, c=got[max(0, at - 2):at + 2], model=want[max(0, at - 2):at + 2]), signature={"symptom": "lplex-model-differs"}, found_input=False)
                break
        for kk, v in sorted(stats.items()):
            ev.stat("lplex-op:" + kk, v)
    return compare


# ------------------------------------------------------------------------------------------------ MPS lexer (Qsx.MpsLex vs read_mps.c)
MWORDS = ["NAME", "ROWS", "COLUMNS", "RHS", "RANGES", "BOUNDS", "ENDATA", "OBJSENSE", "MAX", "N", "G", "L", "E", "UP", "LO", "FX", "FR", "MI", "PL", "BV", "obj", "r1", "R2",
          "x", "y1", "rhs", "bnd", "MARKER", "'MARKER'", "'INTORG'", "'INTEND'", "$", "$comment", "a$b", "*", "*x", "inf", "-inf", "+INF", "Infinity", "-INFINITY", "infx",
          "-infinity2", "+", "-", "\xe9", "z" * 50]
MSEP = [" ", " ", "  ", "\t", "    ", "\r", "\x0c", "\x0b", "\n", "\n", "\n ", "\n    ", "\n*comment\n", "\n\n", " $ rest is comment\n", "\x00", " \n", "\r\n"]
MOPS = [("nl", 16), ("nf", 30), ("coef", 16), ("bound", 14), ("isnum", 8), ("eol", 10), ("seteol", 4), ("sec 0", 3), ("sec 1", 4)]


def gen_mps_text(rng):
    kind = rng.wchoice([("lines", 40), ("mps", 25), ("soup", 25), ("tiny", 8), ("long", 2)])
    if kind == "tiny":
        return rng.choice(["", "\n", " ", "x", "*", "$", " $", "\x0b", "\x00", " x", "x y", " 1", " inf", " -", "\x0b\n", "NAME", " a b 1\n", " rhs2"])
    if kind == "lines":
        t = "".join(rng.choice(MLINES) for _ in range(rng.rint(1, 12)))
        return t[:-1] if t.endswith("\n") and rng.chance(0.3) else t
    if kind == "long":
        n = rng.choice([131068, 131069, 131070, 131071, 140000])
        return rng.choice(["", "ROWS\n"]) + (" x1 r1 1.5" * (n // 10 + 1))[:n] + rng.choice(["\n", ""]) + " last line\n"
    parts = []
    for _ in range(rng.rint(1, 40)):
        k = rng.wchoice([("w", 45), ("n", 25), ("s", 30)])
        parts.append(rng.choice(MWORDS) if k == "w" else rng.choice(NUMS) if k == "n" else rng.choice(MSEP))
        if kind == "mps":
            parts.append(rng.choice(MSEP))
    t = "".join(parts)
    return t + ("\n" if rng.chance(0.5) else "")


MLINES = [" x obj 1 r1 2\n", " x  r1  -3/4   r2  1e2  $ comment\n", "    rhs       r1   1.5   r2  -2/3\n", " UP bnd x 4\n", " MI bnd y\n", " LO bnd z -inf\n", " UP bnd w +INFINITY  $ c\n",
          " FX bnd v 1/3 extra\n", " N obj\n", " G r1\n", "NAME prob\n", "ROWS\n", "COLUMNS\n", "RHS\n", "BOUNDS\n", "ENDATA\n", "* comment\n", "\n", " M1 'MARKER' 'INTORG'\n", " rng r1 2.5\n",
          " UP bnd infx 2\n", " UP bnd x infinity\n", " x obj 1 $ r1 2\n", "RANGES", " rhs2 r1 1"]
MPARSER = [["sec 1", "nl", "nf", "coef", "nf", "coef", "eol"], ["sec 1", "nl", "nf", "coef", "nf", "eol"], ["sec 0", "nl", "nf", "nf", "bound", "eol"], ["nl", "nf", "nf", "coef", "nf", "coef", "eol"], ["nl", "nf", "nf", "bound", "eol"], ["nl", "isnum 726873", "nf", "coef", "nf", "coef", "eol"], ["nl", "nf", "eol"], ["nl", "nl"],
           ["nl", "nf", "nf", "coef", "eol", "nl", "nf", "bound"], ["nl", "seteol", "eol"]]


def gen_mps_ops(rng, nops):
    ops = [rng.choice(["sec 0", "sec 1"]), "nl"]
    while len(ops) < nops:
        if rng.chance(0.5):
            for o in rng.choice(MPARSER):
                ops += ["seteol", "eol", "nl"] if o == "seteol" else [o]
            continue
        o = rng.wchoice(MOPS)
        if o == "isnum":
            ops.append("isnum " + hx(rng.choice(["rhs", "x", "bnd"])))
        elif o == "seteol":
            ops += ["seteol", "eol", "nl"]          # as the callers do: nothing else is read from a line that was cut
        else:
            ops.append(o)
    return ops


def run_mps(ev, rep, rng, exe, model, quick):
    nsess = 400 if quick else 6000
    sessions = []
    for k in range(nsess):
        r = rng.fork("mx%d" % k)
        sessions.append((gen_mps_text(r), gen_mps_ops(r, r.rint(3, 30 if quick else 80))))
    sessions += [("ROWS\n N obj\n G R1\n G r2", ["nl", "nl", "nf", "nl", "nf", "nf", "nl", "nf", "nf", "eol", "nl"]),
                 (" UP bnd x -inf\n UP bnd y +infinity $ c\n MI bnd z infx\n", ["nl", "nf", "nf", "bound", "eol", "nl", "nf", "nf", "bound", "eol", "nl", "nf", "nf", "bound", "nf"]),
                 (" rhs2 r1 5", ["nl", "seteol", "eol", "nl"]), (" x r2 1 $ second pair omitted\n y obj 1 $ c\n", ["sec 1", "nl", "nf", "coef", "nf", "eol", "nl", "nf", "coef", "eol", "sec 0", "nf"]), ("\x0b\nROWS\n", ["nl", "nl"]), ("RHS\n    rhs       r1   1.5   r2  -2/3\n", ["nl", "nl", "isnum " + hx("rhs"), "nf", "coef", "nf", "coef", "eol"])]
    ks = [model.ask("mpslex %s %d %s" % (hx(t), len(o), " ".join(o))) for t, o in sessions]
    with ThreadPoolExecutor(build.NCPU) as ex:
        trs = list(ex.map(lambda s: proto.run_harness(exe, ["mxnew " + hx(s[0])] + ["mx" + o for o in s[1]] + ["mxfree"], timeout=300), sessions))

    def compare():
        stats = {}
        for (text, ops), k, tr in zip(sessions, ks, trs):
            lines = ["mxnew " + hx(text)] + ["mx" + o for o in ops] + ["mxfree"]
            ev.cov["traces_validated_against_impl"] += 1
            ev.count("mpslex|" + hx(text) + "|" + " ".join(ops), nontrivial=len(text) > 3 and len(ops) > 2)
            replay = {"lines": lines, "model_line": "mpslex %s %d %s" % (hx(text), len(ops), " ".join(ops)), "text": text[:400]}
            if tr.crashed and getattr(tr, "returncode", 0) != 0:
                rep.violation("the MPS lexer crashes in a direct session: " + tr.crashed[-300:], dict(replay, stderr=tr.stderr[-1500:]), signature={"symptom": "crash", "where": "mpslex"})
                break
            esc = [(op, vals) for op, blk in tr[:-1] for key, vals in blk if key == "escaped"]
            if esc:
                rep.violation("the cursor of the MPS lexer leaves the string of its line buffer (offset %s, string length %s) in %s" % (esc[0][1][0], esc[0][1][1], esc[0][0]), replay,
                              signature={"symptom": "mpslex-cursor-escapes"})
                break
            got = [list(vals) for op, blk in tr[:-1] for key, vals in blk if key == "mx"]
            want = [list(vals) for key, vals in (model.ans(k) or []) if key == "mx"]
            for o, g in zip(["new"] + ops, got):
                kk = o.split()[0] + ":" + g[0]
                stats[kk] = stats.get(kk, 0) + 1
            if got != want:
                tr2 = proto.run_harness(exe, lines, timeout=300, env_extra={"QSX_LXPOISON": "1"})
                got2 = [list(vals) for op, blk in tr2[:-1] for key, vals in blk if key == "mx"]
                at = next((i for i, (a, b) in enumerate(zip(got, want)) if a != b), min(len(got), len(want)))
                if got2 != got:
                    at2 = next((i for i, (a, b) in enumerate(zip(got, got2)) if a != b), min(len(got), len(got2)))
                    rep.violation("the MPS lexer reads behind the string terminator of its line buffer: the answer of call %d (%s) changes with the bytes stored there: %s vs %s" %
                                  (at2, (["new"] + ops)[at2] if at2 <= len(ops) else "?", got[at2] if at2 < len(got) else None, got2[at2] if at2 < len(got2) else None),
                                  dict(replay, env="QSX_LXPOISON=0 / 1"), signature={"symptom": "mpslex-reads-behind-terminator"})
                    break
                rep.violation("read_mps.c differs from Qsx.MpsLex after call %d (%s): C %s, model %s  [rc pnull line_num p field_num key field extra]" %
                              (at, (["new"] + ops)[at] if at <= len(ops) else "?", got[at] if at < len(got) else None, want[at] if at < len(want) else None),
                              dict(replay, c=got[max(0, at - 2):at + 2], model=want[max(0, at - 2):at + 2]), signature={"symptom": "mpslex-model-differs"}, found_input=False)
                break
        for kk, v in sorted(stats.items()):
            ev.stat("mpslex-op:" + kk, v)
    return compare
