"""C07: invalid arguments are rejected with an error and leave the problem untouched.

proof:  Props.C07 (the reference model rejects exactly the calls outside the documented ranges and
        a rejected call leaves the model state unchanged — for every state and every argument)
tie:    every public mpq_QS* function taking an index, name, selector or basis is called with
        every boundary value (-1, count, count+1, number of internal columns, INT_MAX) on problems
        in every lifecycle state (empty, loaded, solved, edited).  Each call runs in a forked
        child under ASan (a crash is a result); the child prints the return code and then
        everything observable (query-API dump, session fields, basis, cache), which must equal the
        parent's dump taken before the call.  The expected return code comes from the Lean model.
"""
from fractions import Fraction as F
from . import build, proto, core, gen, translate, solvelib, lpfam, hist
from .hist import hx

OBL = [("Qsx.Props.C07", t) for t in ["Qsx.Props.C07.rejected_iff_invalid_chgCoef", "Qsx.Props.C07.rejected_iff_invalid_chgBounds",
                                     "Qsx.Props.C07.rejected_iff_invalid_delRows", "Qsx.Props.C07.rejected_iff_invalid_delCols",
                                     "Qsx.Props.C07.rejected_iff_invalid_chgSenses", "Qsx.Props.C07.error_leaves_state"]]

INT_MAX = 2 ** 31 - 1


def boundary(n, other):
    vals = [-1, n, n + 1, n + other, INT_MAX]
    out = []
    for v in vals:
        if v not in out and not (0 <= v < n):
            out.append(v)
    return out


def invalid_ops(lp, slot=0):
    """(op line, what is invalid) — every index/name/selector argument at every boundary value"""
    nc, nr = len(lp.cols), len(lp.rows)
    ops = []
    vc = 0 if nc else None
    vr = 0 if nr else None
    for b in boundary(nc, nr):
        ops += [("chgobj %d %d 3" % (slot, b), "col index"), ("chgbound %d %d L 1" % (slot, b), "col index"),
                ("chgbound %d %d U 1" % (slot, b), "col index"), ("getbound %d %d L" % (slot, b), "col index"),
                ("getbound %d %d U" % (slot, b), "col index"), ("delcol %d %d" % (slot, b), "col index"),
                ("delcols %d 1 %d" % (slot, b), "col index")]
        if vr is not None:
            ops += [("chgcoef %d %d %d 5" % (slot, vr, b), "col index"), ("getcoef %d %d %d" % (slot, vr, b), "col index")]
        ops.append(("addrow %d - L 1 1 %d 2" % (slot, b), "col index in new row"))
        if vc is not None:
            ops += [("delcols %d 2 %d %d" % (slot, vc, b), "col index in list"), ("chgbounds %d 2 %d L 1 %d U 2" % (slot, vc, b), "col index in list"),
                    ("addrow %d - G 1 2 %d 1 %d 2" % (slot, vc, b), "col index in new row")]
    for b in boundary(nr, nc):
        ops += [("chgrhs %d %d 3" % (slot, b), "row index"), ("chgrange %d %d 1" % (slot, b), "row index"),
                ("chgsense %d %d G" % (slot, b), "row index"), ("delrow %d %d" % (slot, b), "row index"),
                ("delrows %d 1 %d" % (slot, b), "row index")]
        if vc is not None:
            ops += [("chgcoef %d %d %d 5" % (slot, b, vc), "row index"), ("getcoef %d %d %d" % (slot, b, vc), "row index")]
        ops.append(("addcol %d - 1 0 inf 1 %d 2" % (slot, b), "row index in new col"))
        if vr is not None:
            ops += [("delrows %d 2 %d %d" % (slot, vr, b), "row index in list"), ("chgsenses %d 2 %d L %d G" % (slot, vr, b), "row index in list"),
                    ("addcol %d - 1 0 inf 2 %d 1 %d 2" % (slot, vr, b), "row index in new col")]
    if vr is not None:
        for ch in "XNle0":
            ops.append(("chgsense %d %d %s" % (slot, vr, ch), "sense"))
        ops.append(("chgsenses %d 2 %d G %d Q" % (slot, vr, vr), "sense in list"))
        if lp.rows[vr][0] != "R":
            ops.append(("chgrange %d %d 2" % (slot, vr), "range of non-ranged row"))
        ops.append(("addrow %d %s L 1 0" % (slot, hx("c%d" % vr)), "duplicate row name"))
        ops.append(("newrow %d %s L 1" % (slot, hx("c%d" % vr)), "duplicate row name"))
    if vc is not None:
        for ch in "XluZ0":
            ops.append(("chgbound %d %d %s 1" % (slot, vc, ch), "bound selector"))
            ops.append(("getbound %d %d %s" % (slot, vc, ch), "bound selector"))
        ops.append(("chgbounds %d 2 %d L 1 %d X 2" % (slot, vc, vc), "bound selector in list"))
        ops.append(("addcol %d %s 1 0 inf 0" % (slot, hx("x%d" % vc)), "duplicate column name"))
        ops.append(("newcol %d %s 1 0 inf" % (slot, hx("x%d" % vc)), "duplicate column name"))
    for nm in ("nosuch", "x%d" % (nc + 5), "c%d" % (nr + 5), ""):
        ops += [("delnamedrow %d %s" % (slot, hx(nm) if nm else "00"), "unknown name"), ("delnamedcol %d %s" % (slot, hx(nm) if nm else "00"), "unknown name"),
                ("colindex %d %s" % (slot, hx(nm) if nm else "00"), "unknown name"), ("rowindex %d %s" % (slot, hx(nm) if nm else "00"), "unknown name")]
    if vr is not None:
        ops.append(("delnamedrows %d 2 %s %s" % (slot, hx("c%d" % vr), hx("nosuch")), "unknown name in list"))
    if vc is not None:
        ops.append(("delnamedcols %d 2 %s %s" % (slot, hx("x%d" % vc), hx("nosuch")), "unknown name in list"))
    for code in (0, 2, -2, 7, INT_MAX):
        ops.append(("chgobjsense %d %d" % (slot, code), "objective sense"))
    # bases: wrong sizes, wrong number of basic entries, illegal status
    good_c, good_r = "0" * nc, "1" * nr
    bases = [("0" * (nc + 1), good_r, "basis nstruct"), (good_c, "1" * (nr + 1), "basis nrows"), (good_c[:-1] if nc else "0", good_r, "basis nstruct"),
             (good_c, good_r[:-1] if nr else "1", "basis nrows")]
    if nr:
        bases.append((good_c, "0" + good_r[1:], "basis basic count"))
    if nc:
        bases.append(("1" + good_c[1:], good_r, "basis basic count"))
    for cs, rs, why in bases:
        ops.append(("loadbasis %d %s %s" % (slot, cs or "-", rs or "-"), why))
    if nr:
        ops.append(("loadbasisarray %d %s %s" % (slot, good_c or "-", "0" + good_r[1:]), "basis basic count (array)"))
    if nc:
        ops.append(("loadbasisarray %d %s %s" % (slot, "1" + good_c[1:], good_r or "-"), "basis basic count (array)"))
    # pivot-in calls (solved states only make them meaningful; the guards must hold in every state)
    for b in boundary(nc + nr, 0):
        ops.append(("pivotin %d c 1 %d" % (slot, b), "internal column index"))
    for b in boundary(nr, nc):
        ops.append(("pivotin %d r 1 %d" % (slot, b), "row index"))
    # parameters
    for w, v in ((-1, 1), (99, 1), (1, 1), (3, 1), (0, 999), (0, -1), (2, 999), (2, 0), (4, 4), (4, -1), (5, 0), (5, -5), (7, 2), (7, -1)):
        ops.append(("setparam %d %d %d" % (slot, w, v), "parameter"))
    return ops


DUMP_KEYS = ("api", "nzcount", "colnames", "rownames", "state", "cache", "cache.x", "cache.pi", "cache.rc", "cache.slack", "basis")


def dump_of(block):
    d = {k: proto.get(block, k) for k in DUMP_KEYS}
    if d.get("state"):
        # factorok is an internal cache flag (refactor at the next solve or not): not observable through the API
        d["state"] = [t for t in d["state"] if not t.startswith("factorok=")]
    return d


def run(pid, tier, seed):
    ev = core.Evidence(pid, tier, seed, "proof")
    rep = core.Reporter(pid, seed, ev)
    quick = tier == "quick"
    rng = gen.Rng(seed)
    libdir = build.build()
    exe = build.build_harness(libdir)
    translate.generate(libdir)
    pr = core.prove(OBL, thorough=not quick)
    ev.cov["obligations"], ev.cov["discharged"], ev.cov["axioms"] = pr["obligations"], pr["discharged"], pr["axioms"]
    solvelib.get_inf(exe)

    from .gen import LP, INF, NINF
    base = [LP("min", [], []),
            LP("min", [[F(1), F(0), INF]], []),
            LP("max", [[F(1), F(0), F(4)], [F(2), F(0), F(3)]], [["L", F(5), F(0), [(0, F(1)), (1, F(1))]]]),
            LP("min", [[F(-1), F(0), INF], [F(-1), F(0), INF], [F(0), NINF, INF]],
               [["L", F(4), F(0), [(0, F(1)), (1, F(2))]], ["R", F(1), F(2), [(0, F(3)), (1, F(1)), (2, F(1))]], ["E", F(0), F(0), [(2, F(1))]]])]
    base += [lp for _, lp in lpfam.mixed(rng.fork("c07"), 3 if quick else 30) if len(lp.cols) <= 8]
    jobs = []
    for lp in base:
        for life in ("loaded", "solved", "edited", "shrunk") + (("empty",) if not lp.cols and not lp.rows else ()):
            if life == "empty":
                prep = ["create 0 min"]
            elif life == "shrunk":
                # the problem had more columns and rows before: stale entries sit behind the valid part of the internal maps
                if not lp.cols or not lp.rows:
                    continue
                big = lp.copy()
                big.cols.append([F(1), F(0), F(7)])
                big.rows.append(["L", F(9), F(0), [(0, F(1)), (len(big.cols) - 1, F(2))]])
                big.cols.append([F(2), F(0), F(5)])
                prep = ["new 0 " + big.line(), "delcol 0 %d" % (len(big.cols) - 2), "delrow 0 %d" % (len(big.rows) - 1),
                        "delcol 0 %d" % (len(big.cols) - 2)]
            else:
                prep = ["new 0 " + lp.line()]
                if life in ("solved", "edited"):
                    prep.append("solve 0 dual")
                if life == "edited":
                    if lp.cols:
                        prep.append("chgobj 0 0 1/3")
                    else:
                        prep.append("chgobjsense 0 max")
            jobs.append((lp, life, prep, invalid_ops(lp)))

    def work(job):
        lp, life, prep, ops = job
        lines = prep + ["dumpall 0"] + ["probe " + op for op, _ in ops]
        return proto.run_harness(exe, lines, timeout=900)
    from concurrent.futures import ThreadPoolExecutor
    with ThreadPoolExecutor(build.NCPU) as ex:
        results = list(ex.map(work, jobs))
    # expected return codes from the reference model (ops it knows); everything else is invalid by construction
    for (lp, life, prep, ops), tr in zip(jobs, results):
        mlines = [l for l in prep if not l.startswith("solve")]
        spec_ops = [op for op, _ in ops]
        m = proto.run_model(mlines + sum([[op, "dumpapi 0"] for op in spec_ops], []))
        k0 = len(mlines)
        if tr.crashed and len(tr) <= len(prep):
            rep.violation("harness crashed while preparing lifecycle state %s: %s" % (life, tr.crashed[-400:]), {"lp": lp.line(), "prep": prep},
                          signature={"symptom": "prep-crash"})
            continue
        before = dump_of(tr[len(prep)][1])
        for n, (op, why) in enumerate(ops):
            if len(prep) + 1 + n >= len(tr):
                break
            blk = tr[len(prep) + 1 + n][1]
            fn = op.split(" ")[0]
            ev.count("%s|%s|%s" % (lp.line(), life, op), nontrivial=True)
            ev.stat("fn:" + fn)
            ev.stat("life:" + life)
            ev.stat("invalid:" + why)
            mb = m[k0 + 2 * n][1] if k0 + 2 * n < len(m) else []
            mrc = proto.get(mb, "rc")
            if mrc is not None and mrc != ["1"]:
                rep.violation("reference model accepts a call the check considers invalid (machinery error): " + op,
                              {"op": op}, signature={"symptom": "model-accepts", "fn": fn}, found_input=False)
                continue
            payload = {"lp": lp.line(), "lifecycle": life, "prep": prep, "op": op, "invalid": why}
            sig = proto.get(blk, "signal") or proto.get(blk, "childexit")
            rc = proto.get(blk, "rc")
            if sig is not None and rc is None:
                rep.violation("%s with invalid %s crashes (%s) in state '%s': %s" % (fn, why, "signal/abort", life, op), payload,
                              signature={"symptom": "crash", "fn": fn, "invalid": why})
                continue
            if rc == ["0"]:
                rep.violation("%s accepts invalid %s (returns 0) in state '%s': %s" % (fn, why, life, op), payload,
                              signature={"symptom": "accepted", "fn": fn, "invalid": why})
                continue
            after = dump_of(blk)
            if sig is not None:
                rep.violation("%s with invalid %s returns an error but then crashes while the state is dumped: %s" % (fn, why, op), payload,
                              signature={"symptom": "crash-after", "fn": fn, "invalid": why})
                continue
            diff = [k for k in DUMP_KEYS if before.get(k) != after.get(k)]
            if diff:
                rep.violation("%s rejects invalid %s but changes the problem (%s) in state '%s': %s" % (fn, why, ",".join(diff), life, op),
                              dict(payload, changed={k: [before.get(k), after.get(k)] for k in diff[:4]}),
                              signature={"symptom": "not-atomic", "fn": fn, "invalid": why, "changed": diff[0]})
            if len(ev.cov["samples"]) < 5:
                ev.sample({"state": life, "op": op, "invalid": why, "rc": rc})
    for thm, why in pr["failed"]:
        rep.violation("proof obligation no longer checks: %s (%s)" % (thm, why), {"theorem": thm, "why": why, "log": pr["log"][-2000:]},
                      signature={"symptom": "proof", "theorem": thm}, found_input=False)
    ev.cov["rule"] = ("for each base LP x lifecycle state {loaded, solved, edited, empty}: every index / name / selector / basis / parameter argument "
                      "of the public editing and query API set to each boundary value {-1, count, count+1, count + other dimension (= number of internal "
                      "columns), INT_MAX}, illegal selector characters, duplicate / unknown names, malformed bases; each call in a forked ASan child; "
                      "return code must be non-zero and the full observable dump unchanged. distinct = distinct (LP, state, call).")
    ev.assumptions += ["NULL pointer arguments are not exercised (the property speaks of indices, names, selectors and bases)"]
    code = rep.finish()
    ev.write()
    return code
