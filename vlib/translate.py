"""Translator: re-extracts from /repo's current sources the tables the Lean models are
parametrised by and writes lean/Qsx/Generated/Tables.lean (only when the content changes, so that
lake stays incremental).  Theorems that quantify over these tables are re-checked by `lake build`
against what the code says now.
"""
import os, re, subprocess, json
from . import build

OUT = os.path.join(build.VERIF, "lean", "Qsx", "Generated", "Tables.lean")

MACROS = [
    # (lean name, C macro, kind)
    ("cstatLower", "QS_COL_BSTAT_LOWER", "char"), ("cstatBasic", "QS_COL_BSTAT_BASIC", "char"),
    ("cstatUpper", "QS_COL_BSTAT_UPPER", "char"), ("cstatFree", "QS_COL_BSTAT_FREE", "char"),
    ("rstatLower", "QS_ROW_BSTAT_LOWER", "char"), ("rstatBasic", "QS_ROW_BSTAT_BASIC", "char"),
    ("rstatUpper", "QS_ROW_BSTAT_UPPER", "char"),
    ("lpOptimal", "QS_LP_OPTIMAL", "int"), ("lpInfeasible", "QS_LP_INFEASIBLE", "int"),
    ("lpUnbounded", "QS_LP_UNBOUNDED", "int"), ("lpIterLimit", "QS_LP_ITER_LIMIT", "int"),
    ("lpTimeLimit", "QS_LP_TIME_LIMIT", "int"), ("lpUnsolved", "QS_LP_UNSOLVED", "int"),
    ("lpAborted", "QS_LP_ABORTED", "int"), ("lpNumerr", "QS_LP_NUMERR", "int"),
    ("lpObjLimit", "QS_LP_OBJ_LIMIT", "int"), ("lpModified", "QS_LP_MODIFIED", "int"),
    ("exactMaxIter", "QS_EXACT_MAX_ITER", "int"),
    ("primalSimplex", "PRIMAL_SIMPLEX", "int"), ("dualSimplex", "DUAL_SIMPLEX", "int"),
    ("statBasic", "STAT_BASIC", "int"), ("statUpper", "STAT_UPPER", "int"),
    ("statLower", "STAT_LOWER", "int"), ("statZero", "STAT_ZERO", "int"),
    ("extraRows", "EXTRA_ROWS", "int"), ("extraCols", "EXTRA_COLS", "int"), ("extraMat", "EXTRA_MAT", "int"),
    ("namebufsize", "ILL_namebufsize", "int"),
]


def eval_macros(libdir):
    """evaluate the macros with the compiler itself (a tiny program printing their values)"""
    src = ['#include <stdio.h>', '#include "QSopt_ex.h"', '#include "lib_mpq.h"', "int main(void){"]
    for lean, mac, kind in MACROS:
        src.append('#ifdef %s\n printf("%s %%d\\n", (int)(%s));\n#else\n printf("%s undefined\\n");\n#endif' % (mac, lean, mac, lean))
    src.append("return 0;}")
    c = os.path.join(libdir, "qsx_macros.c")
    exe = os.path.join(libdir, "qsx_macros")
    open(c, "w").write("\n".join(src))
    r = subprocess.run(["gcc", "-w", "-DHAVE_CONFIG_H", "-I" + libdir, "-I" + os.path.join(libdir, "qsopt_ex"), c, "-o", exe],
                       capture_output=True, text=True)
    if r.returncode != 0:
        raise build.BuildError("translator: macro program does not compile\n" + r.stderr[-3000:])
    out = subprocess.run([exe], capture_output=True, text=True).stdout
    vals = {}
    for ln in out.split("\n"):
        if ln:
            k, v = ln.split(" ")
            vals[k] = v
    return vals


def lean_str(s):
    return '"' + s.replace("\\", "\\\\").replace('"', '\\"') + '"'


def writers_section(libdir):
    """C20: direct writers to stdout/stderr after preprocessing + the TRACE flags that guard trace-only blocks"""
    from . import writers
    tab = writers.direct_writers(libdir)
    lines = ["/-- every call site (after preprocessing) that writes to the process's stdout/stderr without going through",
             "    QSlog: (file, enclosing function, callee, stream, number of such calls) -/",
             "def directWriters : List (String × String × String × String × Nat) := ["]
    lines.append(",\n".join('  (%s, %s, %s, %s, %d)' % (lean_str(f), lean_str(fn), lean_str(c), lean_str(st), n) for f, fn, c, st, n in tab))
    lines.append("]")
    # TRACE flags: `static int TRACE = <v>;` per template source
    flags = []
    main, tsrc, thdr = build.source_lists()
    for f in tsrc + main:
        pth = os.path.join(libdir, f)
        if os.path.exists(pth):
            m = re.search(r"^\s*static\s+int\s+TRACE\s*=\s*(-?\d+)\s*;", open(pth).read(), re.M)
            if m:
                flags.append((os.path.basename(f), int(m.group(1))))
    lines.append("/-- value of the file-static `TRACE` flag guarding `ILL_IFDOTRACE` blocks, per source file -/")
    lines.append("def traceFlags : List (String × Int) := [" + ", ".join("(%s, %d)" % (lean_str(f), v) for f, v in flags) + "]")
    return "\n".join(lines)


def lplex_section(libdir):
    """C10/C11: the reserved words of the LP reader (read_lp.c all_keyword[] with all_keyword_len[]) and the
    punctuation set of ILLis_lp_name_char (lp.c)"""
    rl = open(os.path.join(libdir, "qsopt_ex", "read_lp.c")).read()
    m = re.search(r"static\s+const\s+char\s*\*\s*all_keyword\s*\[\]\s*=\s*\{(.*?)\}\s*;", rl, re.S)
    if not m:
        raise build.BuildError("translator: all_keyword[] not found in read_lp.c")
    kws = re.findall(r'"([^"]*)"', m.group(1))
    m2 = re.search(r"static\s+int\s+all_keyword_len\s*\[\]\s*=\s*\{(.*?)\}\s*;", rl, re.S)
    if not m2:
        raise build.BuildError("translator: all_keyword_len[] not found in read_lp.c")
    lens = [int(x) for x in re.findall(r"-?\d+", m2.group(1))]
    lp = open(os.path.join(libdir, "qsopt_ex", "lp.c")).read()
    m3 = re.search(r"ILLis_lp_name_char\s*\(\s*int\s+c\s*,\s*int\s+pos\s*\)\s*\{(.*?)\n\}", lp, re.S)
    if not m3:
        raise build.BuildError("translator: ILLis_lp_name_char not found in lp.c")
    m4 = re.search(r'strchr\s*\(\s*"((?:[^"\\]|\\.)*)"\s*,\s*c\s*\)', m3.group(1))
    if not m4:
        raise build.BuildError("translator: punctuation set of ILLis_lp_name_char not found")
    specials = bytes(m4.group(1), "latin-1").decode("unicode_escape")
    lines = ["/-- `all_keyword[]` of read_lp.c (reserved words at the start of a line) -/",
             "def lpKeywords : List String := [" + ", ".join(lean_str(k) for k in kws) + "]",
             "/-- `all_keyword_len[]` of read_lp.c (without the -1 sentinel) -/",
             "def lpKeywordLens : List Nat := [" + ", ".join(str(x) for x in lens if x >= 0) + "]",
             "/-- the punctuation characters `ILLis_lp_name_char` accepts in a name (lp.c) -/",
             "def lpNameSpecials : String := " + lean_str(specials)]
    return "\n".join(lines)


def generate(libdir, extra_sections=()):
    vals = eval_macros(libdir)
    extra_sections = list(extra_sections) + [writers_section(libdir), lplex_section(libdir)]
    lines = ["/- GENERATED by vlib/translate.py from /repo's current sources — do not edit. -/",
             "namespace Qsx.Gen"]
    for lean, mac, kind in MACROS:
        v = vals.get(lean, "undefined")
        if v == "undefined":
            # extra_rows etc. are file-local macros of lib.c: fall back to a regex on the source
            v = _regex_macro(libdir, mac)
        lines.append("/-- `%s` -/\ndef %s : Nat := %s" % (mac, lean, v))
    for sec in extra_sections:
        lines.append(sec)
    lines.append("end Qsx.Gen")
    text = "\n".join(lines) + "\n"
    old = open(OUT).read() if os.path.exists(OUT) else None
    if old != text:
        with open(OUT, "w") as fh:
            fh.write(text)
        return True, vals
    return False, vals


def _regex_macro(libdir, mac):
    for f in ("lib.c", "lpdata.c", "basicdefs.h", "exact.h", "lpdefs.h"):
        p = os.path.join(libdir, "qsopt_ex", f)
        if os.path.exists(p):
            m = re.search(r"^\s*#\s*define\s+%s\s+\(?\s*(-?\d+)\s*\)?" % re.escape(mac), open(p).read(), re.M)
            if m:
                return m.group(1)
    raise build.BuildError("translator: macro %s not found" % mac)
