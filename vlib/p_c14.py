"""C14: a basis file reads back as the same basis; writing does not consume the basis.

proof:  Props.C14.decode_encode / encode_total over the two-pointer writer and table-driven reader
tie:    for all bases of small LPs (every status assignment with exactly nrows basic entries) and
        random larger ones: the file written by the real mpq_QSwrite_basis is compared byte for
        byte with the model's lines rendered with the problem's names; the basis read back by the
        real mpq_QSread_basis is compared with decode (= normalize); writing the problem's own
        basis (B = NULL) must leave mpq_QSget_basis unchanged and later calls working.
"""
import itertools, os
from fractions import Fraction as F
from . import build, proto, core, gen, translate, solvelib, lpfam
from .gen import LP, INF, NINF

OBL = [("Qsx.Props.C14", t) for t in ["Qsx.Props.C14.decode_encode", "Qsx.Props.C14.encode_total"]]


def hx(s):
    return s.encode().hex() if s else "-"


def start_line(lp):
    """a third of the problems are built rows first, columns through QSadd_col: the structural columns then do not occupy the first
    matrix columns (structmap is not the identity), as for every problem a user builds that way or copies"""
    return ("newcg 0 " if gen.hash_str(lp.line()) % 3 == 1 else "new 0 ") + lp.line()


def shape_lp(rng, nc, nr):
    """LP whose only purpose is its shape: some free columns, some ranged rows"""
    cols = []
    for j in range(nc):
        k = rng.choice(["default", "free", "box", "free", "upper"])
        lo, up = {"default": (F(0), INF), "free": (NINF, INF), "box": (F(-1), F(3)), "upper": (NINF, F(2))}[k]
        cols.append([F(rng.rint(-2, 2)), lo, up])
    rows = []
    for i in range(nr):
        s = rng.choice("LGER")
        ent = [(j, F(rng.rint(1, 3))) for j in range(nc) if rng.chance(0.7)]
        rows.append([s, F(rng.rint(0, 5)), F(rng.rint(0, 3)) if s == "R" else F(0), ent])
    return LP("min", cols, rows)


def all_bases(nc, nr):
    for cs in itertools.product("0123", repeat=nc):
        kb = sum(1 for c in cs if c == "1")
        if kb > nr:
            continue
        for rs in itertools.product("012", repeat=nr):
            if kb + sum(1 for r in rs if r == "1") == nr:
                yield "".join(cs), "".join(rs)


def random_basis(rng, nc, nr):
    while True:
        cs = [rng.choice("0123") for _ in range(nc)]
        kb = sum(1 for c in cs if c == "1")
        if kb <= nr:
            break
    rs = ["1"] * nr
    non = rng.shuffle(list(range(nr)))[:kb]
    for i in non:
        rs[i] = rng.choice("02")
    return "".join(cs), "".join(rs)


def render(lines, lp_name="P"):
    out = ["NAME    %s\n" % lp_name]
    for l in lines:
        p = l.split(":")
        if p[0] in ("XL", "XU"):
            out.append(" %s x%s c%s\n" % (p[0], p[1], p[2]))
        else:
            out.append(" %s x%s\n" % (p[0], p[1]))
    out.append("ENDATA\n")
    return "".join(out)


def run(pid, tier, seed):
    ev = core.Evidence(pid, tier, seed, "proof")
    rep = core.Reporter(pid, seed, ev)
    quick = tier == "quick"
    rng = gen.Rng(seed)
    libdir = build.build()
    exe = build.build_harness(libdir)
    translate.generate(libdir)
    pr = core.prove(OBL, thorough=not quick)
    ev.cov["obligations"], ev.cov["discharged"], ev.cov["axioms"] = pr["obligations"], pr["discharged"], pr["axioms"]
    pinf, ninf = solvelib.get_inf(exe)

    cases = []   # (lp, cs, rs, kind)
    shapes = [(1, 1), (2, 1), (2, 2), (3, 2)] + ([] if quick else [(3, 3), (4, 2), (4, 3)])
    for nc, nr in shapes:
        lp = shape_lp(rng, nc, nr)
        for cs, rs in all_bases(nc, nr):
            cases.append((lp, cs, rs, "exhaustive %dx%d" % (nc, nr)))
    for _ in range(150 if quick else 3000):
        nc, nr = rng.rint(1, 14), rng.rint(1, 12)
        lp = shape_lp(rng, nc, nr)
        cs, rs = random_basis(rng, nc, nr)
        cases.append((lp, cs, rs, "random"))
    groups = []
    for k, (lp, cs, rs, kind) in enumerate(cases):
        f = hx("b%d.bas" % (k % 7))
        groups.append([start_line(lp), "writebasis 0 %s %s %s" % (cs or "-", rs or "-", f), "readbasis 0 " + f])
    per = max(1, len(groups) // (build.NCPU * 2))
    batches = [sum(groups[i:i + per], []) for i in range(0, len(groups), per)]
    idx = [list(range(i, min(i + per, len(groups)))) for i in range(0, len(groups), per)]
    trs = core.parallel_harness(exe, batches, timeout=900)
    model = solvelib.Model(pinf, ninf)
    pend = []
    for tr, ids in zip(trs, idx):
        if tr.crashed:
            rep.violation("harness crashed in basis-file batch: " + tr.crashed, {"ops": batches[idx.index(ids)][:30]},
                          signature={"symptom": "crash"})
        for n, gi in enumerate(ids):
            if 3 * n + 2 >= len(tr):
                continue
            lp, cs, rs, kind = cases[gi]
            free = "".join("1" if (c[1] == NINF and c[2] == INF) else "0" for c in lp.cols)
            pend.append((gi, tr[3 * n + 1][1], tr[3 * n + 2][1], model.ask("brt %s %s %s" % (free or "-", cs or "-", rs or "-"))))
    model.run()
    for gi, wblk, rblk, k in pend:
        lp, cs, rs, kind = cases[gi]
        m = model.ans(k)
        ev.count("%s|%s|%s" % (lp.line(), cs, rs), nontrivial="1" in cs and ("0" in rs or "2" in rs))
        ev.stat("basis:" + kind)
        payload = {"lp": lp.line(), "cstat": cs, "rstat": rs}
        wrv = proto.get(wblk, "rv", ["?"])[0]
        if proto.get(m, "enc") != ["ok"]:
            rep.violation("model says the writer cannot encode a valid basis (theorem encode_total contradicted?)", payload,
                          signature={"symptom": "model-encode"}, found_input=False)
            continue
        if wrv != "0":
            rep.violation("mpq_QSwrite_basis fails on a valid basis", payload, signature={"symptom": "write-fails"})
            continue
        text = bytes.fromhex(proto.get(wblk, "file")[0].replace("-", "")).decode("latin-1") if proto.get(wblk, "file") else ""
        want = render(proto.get(m, "lines")[1:])
        norm = proto.get(m, "norm")
        dec = proto.get(m, "dec")
        got = proto.get(rblk, "basis")
        if dec != norm:
            rep.violation("model decode(encode b) differs from normalize b (theorem decode_encode contradicted?)", payload,
                          signature={"symptom": "model-roundtrip"}, found_input=False)
        # the property itself: read-back basis = normalize(original)
        if got != norm:
            rep.violation("basis file does not read back as the same basis: wrote %s/%s, read %s, expected %s" % (cs, rs, got, norm),
                          dict(payload, file=text, read_back=got, expected=norm), signature={"symptom": "roundtrip"})
        elif text != want:
            # same basis comes back but the file differs from the modelled writer: correspondence broken, property intact
            rep.violation("basis file text differs from the modelled writer although it reads back correctly",
                          dict(payload, file=text, model_file=want), signature={"symptom": "text-differs"}, found_input=False)
        if len(ev.cov["samples"]) < 4:
            ev.sample({"cstat": cs, "rstat": rs, "file": text, "read_back": got})

    # ---- writing the problem's own basis leaves it in place
    fam = [lp for _, lp in lpfam.mixed(rng.fork("own"), 40 if quick else 300)]
    groups = []
    for lp in fam:
        f = hx("own.bas")
        groups.append([start_line(lp), "solve 0 dual", "getbasis 0", "writebasis 0 own " + f, "getbasis 0", "state 0",
                       "readbasis 0 " + f, "solve 0 dual", "writebasis 0 own " + f, "getbasis 0"])
    per = max(1, len(groups) // build.NCPU)
    batches = [sum(groups[i:i + per], []) for i in range(0, len(groups), per)]
    idx = [list(range(i, min(i + per, len(groups)))) for i in range(0, len(groups), per)]
    trs = core.parallel_harness(exe, batches, timeout=900)
    for tr, ids in zip(trs, idx):
        if tr.crashed:
            rep.violation("crash while writing the problem's own basis and continuing: " + tr.crashed,
                          {"ops": batches[idx.index(ids)][:40]}, signature={"symptom": "own-basis-crash"})
        for n, gi in enumerate(ids):
            if 10 * n + 9 >= len(tr):
                continue
            b = [tr[10 * n + t][1] for t in range(10)]
            lp = fam[gi]
            ev.count("own|" + lp.line(), nontrivial=proto.get(b[2], "basis") not in (None, ["none"]))
            ev.stat("own-basis:" + ("has-basis" if proto.get(b[2], "basis") not in (None, ["none"]) else "no-basis"))
            before, after = proto.get(b[2], "basis"), proto.get(b[4], "basis")
            if before in (None, ["none"]):
                continue
            if proto.get(b[3], "rv") != ["0"]:
                rep.violation("mpq_QSwrite_basis(p, NULL, f) fails on a solved problem", {"lp": lp.line()}, signature={"symptom": "own-write-fails"})
            elif before != after:
                rep.violation("writing the problem's own basis changed/consumed it: before %s after %s" % (before, after),
                              {"lp": lp.line(), "before": before, "after": after}, signature={"symptom": "own-basis-consumed"})
            elif proto.get(b[9], "basis") in (None, ["none"]) or proto.get(b[8], "rv") != ["0"]:
                rep.violation("basis unusable in later calls after mpq_QSwrite_basis(p, NULL, f)", {"lp": lp.line()},
                              signature={"symptom": "own-basis-later"})
    # ---- (i) a basis loaded over the solver's own one is the problem's basis: that is what "write own" must write and keep;
    #      (ii) a round trip on a problem from which a non-last column was deleted (names and indices no longer line up with
    #      the order in which the names were registered)
    r2 = rng.fork("loaded")
    jobs2 = []
    for lp in fam:
        nc, nr = len(lp.cols), len(lp.rows)
        if nc < 2 or nr < 1:
            continue
        # a valid basis different from the optimal one: the slack basis
        cs0 = "".join("3" if (c[1] == NINF and c[2] == INF) else ("0" if c[1] != NINF else "2") for c in lp.cols)
        f = hx("l.bas")
        jobs2.append(("loaded", lp, [start_line(lp), "solve 0 dual", "loadbasis 0 %s %s" % (cs0, "1" * nr), "getbasis 0",
                                      "writebasis 0 own " + f, "getbasis 0", "readbasis 0 " + f]))
        j = r2.below(nc - 1)
        jobs2.append(("deleted-column", lp, [start_line(lp), "delcol 0 %d" % j, "solve 0 dual", "getbasis 0", "writebasis 0 own " + f,
                                              "readbasis 0 " + f, "loadbasis 0 %s %s" % (cs0[:j] + cs0[j + 1:], "1" * nr), "getbasis 0",
                                              "writebasis 0 own " + f, "readbasis 0 " + f]))
    from concurrent.futures import ThreadPoolExecutor
    with ThreadPoolExecutor(build.NCPU) as ex:
        trs2 = list(ex.map(lambda j: proto.run_harness(exe, j[2], timeout=300), jobs2))
    def norm_free(b, lp, drop=None):
        # the reader turns non-basic at-lower free columns into "free" (3): compare up to that documented normalisation
        if not b or b == ["none"]:
            return b
        cols = [c for k, c in enumerate(lp.cols) if k != drop]
        cs = "".join("3" if (ch in "03" and cols[k][1] == NINF and cols[k][2] == INF) else ch for k, ch in enumerate(b[0] if b[0] != "-" else ""))
        return [cs or "-", b[1]]
    for (kind, lp, lines), tr in zip(jobs2, trs2):
        ctx = {"lp": lp.line(), "lines": lines}
        ev.stat("own-basis:" + kind)
        ev.count(kind + "|" + lp.line())
        if tr.crashed:
            rep.violation("crash in a load / write-own / read-back sequence: " + tr.crashed[-300:], ctx, signature={"symptom": "own-basis-crash", "kind": kind})
            continue
        blocks = [b for _, b in tr]
        if kind == "loaded":
            if proto.get(blocks[2], "rc") != ["0"]:
                continue
            loaded, after, back = proto.get(blocks[3], "basis"), proto.get(blocks[5], "basis"), proto.get(blocks[6], "basis")
            if proto.get(blocks[4], "rv") != ["0"]:
                rep.violation("mpq_QSwrite_basis(p, NULL, f) fails after mpq_QSload_basis", ctx, signature={"symptom": "own-write-fails", "kind": kind})
            elif after != loaded:
                rep.violation("writing the problem's own basis replaced the loaded basis %s by %s" % (loaded, after), ctx, signature={"symptom": "own-basis-consumed", "kind": kind})
            elif norm_free(back, lp) != norm_free(loaded, lp):
                rep.violation("the file written for the problem's own (loaded) basis %s reads back as %s" % (loaded, back), ctx, signature={"symptom": "roundtrip", "kind": kind})
        else:
            drop = int(lines[1].split()[2])
            for wi, gi, ri in ((4, 3, 5), (8, 7, 9)):
                if len(blocks) <= ri:
                    break
                cur, back = proto.get(blocks[gi], "basis"), proto.get(blocks[ri], "basis")
                if cur in (None, ["none"]) or proto.get(blocks[wi], "rv") != ["0"]:
                    continue
                if norm_free(back, lp, drop) != norm_free(cur, lp, drop):
                    rep.violation("after deleting column %d the basis %s reads back from its file as %s" % (drop, cur, back), ctx, signature={"symptom": "roundtrip", "kind": kind})
                    break
    for thm, why in pr["failed"]:
        rep.violation("proof obligation no longer checks: %s (%s)" % (thm, why), {"theorem": thm, "why": why, "log": pr["log"][-2000:]},
                      signature={"symptom": "proof", "theorem": thm}, found_input=False)
    ev.cov["rule"] = ("all status assignments with exactly nrows basic entries for shapes up to 3x2 (quick) / 4x3 (thorough), plus random bases up "
                      "to 14x12, on LPs containing free columns and ranged rows; file text vs model writer, read-back vs normalize; and "
                      "solve / write own basis / get basis / read / re-solve sequences on the mixed LP family. non-trivial = at least one basic column "
                      "paired with a non-basic row (resp. the solve left a basis).")
    ev.assumptions += ["names are the harness defaults x<j>/c<i> (distinct, no white space), as the property's 'names needing no repair'",
                       "the MPS line reader underneath mpq_QSread_basis is not modelled below the token level"]
    code = rep.finish()
    ev.write()
    return code
