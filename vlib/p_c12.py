"""C12: basis verdicts and returned bases are exact.

proof:  Props.C12 — what an accepted verdict means, for every LP and every basis: 'optimal' => the
        basic solution is an optimum; the dual bound is the objective of the basic solution and is
        valid for every feasible point.
tie:    (a) every valid basis of small LPs (every basic set x every at-lower/at-upper/free
            assignment) is handed to QSexact_basis_optimalstatus / QSexact_basis_dualstatus; the
            exact basic solution is computed independently (python, exact), *identified* by the
            Lean multiplication check `isBasicSol` on the library's own internal LP, and the Lean
            verdict model's answers are compared with the library's;
        (b) bases returned with an OPTIMAL result by every entry point / pricing configuration:
            exactly one basic variable per row, basic solution == reported solution, verdict
            functions and a warm-started solve confirm.
"""
import itertools
from fractions import Fraction as F
from . import build, proto, core, gen, translate, solvelib, lpfam
from .gen import q2s, LP, INF, NINF
from .solvelib import arr

OBL = [("Qsx.Props.C12", t) for t in ["Qsx.Props.C12.optimal_verdict_sound", "Qsx.Props.C12.optimal_verdict_iff",
                                      "Qsx.Props.C12.dual_bound_is_objective", "Qsx.Props.C12.dual_bound_valid",
                                      "Qsx.Props.C12.optimal_value_unique"]]


def internal(lp):
    """columns of the internal LP: [(entries {row: coef}, lo, up, obj)] for structurals then logicals"""
    nc, nr = len(lp.cols), len(lp.rows)
    cols = [({}, c[1], c[2], F(c[0])) for c in lp.cols]
    for i, r in enumerate(lp.rows):
        for j, a in r[3]:
            cols[j][0][i] = cols[j][0].get(i, F(0)) + F(a)
    for i, r in enumerate(lp.rows):
        coef = F(-1) if r[0] in "GR" else F(1)
        up = F(0) if r[0] == "E" else (F(r[2]) if r[0] == "R" else INF)
        cols.append(({i: coef}, F(0), up, F(0)))
    return cols, [F(r[1]) for r in lp.rows]


def solve_sq(M, rhs):
    """exact solve of a square system; None when singular"""
    n = len(M)
    A = [list(M[i]) + [rhs[i]] for i in range(n)]
    for c in range(n):
        p = next((r for r in range(c, n) if A[r][c] != 0), None)
        if p is None:
            return None
        A[c], A[p] = A[p], A[c]
        inv = 1 / A[c][c]
        A[c] = [v * inv for v in A[c]]
        for r in range(n):
            if r != c and A[r][c] != 0:
                f = A[r][c]
                A[r] = [a - f * b for a, b in zip(A[r], A[c])]
    return [A[i][n] for i in range(n)]


def basic_solution(lp, cs, rs):
    """(x, s, y) of the basis, or None when the basic set is the wrong size or singular"""
    cols, rhs = internal(lp)
    nc, nr = len(lp.cols), len(lp.rows)
    st = cs + rs
    bas = [k for k in range(nc + nr) if st[k] == "1"]
    if len(bas) != nr:
        return None
    z = [F(0)] * (nc + nr)
    for k in range(nc + nr):
        if st[k] == "0":
            z[k] = cols[k][1]
        elif st[k] == "2":
            z[k] = cols[k][2]
        if z[k] in (INF, NINF):
            return None
    r = list(rhs)
    for k in range(nc + nr):
        if st[k] != "1" and z[k] != 0:
            for i, a in cols[k][0].items():
                r[i] -= a * z[k]
    M = [[cols[k][0].get(i, F(0)) for k in bas] for i in range(nr)]
    zb = solve_sq(M, r)
    if zb is None:
        return None
    for k, v in zip(bas, zb):
        z[k] = v
    MT = [[cols[k][0].get(i, F(0)) for i in range(nr)] for k in bas]
    y = solve_sq(MT, [cols[k][3] for k in bas])
    return z[:nc], z[nc:], y


def valid_bases(lp, rng, limit):
    """every valid basis (basic set of size nrows, non-basic statuses that name an existing bound)"""
    cols, _ = internal(lp)
    nc, nr = len(lp.cols), len(lp.rows)
    def options(k):
        lo, up = cols[k][1], cols[k][2]
        o = []
        if lo != NINF:
            o.append("0")
        if up != INF and (k < nc or lp.rows[k - nc][0] == "R"):
            o.append("2")
        if k < nc and lo == NINF and up == INF:
            o.append("3")
        return o
    out = []
    for bas in itertools.combinations(range(nc + nr), nr):
        non = [k for k in range(nc + nr) if k not in bas]
        opts = [options(k) for k in non]
        if any(not o for o in opts):
            continue
        for ch in itertools.product(*opts):
            st = ["1"] * (nc + nr)
            for k, c in zip(non, ch):
                st[k] = c
            out.append(("".join(st[:nc]), "".join(st[nc:])))
    if len(out) > limit:
        out = rng.shuffle(out)[:limit]
    return out


def small_lps(rng, quick):
    lps = []
    ex = list(itertools.islice(gen.exhaustive_small(1, 2), 0, None, 97 if quick else 11))
    lps += [("exhaustive 1x2", lp) for lp in ex[: 150 if quick else 1500]]
    ex = list(itertools.islice(gen.exhaustive_small(2, 1), 0, None, 29 if quick else 3))
    lps += [("exhaustive 2x1", lp) for lp in ex[: 100 if quick else 1200]]
    for _ in range(150 if quick else 1000):
        m, n = rng.rint(1, 3), rng.rint(1, 4)
        lps.append(("random small", gen.random_lp(rng, m=m, n=n, dens=0.8)))
    for _ in range(40 if quick else 300):
        lp = gen.random_lp(rng, m=rng.rint(2, 4), n=rng.rint(2, 5), dens=0.7, coef="mixed" if rng.chance(0.5) else "small")
        lps.append(("random rational", lp))
    # bound patterns where one bound is exactly 0 and the other is not (and fixed at a non-zero value): the places where
    # "is the bound non-zero" shortcuts in the basic-solution and dual-objective code can go wrong
    r2 = rng.fork("zero-bounds")
    for kind, lp in lps:
        for c in lp.cols:
            if r2.chance(0.12):
                c[1], c[2] = r2.choice([(F(-5), F(0)), (F(-1, 2), F(0)), (F(0), F(3)), (NINF, F(0)), (F(3), F(3)), (F(-2), F(-2)), (F(2), INF)])
    def wf(lp):
        return all(c[1] == NINF or c[2] == INF or F(c[1]) <= F(c[2]) for c in lp.cols) and all(F(r[2]) >= 0 for r in lp.rows) and lp.rows and lp.cols
    return [(k, lp) for k, lp in lps if wf(lp)]


def run(pid, tier, seed):
    ev = core.Evidence(pid, tier, seed, "proof")
    rep = core.Reporter(pid, seed, ev)
    quick = tier == "quick"
    rng = gen.Rng(seed)
    libdir = build.build()
    exe = build.build_harness(libdir)
    translate.generate(libdir)
    pr = core.prove(OBL, thorough=not quick)
    ev.cov["obligations"], ev.cov["discharged"], ev.cov["axioms"] = pr["obligations"], pr["discharged"], pr["axioms"]
    pinf, ninf = solvelib.get_inf(exe)
    model = solvelib.Model(pinf, ninf)

    # ------------------------------------------------------------- (a) supplied bases
    lps = small_lps(rng.fork("small"), quick)
    jobs = []
    for kind, lp in lps:
        bases = valid_bases(lp, rng.fork(lp.line()), 40 if quick else 150)
        if not bases:
            continue
        lines = ["new 0 " + lp.line(), "dumpilp 0"]
        r2 = rng.fork("order" + lp.line())
        for cs, rs in bases:
            pre = "fork " if r2.chance(0.1) else ""
            if r2.chance(0.5):
                lines += [pre + "optstatus 0 %s %s" % (cs, rs), pre + "dualstatus 0 %s %s" % (cs, rs)]
            else:
                lines += [pre + "dualstatus 0 %s %s" % (cs, rs), pre + "optstatus 0 %s %s" % (cs, rs)]
        jobs.append((kind, lp, bases, lines))
    groups = core.chunks(jobs, build.NCPU * 2)
    def work(group):
        return [proto.run_harness(exe, lines, timeout=600) for _, _, _, lines in group]
    from concurrent.futures import ThreadPoolExecutor
    with ThreadPoolExecutor(build.NCPU) as ex:
        trs = [t for g in ex.map(work, groups) for t in g]
    pending = []
    for (kind, lp, bases, lines), tr in zip(jobs, trs):
        ev.stat("family:" + kind)
        if tr.crashed:
            rep.violation("library crashed in a verdict function: " + tr.crashed[-400:], {"lp": lp.line(), "lines": lines, "stderr": tr.stderr[-1500:]},
                          signature={"symptom": "crash", "part": "supplied"})
            continue
        ilp = proto.get(tr[1][1], "ilp")
        ans = {}
        for op, blk in tr[2:]:
            t = op.split()
            if t[0] == "fork":
                t = t[1:]
            ans[(t[0], t[2], t[3])] = blk
        for cs, rs in bases:
            bs = basic_solution(lp, cs, rs)
            o, d = ans.get(("optstatus", cs, rs)), ans.get(("dualstatus", cs, rs))
            if bs is None:
                ev.stat("basis:singular")
                ev.count(lp.line() + cs + rs, nontrivial=False)
                continue
            x, s, y = bs
            k = model.ask("verdict ilp %s %s %s %s %s %s" % (" ".join(ilp), cs, rs, arr(x), arr(s), arr(y)))
            pending.append((lp, cs, rs, k, o, d, lines))
    model.run()
    for lp, cs, rs, k, o, d, lines in pending:
        m = model.ans(k)
        ctx = {"lp": lp.line(), "basis": [cs, rs], "lines": [lines[0], "optstatus 0 %s %s" % (cs, rs), "dualstatus 0 %s %s" % (cs, rs)],
               "model": [list(map(str, e)) for e in m]}
        if proto.get(m, "basic") != ["1"]:
            raise RuntimeError("internal: the reference basic solution is rejected by the Lean multiplication check: %s %s %s" % (lp.line(), cs, rs))
        mo, md, mb = proto.get(m, "opt")[0], proto.get(m, "dfeas")[0], proto.get(m, "dbound")[0]
        ev.count(lp.line() + cs + rs)
        ev.stat("verdict:opt=%s dual=%s" % (mo, md))
        ev.cov["traces_validated_against_impl"] += 1
        if o is None or d is None:
            continue
        if proto.get(o, "rval") != ["0"] or proto.get(d, "rval") != ["0"]:
            rep.violation("a verdict function fails on a valid non-singular basis %s %s" % (cs, rs), ctx, signature={"symptom": "verdict-error", "part": "supplied"})
            continue
        co, cd = proto.get(o, "result")[0], proto.get(d, "result")[0]
        if co != mo:
            rep.violation("QSexact_basis_optimalstatus answers %s for basis %s %s whose exact basic solution is %soptimal" % (co, cs, rs, "" if mo == "1" else "not "),
                          ctx, signature={"symptom": "optstatus-wrong", "model": mo})
        if cd != md:
            rep.violation("QSexact_basis_dualstatus answers %s for basis %s %s whose exact basic solution is %sdual feasible" % (cd, cs, rs, "" if md == "1" else "not "),
                          ctx, signature={"symptom": "dualstatus-wrong", "model": md})
        elif cd == "1":
            want = gen.s2q(mb) if lp.sense == "min" else -gen.s2q(mb)
            got = gen.s2q(proto.get(d, "dobj")[0])
            if want != got:
                rep.violation("QSexact_basis_dualstatus reports dual bound %s for basis %s %s; the exact dual objective of that basis is %s (internal minimisation form: %s)" %
                              (q2s(got), cs, rs, mb, q2s(want)), ctx, signature={"symptom": "dobj-wrong"})
        elif cd == "0" and proto.get(d, "dobj") != ["777777/1000003"]:
            ev.stat("dobj-written-when-infeasible")

    # ------------------------------------------------------------- (b) returned bases
    rlps = lpfam.mixed(rng.fork("mixed"), 80 if quick else 600)
    rlps += [("random 10", gen.random_lp(rng, m=rng.rint(4, 10), n=rng.rint(4, 10), dens=0.5)) for _ in range(20 if quick else 300)]
    rlps = [(k, lp) for k, lp in rlps if lp.rows and lp.cols and all(F(r[2]) >= 0 for r in lp.rows)
            and all(c[1] == NINF or c[2] == INF or F(c[1]) <= F(c[2]) for c in lp.cols)]
    jobs = []
    for kind, lp in rlps:
        r = rng.fork("cfg" + lp.line())
        for _ in range(2 if quick else 4):
            entry = r.choice(["exact primal", "exact dual", "primal", "dual"])
            pp, dp, sc = r.choice([1, 2, 3, 4]), r.choice([6, 7, 8, 9]), r.choice([0, 1])
            lines = ["new 0 " + lp.line(), "setparam 0 0 %d" % pp, "setparam 0 2 %d" % dp, "setparam 0 7 %d" % sc]
            if entry.startswith("exact"):
                nc, nr = len(lp.cols), len(lp.rows)
                # in/out basis: start from the slack basis so that the final basis is handed back
                cs0 = "".join("3" if (c[1] == NINF and c[2] == INF) else ("0" if c[1] != NINF else "2") for c in lp.cols)
                how = r.choice(["none", "slack"])
                lines.append("solve 0 %s %s" % (entry, "none" if how == "none" else cs0 + " " + "1" * nr))
            else:
                lines.append("solve 0 " + entry)
            lines.append("getbasis 0")
            lines.insert(len(lines) - 2, "dumpilp 0")
            jobs.append((kind, lp, "%s pp=%d dp=%d sc=%d" % (entry, pp, dp, sc), lines))
    def work2(job):
        kind, lp, tag, lines = job
        t1 = proto.run_harness(exe, lines, timeout=600)
        if t1.crashed or len(t1) < 2:
            return t1, None, lines
        sb = t1[-2][1]
        if proto.get(sb, "rval") != ["0"] or proto.get(sb, "status") != ["1"]:
            return t1, None, lines
        b = proto.get(sb, "basisout")
        if not b or b == ["none"]:
            b = proto.get(t1[-1][1], "basis")
        if not b or b == ["none"]:
            return t1, "nobasis", lines
        l2 = [lines[0], "optstatus 0 %s %s" % (b[0], b[1]), "dualstatus 0 %s %s" % (b[0], b[1]),
              "solve 0 exact primal %s %s" % (b[0], b[1]), "new 1 " + lp.line(), "loadbasis 1 %s %s" % (b[0], b[1]), "solve 1 dual"]
        return t1, proto.run_harness(exe, l2, timeout=600), lines + l2[1:]
    with ThreadPoolExecutor(build.NCPU) as ex:
        results = list(ex.map(work2, jobs))
    pend2 = []
    for (kind, lp, tag, _), (t1, t2, lines) in zip(jobs, results):
        ctx = {"lp": lp.line(), "config": tag, "lines": lines}
        entry = " ".join(tag.split()[:2]) if tag.startswith("exact") else tag.split()[0]
        if t1.crashed or (t2 not in (None, "nobasis") and t2.crashed):
            rep.violation("library crashed (%s): %s" % (tag, (t1.crashed or t2.crashed)[-400:]), ctx, signature={"symptom": "crash", "part": "returned", "entry": entry})
            continue
        if t2 is None:
            ev.stat("returned:not-optimal")
            continue
        if t2 == "nobasis":
            rep.violation("OPTIMAL reported but no basis can be obtained (%s)" % tag, ctx, signature={"symptom": "no-basis", "entry": entry})
            continue
        sb = t1[-2][1]
        b = proto.get(sb, "basisout")
        if not b or b == ["none"]:
            b = proto.get(t1[-1][1], "basis")
        cs, rs = b[0], b[1]
        cs, rs = ("" if cs == "-" else cs), ("" if rs == "-" else rs)
        nc, nr = len(lp.cols), len(lp.rows)
        ev.stat("returned:optimal:" + entry)
        ev.count("ret" + lp.line() + tag)
        if len(cs) != nc or len(rs) != nr or (cs + rs).count("1") != nr:
            rep.violation("basis returned with OPTIMAL has %d basic variables for %d rows (%s): %s %s" % ((cs + rs).count("1"), nr, tag, cs, rs), ctx,
                          signature={"symptom": "basic-count", "entry": entry})
            continue
        cols, _ = internal(lp)
        bad = [k for k, c in enumerate(cs + rs) if (c == "0" and cols[k][1] == NINF) or (c == "2" and cols[k][2] == INF)
               or (c == "3" and k >= nc) or (c == "2" and k >= nc and lp.rows[k - nc][0] != "R") or c not in "0123"]
        if bad:
            rep.violation("basis returned with OPTIMAL names a bound that does not exist (column %d status %s; %s): %s %s" % (bad[0], (cs + rs)[bad[0]], tag, cs, rs), ctx,
                          signature={"symptom": "status-without-bound", "entry": entry})
            continue
        bs = basic_solution(lp, cs, rs)
        if bs is None:
            ev.stat("returned:singular-basis")
            continue
        x, s, y = bs
        rx, rpi, robj = proto.get(sb, "x"), proto.get(sb, "pi"), proto.get(sb, "objval")
        # the reported vectors have to be *the* basic solution only where the optimum is unique: a dual non-degenerate basis
        # (every non-basic, non-fixed column has a non-zero reduced cost) pins down x, a primal non-degenerate one (every basic
        # column strictly between its bounds) pins down pi.  Otherwise the reported pair may be another optimal pair (the exact
        # solver returns the verified floating-point solution, not necessarily the basic one) - feasibility, optimality and the
        # objective of the basic solution are checked below through the verdict model.
        z = list(x) + list(s)
        dz = [cols[k][3] - sum((a * y[i] for i, a in cols[k][0].items()), F(0)) for k in range(nc + nr)]
        st = cs + rs
        dual_nondeg = all(st[k] == "1" or cols[k][1] == cols[k][2] or dz[k] != 0 for k in range(nc + nr))
        primal_nondeg = all(st[k] != "1" or (z[k] != cols[k][1] and z[k] != cols[k][2]) for k in range(nc + nr))
        ev.stat("returned:%s%s" % ("dual-nondeg " if dual_nondeg else "dual-degenerate ", "primal-nondeg" if primal_nondeg else "primal-degenerate"))
        if not dual_nondeg:
            rx = None
        if not primal_nondeg:
            rpi = None
        if rx is not None and [q2s(v) for v in x] != rx[1:]:
            rep.violation("the exact basic solution of the returned basis differs from the reported x (%s): basis gives %s, reported %s" %
                          (tag, " ".join(q2s(v) for v in x)[:200], " ".join(rx[1:])[:200]), ctx, signature={"symptom": "x-differs", "entry": entry})
        if rpi is not None and [q2s(v) for v in y] != rpi[1:]:
            rep.violation("the exact duals of the returned basis differ from the reported pi (%s): basis gives %s, reported %s" %
                          (tag, " ".join(q2s(v) for v in y)[:200], " ".join(rpi[1:])[:200]), ctx, signature={"symptom": "pi-differs", "entry": entry})
        ilp = proto.get(t1[-3][1], "ilp")
        pend2.append((lp, tag, entry, cs, rs, x, s, y, robj, t2, ctx, ilp))
    model = solvelib.Model(pinf, ninf)
    asks = [model.ask("verdict ilp %s %s %s %s %s %s" % (" ".join(ilp), cs or "-", rs or "-", arr(x), arr(s), arr(y)))
            for lp, tag, entry, cs, rs, x, s, y, robj, t2, ctx, ilp in pend2]
    model.run()
    for (lp, tag, entry, cs, rs, x, s, y, robj, t2, ctx, ilp), k in zip(pend2, asks):
        m = model.ans(k)
        ev.cov["traces_validated_against_impl"] += 1
        if proto.get(m, "basic") != ["1"]:
            raise RuntimeError("internal: reference basic solution rejected by the multiplication check: %s %s %s" % (lp.line(), cs, rs))
        if proto.get(m, "opt") != ["1"]:
            rep.violation("the basis returned with OPTIMAL is not optimal: its exact basic solution is primal feasible=%s dual feasible=%s (%s)" %
                          (proto.get(m, "pfeas")[0], proto.get(m, "dfeas")[0], tag), ctx, signature={"symptom": "returned-basis-not-optimal", "entry": entry})
        if robj is not None and robj[0] == "0" and proto.get(m, "objv") != [robj[1]]:
            rep.violation("objective of the returned basis' basic solution %s differs from the reported value %s (%s)" % (proto.get(m, "objv")[0], robj[1], tag), ctx,
                          signature={"symptom": "objval-differs", "entry": entry})
        o, d, ws, _, _, ws2 = [blk for _, blk in t2[1:7]] if len(t2) >= 7 else [None] * 6
        if o is None:
            continue
        if proto.get(o, "rval") != ["0"] or proto.get(o, "result") != ["1"]:
            rep.violation("QSexact_basis_optimalstatus does not confirm the basis returned with OPTIMAL (%s): %s" % (tag, o[:3]), ctx,
                          signature={"symptom": "optstatus-rejects-returned", "entry": entry})
        if proto.get(d, "rval") != ["0"] or proto.get(d, "result") != ["1"]:
            rep.violation("QSexact_basis_dualstatus does not confirm the basis returned with OPTIMAL (%s): %s" % (tag, d[:3]), ctx,
                          signature={"symptom": "dualstatus-rejects-returned", "entry": entry})
        elif robj is not None and robj[0] == "0":
            want = gen.s2q(robj[1]) if lp.sense == "min" else -gen.s2q(robj[1])
            if gen.s2q(proto.get(d, "dobj")[0]) != want:
                rep.violation("dual bound of the returned optimal basis is %s, the optimal value is %s (%s)" % (proto.get(d, "dobj")[0], robj[1], tag), ctx,
                              signature={"symptom": "dobj-differs-returned", "entry": entry})
        for nm, w in (("exact primal", ws), ("dual", ws2)):
            if proto.get(w, "rval") != ["0"] or proto.get(w, "status") != ["1"] or (robj is not None and proto.get(w, "objval") != robj):
                rep.violation("a warm-started %s solve from the returned optimal basis does not confirm it (%s): rval=%s status=%s objval=%s, expected %s" %
                              (nm, tag, proto.get(w, "rval"), proto.get(w, "status"), proto.get(w, "objval"), robj), ctx,
                              signature={"symptom": "warmstart-differs", "entry": entry, "how": nm})
            elif nm == "dual":
                st = dict(kv.split("=") for kv in proto.get(w, "state") or [] if "=" in kv)
                ev.stat("warm-dual:ok")

    if pr["failed"]:
        for thm, why in pr["failed"]:
            rep.violation("proof obligation %s no longer checks: %s" % (thm, why), {"theorem": thm, "why": why, "log": pr["log"][-3000:]},
                          signature={"theorem": thm}, found_input=False)
    ev.cov["rule"] = ("(a) every valid basis (basic set x non-basic status assignment, capped per LP) of small LPs: library verdicts == Lean verdict model on the "
                      "multiplication-checked exact basic solution, dual bound equal; (b) bases returned with OPTIMAL by exact/primal/dual entry points under "
                      "random pricing/scaling: one basic per row, statuses name existing bounds, basic solution == reported x/pi/objective, verdict functions and warm starts confirm")
    ev.assumptions += ["singular supplied bases are counted, not compared (the property is stated for non-singular bases)",
                       "infinite bounds are the library's 1e150-scale sentinels; bases naming an infinite bound are outside 'valid bases'"]
    ev.write()
    return rep.finish()
