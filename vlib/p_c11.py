"""C11: no input file can crash, hang or corrupt the reader.

proof:  Props.C11 — what the lexical layer carries: the number scanner is total, never reports more
        characters than it was given, and never divides by zero (every numeric field of every file
        passes through it).  The rest of the readers (line buffers, symbol tables, compression
        layer) is not modelled: there the check can only exhibit a failure, not prove absence.
tie:    byte strings offered as LP, MPS and basis files — valid files from the real writers and from
        the independent generator, with token-level mutations (duplicated / swapped / deleted lines,
        repeated sections with new names), byte-level mutations, truncations, pathological literals
        (p/0, long digit strings, many signs), very long lines and names, control bytes, and
        plain / .gz / .bz2 containers incl. damaged compressed streams.  Every read runs in a forked
        ASan child with an alarm: the outcome must be a problem or a clean failure; a returned
        problem must be dumpable, writable in both formats, solvable and freeable.
"""
import bz2, gzip, os, zlib
from fractions import Fraction as F
from . import build, proto, core, gen, translate, solvelib, lpfam, filegen, p_files
from .hist import hx

OBL = [("Qsx.Props.C11", t) for t in ["Qsx.Props.C11.scan_total", "Qsx.Props.C11.scan_consumes_le", "Qsx.Props.C11.scan_never_divides_by_zero",
                                     "Qsx.Props.C11.lplex_init_safe", "Qsx.Props.C11.lplex_safe", "Qsx.Props.C11.lplex_scan_loop_safe",
                                     "Qsx.Props.C11.has_colon_before_fix_reads_behind_terminator", "Qsx.Props.C11.lplex_progress",
                                     "Qsx.Props.C11.lplex_skip_monotone", "Qsx.Props.C11.mpslex_next_line", "Qsx.Props.C11.mpslex_safe",
                                     "Qsx.Props.C11.mpslex_set_end_of_line", "Qsx.Props.C11.lex_field_progress"]]


def mutate_tokens(rng, text, fmt):
    lines = text.split("\n")
    k = rng.choice(["dup", "swap", "del", "section", "longname", "longline", "literal", "signs", "keyword"])
    if k == "dup" and lines:
        i = rng.below(len(lines)); lines.insert(i, lines[i])
    elif k == "swap" and len(lines) > 2:
        i, j = rng.below(len(lines)), rng.below(len(lines)); lines[i], lines[j] = lines[j], lines[i]
    elif k == "del" and lines:
        del lines[rng.below(len(lines))]
    elif k == "section":
        if fmt == "MPS":
            # a repeated section that introduces NEW names after the side arrays were sized
            extra = rng.choice([["COLUMNS"] + ["  zz%d    %s    1" % (t, "obj") for t in range(rng.rint(1, 40))] + ["BOUNDS"] + [" UP BOUND    zz%d    5" % t for t in range(rng.rint(1, 40))],
                                ["ROWS"] + [" L  rr%d" % t for t in range(rng.rint(1, 40))] + ["RHS"] + [" RHS    rr%d    3" % t for t in range(rng.rint(1, 40))],
                                ["ROWS"] + [" G  qq%d" % t for t in range(rng.rint(1, 30))] + ["RANGES"] + [" RANGE    qq%d    2" % t for t in range(rng.rint(1, 30))],
                                ["BOUNDS", " UP BOUND    nosuch    1"], ["RHS", " RHS    nosuch    1"], ["NAME again"], ["OBJSENSE", "  MAX", "OBJSENSE", "  MIN"]])
            pos = len(lines) - 2 if len(lines) > 2 else 0
            lines[pos:pos] = extra
        else:
            extra = rng.choice([["Bounds", " nosuchvar <= 1"], ["Subject To", " c_new: x_new + y_new <= 1"], ["Integer", " nosuch"], ["Bounds", " x free free"], ["End", "Minimize", " x"]])
            pos = len(lines) - 2 if len(lines) > 2 else 0
            lines[pos:pos] = extra
    elif k == "longname":
        nm = rng.choice("abXY_") * rng.choice([200, 255, 256, 257, 300, 3000, 70000])
        i = rng.below(len(lines)) if lines else 0
        if lines:
            lines[i] = lines[i] + " " + nm + (" <= 1" if rng.chance(0.5) else "")
    elif k == "longline" and lines:
        i = rng.below(len(lines)); lines[i] = lines[i] + (" + 1 x" * rng.choice([100, 5000, 30000]))
    elif k == "literal" and lines:
        i = rng.below(len(lines))
        lit = rng.choice(["1/0", "1/", "/", "0/0", "1e", "1e+", "--1", "+-+-1", "1.2.3", "9" * rng.choice([50, 400, 5000]), "1e9999", "0." + "0" * 3000 + "1", "1/" + "9" * 300, "-" * 200 + "1", ".", "e5", "1e5.3", "inf", "-inf", "infinity", "nan"])
        lines[i] = lines[i] + " " + lit + " " + rng.choice(["x", "", "<= 1"])
    elif k == "signs" and lines:
        i = rng.below(len(lines)); lines[i] = lines[i].replace("+", "+ - + -", 1).replace("<=", "<= >= =", 1)
    elif k == "keyword":
        kw = rng.choice(["End", "Bounds", "Subject To", "Minimize", "ROWS", "COLUMNS", "ENDATA", "RHS", "MARKER", "free", "Integer"])
        lines.insert(rng.below(len(lines) + 1), kw)
    return "\n".join(lines)


def mutate_bytes(rng, data):
    b = bytearray(data)
    for _ in range(rng.rint(1, 6)):
        k = rng.choice(["flip", "ins", "del", "ctl", "trunc", "zero"])
        if not b:
            b = bytearray(b"x")
        i = rng.below(len(b))
        if k == "flip":
            b[i] ^= 1 << rng.below(8)
        elif k == "ins":
            b[i:i] = bytes([rng.below(256)]) * rng.choice([1, 1, 3, 300])
        elif k == "del":
            del b[i:i + rng.choice([1, 1, 5, 50])]
        elif k == "ctl":
            b[i] = rng.choice([0, 1, 8, 9, 11, 12, 13, 27, 127, 128, 255])
        elif k == "trunc":
            del b[i:]
        else:
            b[i:i + 4] = b"\x00" * 4
    return bytes(b)


def run(pid, tier, seed):
    ev = core.Evidence(pid, tier, seed, "proof")
    rep = core.Reporter(pid, seed, ev)
    quick = tier == "quick"
    rng = gen.Rng(seed)
    libdir = build.build()
    exe = build.build_harness(libdir)
    translate.generate(libdir)
    pr = core.prove(OBL, thorough=not quick)
    ev.cov["obligations"], ev.cov["discharged"], ev.cov["axioms"] = pr["obligations"], pr["discharged"], pr["axioms"]
    solvelib.get_inf(exe)

    # ---- base valid files from the real writers and from the independent generator
    bases = []      # (fmt, bytes)
    nb = 12 if quick else 60
    lines = []
    probs = [p_files.named_problem(rng.fork("b%d" % k)) for k in range(nb)]
    for k, (lp, cn, rn) in enumerate(probs):
        lines += p_files.build_lines(0, lp, cn, rn) + ["write 0 LP " + hx("w%d.lp" % k), "getfile " + hx("w%d.lp" % k), "write 0 MPS " + hx("w%d.mps" % k), "getfile " + hx("w%d.mps" % k),
                                                        "solve 0 dual", "writebasis 0 own " + hx("w%d.bas" % k), "getfile " + hx("w%d.bas" % k)]
    tr = proto.run_harness(exe, lines, timeout=600)
    gf = [(op, blk) for op, blk in tr if op.startswith("getfile")]
    basfiles = []
    for op, blk in gf:
        f = proto.get(blk, "file")
        if not f or f[0] in ("missing", "-"):
            continue
        name = bytes.fromhex(op.split(" ")[1]).decode()
        data = bytes.fromhex(f[0])
        if name.endswith(".bas"):
            basfiles.append(data)
        else:
            bases.append(("LP" if name.endswith(".lp") else "MPS", data))
    for k in range(nb):
        r = rng.fork("g%d" % k)
        lp, cn, rn = p_files.named_problem(r)
        if all(c[0] == 0 for c in lp.cols):
            lp.cols[0][0] = F(1)
        text, _ = filegen.render_lp(r, lp, cn, rn, [])
        bases.append(("LP", text.encode("latin-1")))
    if not bases:
        bases = [("LP", b"Minimize\n x\nSubject To\n c: x >= 1\nEnd\n")]
    # ---- cases
    cases = []    # (kind, fmt, filename, bytes)
    n_cases = 420 if quick else 12000
    for k in range(n_cases):
        r = rng.fork("c%d" % k)
        fmt, data = r.choice(bases)
        kind = r.wchoice([("valid", 5), ("token", 40), ("byte", 30), ("both", 10), ("random", 5), ("container", 10)])
        ext = "lp" if fmt == "LP" else "mps"
        name = "f%d.%s" % (k % 40, ext)
        if kind == "token":
            data = mutate_tokens(r, data.decode("latin-1"), fmt).encode("latin-1")
        elif kind == "byte":
            data = mutate_bytes(r, data)
        elif kind == "both":
            data = mutate_bytes(r, mutate_tokens(r, data.decode("latin-1"), fmt).encode("latin-1"))
        elif kind == "random":
            data = bytes(r.below(256) for _ in range(r.rint(0, 400)))
            if r.chance(0.3):
                fmt = r.choice(["LP", "MPS"])
        elif kind == "container":
            comp = r.choice(["gz", "bz2"])
            if r.chance(0.3):
                data = mutate_tokens(r, data.decode("latin-1"), fmt).encode("latin-1")
            packed = gzip.compress(data) if comp == "gz" else bz2.compress(data)
            how = r.choice(["intact", "truncated", "truncated", "corrupt", "wrong-ext", "empty"])
            if how == "truncated":
                packed = packed[: max(1, int(len(packed) * r.choice([0.2, 0.5, 0.6, 0.9, 0.99])))]
            elif how == "corrupt":
                packed = mutate_bytes(r, packed)
            elif how == "wrong-ext":
                comp = "bz2" if comp == "gz" else "gz"
            elif how == "empty":
                packed = b""
            data = packed
            name = "f%d.%s.%s" % (k % 40, ext, comp)
            kind = "container-" + how
        if len(data) > 65536:
            data = data[:65536]
        cases.append((kind, fmt, name, data))
    # basis files
    for k in range(60 if quick else 1500):
        r = rng.fork("bas%d" % k)
        data = r.choice(basfiles) if basfiles else b"NAME P\nENDATA\n"
        data = mutate_bytes(r, data) if r.chance(0.5) else mutate_tokens(r, data.decode("latin-1"), "MPS").encode("latin-1")
        cases.append(("basis", "BAS", "b%d.bas" % (k % 40), data))

    # valid but unusual files, written by hand: constructs the library's own writers never emit
    HAND = [
        ("MPS", "NAME t\nROWS\n N obj\n N other\n G r1\nCOLUMNS\n x obj 1 r1 1\n onlyfree other 3\n y r1 2\nRHS\n rhs r1 4\nENDATA\n"),
        ("MPS", "NAME t\nROWS\n N obj\n N spare\n L r1\n E r2\nCOLUMNS\n a spare 1\n b spare 2 obj 1\n c r1 1 r2 1\nRHS\n rhs r1 4 r2 1\nBOUNDS\n UP bnd a 3\nENDATA\n"),
        ("MPS", "NAME t\nROWS\n N obj\n G r1\nCOLUMNS\n x obj 1 r1 1\n x obj 2\n y r1 2\nRHS\n rhs r1 4\n rhs obj 7\nENDATA\n"),
        ("MPS", "NAME t\nOBJSENSE\n MAX\nROWS\n N obj\n L r1\nCOLUMNS\n MARKER 'MARKER' 'INTORG'\n x obj 1 r1 1\n MARKER 'MARKER' 'INTEND'\n y obj 1 r1 1\nRHS\n rhs r1 4\nBOUNDS\n BV bnd x\n MI bnd y\nENDATA\n"),
        ("MPS", "NAME t\nROWS\n N obj\n L r1\nCOLUMNS\n x obj 1 r1 1\nRHS\n rhs r1 4\n"),
        ("MPS", "NAME\nROWS\n N obj\nCOLUMNS\nRHS\nENDATA\n"),
        ("LP", "Minimize\n obj: x + y\nSubject To\n c1: x + y >= 1\n\n\n c2: x - y <= 3\nBounds\n\n x <= 4\nEnd\n"),
        ("LP", "Maximize\n x\nSubject To\n x + y <= 4\n x + y + x >= 1\nBounds\n -inf <= y <= 3\n x free\nEnd"),
        ("LP", "Minimize\n obj:\nSubject To\n c1: x >= 1\nEnd\n"),
        ("LP", "Minimize\n obj: 3 x + 2 y - x + 0.5 y + y\nSubject To\n c1: x + y + y >= 2\nEnd\n"),
        ("LP", "Minimize\n obj: x\nSubject To\n c1: 2 >= x\n c2: -x <= -1\n c3: 1 <= x <= 5\nGeneral\n x\nEnd\n"),
        # files that stop right after a name, without a final newline (fix: '\\0' was taken for a name character)
        ("LP", "Maximize\n obj: x\nSubject To\n c: y + st"),
        ("LP", "Maximize\n obj: x\nSubject To\n c: y - 3/5 x"),
        ("LP", "Maximize\n obj: x"),
        ("LP", "Minimize\n obj: x\nSubject To\n c1: x >= 1\nBounds\n x"),
        ("LP", "Minimize\n obj: x\nSubject To\n c1: x >= 1\nGeneral\n x"),
        ("LP", "Minimize\n obj: x\nSubject To\n c1"),
        ("MPS", "NAME    P\nROWS\n N  obj\n G  R1\n G  r2"),
        ("MPS", "NAME demo\nROWS\n N obj\n N free\n G r1\nCOLUMNS\n z free 1\n x obj 1 r1 1\n x r1 2\n y obj 1 r1 1\n y r1 3\nENDATA\n"),
        ("MPS", "NAME demo\nROWS\n N obj\n G r1\nCOLUMNS\n x obj 1 r1 1\n"),
        # OBJNAME names a row declared as a constraint that also has a RANGES record (the row becomes the objective after the record was accepted)
        ("MPS", "NAME demo\nOBJNAME\n cost\nROWS\n G cost\n G r1\nCOLUMNS\n x cost 1 r1 1\nRHS\n rhs r1 1\nRANGES\n rng cost 2\nENDATA\n"),
        ("MPS", "NAME demo\nOBJNAME\n cost\nROWS\n E r0\n L cost\n G r1\nCOLUMNS\n x cost 1 r1 1 r0 1\nRHS\n rhs r1 1\nRANGES\n rng r0 1\n rng cost -2\nENDATA\n"),
        ("MPS", "NAME    P\nROWS\n N  obj\n G  R1\nCOLUMNS\n x obj 1 R1 1"),
        ("MPS", "NAME    P\nROWS\n N  obj\n G  R1\nCOLUMNS\n x obj 1 R1 1\nRHS\n rhs R1 4\nBOUNDS\n UP bnd x"),
        ("MPS", "NAME    P\nROWS\n N  obj\n G  R1\nCOLUMNS\n x obj 1 R1 1\nRHS\n rhs R1 4\nRANGES\n rng R1"),
    ]
    for k, (fmt, text) in enumerate(HAND):
        cases.append(("handmade", fmt, "h%d.%s" % (k, fmt.lower()), text.encode("latin-1")))
        for j in range(3 if quick else 20):
            r = rng.fork("hand%d_%d" % (k, j))
            cases.append(("handmade-mutated", fmt, "hm%d_%d.%s" % (k, j, fmt.lower()), mutate_tokens(r, text, fmt).encode("latin-1")))
    base_lp = "new 0 " + gen.LP("min", [[F(1), F(0), gen.INF], [F(1), F(0), gen.INF]], [["G", F(1), F(0), [(0, F(1)), (1, F(1))]]]).line()
    batches = core.chunks(cases, build.NCPU * 2)

    def work(batch):
        lines = [base_lp]
        for kind, fmt, name, data in batch:
            lines.append("putfile %s %s" % (hx(name), data.hex() if data else "-"))
            # plain files: every other one through a line reader with an error collector (QSget_prob) instead of QSread_prob
            viac = fmt != "BAS" and not name.endswith((".gz", ".bz2")) and (len(data) + len(name)) % 2 == 0
            lines.append("fork readbasis 0 " + hx(name) if fmt == "BAS" else "fork %s %s %s" % ("readcheckc" if viac else "readcheck", fmt, hx(name)))
        return proto.run_harness(exe, lines, timeout=1800, env_extra={"QSX_ALARM": "20"})
    from concurrent.futures import ThreadPoolExecutor
    with ThreadPoolExecutor(build.NCPU) as ex:
        results = list(ex.map(work, batches))
    for batch, tr in zip(batches, results):
        for n, (kind, fmt, name, data) in enumerate(batch):
            if 2 * n + 2 >= len(tr):
                break
            blk = tr[2 * n + 2][1]
            ev.count("%s|%s" % (fmt, data.hex()[:4000]), nontrivial=len(data) > 0)
            ev.stat("case:" + kind)
            sig = proto.get(blk, "signal")
            cex = proto.get(blk, "childexit")
            rd = proto.get(blk, "read")
            payload = {"format": fmt, "mutation": kind, "file_name": name, "file_hex": data.hex()[:20000], "file_text": data.decode("latin-1")[:1500]}
            if sig == ["14"]:
                if proto.get(blk, "wmps") is not None:
                    rep.violation("the problem the %s reader returned for a %s file is not solved within 300 s" % (fmt, kind), payload, signature={"symptom": "solve-timeout", "fmt": fmt, "kind": kind.split("-")[0]})
                else:
                    rep.violation("the %s reader does not terminate (alarm after 20 s) on a %s file" % (fmt, kind), payload, signature={"symptom": "hang", "fmt": fmt, "kind": kind.split("-")[0]})
                continue
            if sig is not None or cex is not None:
                rep.violation("the %s reader crashes (%s) on a %s file" % (fmt, "signal " + sig[0] if sig else "sanitizer abort", kind), payload,
                              signature={"symptom": "crash", "fmt": fmt, "kind": kind.split("-")[0], "after_read": "ok" if rd == ["ok"] else "no"})
                continue
            if fmt == "BAS":
                ev.stat("outcome:basis-" + ("read" if proto.get(blk, "basis") not in (None, ["none"]) else "rejected"))
                continue
            ev.stat("outcome:" + (rd[0] if rd else "?"))
            if rd == ["ok"]:
                if proto.get(blk, "freed") is None or proto.get(blk, "wlp") != ["0"] or proto.get(blk, "wmps") != ["0"]:
                    rep.violation("a problem returned by the %s reader cannot be written/solved/freed" % fmt, dict(payload, block=[(k, v[:6]) for k, v in blk][:12]),
                                  signature={"symptom": "inconsistent-problem", "fmt": fmt})
            if len(ev.cov["samples"]) < 5 and kind in ("token", "both"):
                ev.sample({"format": fmt, "mutation": kind, "outcome": rd, "text": data.decode("latin-1")[:300]})
        if tr.crashed and getattr(tr, "returncode", 0) != 3:
            rep.violation("harness ended early in a reader batch: " + tr.crashed[-300:], {}, signature={"symptom": "batch-crash"}, found_input=False)
    # ---- the lexical layer of the LP reader driven directly vs Qsx.LpLex (theorems lplex_safe / lplex_progress are about this model)
    from . import lextie
    lmodel = solvelib.Model(*proto.INF_LINE.split()[1:3])
    lex_compare = lextie.run(ev, rep, rng.fork("lextie"), exe, lmodel, quick)
    mps_compare = lextie.run_mps(ev, rep, rng.fork("mpslextie"), exe, lmodel, quick)
    lmodel.run()
    lex_compare()
    mps_compare()
    for thm, why in pr["failed"]:
        rep.violation("proof obligation no longer checks: %s (%s)" % (thm, why), {"theorem": thm, "why": why, "log": pr["log"][-2000:]},
                      signature={"symptom": "proof", "theorem": thm}, found_input=False)
    ev.cov["rule"] = ("valid LP/MPS files from the real writers and from the independent generator, mutated at token level (duplicate/swap/delete lines, repeated sections "
                      "introducing new names, 200-70000 character names, lines of up to 30000 terms, pathological literals), at byte level (bit flips, insertions, "
                      "deletions, control bytes, truncation) and random bytes, plain and in .gz/.bz2 containers (intact, truncated, corrupted, wrong extension, empty); "
                      "mutated basis files; every read in a forked ASan child with a 20 s alarm; direct sessions on the lexical layers of the LP and the MPS reader (text + call "
                      "sequence, whole observable state compared with Qsx.LpLex / Qsx.MpsLex after every call, memory behind the string terminators poisoned). "
                      "distinct = distinct (format, bytes) resp. (text, calls).")
    ev.assumptions += ["memory safety of the unmodelled reader code can only be exhibited by the sanitizer during these runs, not proved",
                       "files are limited to 64 KiB; numeric exponents are limited to 4 digits by the generators"]
    code = rep.finish()
    ev.write()
    return code
