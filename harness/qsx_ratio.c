/* C03, component level: the primal phase-II ratio test driven directly on explicit rows
 * (installed headers ratio_mpq.h / ratio_mpf.h), the way primal_phaseII_step calls it.
 *
 *   ratiop2  incr eb el eu pivtol pftol n {y x l u}*n        exact (mpq) instance, full ratio_res
 *   ratiop2f prec incr eb el eu pivtol pftol n {y x l u}*n   mpf instance at `prec` bits: status and row only
 *   ratiod2  lvupper pivtol dftol n {zA dz cz vstat skip}*n  dual phase-II test, exact instance, full ratio_res
 *   ratiod2f prec lvupper pivtol dftol n {zA dz cz vstat skip}*n   mpf instance: status and column only
 *
 * Basis position i holds column i (baz[i] = i, yjz.indx[k] = k); the entering column is column n.
 */
#include <stdio.h>
#include <stdlib.h>
#include <string.h>
#include "QSopt_ex.h"
#include "logging-private.h"
#include "lpdefs_mpq.h"
#include "lpdefs_mpf.h"
#include "ratio_mpq.h"
#include "ratio_mpf.h"
#include "qsx_harness.h"

static void set_q (mpq_t d, mpq_t s) { mpq_set (d, s); }
static void set_f (mpf_t d, mpq_t s)
{
	if (mpq_equal (s, mpq_ILL_MAXDOUBLE)) mpf_set (d, mpf_ILL_MAXDOUBLE);
	else if (mpq_equal (s, mpq_ILL_MINDOUBLE)) mpf_set (d, mpf_ILL_MINDOUBLE);
	else mpf_set_q (d, s);
}

#define RATIO_P2(T, NUM, SET, FULL)                                                                          \
static void ratio_p2_##T (void)                                                                              \
{                                                                                                            \
	T##_lpinfo L, *lp = &L;                                                                                    \
	T##_tol_struct tol;                                                                                        \
	T##_count_struct cnt;                                                                                      \
	T##_ratio_res rs;                                                                                          \
	mpq_t q;                                                                                                   \
	int incr = tok_int (), eb = tok_int (), n, i;                                                              \
	memset (lp, 0, sizeof (L));                                                                                \
	memset (&cnt, 0, sizeof (cnt));                                                                            \
	mpq_init (q);                                                                                              \
	T##_EGlpNumInitVar (tol.pfeas_tol); T##_EGlpNumInitVar (tol.dfeas_tol); T##_EGlpNumInitVar (tol.pivot_tol); \
	T##_EGlpNumInitVar (tol.szero_tol); T##_EGlpNumInitVar (tol.ip_tol); T##_EGlpNumInitVar (tol.id_tol);     \
	T##_EGlpNumInitVar (rs.tz); T##_EGlpNumInitVar (rs.lbound); T##_EGlpNumInitVar (rs.ecoeff);               \
	T##_EGlpNumInitVar (rs.pivotval);                                                                          \
	lp->tol = &tol;                                                                                            \
	lp->cnts = &cnt;                                                                                           \
	{                                                                                                          \
		mpq_t el, eu, pv, pf;                                                                                    \
		mpq_init (el); mpq_init (eu); mpq_init (pv); mpq_init (pf);                                              \
		tok_q (el); tok_q (eu); tok_q (pv); tok_q (pf);                                                          \
		n = tok_int ();                                                                                          \
		lp->lz = T##_EGlpNumAllocArray (n + 1);                                                                  \
		lp->uz = T##_EGlpNumAllocArray (n + 1);                                                                  \
		lp->xbz = T##_EGlpNumAllocArray (n + 1);                                                                 \
		lp->yjz.coef = T##_EGlpNumAllocArray (n + 1);                                                            \
		lp->yjz.indx = (int *) calloc ((size_t) n + 1, sizeof (int));                                            \
		lp->baz = (int *) calloc ((size_t) n + 1, sizeof (int));                                                 \
		lp->nbaz = (int *) calloc (1, sizeof (int));                                                             \
		lp->vtype = (int *) calloc ((size_t) n + 1, sizeof (int));                                               \
		SET (tol.pivot_tol, pv); SET (tol.pfeas_tol, pf);                                                        \
		SET (lp->lz[n], el); SET (lp->uz[n], eu);                                                                \
		lp->nbaz[0] = n;                                                                                         \
		lp->vtype[n] = eb ? VBOUNDED : VLOWER;                                                                   \
		mpq_clear (el); mpq_clear (eu); mpq_clear (pv); mpq_clear (pf);                                          \
	}                                                                                                          \
	lp->yjz.nzcnt = n;                                                                                         \
	lp->yjz.size = n + 1;                                                                                      \
	for (i = 0; i < n; i++)                                                                                    \
	{                                                                                                          \
		lp->yjz.indx[i] = i;                                                                                     \
		lp->baz[i] = i;                                                                                          \
		tok_q (q); SET (lp->yjz.coef[i], q);                                                                     \
		tok_q (q); SET (lp->xbz[i], q);                                                                          \
		tok_q (q); SET (lp->lz[i], q);                                                                           \
		tok_q (q); SET (lp->uz[i], q);                                                                           \
	}                                                                                                          \
	T##_ILLratio_pII_test (lp, 0, incr ? VINCREASE : VDECREASE, &rs);                                          \
	FULL                                                                                                       \
	T##_EGlpNumFreeArray (lp->lz); T##_EGlpNumFreeArray (lp->uz); T##_EGlpNumFreeArray (lp->xbz);              \
	T##_EGlpNumFreeArray (lp->yjz.coef);                                                                       \
	free (lp->yjz.indx); free (lp->baz); free (lp->nbaz); free (lp->vtype);                                    \
	T##_EGlpNumClearVar (tol.pfeas_tol); T##_EGlpNumClearVar (tol.dfeas_tol); T##_EGlpNumClearVar (tol.pivot_tol); \
	T##_EGlpNumClearVar (tol.szero_tol); T##_EGlpNumClearVar (tol.ip_tol); T##_EGlpNumClearVar (tol.id_tol);  \
	T##_EGlpNumClearVar (rs.tz); T##_EGlpNumClearVar (rs.lbound); T##_EGlpNumClearVar (rs.ecoeff);            \
	T##_EGlpNumClearVar (rs.pivotval);                                                                         \
	mpq_clear (q);                                                                                             \
}

RATIO_P2 (mpq, mpq_t, set_q,
	printf ("res %d %d ", rs.ratio_stat, rs.lindex); put_q (rs.tz); printf (" "); put_q (rs.pivotval);
	printf (" %d %d ", rs.lvstat, rs.boundch); put_q (rs.lbound); printf ("\n");)
RATIO_P2 (mpf, mpf_t, set_f, printf ("res %d %d\n", rs.ratio_stat, rs.lindex);)

/* dual phase II: position j of zA holds non-basic column j (nbaz[j] = j, zA.indx[k] = k) */
#define RATIO_D2(T, SET, FULL)                                                                               \
static void ratio_d2_##T (void)                                                                              \
{                                                                                                            \
	T##_lpinfo L, *lp = &L;                                                                                    \
	T##_tol_struct tol;                                                                                        \
	T##_count_struct cnt;                                                                                      \
	T##_ratio_res rs;                                                                                          \
	mpq_t q;                                                                                                   \
	int lvu = tok_int (), n, i;                                                                                \
	memset (lp, 0, sizeof (L));                                                                                \
	memset (&cnt, 0, sizeof (cnt));                                                                            \
	mpq_init (q);                                                                                              \
	T##_EGlpNumInitVar (tol.pfeas_tol); T##_EGlpNumInitVar (tol.dfeas_tol); T##_EGlpNumInitVar (tol.pivot_tol); \
	T##_EGlpNumInitVar (tol.szero_tol); T##_EGlpNumInitVar (tol.ip_tol); T##_EGlpNumInitVar (tol.id_tol);     \
	T##_EGlpNumInitVar (rs.tz); T##_EGlpNumInitVar (rs.lbound); T##_EGlpNumInitVar (rs.ecoeff);               \
	T##_EGlpNumInitVar (rs.pivotval); T##_EGlpNumInitVar (lp->upd.piv); T##_EGlpNumInitVar (lp->upd.dty);     \
	lp->tol = &tol;                                                                                            \
	lp->cnts = &cnt;                                                                                           \
	tok_q (q); SET (tol.pivot_tol, q);                                                                         \
	tok_q (q); SET (tol.dfeas_tol, q);                                                                         \
	n = tok_int ();                                                                                            \
	lp->zA.coef = T##_EGlpNumAllocArray (n + 1);                                                               \
	lp->dz = T##_EGlpNumAllocArray (n + 1);                                                                    \
	lp->cz = T##_EGlpNumAllocArray (n + 1);                                                                    \
	lp->zA.indx = (int *) calloc ((size_t) n + 1, sizeof (int));                                               \
	lp->nbaz = (int *) calloc ((size_t) n + 1, sizeof (int));                                                  \
	lp->vtype = (int *) calloc ((size_t) n + 1, sizeof (int));                                                 \
	lp->vstat = (int *) calloc ((size_t) n + 1, sizeof (int));                                                 \
	lp->zA.nzcnt = n;                                                                                          \
	lp->zA.size = n + 1;                                                                                       \
	for (i = 0; i < n; i++)                                                                                    \
	{                                                                                                          \
		lp->zA.indx[i] = i;                                                                                      \
		lp->nbaz[i] = i;                                                                                         \
		tok_q (q); SET (lp->zA.coef[i], q);                                                                      \
		tok_q (q); SET (lp->dz[i], q);                                                                           \
		tok_q (q); SET (lp->cz[i], q);                                                                           \
		lp->vstat[i] = tok_int ();                                                                               \
		lp->vtype[i] = tok_int () ? VFIXED : (lp->vstat[i] == STAT_ZERO ? VFREE : VLOWER);                      \
	}                                                                                                          \
	T##_ILLratio_dII_test (lp, lvu ? STAT_UPPER : STAT_LOWER, &rs);                                            \
	FULL                                                                                                       \
	T##_EGlpNumFreeArray (lp->zA.coef); T##_EGlpNumFreeArray (lp->dz); T##_EGlpNumFreeArray (lp->cz);          \
	free (lp->zA.indx); free (lp->nbaz); free (lp->vtype); free (lp->vstat);                                   \
	T##_EGlpNumClearVar (tol.pfeas_tol); T##_EGlpNumClearVar (tol.dfeas_tol); T##_EGlpNumClearVar (tol.pivot_tol); \
	T##_EGlpNumClearVar (tol.szero_tol); T##_EGlpNumClearVar (tol.ip_tol); T##_EGlpNumClearVar (tol.id_tol);  \
	T##_EGlpNumClearVar (rs.tz); T##_EGlpNumClearVar (rs.lbound); T##_EGlpNumClearVar (rs.ecoeff);            \
	T##_EGlpNumClearVar (rs.pivotval); T##_EGlpNumClearVar (lp->upd.piv); T##_EGlpNumClearVar (lp->upd.dty);  \
	mpq_clear (q);                                                                                             \
}

RATIO_D2 (mpq, set_q,
	printf ("res %d %d ", rs.ratio_stat, rs.eindex); put_q (rs.tz); printf (" "); put_q (rs.pivotval);
	printf (" %d ", rs.coeffch); put_q (rs.ecoeff); printf ("\n");)
RATIO_D2 (mpf, set_f, printf ("res %d %d\n", rs.ratio_stat, rs.eindex);)

int qsx_ratio_commands (const char *c)
{
	if (!strcmp (c, "ratiop2")) ratio_p2_mpq ();
	else if (!strcmp (c, "ratiop2f"))
	{
		int prec = tok_int ();
		QSexact_set_precision ((unsigned) prec);
		ratio_p2_mpf ();
	}
	else if (!strcmp (c, "ratiod2")) ratio_d2_mpq ();
	else if (!strcmp (c, "ratiod2f"))
	{
		int prec = tok_int ();
		QSexact_set_precision ((unsigned) prec);
		ratio_d2_mpf ();
	}
	else { extern int qsx_symtab_commands (const char *c); return qsx_symtab_commands (c); }
	return 1;
}
