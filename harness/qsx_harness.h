#ifndef QSX_HARNESS_H
#define QSX_HARNESS_H
#include "QSopt_ex.h"
#define NSLOT 16
extern mpq_QSdata *SLOT[NSLOT];
extern long LOG_MSGS, LOG_BYTES, LOG_PARTIAL;
const char *tok (void);
int more (void);
int tok_int (void);
void tok_q (mpq_t q);
mpq_t *tok_qarr (int *n);
void put_q (mpq_t q);
void put_qarr (const char *key, mpq_t * a, int n);
void put_hex (const char *s);
mpq_QSdata *slot (void);
void dump_ilp (mpq_QSdata * p);
void put_cache (mpq_QSdata * p);
void put_state (mpq_QSdata * p);
void put_solution (mpq_QSdata * p);
int qsx_more_commands (const char *c);
void dump_api (mpq_QSdata * p);
void qsx_dump_all (mpq_QSdata * p);
/* protocol output goes to PO (a dup of the original fd 1), so that fd 1 and fd 2 can be redirected to
 * capture files (QSX_CAPTURE=1) and every byte the library writes there is counted (C20) */
#include <stdio.h>
extern FILE *PO;
#define printf(...) fprintf (PO, __VA_ARGS__)
#define putchar(c) fputc ((c), PO)
#endif
