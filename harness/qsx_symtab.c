/* C06 / C07 / C11 / C14, component level: the symbol table (symtab.c) driven directly through its
 * installed header, one table ST.
 *
 *   stnew n                 ILLsymboltab_create
 *   streg <hex|-> idx       ILLsymboltab_register (NULL name for -)      -> reg rc existed
 *   stdel hex               ILLsymboltab_delete                           -> del rc
 *   stren i <hex|->         ILLsymboltab_rename                           -> ren rc
 *   stlook hex              ILLsymboltab_lookup                           -> look rc index
 *   stgetidx hex            ILLsymboltab_getindex                         -> getidx rc index
 *   streset n hex*n         ILLsymboltab_index_reset                      -> reset rc
 *   stuname hex             ILLsymboltab_uname (prefix "", no try_prefix) -> uname rc name
 *   stdump                  sizes, entries in table order, every non-empty chain in chain order
 *   stfree
 */
#include <stdio.h>
#include <stdlib.h>
#include <string.h>
#include "QSopt_ex.h"
#include "logging-private.h"
#include "symtab.h"
#include "qsx_harness.h"

static ILLsymboltab ST;
static int ST_live = 0;

static char *unhex_name (const char *h)
{
	size_t n, i;
	char *s;
	if (!strcmp (h, "-")) return 0;
	n = strlen (h) / 2;
	s = (char *) malloc (n + 1);
	for (i = 0; i < n; i++)
	{
		unsigned v;
		sscanf (h + 2 * i, "%2x", &v);
		s[i] = (char) v;
	}
	s[n] = 0;
	return s;
}

static void st_dump (void)
{
	int i, x;
	printf ("st %d %d %d %d %d %d %d\n", ST.tablesize, ST.name_space, ST.hashspace, ST.index_ok ? 1 : 0,
					ST.strsize, ST.strspace, ST.freedchars);
	for (i = 0; i < ST.tablesize; i++)
	{
		printf ("ent %d ", i);
		put_hex (ST.nametable[i].symbol == -1 ? 0 : ST.namelist + ST.nametable[i].symbol);
		printf (" %d\n", ST.nametable[i].index);
	}
	for (x = 0; x < ST.hashspace; x++)
	{
		int e = ST.hashtable[x], steps = 0;
		if (e == ILL_SYM_NOINDEX) continue;
		printf ("chain %d", x);
		for (; e != ILL_SYM_NOINDEX; e = ST.nametable[e].next)
		{
			if (e < 0 || e >= ST.tablesize || ++steps > ST.tablesize + 1) { printf (" BROKEN"); break; }
			printf (" %d", e);
		}
		printf ("\n");
	}
}

int qsx_symtab_commands (const char *c)
{
	if (!strcmp (c, "stnew"))
	{
		int n = tok_int ();
		if (!ST_live) ILLsymboltab_init (&ST);
		printf ("new %d\n", ILLsymboltab_create (&ST, n) ? 1 : 0);
		ST_live = 1;
		return 1;
	}
	if (strncmp (c, "st", 2)) { extern int qsx_lplex_commands (const char *c); return qsx_lplex_commands (c); }
	if (!ST_live) { printf ("bad-op no-table\n"); return 1; }
	if (!strcmp (c, "streg"))
	{
		char *s = unhex_name (tok ());
		int idx = tok_int (), prev = -7, existed = -7;
		int rc = ILLsymboltab_register (&ST, s, idx, &prev, &existed);
		printf ("reg %d %d\n", rc ? 1 : 0, existed);
		free (s);
	}
	else if (!strcmp (c, "stdel"))
	{
		char *s = unhex_name (tok ());
		printf ("del %d\n", ILLsymboltab_delete (&ST, s) ? 1 : 0);
		free (s);
	}
	else if (!strcmp (c, "stren"))
	{
		int i = tok_int ();
		char *s = unhex_name (tok ());
		if (i < 0 || i >= ST.tablesize) printf ("ren 2\n");
		else printf ("ren %d\n", ILLsymboltab_rename (&ST, i, s) ? 1 : 0);
		free (s);
	}
	else if (!strcmp (c, "stlook"))
	{
		char *s = unhex_name (tok ());
		int ind = -7, rc = ILLsymboltab_lookup (&ST, s, &ind);
		printf ("look %d %d\n", rc ? 1 : 0, rc ? -1 : ind);
		free (s);
	}
	else if (!strcmp (c, "stgetidx"))
	{
		char *s = unhex_name (tok ());
		int ind = -7, rc = ILLsymboltab_getindex (&ST, s, &ind);
		printf ("getidx %d %d\n", rc ? 1 : 0, ind);
		free (s);
	}
	else if (!strcmp (c, "streset"))
	{
		int n = tok_int (), i;
		char **names = (char **) calloc ((size_t) n + 1, sizeof (char *));
		for (i = 0; i < n; i++) names[i] = unhex_name (tok ());
		printf ("reset %d\n", ILLsymboltab_index_reset (&ST, n, names) ? 1 : 0);
		for (i = 0; i < n; i++) free (names[i]);
		free (names);
	}
	else if (!strcmp (c, "stdump")) st_dump ();
	else if (!strcmp (c, "stfree")) { ILLsymboltab_free (&ST); ST_live = 0; printf ("ok\n"); }
	else return 0;
	return 1;
}
