/* C10 / C11, component level: the lexical layer of the LP reader (read_lp.c) driven directly through the
 * installed header read_lp_mpq.h on one reader state LX, fed from a memory buffer by an fgets-like function.
 * Before every line is delivered the unused part of the line buffers is filled with bytes that would
 * change the answer of any function that looks behind the string terminator (':' '\n' name characters).
 *
 *   lxnew <hex bytes|->      new state on that text (ILLread_lp_state_init)
 *   lxnf | lxnfl             next_field / next_field_on_line
 *   lxpf                     prev_field
 *   lxnv                     next_var
 *   lxtkw n hex*n            ILLtest_lp_state_keyword     lxkw n hex*n   ILLread_lp_state_keyword
 *   lxcolon | lxhc | lxnc    colon / has_colon / next_constraint
 *   lxsign                   sign            (extra: the sign)
 *   lxnis hex                ILLtest_lp_state_next_is
 *   lxval                    ILLread_lp_state_value        (extra: the coefficient, preset to 7)
 *   lxpbv                    possible_bound_value
 *   lxts all | lxsense       ILLtest_lp_state_sense / ILLread_lp_state_sense
 *   lxcst                    ILLcheck_subject_to
 *   lxfree
 * every command answers:  lx rc eof line_num p field firstCol sense bound [extra]
 */
#include <stdio.h>
#include <stdlib.h>
#include <string.h>
#include "QSopt_ex.h"
#include "logging-private.h"
#include "read_lp_mpq.h"
#include "qsx_harness.h"

static mpq_ILLread_lp_state *LX = 0;
static mpq_qsline_reader *LXR = 0;
static struct { unsigned char *buf; size_t n, pos; } SRC;

static const char POISON0[] = ":x\n<=:\\q1 ";
static const char POISON1[] = "y2+ >-\tZ\n";			/* QSX_LXPOISON=1: a second pattern; an answer that differs between the two depends on bytes behind a terminator */

static void poison (char *a, size_t from, size_t size)
{
	size_t i;
	const char *e = getenv ("QSX_LXPOISON");
	const char *P = (e && e[0] == '1') ? POISON1 : POISON0;
	size_t n = strlen (P);
	for (i = from; i < size; i++) a[i] = P[i % n];
}

/* fgets on the memory buffer; the rest of the destination is poisoned first */
static char *mem_gets (char *s, int size, void *src)
{
	int k = 0;
	(void) src;
	if (SRC.pos >= SRC.n || size < 2) return 0;
	poison (s, 0, (size_t) size);
	while (k < size - 1 && SRC.pos < SRC.n)
	{
		unsigned char c = SRC.buf[SRC.pos++];
		s[k++] = (char) c;
		if (c == '\n') break;
	}
	s[k] = 0;
	if (LX) poison (LX->line, strlen (LX->line) + 1 > (size_t) k + 1 ? strlen (LX->line) + 1 : (size_t) k + 1, sizeof (LX->line));
	return s;
}

static unsigned char *unhex_bytes (const char *h, size_t * n)
{
	size_t i;
	unsigned char *s;
	if (!strcmp (h, "-")) { *n = 0; return (unsigned char *) calloc (1, 1); }
	*n = strlen (h) / 2;
	s = (unsigned char *) malloc (*n + 1);
	for (i = 0; i < *n; i++)
	{
		unsigned v;
		sscanf (h + 2 * i, "%2x", &v);
		s[i] = (unsigned char) v;
	}
	s[*n] = 0;
	return s;
}

static void lx_free (void)
{
	if (LX) { mpq_clear (LX->bound_val); free (LX); LX = 0; }
	if (LXR) { mpq_ILLline_reader_free (LXR); LXR = 0; }
	free (SRC.buf); SRC.buf = 0; SRC.n = SRC.pos = 0;
}

static void lx_out (int rc)
{
	printf ("lx %d %d %d %ld ", rc, LX->eof ? 1 : 0, LX->line_num, (long) (LX->p - LX->line));
	put_hex (LX->field);
	printf (" %d %d ", LX->fieldOnFirstCol ? 1 : 0, (int) (unsigned char) LX->sense_val);
	put_q (LX->bound_val);
	if ((size_t) (LX->p - LX->line) > strlen (LX->line)) printf ("\nescaped %ld %lu", (long) (LX->p - LX->line), (unsigned long) strlen (LX->line));
}

static const char **tok_words (int *n)
{
	int i;
	const char **w;
	size_t len;
	*n = tok_int ();
	w = (const char **) calloc ((size_t) * n + 1, sizeof (char *));
	for (i = 0; i < *n; i++) w[i] = (const char *) unhex_bytes (tok (), &len);
	return w;
}

int qsx_lplex_commands (const char *c)
{
	int rc = 0;
	if (!strcmp (c, "lxnew"))
	{
		lx_free ();
		SRC.buf = unhex_bytes (tok (), &SRC.n);
		SRC.pos = 0;
		LXR = mpq_ILLline_reader_new (mem_gets, 0);
		LX = (mpq_ILLread_lp_state *) malloc (sizeof (mpq_ILLread_lp_state));
		poison ((char *) LX, 0, sizeof (*LX));
		LX->sense_val = ' ';
		rc = mpq_ILLread_lp_state_init (LX, LXR, "mem", 0);
		mpq_set_ui (LX->bound_val, 0UL, 1UL);
		lx_out (rc);
		printf ("\n");
		return 1;
	}
	if (strncmp (c, "lx", 2)) { extern int qsx_mpslex_commands (const char *c); return qsx_mpslex_commands (c); }
	if (!LX) { printf ("bad-op no-state\n"); return 1; }
	if (!strcmp (c, "lxfree")) { lx_free (); printf ("ok\n"); return 1; }
	if (!strcmp (c, "lxnf")) { rc = mpq_ILLread_lp_state_next_field (LX); lx_out (rc); }
	else if (!strcmp (c, "lxnfl")) { rc = mpq_ILLread_lp_state_next_field_on_line (LX); lx_out (rc); }
	else if (!strcmp (c, "lxpf")) { mpq_ILLread_lp_state_prev_field (LX); lx_out (0); }
	else if (!strcmp (c, "lxnv")) { rc = mpq_ILLread_lp_state_next_var (LX); lx_out (rc); }
	else if (!strcmp (c, "lxtkw") || !strcmp (c, "lxkw"))
	{
		int n, i;
		const char **w = tok_words (&n);
		rc = !strcmp (c, "lxtkw") ? mpq_ILLtest_lp_state_keyword (LX, w) : mpq_ILLread_lp_state_keyword (LX, w);
		for (i = 0; i < n; i++) free ((void *) w[i]);
		free (w);
		lx_out (rc);
	}
	else if (!strcmp (c, "lxcolon")) { rc = mpq_ILLread_lp_state_colon (LX); lx_out (rc); }
	else if (!strcmp (c, "lxhc")) { rc = mpq_ILLread_lp_state_has_colon (LX); lx_out (rc); }
	else if (!strcmp (c, "lxnc")) { rc = mpq_ILLread_lp_state_next_constraint (LX); lx_out (rc); }
	else if (!strcmp (c, "lxsign"))
	{
		mpq_t sg;
		mpq_init (sg);
		rc = mpq_ILLread_lp_state_sign (LX, &sg);
		lx_out (rc);
		printf (" ");
		put_q (sg);
		mpq_clear (sg);
	}
	else if (!strcmp (c, "lxnis"))
	{
		size_t len;
		char *s = (char *) unhex_bytes (tok (), &len);
		rc = mpq_ILLtest_lp_state_next_is (LX, s);
		free (s);
		lx_out (rc);
	}
	else if (!strcmp (c, "lxval"))
	{
		mpq_t v;
		mpq_init (v);
		mpq_set_ui (v, 7UL, 1UL);
		rc = mpq_ILLread_lp_state_value (LX, &v);
		lx_out (rc);
		printf (" ");
		put_q (v);
		mpq_clear (v);
	}
	else if (!strcmp (c, "lxpbv")) { rc = mpq_ILLread_lp_state_possible_bound_value (LX); lx_out (rc); }
	else if (!strcmp (c, "lxts")) { int all = tok_int (); rc = mpq_ILLtest_lp_state_sense (LX, all); lx_out (rc); }
	else if (!strcmp (c, "lxsense")) { rc = mpq_ILLread_lp_state_sense (LX); lx_out (rc ? 1 : 0); }
	else if (!strcmp (c, "lxcst")) { rc = mpq_ILLcheck_subject_to (LX); lx_out (rc ? 1 : 0); }
	else return 0;
	printf ("\n");
	return 1;
}
