/* C16: the reduced-precision copies QScopy_prob_mpq_dbl / QScopy_prob_mpq_mpf, observed through the
 * dbl_ / mpf_ query API; every number is printed as the exact rational value of the double / mpf.
 *   copydbl <slot>      copympf <slot>
 */
#include <stdio.h>
#include <stdlib.h>
#include <string.h>
#include "QSopt_ex.h"
#include "logging-private.h"
#include "qsx_harness.h"

static void put_d (double d)
{
	mpq_t q;
	if (d == dbl_ILL_MAXDOUBLE) { printf ("inf"); return; }
	if (d == dbl_ILL_MINDOUBLE) { printf ("-inf"); return; }
	if (d != d || d - d != 0.0) { printf ("nan"); return; }
	mpq_init (q);
	mpq_set_d (q, d);
	gmp_fprintf (PO, "%Qd", q);
	mpq_clear (q);
}
static void put_f (mpf_t f)
{
	mpq_t q;
	if (!mpf_cmp (f, mpf_ILL_MAXDOUBLE)) { printf ("inf"); return; }
	if (!mpf_cmp (f, mpf_ILL_MINDOUBLE)) { printf ("-inf"); return; }
	mpq_init (q);
	mpq_set_f (q, f);
	gmp_fprintf (PO, "%Qd", q);
	mpq_clear (q);
}

#define DUMP_COPY(T, TYPE, PUT, KEY)                                                                      \
static void dump_##T (T##_QSdata * p)                                                                     \
{                                                                                                         \
	int nc = T##_QSget_colcount (p), nr = T##_QSget_rowcount (p), nz = T##_QSget_nzcount (p);             \
	int sense = 0, i, k, rv = 0, v;                                                                       \
	TYPE *obj = T##_EGlpNumAllocArray (nc + 1), *lo = T##_EGlpNumAllocArray (nc + 1), *up = T##_EGlpNumAllocArray (nc + 1); \
	int *rowcnt = 0, *rowbeg = 0, *rowind = 0;                                                            \
	TYPE *rowval = 0, *rhs = 0, *range = 0;                                                               \
	char *senses = 0;                                                                                     \
	static const int ipar[] = { QS_PARAM_PRIMAL_PRICING, QS_PARAM_DUAL_PRICING, QS_PARAM_SIMPLEX_DISPLAY, \
		QS_PARAM_SIMPLEX_MAX_ITERATIONS, QS_PARAM_SIMPLEX_SCALING };                                      \
	static const int qpar[] = { QS_PARAM_SIMPLEX_MAX_TIME, QS_PARAM_OBJULIM, QS_PARAM_OBJLLIM };          \
	rv |= T##_QSget_objsense (p, &sense);                                                                 \
	rv |= T##_QSget_obj (p, obj);                                                                         \
	rv |= T##_QSget_bounds (p, lo, up);                                                                   \
	rv |= T##_QSget_ranged_rows (p, &rowcnt, &rowbeg, &rowind, &rowval, &rhs, &senses, &range, 0);        \
	if (rv) { printf (KEY " err\n"); goto CLEANUP; }                                                      \
	printf (KEY " lp %s %d %d", sense == QS_MIN ? "min" : "max", nc, nr);                                 \
	for (i = 0; i < nc; i++) { putchar (' '); PUT (obj[i]); putchar (' '); PUT (lo[i]); putchar (' '); PUT (up[i]); } \
	for (i = 0; i < nr; i++)                                                                              \
	{                                                                                                     \
		printf (" %c ", senses[i]); PUT (rhs[i]); putchar (' '); PUT (range[i]); printf (" %d", rowcnt[i]); \
		for (k = 0; k < rowcnt[i]; k++) { printf (" %d ", rowind[rowbeg[i] + k]); PUT (rowval[rowbeg[i] + k]); } \
	}                                                                                                     \
	putchar ('\n');                                                                                       \
	printf ("nzcount %d\n", nz);                                                                          \
	printf ("iparams");                                                                                   \
	for (i = 0; i < 5; i++) { v = -777; if (T##_QSget_param (p, ipar[i], &v)) printf (" err"); else printf (" %d", v); } \
	putchar ('\n');                                                                                       \
	printf ("qparams");                                                                                   \
	{ TYPE q; T##_EGlpNumInitVar (q);                                                                     \
	  for (i = 0; i < 3; i++) { putchar (' '); if (T##_QSget_param_EGlpNum (p, qpar[i], &q)) printf ("err"); else PUT (q); } \
	  T##_EGlpNumClearVar (q); }                                                                          \
	putchar ('\n');                                                                                       \
CLEANUP:                                                                                                  \
	T##_EGlpNumFreeArray (obj); T##_EGlpNumFreeArray (lo); T##_EGlpNumFreeArray (up);                     \
	T##_QSfree (rowcnt); T##_QSfree (rowbeg); T##_QSfree (rowind);                                        \
	T##_EGlpNumFreeArray (rowval); T##_EGlpNumFreeArray (rhs); T##_EGlpNumFreeArray (range);              \
	T##_QSfree (senses);                                                                                  \
}

DUMP_COPY (dbl, double, put_d, "dbl")
DUMP_COPY (mpf, mpf_t, put_f, "mpf")

int qsx_lowprec_commands (const char *c)
{
	if (!strcmp (c, "copydbl"))
	{
		mpq_QSdata *p = slot ();
		dbl_QSdata *d = QScopy_prob_mpq_dbl (p, "dblcopy");
		if (!d) { printf ("copy fail\n"); return 1; }
		dump_dbl (d);
		dbl_QSfree_prob (d);
	}
	else if (!strcmp (c, "copympf"))
	{
		mpq_QSdata *p = slot ();
		mpf_QSdata *d = QScopy_prob_mpq_mpf (p, "mpfcopy");
		if (!d) { printf ("copy fail\n"); return 1; }
		printf ("prec %lu\n", (unsigned long) EGLPNUM_PRECISION);
		dump_mpf (d);
		mpf_QSfree_prob (d);
	}
	else if (!strcmp (c, "qparams"))
	{
		/* the rational-valued parameters of the exact problem (for comparison with the copies) */
		mpq_QSdata *p = slot ();
		static const int qpar[] = { QS_PARAM_SIMPLEX_MAX_TIME, QS_PARAM_OBJULIM, QS_PARAM_OBJLLIM };
		static const int ipar[] = { QS_PARAM_PRIMAL_PRICING, QS_PARAM_DUAL_PRICING, QS_PARAM_SIMPLEX_DISPLAY,
			QS_PARAM_SIMPLEX_MAX_ITERATIONS, QS_PARAM_SIMPLEX_SCALING };
		int i, v;
		mpq_t q;
		mpq_init (q);
		printf ("iparams");
		for (i = 0; i < 5; i++) { v = -777; if (mpq_QSget_param (p, ipar[i], &v)) printf (" err"); else printf (" %d", v); }
		putchar ('\n');
		printf ("qparams");
		for (i = 0; i < 3; i++) { putchar (' '); if (mpq_QSget_param_EGlpNum (p, qpar[i], &q)) printf ("err"); else put_q (q); }
		putchar ('\n');
		mpq_clear (q);
	}
	else { extern int qsx_ratio_commands (const char *c); return qsx_ratio_commands (c); }
	return 1;
}
