/* further commands of the harness (edits, queries, files); see qsx_harness.c for the protocol */
#include <stdio.h>
#include <stdlib.h>
#include <string.h>
#include "QSopt_ex.h"
#include "logging-private.h"
#include "qsx_harness.h"

int qsx_more_commands (const char *c)
{
	(void) c;
	return 0;
}
