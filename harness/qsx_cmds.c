/* further commands of the harness (queries, files, scanner); see qsx_harness.c for the protocol */
#include <stdio.h>
#include <stdlib.h>
#include <string.h>
#include "QSopt_ex.h"
#include "logging-private.h"
#include "qsx_harness.h"

static char *unhex (const char *h)
{
	size_t n = strlen (h) / 2, i;
	char *s = (char *) malloc (n + 1);
	if (!strcmp (h, "-")) { s[0] = 0; return s; }
	for (i = 0; i < n; i++)
	{
		unsigned v;
		sscanf (h + 2 * i, "%2x", &v);
		s[i] = (char) v;
	}
	s[n] = 0;
	return s;
}

/* the whole problem through the query API, as one `lp ...` line (same syntax as the input),
 * followed by names, integer flags and counts */
void dump_api (mpq_QSdata * p)
{
	int nc = mpq_QSget_colcount (p), nr = mpq_QSget_rowcount (p), nz = mpq_QSget_nzcount (p);
	int sense = 0, i, k, rv = 0;
	mpq_t *obj = mpq_EGlpNumAllocArray (nc + 1), *lo = mpq_EGlpNumAllocArray (nc + 1), *up = mpq_EGlpNumAllocArray (nc + 1);
	int *rowcnt = 0, *rowbeg = 0, *rowind = 0;
	mpq_t *rowval = 0, *rhs = 0, *range = 0;
	char *senses = 0, **rnames = 0;
	int *intflags = (int *) calloc (nc + 1, sizeof (int));
	rv |= mpq_QSget_objsense (p, &sense);
	rv |= mpq_QSget_obj (p, obj);
	rv |= mpq_QSget_bounds (p, lo, up);
	rv |= mpq_QSget_ranged_rows (p, &rowcnt, &rowbeg, &rowind, &rowval, &rhs, &senses, &range, &rnames);
	if (rv) { printf ("api err\n"); goto CLEANUP; }
	printf ("api lp %s %d %d", sense == QS_MIN ? "min" : "max", nc, nr);
	for (i = 0; i < nc; i++)
	{
		putchar (' '); put_q (obj[i]); putchar (' '); put_q (lo[i]); putchar (' '); put_q (up[i]);
	}
	for (i = 0; i < nr; i++)
	{
		printf (" %c ", senses[i]);
		put_q (rhs[i]);
		putchar (' ');
		put_q (range[i]);
		printf (" %d", rowcnt[i]);
		for (k = 0; k < rowcnt[i]; k++)
		{
			printf (" %d ", rowind[rowbeg[i] + k]);
			put_q (rowval[rowbeg[i] + k]);
		}
	}
	putchar ('\n');
	printf ("nzcount %d\n", nz);
	{
		char **cn = (char **) calloc (nc + 1, sizeof (char *));
		if (!mpq_QSget_colnames (p, cn))
		{
			printf ("colnames %d", nc);
			for (i = 0; i < nc; i++) { putchar (' '); put_hex (cn[i]); mpq_QSfree (cn[i]); }
			putchar ('\n');
		}
		else printf ("colnames err\n");
		free (cn);
	}
	printf ("rownames %d", nr);
	for (i = 0; i < nr; i++) { putchar (' '); put_hex (rnames ? rnames[i] : 0); }
	putchar ('\n');
	if (!mpq_QSget_intflags (p, intflags))
	{
		printf ("intflags %d", nc);
		for (i = 0; i < nc; i++) printf (" %d", intflags[i]);
		putchar ('\n');
	}
	{
		char *on = mpq_QSget_objname (p), *pn = mpq_QSget_probname (p);
		printf ("objname "); put_hex (on); printf ("\nprobname "); put_hex (pn); putchar ('\n');
		mpq_QSfree (on); mpq_QSfree (pn);
	}
CLEANUP:
	mpq_EGlpNumFreeArray (obj); mpq_EGlpNumFreeArray (lo); mpq_EGlpNumFreeArray (up);
	mpq_QSfree (rowcnt); mpq_QSfree (rowbeg); mpq_QSfree (rowind);
	mpq_EGlpNumFreeArray (rowval); mpq_EGlpNumFreeArray (rhs); mpq_EGlpNumFreeArray (range);
	mpq_QSfree (senses);
	if (rnames) { for (i = 0; i < nr; i++) mpq_QSfree (rnames[i]); mpq_QSfree (rnames); }
	free (intflags);
}

static void cmd_scan (void)
{
	char *s = unhex (tok ());
	mpq_t q;
	int n;
	mpq_init (q);
	mpq_set_si (q, 424242, 1);
	n = mpq_EGlpNumReadStrXc (q, s);
	printf ("n %d\nval ", n);
	if (n) put_q (q); else printf ("none");
	putchar ('\n');
	mpq_clear (q);
	free (s);
}

static void cmd_read (void)
{
	int k = tok_int ();
	const char *ft = tok ();
	char *path = unhex (tok ());
	mpq_QSdata *p;
	if (k < 0 || k >= NSLOT) { printf ("bad-op slot\n"); free (path); return; }
	if (SLOT[k]) { mpq_QSfree_prob (SLOT[k]); SLOT[k] = 0; }
	p = mpq_QSread_prob (path, ft);
	SLOT[k] = p;
	printf ("read %s\n", p ? "ok" : "fail");
	free (path);
}

static void cmd_write (void)
{
	mpq_QSdata *p = slot ();
	const char *ft = tok ();
	char *path = unhex (tok ());
	int rv = mpq_QSwrite_prob (p, path, ft);
	printf ("write %d\n", rv ? 1 : 0);
	free (path);
}

static QSbasis *tok_basis2 (void)
{
	const char *cs = tok (), *rs = tok ();
	QSbasis *B = (QSbasis *) calloc (1, sizeof (QSbasis));
	if (!strcmp (cs, "-")) cs = "";
	if (!strcmp (rs, "-")) rs = "";
	B->nstruct = (int) strlen (cs);
	B->nrows = (int) strlen (rs);
	B->cstat = strdup (cs);
	B->rstat = strdup (rs);
	return B;
}
static void put_basis2 (const char *key, QSbasis * B)
{
	int i;
	if (!B) { printf ("%s none\n", key); return; }
	printf ("%s ", key);
	if (!B->nstruct) putchar ('-');
	for (i = 0; i < B->nstruct; i++) putchar (B->cstat ? B->cstat[i] : '?');
	putchar (' ');
	if (!B->nrows) putchar ('-');
	for (i = 0; i < B->nrows; i++) putchar (B->rstat ? B->rstat[i] : '?');
	putchar ('\n');
}
static void put_file (const char *path)
{
	FILE *f = fopen (path, "rb");
	int c;
	printf ("file ");
	if (!f) { printf ("missing\n"); return; }
	c = fgetc (f);
	if (c == EOF) putchar ('-');
	for (; c != EOF; c = fgetc (f)) printf ("%02x", c);
	putchar ('\n');
	fclose (f);
}
/* writebasis <slot> <own | cs rs> <hexpath> */
static void cmd_writebasis (void)
{
	mpq_QSdata *p = slot ();
	QSbasis *B = 0;
	char *path;
	int rv;
	const char *t = tok ();
	if (strcmp (t, "own")) { extern void qsx_unget (void); qsx_unget (); B = tok_basis2 (); }
	path = unhex (tok ());
	remove (path);
	rv = mpq_QSwrite_basis (p, B, path);
	printf ("rv %d\n", rv ? 1 : 0);
	if (!rv) put_file (path);
	if (B) { free (B->cstat); free (B->rstat); free (B); }
	free (path);
}
static void cmd_readbasis (void)
{
	mpq_QSdata *p = slot ();
	char *path = unhex (tok ());
	QSbasis *B = mpq_QSread_basis (p, path);
	put_basis2 ("basis", B);
	if (B) mpq_QSfree_basis (B);
	free (path);
}
static void cmd_loadbasis (void)
{
	mpq_QSdata *p = slot ();
	QSbasis *B = tok_basis2 ();
	int rv = mpq_QSload_basis (p, B);
	printf ("rv %d\n", rv ? 1 : 0);
	free (B->cstat); free (B->rstat); free (B);
}
static void cmd_putfile (void)
{
	char *path = unhex (tok ());
	char *data = unhex (tok ());
	FILE *f = fopen (path, "wb");
	if (f) { fwrite (data, 1, strlen (data), f); fclose (f); printf ("ok\n"); } else printf ("fail\n");
	free (path); free (data);
}

int qsx_more_commands (const char *c)
{
	if (!strcmp (c, "dumpapi")) dump_api (slot ());
	else if (!strcmp (c, "scan")) cmd_scan ();
	else if (!strcmp (c, "read")) cmd_read ();
	else if (!strcmp (c, "write")) cmd_write ();
	else if (!strcmp (c, "writebasis")) cmd_writebasis ();
	else if (!strcmp (c, "readbasis")) cmd_readbasis ();
	else if (!strcmp (c, "loadbasis")) cmd_loadbasis ();
	else if (!strcmp (c, "putfile")) cmd_putfile ();
	else if (!strcmp (c, "getfile")) { char *path = unhex (tok ()); put_file (path); free (path); }
	else return 0;
	return 1;
}
