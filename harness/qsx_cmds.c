/* further commands of the harness (queries, files, scanner); see qsx_harness.c for the protocol */
#include <stdio.h>
#include <unistd.h>
#include <stdlib.h>
#include <string.h>
#include "QSopt_ex.h"
#include "logging-private.h"
#include "qsx_harness.h"

static char *unhex (const char *h)
{
	size_t n = strlen (h) / 2, i;
	char *s = (char *) malloc (n + 1);
	if (!strcmp (h, "-")) { s[0] = 0; return s; }
	for (i = 0; i < n; i++)
	{
		unsigned v;
		sscanf (h + 2 * i, "%2x", &v);
		s[i] = (char) v;
	}
	s[n] = 0;
	return s;
}

/* the whole problem through the query API, as one `lp ...` line (same syntax as the input),
 * followed by names, integer flags and counts */
void dump_api (mpq_QSdata * p)
{
	int nc = mpq_QSget_colcount (p), nr = mpq_QSget_rowcount (p), nz = mpq_QSget_nzcount (p);
	int sense = 0, i, k, rv = 0;
	mpq_t *obj = mpq_EGlpNumAllocArray (nc + 1), *lo = mpq_EGlpNumAllocArray (nc + 1), *up = mpq_EGlpNumAllocArray (nc + 1);
	int *rowcnt = 0, *rowbeg = 0, *rowind = 0;
	mpq_t *rowval = 0, *rhs = 0, *range = 0;
	char *senses = 0, **rnames = 0;
	int *intflags = (int *) calloc (nc + 1, sizeof (int));
	rv |= mpq_QSget_objsense (p, &sense);
	rv |= mpq_QSget_obj (p, obj);
	rv |= mpq_QSget_bounds (p, lo, up);
	rv |= mpq_QSget_ranged_rows (p, &rowcnt, &rowbeg, &rowind, &rowval, &rhs, &senses, &range, &rnames);
	if (rv) { printf ("api err\n"); goto CLEANUP; }
	printf ("api lp %s %d %d", sense == QS_MIN ? "min" : "max", nc, nr);
	for (i = 0; i < nc; i++)
	{
		putchar (' '); put_q (obj[i]); putchar (' '); put_q (lo[i]); putchar (' '); put_q (up[i]);
	}
	for (i = 0; i < nr; i++)
	{
		printf (" %c ", senses[i]);
		put_q (rhs[i]);
		putchar (' ');
		put_q (range[i]);
		printf (" %d", rowcnt[i]);
		for (k = 0; k < rowcnt[i]; k++)
		{
			printf (" %d ", rowind[rowbeg[i] + k]);
			put_q (rowval[rowbeg[i] + k]);
		}
	}
	putchar ('\n');
	printf ("nzcount %d\n", nz);
	{
		char **cn = (char **) calloc (nc + 1, sizeof (char *));
		if (nc == 0) printf ("colnames 0\n");	/* nothing to ask for */
		else if (!mpq_QSget_colnames (p, cn))
		{
			printf ("colnames %d", nc);
			for (i = 0; i < nc; i++) { putchar (' '); put_hex (cn[i]); mpq_QSfree (cn[i]); }
			putchar ('\n');
		}
		else printf ("colnames err\n");
		free (cn);
	}
	printf ("rownames %d", nr);
	for (i = 0; i < nr; i++) { putchar (' '); put_hex (rnames ? rnames[i] : 0); }
	putchar ('\n');
	if (!mpq_QSget_intflags (p, intflags))
	{
		printf ("intflags %d", nc);
		for (i = 0; i < nc; i++) printf (" %d", intflags[i]);
		putchar ('\n');
	}
	{
		char *on = mpq_QSget_objname (p), *pn = mpq_QSget_probname (p);
		printf ("objname "); put_hex (on); printf ("\nprobname "); put_hex (pn); putchar ('\n');
		mpq_QSfree (on); mpq_QSfree (pn);
	}
CLEANUP:
	mpq_EGlpNumFreeArray (obj); mpq_EGlpNumFreeArray (lo); mpq_EGlpNumFreeArray (up);
	mpq_QSfree (rowcnt); mpq_QSfree (rowbeg); mpq_QSfree (rowind);
	mpq_EGlpNumFreeArray (rowval); mpq_EGlpNumFreeArray (rhs); mpq_EGlpNumFreeArray (range);
	mpq_QSfree (senses);
	if (rnames) { for (i = 0; i < nr; i++) mpq_QSfree (rnames[i]); mpq_QSfree (rnames); }
	free (intflags);
}

static void cmd_scan (void)
{
	char *s = unhex (tok ());
	mpq_t q;
	int n;
	mpq_init (q);
	mpq_set_si (q, 424242, 1);
	n = mpq_EGlpNumReadStrXc (q, s);
	printf ("n %d\nval ", n);
	if (n) put_q (q); else printf ("none");
	putchar ('\n');
	mpq_clear (q);
	free (s);
}

static void cmd_read (void)
{
	int k = tok_int ();
	const char *ft = tok ();
	char *path = unhex (tok ());
	mpq_QSdata *p;
	if (k < 0 || k >= NSLOT) { printf ("bad-op slot\n"); free (path); return; }
	if (SLOT[k]) { mpq_QSfree_prob (SLOT[k]); SLOT[k] = 0; }
	p = mpq_QSread_prob (path, ft);
	SLOT[k] = p;
	printf ("read %s\n", p ? "ok" : "fail");
	free (path);
}

/* readcheck <LP|MPS> <hexpath>: read; if a problem comes back it must be internally consistent: it can be
 * dumped, written in both formats, solved exactly and freed (C11).  Meant to run under `fork`. */
/* readcheck: through mpq_QSread_prob; readcheckc: through a line reader with an error collector (QSget_prob), every collected error is
 * looked at (description, source line) and released */
static void cmd_readcheck_impl (int collector)
{
	const char *ft = tok ();
	char *path = unhex (tok ());
	mpq_QSdata *p = 0;
	if (!collector) p = mpq_QSread_prob (path, ft);
	else
	{
		FILE *f = fopen (path, "r");
		if (f)
		{
			mpq_QSerror_memory mem = mpq_QSerror_memory_create (1);
			mpq_QSerror_collector col = mpq_QSerror_memory_collector_new (mem);
			mpq_QSline_reader rd = mpq_QSline_reader_new ((void *) fgets, f);
			mpq_QSformat_error e;
			long tot = 0;
			mpq_QSline_reader_set_error_collector (rd, col);
			p = mpq_QSget_prob (rd, "viacollector", ft);
			printf ("nerr %d\n", mpq_QSerror_memory_get_nerrors (mem));
			for (e = mpq_QSerror_memory_get_last_error (mem); e; e = mpq_QSerror_memory_get_prev_error (e))
			{
				const char *d = mpq_QSerror_get_desc (e), *l = mpq_QSerror_get_line (e);
				tot += (long) (d ? strlen (d) : 0) + (long) (l ? strlen (l) : 0) + mpq_QSerror_get_pos (e) + mpq_QSerror_get_line_number (e) + mpq_QSerror_get_type (e);
			}
			printf ("errbytes %s\n", tot >= 0 ? "ok" : "neg");
			mpq_QSline_reader_free (rd);
			mpq_QSerror_collector_free (col);
			mpq_QSerror_memory_free (mem);
			fclose (f);
		}
	}
	printf ("read %s\n", p ? "ok" : "fail");
	if (p)
	{
		int st = -1, rv;
		printf ("shape %d %d %d\n", mpq_QSget_colcount (p), mpq_QSget_rowcount (p), mpq_QSget_nzcount (p));
		dump_api (p);
		rv = mpq_QSwrite_prob (p, "rc_out.lp", "LP");
		printf ("wlp %d\n", rv ? 1 : 0);
		rv = mpq_QSwrite_prob (p, "rc_out.mps", "MPS");
		printf ("wmps %d\n", rv ? 1 : 0);
		if (mpq_QSget_colcount (p) <= 60 && mpq_QSget_rowcount (p) <= 60)
		{
			/* the alarm of a forked probe is for the reader; an unbounded problem takes the exact solver through every
			 * precision level (seconds under ASan, more on a loaded machine), which is no hang of the reader */
			if (getenv ("QSX_ALARM")) { fflush (PO); alarm (15 * atoi (getenv ("QSX_ALARM"))); }
			rv = QSexact_solver (p, 0, 0, 0, DUAL_SIMPLEX, &st);
			printf ("solve %d %d\n", rv ? 1 : 0, st);
		}
		mpq_QSfree_prob (p);
		printf ("freed\n");
	}
	free (path);
}

static void cmd_readcheck (void) { cmd_readcheck_impl (0); }
static void cmd_readcheckc (void) { cmd_readcheck_impl (1); }

static void cmd_write (void)
{
	mpq_QSdata *p = slot ();
	const char *ft = tok ();
	const char *pt = tok ();
	char *path = strcmp (pt, "NULL") ? unhex (pt) : 0;
	int rv = mpq_QSwrite_prob (p, path, ft);
	printf ("write %d\n", rv ? 1 : 0);
	free (path);
}

static QSbasis *tok_basis2 (void)
{
	const char *cs = tok (), *rs = tok ();
	QSbasis *B = (QSbasis *) calloc (1, sizeof (QSbasis));
	if (!strcmp (cs, "-")) cs = "";
	if (!strcmp (rs, "-")) rs = "";
	B->nstruct = (int) strlen (cs);
	B->nrows = (int) strlen (rs);
	B->cstat = strdup (cs);
	B->rstat = strdup (rs);
	return B;
}
static void put_basis2 (const char *key, QSbasis * B)
{
	int i;
	if (!B) { printf ("%s none\n", key); return; }
	printf ("%s ", key);
	if (!B->nstruct) putchar ('-');
	for (i = 0; i < B->nstruct; i++) putchar (B->cstat ? B->cstat[i] : '?');
	putchar (' ');
	if (!B->nrows) putchar ('-');
	for (i = 0; i < B->nrows; i++) putchar (B->rstat ? B->rstat[i] : '?');
	putchar ('\n');
}
static void put_file (const char *path)
{
	FILE *f = fopen (path, "rb");
	int c;
	printf ("file ");
	if (!f) { printf ("missing\n"); return; }
	c = fgetc (f);
	if (c == EOF) putchar ('-');
	for (; c != EOF; c = fgetc (f)) printf ("%02x", c);
	putchar ('\n');
	fclose (f);
}
/* writebasis <slot> <own | cs rs> <hexpath> */
static void cmd_writebasis (void)
{
	mpq_QSdata *p = slot ();
	QSbasis *B = 0;
	char *path;
	int rv;
	const char *t = tok ();
	if (strcmp (t, "own")) { extern void qsx_unget (void); qsx_unget (); B = tok_basis2 (); }
	path = unhex (tok ());
	remove (path);
	rv = mpq_QSwrite_basis (p, B, path);
	printf ("rv %d\n", rv ? 1 : 0);
	if (!rv) put_file (path);
	if (B) { free (B->cstat); free (B->rstat); free (B); }
	free (path);
}
static void cmd_readbasis (void)
{
	mpq_QSdata *p = slot ();
	char *path = unhex (tok ());
	QSbasis *B = mpq_QSread_basis (p, path);
	put_basis2 ("basis", B);
	if (B) mpq_QSfree_basis (B);
	free (path);
}
static void cmd_loadbasis (void)
{
	mpq_QSdata *p = slot ();
	QSbasis *B = tok_basis2 ();
	int rv = mpq_QSload_basis (p, B);
	printf ("rc %d\n", rv ? 1 : 0);
	free (B->cstat); free (B->rstat); free (B);
}
static void cmd_putfile (void)
{
	char *path = unhex (tok ());
	char *data = unhex (tok ());
	FILE *f = fopen (path, "wb");
	if (f) { fwrite (data, 1, strlen (data), f); fclose (f); printf ("ok\n"); } else printf ("fail\n");
	free (path); free (data);
}


/* ------------------------------------------------------------------ edit operations (C05/C06/C07)
 * every command prints "rc <0|1>" (the API's return code mapped to ok/err) */
static char *tok_name (void)
{
	const char *t = tok ();
	if (!strcmp (t, "-")) return 0;
	return unhex (t);
}
static void tok_ent (int *k, int **ind, mpq_t ** val)
{
	int i;
	*k = tok_int ();
	*ind = (int *) malloc (sizeof (int) * (*k + 1));
	*val = mpq_EGlpNumAllocArray (*k + 1);
	for (i = 0; i < *k; i++)
	{
		(*ind)[i] = tok_int ();
		tok_q ((*val)[i]);
	}
}
static int *tok_ints (int *k)
{
	int i, *a;
	*k = tok_int ();
	a = (int *) malloc (sizeof (int) * (*k + 1));
	for (i = 0; i < *k; i++) a[i] = tok_int ();
	return a;
}
static char **tok_names (int *k)
{
	int i;
	char **a;
	*k = tok_int ();
	a = (char **) calloc (*k + 1, sizeof (char *));
	for (i = 0; i < *k; i++) a[i] = tok_name ();
	return a;
}
static void put_rc (int rv) { printf ("rc %d\n", rv ? 1 : 0); }

static int edit_commands (const char *c)
{
	mpq_QSdata *p;
	mpq_t a, b, d;
	int rv = 0, k, *ind = 0, i;
	mpq_t *val = 0;
	char *name = 0;
	mpq_init (a); mpq_init (b); mpq_init (d);
	if (!strcmp (c, "addcol") || !strcmp (c, "newcol"))
	{
		p = slot (); name = tok_name ();
		tok_q (a); tok_q (b); tok_q (d);
		if (c[0] == 'a')
		{
			tok_ent (&k, &ind, &val);
			rv = mpq_QSadd_col (p, k, ind, val, a, b, d, name);
		}
		else rv = mpq_QSnew_col (p, a, b, d, name);
		put_rc (rv);
	}
	else if (!strcmp (c, "addrow") || !strcmp (c, "addrrow") || !strcmp (c, "newrow"))
	{
		int sense;
		p = slot (); name = tok_name ();
		sense = tok ()[0];
		tok_q (a);
		if (!strcmp (c, "addrrow")) tok_q (b);
		if (c[0] == 'a')
		{
			tok_ent (&k, &ind, &val);
			if (!strcmp (c, "addrrow"))
				rv = mpq_QSadd_ranged_row (p, k, ind, (const mpq_t *) val, (const mpq_t *) & a, sense, (const mpq_t *) & b, name);
			else
				rv = mpq_QSadd_row (p, k, ind, (const mpq_t *) val, (const mpq_t *) & a, sense, name);
		}
		else rv = mpq_QSnew_row (p, a, sense, name);
		put_rc (rv);
	}
	else if (!strcmp (c, "delrow")) { p = slot (); put_rc (mpq_QSdelete_row (p, tok_int ())); }
	else if (!strcmp (c, "delcol")) { p = slot (); put_rc (mpq_QSdelete_col (p, tok_int ())); }
	else if (!strcmp (c, "delrows")) { p = slot (); ind = tok_ints (&k); put_rc (mpq_QSdelete_rows (p, k, ind)); }
	else if (!strcmp (c, "delcols")) { p = slot (); ind = tok_ints (&k); put_rc (mpq_QSdelete_cols (p, k, ind)); }
	else if (!strcmp (c, "delsetrows"))
	{
		p = slot (); ind = tok_ints (&k);
		if (k != mpq_QSget_rowcount (p)) printf ("bad-op flags-length\n"); else put_rc (mpq_QSdelete_setrows (p, ind));
	}
	else if (!strcmp (c, "delsetcols"))
	{
		p = slot (); ind = tok_ints (&k);
		if (k != mpq_QSget_colcount (p)) printf ("bad-op flags-length\n"); else put_rc (mpq_QSdelete_setcols (p, ind));
	}
	else if (!strcmp (c, "delnamedrow")) { p = slot (); name = tok_name (); put_rc (mpq_QSdelete_named_row (p, name)); }
	else if (!strcmp (c, "delnamedcol")) { p = slot (); name = tok_name (); put_rc (mpq_QSdelete_named_column (p, name)); }
	else if (!strcmp (c, "delnamedrows") || !strcmp (c, "delnamedcols"))
	{
		char **names;
		p = slot (); names = tok_names (&k);
		rv = c[8] == 'r' ? mpq_QSdelete_named_rows_list (p, k, (const char **) names) : mpq_QSdelete_named_columns_list (p, k, (const char **) names);
		put_rc (rv);
		for (i = 0; i < k; i++) free (names[i]);
		free (names);
	}
	else if (!strcmp (c, "chgcoef")) { int r, j; p = slot (); r = tok_int (); j = tok_int (); tok_q (a); put_rc (mpq_QSchange_coef (p, r, j, a)); }
	else if (!strcmp (c, "chgobj")) { int j; p = slot (); j = tok_int (); tok_q (a); put_rc (mpq_QSchange_objcoef (p, j, a)); }
	else if (!strcmp (c, "chgrhs")) { int r; p = slot (); r = tok_int (); tok_q (a); put_rc (mpq_QSchange_rhscoef (p, r, a)); }
	else if (!strcmp (c, "chgrange")) { int r; p = slot (); r = tok_int (); tok_q (a); put_rc (mpq_QSchange_range (p, r, a)); }
	else if (!strcmp (c, "chgsense")) { int r; p = slot (); r = tok_int (); put_rc (mpq_QSchange_sense (p, r, tok ()[0])); }
	else if (!strcmp (c, "chgsenses"))
	{
		char *ss;
		p = slot (); k = tok_int ();
		ind = (int *) malloc (sizeof (int) * (k + 1)); ss = (char *) malloc (k + 1);
		for (i = 0; i < k; i++) { ind[i] = tok_int (); ss[i] = tok ()[0]; }
		put_rc (mpq_QSchange_senses (p, k, ind, ss));
		free (ss);
	}
	else if (!strcmp (c, "chgbound")) { int j, lu; p = slot (); j = tok_int (); lu = tok ()[0]; tok_q (a); put_rc (mpq_QSchange_bound (p, j, lu, a)); }
	else if (!strcmp (c, "chgbounds"))
	{
		char *lu;
		p = slot (); k = tok_int ();
		ind = (int *) malloc (sizeof (int) * (k + 1)); lu = (char *) malloc (k + 1); val = mpq_EGlpNumAllocArray (k + 1);
		for (i = 0; i < k; i++) { ind[i] = tok_int (); lu[i] = tok ()[0]; tok_q (val[i]); }
		put_rc (mpq_QSchange_bounds (p, k, ind, lu, (const mpq_t *) val));
		free (lu);
	}
	else if (!strcmp (c, "chgobjsense"))
	{
		const char *t;
		p = slot (); t = tok ();
		put_rc (mpq_QSchange_objsense (p, !strcmp (t, "min") ? QS_MIN : !strcmp (t, "max") ? QS_MAX : atoi (t)));
	}
	else if (!strcmp (c, "getcoef"))
	{
		int r, j;
		p = slot (); r = tok_int (); j = tok_int ();
		mpq_set_si (a, 424242, 1);
		rv = mpq_QSget_coef (p, r, j, &a);
		put_rc (rv);
		if (!rv) { printf ("coef "); put_q (a); putchar ('\n'); }
	}
	else if (!strcmp (c, "getbound"))
	{
		int j, lu;
		p = slot (); j = tok_int (); lu = tok ()[0];
		rv = mpq_QSget_bound (p, j, lu, &a);
		put_rc (rv);
		if (!rv) { printf ("bound "); put_q (a); putchar ('\n'); }
	}
	else if (!strcmp (c, "colindex") || !strcmp (c, "rowindex"))
	{
		int idx = -7;
		p = slot (); name = tok_name ();
		rv = c[0] == 'c' ? mpq_QSget_column_index (p, name, &idx) : mpq_QSget_row_index (p, name, &idx);
		put_rc (rv);
		if (!rv) printf ("index %d\n", idx);
	}
	else if (!strcmp (c, "copy"))
	{
		int dst;
		p = slot (); dst = tok_int ();
		if (dst < 0 || dst >= NSLOT) printf ("bad-op slot\n");
		else
		{
			if (SLOT[dst]) mpq_QSfree_prob (SLOT[dst]);
			SLOT[dst] = mpq_QScopy_prob (p, "copy");
			put_rc (SLOT[dst] == 0);
		}
	}
	else if (!strcmp (c, "create"))
	{
		int dst = tok_int ();
		const char *t = tok ();
		if (dst < 0 || dst >= NSLOT) printf ("bad-op slot\n");
		else
		{
			if (SLOT[dst]) mpq_QSfree_prob (SLOT[dst]);
			SLOT[dst] = mpq_QScreate_prob ("P", !strcmp (t, "max") ? QS_MAX : QS_MIN);
			put_rc (SLOT[dst] == 0);
		}
	}
	else
	{
		mpq_clear (a); mpq_clear (b); mpq_clear (d);
		return 0;
	}
	mpq_clear (a); mpq_clear (b); mpq_clear (d);
	free (ind);
	free (name);
	if (val) mpq_EGlpNumFreeArray (val);
	return 1;
}

/* raw column store: capacities and the arrays of ILLmatrix, maps (C06 tie (b), C17) */
static void dump_raw (mpq_QSdata * p)
{
	mpq_ILLlpdata *q = p->qslp;
	mpq_ILLmatrix *A = &q->A;
	int i, used = A->matsize - A->matfree;
	printf ("raw nrows=%d ncols=%d nstruct=%d nzcount=%d rowsize=%d colsize=%d structsize=%d matrows=%d matcols=%d matsize=%d matfree=%d matcolsize=%d rangeval=%d\n",
					q->nrows, q->ncols, q->nstruct, q->nzcount, q->rowsize, q->colsize, q->structsize, A->matrows, A->matcols, A->matsize, A->matfree,
					A->matcolsize, q->rangeval ? 1 : 0);
	printf ("structmap %d", q->nstruct);
	for (i = 0; i < q->nstruct; i++) printf (" %d", q->structmap[i]);
	printf ("\nrowmap %d", q->nrows);
	for (i = 0; i < q->nrows; i++) printf (" %d", q->rowmap[i]);
	printf ("\nmatbeg %d", A->matcols);
	for (i = 0; i < A->matcols; i++) printf (" %d", A->matbeg[i]);
	printf ("\nmatcnt %d", A->matcols);
	for (i = 0; i < A->matcols; i++) printf (" %d", A->matcnt[i]);
	printf ("\nmatind %d", used);
	for (i = 0; i < used; i++) printf (" %d", A->matind[i]);
	printf ("\nfreeclean %d\n", ({ int ok = 1, t; for (t = used; t < A->matsize; t++) if (A->matind[t] != -1) ok = 0; ok; }));
}

int qsx_more_commands (const char *c)
{
	if (edit_commands (c)) return 1;
	if (!strcmp (c, "dumpapi")) dump_api (slot ());
	else if (!strcmp (c, "dumpraw")) dump_raw (slot ());
	else if (!strcmp (c, "scan")) cmd_scan ();
	else if (!strcmp (c, "read")) cmd_read ();
	else if (!strcmp (c, "write")) cmd_write ();
	else if (!strcmp (c, "readcheck")) cmd_readcheck ();
	else if (!strcmp (c, "readcheckc")) cmd_readcheckc ();
	else if (!strcmp (c, "writebasis")) cmd_writebasis ();
	else if (!strcmp (c, "readbasis")) cmd_readbasis ();
	else if (!strcmp (c, "loadbasis")) cmd_loadbasis ();
	else if (!strcmp (c, "putfile")) cmd_putfile ();
	else if (!strcmp (c, "infeasnull")) { mpq_QSdata *p = slot (); printf ("rc %d\n", mpq_QSget_infeas_array (p, 0) ? 1 : 0); }
	else if (!strcmp (c, "pivotin"))
	{
		mpq_QSdata *p = slot ();
		int k = 0, *l, rv, isrow = tok ()[0] == 'r';
		l = tok_ints (&k);
		rv = isrow ? mpq_QSopt_pivotin_row (p, k, l) : mpq_QSopt_pivotin_col (p, k, l);
		printf ("rc %d\n", rv ? 1 : 0);
		free (l);
	}
	else if (!strcmp (c, "setprec")) { QSexact_set_precision ((unsigned) tok_int ()); printf ("ok\n"); }
	else if (!strcmp (c, "setlim"))
	{
		mpq_QSdata *p = slot ();
		int which = tok ()[0] == 'U' ? QS_PARAM_OBJULIM : QS_PARAM_OBJLLIM;
		mpq_t q;
		mpq_init (q);
		tok_q (q);
		printf ("rc %d\n", mpq_QSset_param_EGlpNum (p, which, q) ? 1 : 0);
		mpq_clear (q);
	}
	else if (!strcmp (c, "setparam")) { mpq_QSdata *p = slot (); int w = tok_int (), v = tok_int (); printf ("rc %d\n", mpq_QSset_param (p, w, v) ? 1 : 0); }
	else if (!strcmp (c, "getparam")) { mpq_QSdata *p = slot (); int w = tok_int (), v = -777, rv = mpq_QSget_param (p, w, &v); printf ("rc %d\n", rv ? 1 : 0); if (!rv) printf ("value %d\n", v); }
	else if (!strcmp (c, "loadbasisarray"))
	{
		mpq_QSdata *p = slot ();
		QSbasis *B = tok_basis2 ();
		printf ("rc %d\n", mpq_QSload_basis_array (p, B->cstat, B->rstat) ? 1 : 0);
		free (B->cstat); free (B->rstat); free (B);
	}
	else if (!strcmp (c, "getbasisarray"))
	{
		mpq_QSdata *p = slot ();
		int nc = mpq_QSget_colcount (p), nr = mpq_QSget_rowcount (p), rv;
		char *cs = (char *) calloc (nc + 2, 1), *rs = (char *) calloc (nr + 2, 1);
		rv = mpq_QSget_basis_array (p, cs, rs);
		printf ("rc %d\n", rv ? 1 : 0);
		if (!rv) printf ("basis %s %s\n", nc ? cs : "-", nr ? rs : "-");
		free (cs); free (rs);
	}
	else if (!strcmp (c, "optstatus") || !strcmp (c, "dualstatus") || !strcmp (c, "verify"))
	{
		/* C12: exact verdict functions on a caller-supplied basis */
		mpq_QSdata *p = slot ();
		QSbasis *B = tok_basis2 ();
		char result = 77;
		int rv;
		mpq_t d;
		mpq_init (d);
		mpq_set_si (d, 777777, 1000003);
		if (!strcmp (c, "optstatus")) rv = QSexact_basis_optimalstatus (p, B, &result, 1);
		else if (!strcmp (c, "dualstatus")) rv = QSexact_basis_dualstatus (p, B, &result, &d, 1);
		else { int pre = tok_int (); rv = QSexact_verify (p, B, pre, 0, 0, &result, &d, 1); }
		printf ("rval %d\n", rv ? 1 : 0);
		if (!rv) { printf ("result %d\n", (int) result); printf ("dobj "); put_q (d); putchar ('\n'); }
		mpq_clear (d);
		free (B->cstat); free (B->rstat); free (B);
	}
	else if (!strcmp (c, "binvrow") || !strcmp (c, "tabrow"))
	{
		/* C13: rows of the basis inverse / tableau of the current basis */
		mpq_QSdata *p = slot ();
		int i = tok_int (), nr = mpq_QSget_rowcount (p), nc = mpq_QSget_colcount (p), rv;
		int n = !strcmp (c, "binvrow") ? nr : nr + nc;
		mpq_t *a = mpq_EGlpNumAllocArray (n + 1);
		rv = !strcmp (c, "binvrow") ? mpq_QSget_binv_row (p, i, a) : mpq_QSget_tableau_row (p, i, a);
		printf ("rc %d\n", rv ? 1 : 0);
		if (!rv) put_qarr ("row", a, n);
		mpq_EGlpNumFreeArray (a);
	}
	else if (!strcmp (c, "basisorder"))
	{
		mpq_QSdata *p = slot ();
		int nr = mpq_QSget_rowcount (p), i, rv;
		int *h = (int *) calloc (nr + 1, sizeof (int));
		rv = mpq_QSget_basis_order (p, h);
		printf ("rc %d\n", rv ? 1 : 0);
		if (!rv) { printf ("order %d", nr); for (i = 0; i < nr; i++) printf (" %d", h[i]); putchar ('\n'); }
		free (h);
	}
	else if (!strcmp (c, "restart"))
	{
		/* a second library session in the same process: the host's log handler stays registered */
		int k;
		for (k = 0; k < NSLOT; k++) if (SLOT[k]) { mpq_QSfree_prob (SLOT[k]); SLOT[k] = 0; }
		QSexactClear ();
		QSexactStart ();
		printf ("ok\n");
	}
	else if (!strcmp (c, "getfile")) { char *path = unhex (tok ()); put_file (path); free (path); }
	else { extern int qsx_factor_commands (const char *c); return qsx_factor_commands (c); }
	return 1;
}
