/* qsx_harness: in-process driver of the real library for the correspondence checks.
 *
 * Reads one operation per line on stdin, answers on stdout with lines "<key> <values...>",
 * terminated for each operation by a line ".".  Numbers are exact rationals "p/q" in lowest
 * terms; the two encodings of infinity are printed as "inf" / "-inf".  Nothing here interprets
 * results: the orchestrator (python) and the Lean model do.
 */
#include <stdio.h>
#include <stdlib.h>
#include <string.h>
#include <unistd.h>
#include <signal.h>
#include <sys/wait.h>
#include <fcntl.h>
#include <limits.h>
#include "QSopt_ex.h"
#include "logging-private.h"
#include "qsx_harness.h"

#define NSLOT 16
mpq_QSdata *SLOT[NSLOT];
static char **TOK;
static int NTOK, CUR;
long LOG_MSGS = 0, LOG_BYTES = 0, LOG_PARTIAL = 0;
FILE *PO = 0;
static int SHOW_LOG = 0, CAPTURE = 0;
static char CAP1[64], CAP2[64];
static long CAPPOS1 = 0, CAPPOS2 = 0;
static char *LOGBUF = 0;
static size_t LOGLEN = 0, LOGCAP = 0;

static void log_handler (const char *msg, void *data)
{
	size_t n = strlen (msg);
	(void) data;
	LOG_MSGS++;
	LOG_BYTES += (long) n;
	if (SHOW_LOG)
	{
		/* remember the message (hex) to print it with the operation's answer */
		size_t need = LOGLEN + 2 * n + 8, i;
		if (need > LOGCAP) { LOGCAP = 2 * need; LOGBUF = (char *) realloc (LOGBUF, LOGCAP); }
		LOGLEN += (size_t) sprintf (LOGBUF + LOGLEN, "\x01");
		for (i = 0; i < n; i++) LOGLEN += (size_t) sprintf (LOGBUF + LOGLEN, "%02x", (unsigned char) msg[i]);
		if (!n) LOGLEN += (size_t) sprintf (LOGBUF + LOGLEN, "-");
	}
}

static long file_size (const char *path)
{
	FILE *f = fopen (path, "rb");
	long n;
	if (!f) return 0;
	fseek (f, 0, SEEK_END);
	n = ftell (f);
	fclose (f);
	return n;
}

/* after every operation: what reached the handler, and what reached fd 1 / fd 2 directly */
static void report_io (void)
{
	static long last_msgs = 0;
	if (SHOW_LOG)
	{
		char *q = LOGBUF;
		printf ("logcount %ld\n", LOG_MSGS - last_msgs);
		while (q && q < LOGBUF + LOGLEN)
		{
			char *e = strchr (q + 1, 1);
			if (!e) e = LOGBUF + LOGLEN;
			printf ("logmsg %.*s\n", (int) (e - q - 1), q + 1);
			q = e;
		}
		LOGLEN = 0;
		last_msgs = LOG_MSGS;
	}
	if (CAPTURE)
	{
		long n1, n2;
		fflush (stdout);
		fflush (stderr);
		n1 = file_size (CAP1); n2 = file_size (CAP2);
		if (n1 != CAPPOS1 || n2 != CAPPOS2)
		{
			FILE *f = fopen (n2 != CAPPOS2 ? CAP2 : CAP1, "rb");
			int c, k = 0;
			printf ("fdbytes %ld %ld ", n1 - CAPPOS1, n2 - CAPPOS2);
			if (f)
			{
				fseek (f, n2 != CAPPOS2 ? CAPPOS2 : CAPPOS1, SEEK_SET);
				while ((c = fgetc (f)) != EOF && k++ < 200) printf ("%02x", c);
				fclose (f);
			}
			putchar ('\n');
			CAPPOS1 = n1; CAPPOS2 = n2;
		}
	}
}

/* ------------------------------------------------------------------ tokens */
static void tokenize (char *line)
{
	static int cap = 0;
	char *s = line;
	NTOK = 0;
	CUR = 0;
	while (*s)
	{
		while (*s == ' ' || *s == '\n' || *s == '\r' || *s == '\t')
			s++;
		if (!*s)
			break;
		if (NTOK >= cap)
		{
			cap = cap ? 2 * cap : 1024;
			TOK = (char **) realloc (TOK, sizeof (char *) * cap);
		}
		TOK[NTOK++] = s;
		while (*s && *s != ' ' && *s != '\n' && *s != '\r' && *s != '\t')
			s++;
		if (*s)
			*s++ = 0;
	}
}
const char *tok (void)
{
	if (CUR >= NTOK)
	{
		printf ("bad-op missing-token\n.\n");
		fflush (PO);
		exit (3);
	}
	return TOK[CUR++];
}
int more (void) { return CUR < NTOK; }
void qsx_unget (void) { if (CUR > 0) CUR--; }
int tok_int (void) { return atoi (tok ()); }
void tok_q (mpq_t q)
{
	const char *t = tok ();
	if (!strcmp (t, "inf"))
		mpq_set (q, mpq_ILL_MAXDOUBLE);
	else if (!strcmp (t, "-inf"))
		mpq_set (q, mpq_ILL_MINDOUBLE);
	else
	{
		if (mpq_set_str (q, t, 10))
		{
			printf ("bad-op bad-rational %s\n.\n", t);
			fflush (PO);
			exit (3);
		}
		mpq_canonicalize (q);
	}
}
mpq_t *tok_qarr (int *n)
{
	int i;
	mpq_t *a;
	*n = tok_int ();
	a = mpq_EGlpNumAllocArray (*n > 0 ? *n : 1);
	for (i = 0; i < *n; i++)
		tok_q (a[i]);
	return a;
}
void put_q (mpq_t q)
{
	if (mpq_equal (q, mpq_ILL_MAXDOUBLE))
		fputs ("inf", PO);
	else if (mpq_equal (q, mpq_ILL_MINDOUBLE))
		fputs ("-inf", PO);
	else
		mpq_out_str (PO, 10, q);
}
void put_qarr (const char *key, mpq_t * a, int n)
{
	int i;
	printf ("%s %d", key, n);
	for (i = 0; i < n; i++)
	{
		putchar (' ');
		put_q (a[i]);
	}
	putchar ('\n');
}
void put_hex (const char *s)
{
	if (!s) { fputs ("-", PO); return; }
	if (!*s) { fputs ("00", PO); return; }
	for (; *s; s++)
		printf ("%02x", (unsigned char) *s);
}
mpq_QSdata *slot (void)
{
	int k = tok_int ();
	if (k < 0 || k >= NSLOT || !SLOT[k])
	{
		printf ("bad-op empty-slot %d\n.\n", k);
		fflush (PO);
		exit (3);
	}
	return SLOT[k];
}

/* ------------------------------------------------------------------ LP construction
 * lp <min|max> <ncols> <nrows> {obj lo up}*ncols {sense rhs range k {j a}*k}*nrows
 * built through the public API only: create, new_col, add_ranged_row */
static mpq_QSdata *build_lp (void)
{
	int nc, nr, i, k, kk, rv = 0;
	const char *t = tok ();
	mpq_QSdata *p;
	mpq_t a, b, c;
	char nm[32];
	if (strcmp (t, "lp")) { printf ("bad-op expected-lp\n.\n"); fflush (PO); exit (3); }
	t = tok ();
	p = mpq_QScreate_prob ("P", !strcmp (t, "max") ? QS_MAX : QS_MIN);
	nc = tok_int ();
	nr = tok_int ();
	mpq_init (a); mpq_init (b); mpq_init (c);
	for (i = 0; i < nc; i++)
	{
		tok_q (a); tok_q (b); tok_q (c);
		sprintf (nm, "x%d", i);
		rv |= mpq_QSnew_col (p, a, b, c, nm);
	}
	for (i = 0; i < nr; i++)
	{
		int sense = tok ()[0];
		int *ind;
		mpq_t *val;
		tok_q (a); tok_q (b);
		k = tok_int ();
		ind = (int *) malloc (sizeof (int) * (k + 1));
		val = mpq_EGlpNumAllocArray (k + 1);
		for (kk = 0; kk < k; kk++)
		{
			ind[kk] = tok_int ();
			tok_q (val[kk]);
		}
		sprintf (nm, "c%d", i);
		rv |= mpq_QSadd_ranged_row (p, k, ind, (const mpq_t *) val, (const mpq_t *) & a, sense, (const mpq_t *) & b, nm);
		free (ind);
		mpq_EGlpNumFreeArray (val);
	}
	mpq_clear (a); mpq_clear (b); mpq_clear (c);
	if (rv) { printf ("bad-op build-failed\n.\n"); fflush (PO); exit (3); }
	return p;
}

/* the same LP built "column generation" style: all rows first (empty), then every column with
 * mpq_QSadd_col - the structural columns then sit behind the logical ones (structmap is not the identity) */
static mpq_QSdata *build_lp_cg (void)
{
	int nc, nr, i, j, k, kk, rv = 0, tot = 0, cap = 64;
	const char *t = tok ();
	mpq_QSdata *p;
	mpq_t *obj, *lo, *up, *rhs, *rng, *ev;
	char *sense;
	int *er, *ec;
	char nm[32];
	if (strcmp (t, "lp")) { printf ("bad-op expected-lp\n.\n"); fflush (PO); exit (3); }
	t = tok ();
	p = mpq_QScreate_prob ("P", !strcmp (t, "max") ? QS_MAX : QS_MIN);
	nc = tok_int ();
	nr = tok_int ();
	obj = mpq_EGlpNumAllocArray (nc + 1); lo = mpq_EGlpNumAllocArray (nc + 1); up = mpq_EGlpNumAllocArray (nc + 1);
	rhs = mpq_EGlpNumAllocArray (nr + 1); rng = mpq_EGlpNumAllocArray (nr + 1);
	sense = (char *) malloc (nr + 1);
	ev = mpq_EGlpNumAllocArray (cap);
	er = (int *) malloc (cap * sizeof (int)); ec = (int *) malloc (cap * sizeof (int));
	for (i = 0; i < nc; i++) { tok_q (obj[i]); tok_q (lo[i]); tok_q (up[i]); }
	for (i = 0; i < nr; i++)
	{
		sense[i] = tok ()[0];
		tok_q (rhs[i]); tok_q (rng[i]);
		k = tok_int ();
		for (kk = 0; kk < k; kk++)
		{
			if (tot + 1 >= cap)
			{
				int ncap = cap * 2, q;
				mpq_t *nv = mpq_EGlpNumAllocArray (ncap);
				for (q = 0; q < tot; q++) mpq_set (nv[q], ev[q]);
				mpq_EGlpNumFreeArray (ev);
				ev = nv;
				er = (int *) realloc (er, ncap * sizeof (int)); ec = (int *) realloc (ec, ncap * sizeof (int));
				cap = ncap;
			}
			er[tot] = i; ec[tot] = tok_int (); tok_q (ev[tot]); tot++;
		}
	}
	for (i = 0; i < nr; i++)
	{
		sprintf (nm, "c%d", i);
		rv |= mpq_QSadd_ranged_row (p, 0, 0, 0, (const mpq_t *) & rhs[i], sense[i], (const mpq_t *) & rng[i], nm);
	}
	for (j = 0; j < nc; j++)
	{
		int cnt = 0, *ind = (int *) malloc (sizeof (int) * (tot + 1));
		mpq_t *val = mpq_EGlpNumAllocArray (tot + 1);
		for (k = 0; k < tot; k++) if (ec[k] == j) { ind[cnt] = er[k]; mpq_set (val[cnt], ev[k]); cnt++; }
		sprintf (nm, "x%d", j);
		rv |= mpq_QSadd_col (p, cnt, ind, val, obj[j], lo[j], up[j], nm);
		free (ind);
		mpq_EGlpNumFreeArray (val);
	}
	mpq_EGlpNumFreeArray (obj); mpq_EGlpNumFreeArray (lo); mpq_EGlpNumFreeArray (up);
	mpq_EGlpNumFreeArray (rhs); mpq_EGlpNumFreeArray (rng); mpq_EGlpNumFreeArray (ev);
	free (sense); free (er); free (ec);
	if (rv) { printf ("bad-op build-failed\n.\n"); fflush (PO); exit (3); }
	return p;
}

/* raw internal LP in API order (structmap / rowmap applied) */
void dump_ilp (mpq_QSdata * p)
{
	mpq_ILLlpdata *q = p->qslp;
	int j, k, t;
	printf ("ilp %s %d %d", q->objsense == QS_MIN ? "min" : "max", q->nstruct, q->nrows);
	for (t = 0; t < q->nstruct + q->nrows; t++)
	{
		int col = t < q->nstruct ? q->structmap[t] : q->rowmap[t - q->nstruct];
		putchar (' '); put_q (q->obj[col]);
		putchar (' '); put_q (q->lower[col]);
		putchar (' '); put_q (q->upper[col]);
		printf (" %d", q->A.matcnt[col]);
		for (k = 0; k < q->A.matcnt[col]; k++)
		{
			printf (" %d ", q->A.matind[q->A.matbeg[col] + k]);
			put_q (q->A.matval[q->A.matbeg[col] + k]);
		}
	}
	for (j = 0; j < q->nrows; j++)
	{
		putchar (' '); put_q (q->rhs[j]);
	}
	putchar ('\n');
}

static QSbasis *tok_basis (void)
{
	const char *cs = tok (), *rs = tok ();
	QSbasis *B = (QSbasis *) calloc (1, sizeof (QSbasis));
	if (!strcmp (cs, "-")) cs = "";
	if (!strcmp (rs, "-")) rs = "";
	B->nstruct = (int) strlen (cs);
	B->nrows = (int) strlen (rs);
	B->cstat = (char *) malloc (B->nstruct + 1);
	B->rstat = (char *) malloc (B->nrows + 1);
	memcpy (B->cstat, cs, B->nstruct + 1);
	memcpy (B->rstat, rs, B->nrows + 1);
	return B;
}
static void free_basis (QSbasis * B)
{
	if (!B) return;
	free (B->cstat);
	free (B->rstat);
	free (B);
}
static void put_basis (const char *key, QSbasis * B)
{
	int i;
	if (!B) { printf ("%s none\n", key); return; }
	printf ("%s ", key);
	if (!B->nstruct) putchar ('-');
	for (i = 0; i < B->nstruct; i++) putchar (B->cstat[i]);
	putchar (' ');
	if (!B->nrows) putchar ('-');
	for (i = 0; i < B->nrows; i++) putchar (B->rstat[i]);
	putchar ('\n');
}

void put_cache (mpq_QSdata * p)
{
	if (!p->cache) { printf ("cache none\n"); return; }
	printf ("cache %d %d %d ", p->cache->status, p->cache->nstruct, p->cache->nrows);
	put_q (p->cache->val);
	putchar ('\n');
	put_qarr ("cache.x", p->cache->x, p->cache->nstruct);
	put_qarr ("cache.rc", p->cache->rc, p->cache->nstruct);
	put_qarr ("cache.slack", p->cache->slack, p->cache->nrows);
	put_qarr ("cache.pi", p->cache->pi, p->cache->nrows);
}

/* session-level fields of C05 */
void put_state (mpq_QSdata * p)
{
	printf ("state qstatus=%d factorok=%d basis=%d cache=%d", p->qstatus, p->factorok, p->basis ? 1 : 0, p->cache ? 1 : 0);
	if (p->basis)
		printf (" bdim=%d,%d rownorms=%d colnorms=%d", p->basis->nstruct, p->basis->nrows, p->basis->rownorms ? 1 : 0, p->basis->colnorms ? 1 : 0);
	if (p->cache)
		printf (" cdim=%d,%d cstatus=%d", p->cache->nstruct, p->cache->nrows, p->cache->status);
	printf (" basisid=%d\n", p->lp->basisid);
}

/* every solution accessor with its return code */
void put_solution (mpq_QSdata * p)
{
	int nc = mpq_QSget_colcount (p), nr = mpq_QSget_rowcount (p), rv, st = -1;
	mpq_t v;
	mpq_t *x = mpq_EGlpNumAllocArray (nc + 1), *rc = mpq_EGlpNumAllocArray (nc + 1);
	mpq_t *pi = mpq_EGlpNumAllocArray (nr + 1), *sl = mpq_EGlpNumAllocArray (nr + 1);
	mpq_init (v);
	rv = mpq_QSget_status (p, &st);
	printf ("get_status %d %d\n", rv ? 1 : 0, st);
	rv = mpq_QSget_objval (p, &v);
	printf ("objval %d ", rv ? 1 : 0);
	if (!rv) put_q (v); else putchar ('-');
	putchar ('\n');
	rv = mpq_QSget_x_array (p, x);
	if (rv) printf ("x err\n"); else put_qarr ("x", x, nc);
	rv = mpq_QSget_pi_array (p, pi);
	if (rv) printf ("pi err\n"); else put_qarr ("pi", pi, nr);
	rv = mpq_QSget_rc_array (p, rc);
	if (rv) printf ("rc err\n"); else put_qarr ("rc", rc, nc);
	rv = mpq_QSget_slack_array (p, sl);
	if (rv) printf ("slack err\n"); else put_qarr ("slack", sl, nr);
	rv = mpq_QSget_solution (p, &v, x, pi, sl, rc);
	if (rv) printf ("solution err\n");
	else
	{
		printf ("solution ok ");
		put_q (v);
		putchar ('\n');
		put_qarr ("sol.x", x, nc);
		put_qarr ("sol.pi", pi, nr);
		put_qarr ("sol.slack", sl, nr);
		put_qarr ("sol.rc", rc, nc);
	}
	mpq_clear (v);
	mpq_EGlpNumFreeArray (x); mpq_EGlpNumFreeArray (rc);
	mpq_EGlpNumFreeArray (pi); mpq_EGlpNumFreeArray (sl);
}

void qsx_dump_all (mpq_QSdata * p)
{
	QSbasis *B;
	dump_api (p);
	put_state (p);
	put_cache (p);
	B = p->basis ? mpq_QSget_basis (p) : 0;
	put_basis ("basis", B);
	if (B) mpq_QSfree_basis (B);
}

/* ------------------------------------------------------------------ H1 trace of QSexact_solver */
#ifdef QSOPT_EX_VERIF
extern void (*QSexact_verif_hook) (const char *what, int a, int b, mpq_t * v1, int n1, mpq_t * v2, int n2, QSbasis * B);
static void trace_hook (const char *what, int a, int b, mpq_t * v1, int n1, mpq_t * v2, int n2, QSbasis * B)
{
	printf ("trace %s %d %d\n", what, a, b);
	if (v1) put_qarr ("trace.v1", v1, n1);
	if (v2) put_qarr ("trace.v2", v2, n2);
	if (B) put_basis ("trace.basis", B);
}
#endif

/* ------------------------------------------------------------------ commands */
static void cmd_new (void)
{
	int k = tok_int ();
	if (k < 0 || k >= NSLOT) { printf ("bad-op slot\n"); return; }
	if (SLOT[k]) mpq_QSfree_prob (SLOT[k]);
	SLOT[k] = build_lp ();
	printf ("ok\n");
}
static void cmd_newcg (void)
{
	int k = tok_int ();
	if (k < 0 || k >= NSLOT) { printf ("bad-op slot\n"); return; }
	if (SLOT[k]) mpq_QSfree_prob (SLOT[k]);
	SLOT[k] = build_lp_cg ();
	printf ("ok\n");
}
static void cmd_free (void)
{
	int k = tok_int ();
	if (k >= 0 && k < NSLOT && SLOT[k]) { mpq_QSfree_prob (SLOT[k]); SLOT[k] = 0; }
	printf ("ok\n");
}
static void cmd_opttest (void)
{
	mpq_QSdata *p = slot ();
	QSbasis *B = tok_basis ();
	int nx, ny, rv;
	mpq_t *x = tok_qarr (&nx), *y = tok_qarr (&ny);
	dump_ilp (p);
	rv = QSexact_optimal_test (p, x, y, B);
	printf ("rv %d\n", rv);
	if (rv)
	{
		put_cache (p);
		put_qarr ("psol", x, nx);
		printf ("qstatus %d\n", p->qstatus);
	}
	mpq_EGlpNumFreeArray (x);
	mpq_EGlpNumFreeArray (y);
	free_basis (B);
}
static void cmd_inftest (void)
{
	mpq_QSdata *p = slot ();
	int ny, rv;
	mpq_t *y = tok_qarr (&ny);
	dump_ilp (p);
	rv = QSexact_infeasible_test (p, y);
	printf ("rv %d\n", rv);
	if (rv) printf ("qstatus %d\n", p->qstatus);
	mpq_EGlpNumFreeArray (y);
}
/* solve <slot> exact <primal|dual> <basis: cstat rstat | none> ; x and y preset to a sentinel */
static void cmd_solve (void)
{
	mpq_QSdata *p = slot ();
	const char *how = tok ();
	int status = -77, rv, i;
	if (!strcmp (how, "exact"))
	{
		int algo = !strcmp (tok (), "dual") ? DUAL_SIMPLEX : PRIMAL_SIMPLEX;
		QSbasis *B = 0;
		int nc = p->qslp->ncols, nr = p->qslp->nrows, xw = 0, yw = 0;
		mpq_t *x = mpq_EGlpNumAllocArray (nc + 1), *y = mpq_EGlpNumAllocArray (nr + 1);
		mpq_t sent;
		const char *bt = tok ();
		if (strcmp (bt, "none")) { CUR--; B = tok_basis (); }
		mpq_init (sent);
		mpq_set_si (sent, 777777, 1000003);
		for (i = 0; i < nc; i++) mpq_set (x[i], sent);
		for (i = 0; i < nr; i++) mpq_set (y[i], sent);
		dump_ilp (p);
#ifdef QSOPT_EX_VERIF
		QSexact_verif_hook = trace_hook;
#endif
		rv = QSexact_solver (p, x, y, B, algo, &status);
#ifdef QSOPT_EX_VERIF
		QSexact_verif_hook = 0;
#endif
		for (i = 0; i < nc; i++) if (!mpq_equal (x[i], sent)) xw = 1;
		for (i = 0; i < nr; i++) if (!mpq_equal (y[i], sent)) yw = 1;
		printf ("rval %d\nstatus %d\n", rv ? 1 : 0, status);
		if (xw) put_qarr ("xout", x, nc); else printf ("xout untouched\n");
		if (yw) put_qarr ("yout", y, nr); else printf ("yout untouched\n");
		put_basis ("basisout", B);
		mpq_clear (sent);
		mpq_EGlpNumFreeArray (x);
		mpq_EGlpNumFreeArray (y);
		if (B) { mpq_QSfree (B->cstat); mpq_QSfree (B->rstat); free (B); }
	}
	else
	{
		rv = !strcmp (how, "dual") ? mpq_QSopt_dual (p, &status) : mpq_QSopt_primal (p, &status);
		printf ("rval %d\nstatus %d\n", rv ? 1 : 0, status);
	}
	put_state (p);
	put_cache (p);
	put_solution (p);
}

static void cmd_inf (void)
{
	printf ("pinf ");
	mpq_out_str (PO, 10, mpq_ILL_MAXDOUBLE);
	printf ("\nninf ");
	mpq_out_str (PO, 10, mpq_ILL_MINDOUBLE);
	printf ("\n");
}

int main (int argc, char **argv)
{
	char *line = 0;
	size_t cap = 0;
	ssize_t n;
	(void) argc; (void) argv;
	PO = fdopen (dup (1), "w");
	SHOW_LOG = getenv ("QSX_LOGMSG") != 0;
	CAPTURE = getenv ("QSX_CAPTURE") != 0;
	if (CAPTURE)
	{
		int f1, f2;
		sprintf (CAP1, "cap1.%d", (int) getpid ());
		sprintf (CAP2, "cap2.%d", (int) getpid ());
		f1 = open (CAP1, O_WRONLY | O_CREAT | O_TRUNC, 0600);
		f2 = open (CAP2, O_WRONLY | O_CREAT | O_TRUNC, 0600);
		dup2 (f1, 1); dup2 (f2, 2);
		close (f1); close (f2);
	}
	QSexactStart ();
	if (!getenv ("QSX_NOHANDLER"))
		QSlog_set_handler (log_handler, 0);
	while ((n = getline (&line, &cap, stdin)) > 0)
	{
		const char *c;
		int forked = 0;
		pid_t pid = 0;
		tokenize (line);
		if (!NTOK) continue;
		c = tok ();
		int probe = 0;
		if (!strcmp (c, "fork") || !strcmp (c, "probe"))
		{
			probe = !strcmp (c, "probe");
			/* run the command in a child so that a crash is a result, not the end of the run */
			fflush (PO);
			pid = fork ();
			if (pid)
			{
				int st = 0;
				waitpid (pid, &st, 0);
				if (WIFSIGNALED (st)) printf ("signal %d\n", WTERMSIG (st));
				else if (WEXITSTATUS (st)) printf ("childexit %d\n", WEXITSTATUS (st));
				printf (".\n");
				fflush (PO);
				continue;
			}
			forked = 1;
			alarm (getenv ("QSX_ALARM") ? atoi (getenv ("QSX_ALARM")) : 60);
			c = tok ();
		}
		if (!strcmp (c, "inf")) cmd_inf ();
		else if (!strcmp (c, "new")) cmd_new ();
		else if (!strcmp (c, "newcg")) cmd_newcg ();
		else if (!strcmp (c, "free")) cmd_free ();
		else if (!strcmp (c, "opttest")) cmd_opttest ();
		else if (!strcmp (c, "inftest")) cmd_inftest ();
		else if (!strcmp (c, "solve")) cmd_solve ();
		else if (!strcmp (c, "dumpilp")) dump_ilp (slot ());
		else if (!strcmp (c, "state")) { mpq_QSdata *p = slot (); put_state (p); put_cache (p); }
		else if (!strcmp (c, "sol")) put_solution (slot ());
		else if (!strcmp (c, "dumpall")) qsx_dump_all (slot ());
		else if (!strcmp (c, "getbasis"))
		{
			QSbasis *B = mpq_QSget_basis (slot ());
			put_basis ("basis", B);
			if (B) mpq_QSfree_basis (B);
		}
		else if (!qsx_more_commands (c)) printf ("bad-op %s\n", c);
		if (forked && probe && NTOK >= 3)
		{
			/* probe: show everything observable of the slot the command acted on, then vanish */
			int k = atoi (TOK[2]);
			if (k >= 0 && k < NSLOT && SLOT[k]) qsx_dump_all (SLOT[k]);
		}
		if (forked) { report_io (); fflush (PO); _exit (0); }
		report_io ();
		printf (".\n");
		fflush (PO);
	}
	{
		int k;
		for (k = 0; k < NSLOT; k++) if (SLOT[k]) mpq_QSfree_prob (SLOT[k]);
	}
	QSexactClear ();
	free (line);
	free (TOK);
	return 0;
}
