/* C10 / C11, component level: the lexical layer of the MPS reader (read_mps.c) driven directly through the
 * installed header read_mps_mpq.h on one reader state MX, fed from a memory buffer by an fgets-like function
 * (the destination is poisoned behind the string, see qsx_lplex.c).
 *
 *   mxnew <hex bytes|->      ILLmps_state_init on that text
 *   mxnl                     ILLmps_next_line
 *   mxnf                     ILLmps_next_field
 *   mxcoef                   ILLmps_next_coef          (extra: the coefficient, preset to 7)
 *   mxbound                  ILLmps_next_bound         (extra: the bound, preset to 7)
 *   mxisnum <hex name>       ILLmps_possibly_blank_name (name, state, table containing exactly that name): extra 1 when " " is returned
 *   mxeol                    ILLmps_check_end_of_line  (extra: 1 when a warning was logged)
 *   mxseteol                 ILLmps_set_end_of_line
 *   mxsec k                  the active section: 1 = COLUMNS (records without field 1), 0 = BOUNDS (records with a type field)
 *   mxfree
 * every command answers:  mx rc pnull line_num p field_num key field [extra]
 */
#include <stdio.h>
#include <stdlib.h>
#include <string.h>
#include "QSopt_ex.h"
#include "logging-private.h"
#include "read_mps_mpq.h"
#include "symtab.h"
#include "qsx_harness.h"

static mpq_ILLread_mps_state *MX = 0;
static mpq_qsline_reader *MXR = 0;
static struct { unsigned char *buf; size_t n, pos; } MSRC;

static void mpoison (char *a, size_t from, size_t size)
{
	static const char P0[] = ":x\n<=$ 1q\t", P1[] = "y2+ $-\tZ\n";
	const char *e = getenv ("QSX_LXPOISON");
	const char *P = (e && e[0] == '1') ? P1 : P0;
	size_t i, n = strlen (P);
	for (i = from; i < size; i++) a[i] = P[i % n];
}

static char *mmem_gets (char *s, int size, void *src)
{
	int k = 0;
	(void) src;
	if (MSRC.pos >= MSRC.n || size < 2) return 0;
	mpoison (s, 0, (size_t) size);
	while (k < size - 1 && MSRC.pos < MSRC.n)
	{
		unsigned char c = MSRC.buf[MSRC.pos++];
		s[k++] = (char) c;
		if (c == '\n') break;
	}
	s[k] = 0;
	return s;
}

static unsigned char *munhex (const char *h, size_t * n)
{
	size_t i;
	unsigned char *s;
	if (!strcmp (h, "-")) { *n = 0; return (unsigned char *) calloc (1, 1); }
	*n = strlen (h) / 2;
	s = (unsigned char *) malloc (*n + 1);
	for (i = 0; i < *n; i++)
	{
		unsigned v;
		sscanf (h + 2 * i, "%2x", &v);
		s[i] = (unsigned char) v;
	}
	s[*n] = 0;
	return s;
}

static void mx_free (void)
{
	if (MX) { free (MX); MX = 0; }
	if (MXR) { mpq_ILLline_reader_free (MXR); MXR = 0; }
	free (MSRC.buf); MSRC.buf = 0; MSRC.n = MSRC.pos = 0;
}

static void mx_out (int rc)
{
	printf ("mx %d %d %d %ld %u ", rc, MX->p ? 0 : 1, (int) MX->line_num, MX->p ? (long) (MX->p - MX->line) : 0L, MX->field_num);
	put_hex (MX->key);
	printf (" ");
	put_hex (MX->field);
	/* the cursor has left the string (reported on a line of its own) */
	if (MX->p && (size_t) (MX->p - MX->line) > strlen (MX->line)) printf ("\nescaped %ld %lu", (long) (MX->p - MX->line), (unsigned long) strlen (MX->line));
}

int qsx_mpslex_commands (const char *c)
{
	int rc = 0;
	if (!strcmp (c, "mxnew"))
	{
		mx_free ();
		MSRC.buf = munhex (tok (), &MSRC.n);
		MSRC.pos = 0;
		MXR = mpq_ILLline_reader_new (mmem_gets, 0);
		MX = (mpq_ILLread_mps_state *) malloc (sizeof (mpq_ILLread_mps_state));
		mpoison ((char *) MX, 0, sizeof (*MX));
		rc = mpq_ILLmps_state_init (MX, MXR, "mem");
		MX->field_num = 0;
		mx_out (rc);
		printf ("\n");
		return 1;
	}
	if (strncmp (c, "mx", 2)) return 0;
	if (!MX) { printf ("bad-op no-state\n"); return 1; }
	if (!strcmp (c, "mxfree")) { mx_free (); printf ("ok\n"); return 1; }
	if (!strcmp (c, "mxsec")) { MX->active = tok_int () ? ILL_MPS_COLS : ILL_MPS_BOUNDS; mx_out (0); printf ("\n"); return 1; }
	if (!MX->p && strcmp (c, "mxnl")) { if (!strcmp (c, "mxisnum")) tok (); printf ("mx NULLP\n"); return 1; }	/* callers never do that */
	if (!strcmp (c, "mxnl")) { rc = mpq_ILLmps_next_line (MX); mx_out (rc); }
	else if (!strcmp (c, "mxnf")) { rc = mpq_ILLmps_next_field (MX); mx_out (rc); }
	else if (!strcmp (c, "mxcoef") || !strcmp (c, "mxbound"))
	{
		mpq_t v;
		mpq_init (v);
		mpq_set_ui (v, 7UL, 1UL);
		rc = !strcmp (c, "mxcoef") ? mpq_ILLmps_next_coef (MX, &v) : mpq_ILLmps_next_bound (MX, &v);
		mx_out (rc);
		printf (" ");
		put_q (v);
		mpq_clear (v);
	}
	else if (!strcmp (c, "mxisnum"))
	{
		size_t len;
		char *nm = (char *) munhex (tok (), &len);
		ILLsymboltab tab;
		const char *r;
		int hit = 0, ex = 0;
		ILLsymboltab_init (&tab);
		ILLsymboltab_create (&tab, 4);
		ILLsymboltab_register (&tab, nm, -1, &hit, &ex);
		r = mpq_ILLmps_possibly_blank_name (nm, MX, &tab);
		mx_out (0);
		printf (" %d", !strcmp (r, " ") ? 1 : 0);
		ILLsymboltab_free (&tab);
		free (nm);
	}
	else if (!strcmp (c, "mxeol"))
	{
		long before = LOG_MSGS;
		mpq_ILLmps_check_end_of_line (MX);
		mx_out (0);
		printf (" %d", LOG_MSGS != before ? 1 : 0);
	}
	else if (!strcmp (c, "mxseteol")) { mpq_ILLmps_set_end_of_line (MX); mx_out (0); }
	else return 0;
	printf ("\n");
	return 1;
}
