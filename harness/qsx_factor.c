/* C13, component level: mpq_ILLfactor / _ftran / _btran / _ftran_update / _update driven directly
 * (installed header factor_mpq.h), the way basis.c drives them.
 *
 *   fnew n N {k {i a}*k}*N b_0..b_{n-1} [p etamax dense_min max_k]
 *                                 pool of N sparse columns of dimension n, basis = pool indices
 *   fftran k {i a}*k              x with B x = a
 *   fbtran k {i a}*k              y with y^T B = a^T
 *   fupd pos col                  replace basis position pos by pool column col:
 *                                 ftran_update + update, refactor on request / error code as basis.c does
 *   ffree
 */
#include <stdio.h>
#include <stdlib.h>
#include <string.h>
#include "QSopt_ex.h"
#include "logging-private.h"
#include "factor_mpq.h"
#include "qsx_harness.h"

static mpq_factor_work *F = 0;
static int FN = 0, FNP = 0, *FBEG = 0, *FCNT = 0, *FIND = 0, *FBAZ = 0;
static mpq_t *FVAL = 0;
static int FNZ = 0;

static void f_free (void)
{
	if (F)
	{
		mpq_ILLfactor_free_factor_work (F);
		mpq_EGlpNumClearVar (F->fzero_tol);
		mpq_EGlpNumClearVar (F->szero_tol);
		mpq_EGlpNumClearVar (F->partial_tol);
		mpq_EGlpNumClearVar (F->maxelem_orig);
		mpq_EGlpNumClearVar (F->maxelem_factor);
		mpq_EGlpNumClearVar (F->maxelem_cur);
		mpq_EGlpNumClearVar (F->partial_cur);
		free (F);
		F = 0;
	}
	free (FBEG); free (FCNT); free (FIND); free (FBAZ);
	FBEG = FCNT = FIND = FBAZ = 0;
	if (FVAL) mpq_EGlpNumFreeArray (FVAL);
	FVAL = 0;
}
static void f_alloc (void)
{
	F = (mpq_factor_work *) calloc (1, sizeof (mpq_factor_work));
	mpq_EGlpNumInitVar (F->fzero_tol);
	mpq_EGlpNumInitVar (F->szero_tol);
	mpq_EGlpNumInitVar (F->partial_tol);
	mpq_EGlpNumInitVar (F->maxelem_orig);
	mpq_EGlpNumInitVar (F->maxelem_factor);
	mpq_EGlpNumInitVar (F->maxelem_cur);
	mpq_EGlpNumInitVar (F->partial_cur);
	mpq_ILLfactor_init_factor_work (F);
}
static int FP[4] = { -1, -1, -1, -1 };
/* (re)factor the current basis; prints rc / nsing / singr / singc */
static int f_factor (const char *key)
{
	int nsing = 0, *singr = 0, *singc = 0, rv, i;
	if (F) mpq_ILLfactor_free_factor_work (F); else f_alloc ();
	if (FP[0] >= 0) mpq_ILLfactor_set_factor_iparam (F, QS_FACTOR_P, FP[0]);
	if (FP[1] >= 0) mpq_ILLfactor_set_factor_iparam (F, QS_FACTOR_ETAMAX, FP[1]);
	if (FP[2] >= 0) mpq_ILLfactor_set_factor_iparam (F, QS_FACTOR_DENSE_MIN, FP[2]);
	if (FP[3] >= 0) mpq_ILLfactor_set_factor_iparam (F, QS_FACTOR_MAX_K, FP[3]);
	rv = mpq_ILLfactor_create_factor_work (F, FN);
	if (rv) { printf ("%s.rc %d\n", key, rv); return rv; }
	rv = mpq_ILLfactor (F, FBAZ, FBEG, FCNT, FIND, FVAL, &nsing, &singr, &singc);
	printf ("%s.rc %d\n%s.nsing %d\n", key, rv, key, nsing);
	if (nsing)
	{
		printf ("%s.singr", key); for (i = 0; i < nsing; i++) printf (" %d", singr[i]); putchar ('\n');
		printf ("%s.singc", key); for (i = 0; i < nsing; i++) printf (" %d", singc[i]); putchar ('\n');
	}
	free (singr); free (singc);
	if (rv || nsing)
	{
		/* basis.c repairs the basis and factors again; here the session ends: the work is unusable */
		mpq_ILLfactor_free_factor_work (F);
		mpq_EGlpNumClearVar (F->fzero_tol); mpq_EGlpNumClearVar (F->szero_tol); mpq_EGlpNumClearVar (F->partial_tol);
		mpq_EGlpNumClearVar (F->maxelem_orig); mpq_EGlpNumClearVar (F->maxelem_factor); mpq_EGlpNumClearVar (F->maxelem_cur);
		mpq_EGlpNumClearVar (F->partial_cur);
		free (F);
		F = 0;
	}
	return rv ? rv : (nsing ? -1 : 0);
}
static void tok_svec (mpq_svector * s)
{
	int k = tok_int (), i;
	mpq_ILLsvector_init (s);
	mpq_ILLsvector_alloc (s, FN > 0 ? FN : 1);
	s->nzcnt = k;
	for (i = 0; i < k; i++) { s->indx[i] = tok_int (); tok_q (s->coef[i]); }
}
static void put_dense (const char *key, mpq_svector * x)
{
	mpq_t *d = mpq_EGlpNumAllocArray (FN + 1);
	int i, dup = 0;
	char *seen = (char *) calloc (FN + 1, 1);
	for (i = 0; i < x->nzcnt; i++)
	{
		if (x->indx[i] < 0 || x->indx[i] >= FN || seen[x->indx[i]]) { dup = 1; continue; }
		seen[x->indx[i]] = 1;
		mpq_set (d[x->indx[i]], x->coef[i]);
	}
	if (dup) printf ("%s.malformed 1\n", key);
	printf ("%s.nz %d\n", key, x->nzcnt);
	put_qarr (key, d, FN);
	mpq_EGlpNumFreeArray (d);
	free (seen);
}
int qsx_factor_commands (const char *c)
{
	if (!strcmp (c, "fnew"))
	{
		int n = tok_int (), N = tok_int (), j, k, i, cap = 16, nz = 0;
		f_free ();
		FN = n; FNP = N;
		FBEG = (int *) calloc (N + 1, sizeof (int));
		FCNT = (int *) calloc (N + 1, sizeof (int));
		FBAZ = (int *) calloc (n + 1, sizeof (int));
		FIND = (int *) calloc (cap, sizeof (int));
		{
			/* two passes are not possible on a token stream: grow the arrays */
			mpq_t *val = mpq_EGlpNumAllocArray (cap);
			for (j = 0; j < N; j++)
			{
				k = tok_int ();
				FBEG[j] = nz; FCNT[j] = k;
				for (i = 0; i < k; i++)
				{
					if (nz + 1 >= cap)
					{
						int ncap = cap * 2, t;
						mpq_t *nv = mpq_EGlpNumAllocArray (ncap);
						for (t = 0; t < nz; t++) mpq_set (nv[t], val[t]);
						mpq_EGlpNumFreeArray (val);
						val = nv;
						FIND = (int *) realloc (FIND, ncap * sizeof (int));
						cap = ncap;
					}
					FIND[nz] = tok_int ();
					tok_q (val[nz]);
					nz++;
				}
			}
			FVAL = val;
			FNZ = nz;
		}
		for (i = 0; i < n; i++) FBAZ[i] = tok_int ();
		for (i = 0; i < 4; i++) FP[i] = more ()? tok_int () : -1;
		f_factor ("factor");
	}
	else if (!strcmp (c, "fftran") || !strcmp (c, "fbtran"))
	{
		mpq_svector a, x;
		if (!F) { printf ("nofactor\n"); return 1; }
		tok_svec (&a);
		mpq_ILLsvector_init (&x);
		mpq_ILLsvector_alloc (&x, FN > 0 ? FN : 1);
		if (!strcmp (c, "fftran")) mpq_ILLfactor_ftran (F, &a, &x); else mpq_ILLfactor_btran (F, &a, &x);
		put_dense ("x", &x);
		mpq_ILLsvector_free (&a);
		mpq_ILLsvector_free (&x);
	}
	else if (!strcmp (c, "fupd"))
	{
		int pos = tok_int (), col = tok_int (), i, refactor = 0, rv;
		mpq_svector a, upd, x;
		if (!F) { printf ("nofactor\n"); return 1; }
		mpq_ILLsvector_init (&a); mpq_ILLsvector_alloc (&a, FN > 0 ? FN : 1);
		mpq_ILLsvector_init (&upd); mpq_ILLsvector_alloc (&upd, FN > 0 ? FN : 1);
		mpq_ILLsvector_init (&x); mpq_ILLsvector_alloc (&x, FN > 0 ? FN : 1);
		a.nzcnt = FCNT[col];
		for (i = 0; i < FCNT[col]; i++) { a.indx[i] = FIND[FBEG[col] + i]; mpq_set (a.coef[i], FVAL[FBEG[col] + i]); }
		mpq_ILLfactor_ftran_update (F, &a, &upd, &x);
		put_dense ("x", &x);
		rv = mpq_ILLfactor_update (F, &upd, pos, &refactor);
		printf ("update.rc %d\nupdate.refactor %d\nupdate.etacnt %d\n", rv, refactor, F->etacnt);
		FBAZ[pos] = col;
		if (rv == E_FACTOR_BLOWUP || rv == E_UPDATE_SINGULAR_ROW || rv == E_UPDATE_SINGULAR_COL || rv == E_UPDATE_NOSPACE) { refactor = 1; rv = 0; }
		if (!rv && refactor) f_factor ("refactor");
		mpq_ILLsvector_free (&a);
		mpq_ILLsvector_free (&upd);
		mpq_ILLsvector_free (&x);
	}
	else if (!strcmp (c, "ffree")) { f_free (); printf ("ok\n"); }
	else { extern int qsx_lowprec_commands (const char *c); return qsx_lowprec_commands (c); }
	return 1;
}
