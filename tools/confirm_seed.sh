#!/bin/bash
# usage: tools/confirm_seed.sh <agent-id e.g. C01a> <N> <property> <seeded-name>
# Confirms in the scratch worktree that patchN compiles, passes the test-suite, and that demoN passes
# without and fails with it; then stores it under /verif/seeded/<seeded-name>/.
A=$1; N=$2; PID=$3; NAME=$4
WT=/tmp/mut/$A; RES=/tmp/mut/${A}_result; B=/tmp/mut/${A}_cbuild
LIBS="-lgmp -lz -lbz2 -lm -lpthread"
run_demo() { # $1 = build dir ; returns demo exit code
  if [ -f $RES/demo$N.c ] && [ ! -f $RES/demo$N.sh ]; then
    gcc -w -I$RES -I$1 -I$1/qsopt_ex $RES/demo$N.c $1/libqsx.a $LIBS -o $1/demo$N || return 99
    ( cd $1 && timeout 300 ./demo$N > demo$N.out 2>&1 ); return $?
  elif [ -f $RES/demo$N.sh ]; then
    ARG=$1/esolver/esolver; grep -qi "builddir\|build dir" $RES/demo$N.sh && ARG=$1
    ( cd $RES && BUILD=$1 timeout 300 bash ./demo$N.sh $ARG > $1/demo$N.out 2>&1 ); return $?
  fi
  return 98
}
git -C $WT checkout -q -- . ; git -C $WT apply $RES/patch$N.diff || { echo "NOAPPLY"; exit 1; }
/tmp/mut/qsbuild.sh $WT $B > /dev/null 2>&1 || { echo "NOBUILD"; git -C $WT checkout -q -- .; exit 1; }
OKS=$(cd $B/tests && ./test_qs 2>/dev/null | grep -c '^ok')
run_demo $B; WITH=$?
git -C $WT checkout -q -- .
/tmp/mut/qsbuild.sh $WT $B > /dev/null 2>&1
run_demo $B; WITHOUT=$?
rm -rf $B
echo "$A patch$N: tests_ok=$OKS demo_with_patch=$WITH demo_pristine=$WITHOUT"
if [ "$OKS" = "20" ] && [ "$WITH" != "0" ] && [ "$WITH" != "99" ] && [ "$WITHOUT" = "0" ]; then
  D=/verif/seeded/$NAME; mkdir -p $D
  cp $RES/patch$N.diff $D/patch.diff
  cp $RES/demo$N.* $D/ 2>/dev/null
  awk "/[Pp]atch ?$N|[Cc]hange ?$N/{f=1} f{print}" $RES/notes.md | head -80 > $D/notes.md
  cat > $D/meta.json <<EOT
{"property": "$PID", "source": "independent sub-agent $A (property text only)", "confirmed": {"applies_to": "$(git -C /repo rev-parse --short HEAD)", "test_suite_ok_lines": $OKS, "demo_exit_with_patch": $WITH, "demo_exit_pristine": $WITHOUT, "how": "tools/confirm_seed.sh: scratch worktree, /tmp/mut/qsbuild.sh build, tests/test_qs, demo compiled against both builds"}, "needs_to_manifest": "see notes.md", "caught_by": []}
EOT
  echo "  stored in $D"
else
  echo "  NOT CONFIRMED"
fi
