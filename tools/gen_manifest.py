#!/usr/bin/env python3
"""Regenerates /verif/MANIFEST.json from the claims table below (single source of truth)."""
import json, os
HERE = os.path.dirname(os.path.dirname(os.path.abspath(__file__)))
props = [json.loads(l) for l in open(os.path.join(HERE, "properties.jsonl"))]

COMMON_NOTE = ("Trusted: Lean 4.33 kernel and the axioms propext/Classical.choice/Quot.sound (audited with #print axioms on every run; no "
               "native_decide, no sorry); the statement of the theorems in lean/Qsx/Props; the correspondence harness "
               "(harness/*.c, vlib/*.py, compiled driver qsxdrv); the translator vlib/translate.py; GMP as exact arithmetic. ")

CLAIMS = {
 "C01": ("proof",
  "Lean theorems: soundness of the transliterated QSexact_optimal_test (box and infinite-bound readings), certification of every OPTIMAL exit "
  "of the QSexact_solver driver model for all oracle (floating-point) behaviours, soundness of the API-level checker certOK; tied to /repo by "
  "direct differential testing of the public exact test on certificate perturbations, replay of the hook trace of every real solve through the "
  "driver model, and by passing every OPTIMAL answer and accessor value through certOK.",
  COMMON_NOTE + "Not verified: simplex/LU/pricing (oracle answers in the driver model). mpq_QSopt_primal/dual carry no internal checker, so for them "
  "the theorem is about the relation certOK that each of their OPTIMAL answers is run through.",
  "DESIGN.md C01", "Lean 4 proof (certificate soundness + driver invariant) with model/implementation correspondence check"),
 "C02": ("proof",
  "Lean theorems: soundness of the transliterated QSexact_infeasible_test (multipliers never lean on an infinite bound), certification of every "
  "INFEASIBLE exit of the driver model, API-level checkFarkas soundness, and 'no LP with a feasible point is reported INFEASIBLE'; tied to /repo "
  "by differential testing of the public Farkas test on perturbed multipliers (d_obj = 0 and infinite-bound cases included), hook-trace replay, "
  "and checkFarkas on every INFEASIBLE answer.",
  COMMON_NOTE + "As C01.", "DESIGN.md C02", "Lean 4 proof (Farkas soundness + driver invariant) with model/implementation correspondence check"),
 "C08": ("proof",
  "Partial (proof in layers). Proved in Lean: the number layer (every literal the writer can print is read back exactly by the scanner - C10's "
  "scan_literal), the Bounds section as a codec (lp_bounds_roundtrip: for every lo <= up, integer column or not, the reader's setters + fill-in of defaults "
  "applied to what write_bounds prints or omits give back the same bounds; the writer's side is compared with the real Bounds section of every generated file) "
  "and range_split (a ranged row and its two one-sided halves, which is how the LP writer renders it, have the same feasible set). Tied "
  "to /repo end to end: named problems satisfying the precondition (all senses incl. range 0, all bound shapes, keyword-/exponent-/generated-looking "
  "names, integer marks, 20-90 column problems whose expressions wrap, plain/.gz/.bz2) are written by the real writer, read back by the real reader and "
  "compared by name as exact rationals; chains LP->MPS->LP; exact solves of original and read-back compared. The token-level emit/parse model of "
  "lp.c/read_lp.c is not built, so below the number layer the round trip rests on the correspondence run.",
  COMMON_NOTE + "Names needing repair by the writer are not generated.", "DESIGN.md C08",
  "Lean 4 proofs of the number and range layers + write/read-back correspondence check on the real code"),
 "C09": ("proof",
  "As C08 for the MPS writer/reader: number layer, range semantics and the BOUNDS section codec (mps_bounds_roundtrip: FX/FR/MI/LO/PL/UP records with the "
  "reader's first-definition-wins flags and default fill-in; writer side compared with every generated file) proved; write -> read-back -> compare by name incl. native RANGES (range 0 too), "
  "negative RHS, all bound records, integer markers, objective sense/name sections; chains MPS->LP->MPS and agreement of the LP and MPS renderings of "
  "one problem, on the real code.", COMMON_NOTE + "As C08.", "DESIGN.md C09",
  "Lean 4 proofs of the number and range layers + write/read-back correspondence check on the real code"),
 "C11": ("proof",
  "Partial. Proved in Lean: (1) the lexical number layer every numeric field passes through is total, consumes no more than it is given and never divides by "
  "zero; (2) the lexical layers of the LP reader (read_lp.c: next_line, skip_blanks, next_field, prev_field, next_var, keyword tests, colon, has_colon, "
  "next_constraint, sign, test_next_is, value, possible_bound_value, sense, check_subject_to, error reporting) and of the MPS reader (read_mps.c: next_line, "
  "skip_comment, next_field, next_coef, next_bound, next_field_is_number, check_end_of_line, set_end_of_line), modelled with an explicit string terminator: "
  "from every state with the cursor inside the line's string no function reads behind the terminator or dereferences a null cursor, the cursor stays "
  "inside the string, for every file and every call sequence (theorems lplex_safe, mpslex_safe, mpslex_next_line, mpslex_set_end_of_line), and a "
  "successful LP token read strictly consumes input and a field delivered by the MPS reader's next_field moves the cursor strictly forward (lplex_progress, lex_field_progress: the token and record loops of the parsers terminate). The models are tied to /repo by direct sessions on the "
  "exported lexer functions (text + call sequence, whole observable state compared after every call, memory behind the terminators poisoned with two "
  "patterns so that any dependence on it shows). Everything else is exhibited, not proved: valid files (from the real writers and an independent generator) with token-level mutations (repeated "
  "sections introducing new names, 200-70000 character names, 30000-term lines, pathological literals), byte-level mutations, truncations, random "
  "bytes, .gz/.bz2 containers (intact, truncated, corrupted, wrong extension, empty) and mutated basis files are each read in a forked ASan child with an "
  "alarm; a returned problem must be dumpable, writable, solvable and freeable.",
  COMMON_NOTE + "Memory safety of the unmodelled reader code (section parsers, raw-LP tables, compression layer) is only exhibited by the sanitizer; libc calls of the lexers (sscanf %s, strncasecmp, strcpy, fgets) are modelled by their documented meaning.",
  "DESIGN.md C11", "Lean 4 proofs (totality, string-bounds safety and progress of the lexical layers) with model/implementation correspondence check + mutation-based exploration under sanitizers"),
 "C10": ("proof",
  "Lean theorem scan_literal: the transliterated state machine of mpq_EGlpNumReadStrXc consumes exactly, and yields exactly the rational denoted "
  "by, every literal [±]digits[.digits][e[±]digits] with any number of mantissa digits and an exponent below 100000 (0.1 is 1/10); theorem "
  "scan_exponent_guard: a longer exponent makes the scanner give up with nothing read (the guard of fix d278e6f is part of the model, so l_exp "
  "stays below 100000 on both sides); plus totality, consumption bound and absence of division by zero. Tied to /repo by differential testing of the exported scanner on grammar-derived literals, fractions, near-literals and "
  "random strings; theorem has_colon_spec: the LP reader's row-name test sees a ':' exactly when one occurs on the line before its end (comments cut off, nothing behind "
  "the string terminator is looked at). File level: an independent LP generator and an independent MPS renderer (free N rows, dropped columns, RANGES on G/L/E rows with either "
  "sign, every bound type, integer markers, OBJSENSE, second RHS/BOUNDS sets, $ comments, comments containing ':' and keywords) write known rational problems that the real readers must deliver exactly. "
  "Partial: the section grammars of the readers above the lexical layer are tied by this file-level stream but not proved.",
  COMMON_NOTE + "Token-level reader semantics not proved.",
  "DESIGN.md C10", "Lean 4 proof over a model of the number scanner + model/implementation correspondence check"),
 "C14": ("proof",
  "Lean theorem decode_encode: for every shape and every basis with exactly nrows basic entries the transliterated two-pointer writer succeeds "
  "and the table-driven reader returns the same basic set and at-upper assignments up to the documented free/at-lower normalisation "
  "(unbounded sizes, by induction on the pairing loop); tied to /repo by byte-for-byte comparison of real basis files with the model's lines "
  "for all bases of small shapes and random larger ones, read-back through the real reader, and write-own-basis / continue sequences.",
  COMMON_NOTE + "Names assumed distinct and free of white space; the MPS line tokenizer under the reader is not modelled.",
  "DESIGN.md C14", "Lean 4 proof of the basis-file codec round trip + model/implementation correspondence check"),
 "C12": ("proof",
  "Lean theorems over a verdict model (isBasicSol multiplication check, primal/dual feasibility at tolerance 0, dual bound): for every LP and every basis, "
  "verdict 'optimal' => the exact basic solution is feasible and no point inside the bounds is better; the dual bound equals the objective of the basic solution "
  "and bounds every feasible point; two optimal verdicts agree on the value. Tied to /repo: every valid basis (each basic set x each at-lower/at-upper/free "
  "assignment, capped per LP) of exhaustive-small and random LPs is handed to QSexact_basis_optimalstatus / _dualstatus (in varying order, in-process and forked) "
  "and result + dual bound are compared with the Lean verdicts computed on an independently computed exact basic solution that the Lean multiplication check "
  "identifies on the library's own internal LP; bases returned with OPTIMAL by exact/primal/dual entry points under random pricing/scaling are checked for one "
  "basic per row, statuses naming existing bounds, basic solution == reported x/pi/objective, and confirmation by the verdict functions and warm-started solves.",
  COMMON_NOTE + "Singular supplied bases (library repairs them) are counted, not compared. The LU solve inside the verdict functions is tied by observation only (see C13). "
  "QSexact_verify is exercised only through its exact fallback.",
  "DESIGN.md C12", "Lean 4 proof over a model of the basis verdicts + model/implementation correspondence check"),
 "C13": ("proof",
  "Partial by nature: factor.c (Markowitz LU, dense tail, Forrest-Tomlin updates) is not modelled. Proved in Lean, for every dimension and every column-replacement "
  "history, is what passing the multiplication checks means: inverse rows that pass r_i B = e_i determine and make unique every forward solve; a kernel certificate excludes "
  "a full set of inverse rows (a singular matrix cannot pass as solved); a replacement with spike entry 0 yields a singular matrix (explicit kernel vector) and one with a "
  "non-zero spike entry keeps it invertible (product-form update); tableau rows that pass t = r [A|I] read delta on the basic columns and hold as equations on every solution "
  "of the rows. Tied to /repo: mpq_ILLfactor/_ftran/_btran/_ftran_update/_update driven directly (exhaustive 2x2 and a slice of 3x3 small-integer matrices; triangular, "
  "dense-block, singleton, arrow, cancellation-prone nucleus+row-singleton, near-singular and exactly singular structured matrices up to dimension ~30 quick / 130 thorough; "
  "replacement sequences up to 125 updates and with small eta limits forcing refactorization, singular replacements) with every output multiplied back against the dense matrix "
  "after the history so far and singular <=> reported singular; QSget_binv_row/_tableau_row/_basis_order after primal/dual solves, pivot-in sequences and 450-step pivot-in walks "
  "with re-optimisation (eta file filled). Small cases are replayed through the Lean checkers.",
  COMMON_NOTE + "Runs stopped by an iteration limit expose no basis inverse through the API (no cache), so 'arbitrary iteration counts' is covered through pivot-in walks instead. "
  "E_UPDATE_NOSPACE/blow-up paths only if the histories reach them (see evidence distribution).",
  "DESIGN.md C13", "Lean 4 proof of the solve contracts (multiplication checkers) + model/implementation correspondence check"),
 "C15": ("proof",
  "Lean theorems: a reformulation relation Sim L L' a b (feasible points correspond both ways, objective values related by v' = a v + b, negative a with the opposite sense) "
  "implies Infeasible <-> Infeasible, Unbounded <-> Unbounded and IsOpt L v <-> IsOpt L' (a v + b); Sim is closed under composition (so every composition of the listed "
  "transformations is covered by induction); and each listed transformation as implemented by Qsx.Xform is a Sim: objective negation with min/max flip, row scaling by any non-zero "
  "rational (sense flipped / ranged interval mirrored for negative factors), row duplication, redundant (relaxed) row, equality as two inequalities, variable shift (value offset "
  "-c_j d) and positive rescale, row permutation, column permutation. Tied to /repo: the generator's transformations are compared line by line with Qsx.Xform in the model driver "
  "for every composition; original and transformed problem are solved by QSexact_solver (primal/dual) and definitive status and the mapped value compared, on the mixed small "
  "families, boxed-variable LPs, wide chains (50-150 columns) and sparse LPs up to 150x220 (quick) / 300x400 (thorough).",
  COMMON_NOTE + "That the solver returns the true status on each formulation is C03 (explored); C15's theorems say what the two answers must be relative to each other. "
  "Variable rescaling is proved for positive factors (reflection = negative factor is not in the generator).",
  "DESIGN.md C15", "Lean 4 proof that each reformulation preserves status/value + model/implementation correspondence check"),
 "C16": ("proof",
  "Lean theorems over a store-of-objects model (Qsx.Multi: the reference editing semantics of Qsx.Spec per object, copy, free): a copy shows the original's data; no command changes what "
  "another object shows; the copy keeps showing the data of copy time - and the original its own - under every later command sequence addressed to other objects (induction over the "
  "sequence). For the reduced-precision copies: within-one-ulp (Qsx.Round.ulpOK, p-bit significand) implies relative error <= 2^(1-p) and maps zero to zero. Tied to /repo: "
  "interleavings of edits / copies / frees / solves / parameter changes on up to four objects with a dump of every live object after every command, compared with the model driver's "
  "slots, with the object's own previous dump when another object was addressed (model-free independence), and copy vs original right after QScopy_prob (data, names, integrality marks, "
  "objective name, integer and rational parameters); problems with integrality marks (obtained through LP files) copied, both sides edited, original freed; QScopy_prob_mpq_dbl / _mpf "
  "observed through the dbl_/mpf_ query API: identical structure, senses, order and integer parameters, infinities mapped to the target type's infinity, every number and rational "
  "parameter passed through the Lean conversion check at 53 bits resp. the working precision (64-256).",
  COMMON_NOTE + "An unnamed objective (NULL) is given the generated default name by QScopy_prob; that is not counted as a difference. Doubles outside 2^±900 are not generated.",
  "DESIGN.md C16", "Lean 4 proof over a store-of-objects model and a rounding check + model/implementation correspondence check"),
 "C19": ("proof",
  "Lean theorems over a model of the solution file (sections of 'name = value' entries of the non-zero components) and of esolver's file-type decision: with distinct names, reading "
  "a section back by name (absent = 0) returns exactly the vector that was written (decode_encode, by induction over the name list); an entry is listed iff it is a non-zero "
  "component under its own name (entries_exact); -L always selects the LP reader. Tied to /repo: the real esolver binary (sanitized build of the working tree) is run on named problems "
  "written as LP / MPS text in plain / gz / bz2 containers with name shapes (upper case, dotted, no extension, -L with a foreign extension) and the option product "
  "-O name[.gz|.bz2], -p, -d, -S, -P, -b, -B: exit status 0; status line equal to what QSexact_solver returns on the same file under the same settings (and compared with a certified "
  "reference classification); OPTIMAL files parsed, every section read back through the Lean decodeSec and the rebuilt x / pi handed to the proved certOK (C01/C03) with value, slacks "
  "and reduced costs compared; a basis written with -b fed back with -B (exit 0, same status and value); ftypeOf compared with the reader esolver actually chose; unreadable and "
  "malformed files (missing, empty, garbage, truncated, wrong container, directory, LP as MPS and vice versa): non-zero exit and no crash.",
  COMMON_NOTE + "esolver is run with -m 2^46 because its default 4 GB address-space limit cannot hold the sanitizer runtime. Problem text comes from the library's own writers (C08/C09). "
  "The text layer of the solution file (splitting lines at ' = ') is python, compared structurally; exit code and option parsing are observed, not modelled.",
  "DESIGN.md C19", "Lean 4 proof of the solution-file codec + model/implementation correspondence check on the real binary"),
 "C17": ("proof",
  "Partial, and labelled so. Proved in Lean: the size bookkeeping of the growable per-row / per-column arrays (counts vs rowsize / colsize / structsize / matcolsize with lib.c's growth "
  "rule and the EXTRA_* constants re-extracted from the source on every run) - for every history of additions and deletions every write index lies inside the array as sized after the "
  "growth step (invariant by induction over the history); and the free-space accounting of the sparse column store: the guard delta < matfree of matrix_addrow keeps every write of its "
  "in-place branch inside the array (and delta <= matfree would not), matrix_addcol and the move branch of matrix_addcoef write inside the array; and the string pool of the "
  "symbol table: add_string leaves its grow/compact loop with room for the string and its terminator whenever the live strings fit below strsize, and that invariant holds after every "
  "history of registrations, deletions and renamings (symtab_pool_history; it is also checked on every state of the direct symbol-table sessions of C06). Tied to /repo: counts and capacities of "
  "the real object are compared with the Cap model after every call; the raw store arrays with the transliterated Store model (check C06), whose addrow steps are checked at run time "
  "against the accounting abstraction; histories are steered to the boundaries delta = matfree, matfree +- 1. NOT provable in a model and therefore observed, not proved: actual memory accesses, undefined behaviour, uninitialised reads and reproducibility are runtime "
  "behaviour; a battery of multi-object interleavings, solves with warm restarts / tableau calls / file round trips, long edit histories and mutated LP / MPS inputs runs on the "
  "ASan+UBSan build (GMP memory malloc'ed), a subset under Valgrind memcheck on the plain build, and every transcript is re-executed on the plain build with allocator fill 0x55 / 0xAA "
  "(single arena) and with address-space randomisation off - all transcripts byte-identical. Every other property's check also runs on the sanitizer build.",
  COMMON_NOTE + "The sparse-matrix free-space management (matsize/matfree, matrix_addcoef moves) is not in the Cap model. Sanitizer, memcheck and reproducibility results are exploration of the "
  "generated battery; they support the claim, they are not theorems.",
  "DESIGN.md C17", "Lean 4 proof of the capacity bookkeeping + correspondence check; sanitizers / memcheck / repeated runs as supporting observation"),
 "C03": ("proof",
  "Partial by nature. Proved in Lean: soundness of the three certificate checkers (optimality, Farkas, unbounded ray), mutual exclusivity of the three "
  "classes and uniqueness of the certified value - so the 'mathematical truth' of an LP is well defined by whichever certificate exists - and the "
  "bound of 1 + QS_EXACT_MAX_ITER floating-point stages of the exact driver; and, for the primal and dual phase-II ratio tests (ratio.c "
  "ILLratio_pII_test / ILLratio_dII_test, transliterated as Qsx.Ratio.pII / dII and compared with the mpq instances field by field on generated rows; "
  "the dual statements are the same ones about dual slacks), for every number of rows: the test never "
  "ends RATIO_FAILED whatever the arithmetic's comparison answers (the mpf instance is run on large-magnitude rows to observe exactly that), "
  "RATIO_UNBOUNDED means every step up to the infinity stand-in keeps all basic variables inside their bounds, NOBCHANGE / BCHANGE steps keep them "
  "inside, at tolerance 0 the leaving variable lands on the bound lvstat names, and among the rows that block no later than the step the leaving row has the "
  "largest pivot element. Explored, not proved: that QSexact_solver terminates with the true "
  "definitive status on every moderate LP (simplex control, LU, pricing and the phase-I / long-step ratio tests are not modelled): every generated LP is classified by a self-certifying "
  "reference whose certificate passed the proved checker and the real solver's status and exact value are compared with it (exhaustive small "
  "family, degenerate, cycling-prone, margins 2^-k and near-parallel equalities, scales 10^±e, awkward denominators, random up to 30x30).",
  COMMON_NOTE + "Completeness is exploration with a proved oracle. UNBOUNDED is reported by the library from floating point alone.",
  "DESIGN.md C03", "Lean 4 proofs of certificate soundness/exclusivity + exploration against a self-certifying reference"),
 "C04": ("proof",
  "Lean theorem certified_status_agree / certified_answers_agree: for one LP any two outcomes that each carry an accepted certificate have the "
  "same class and the same value - for every pair of configurations, warm starts and repetitions at once, without enumerating them - and the "
  "session-model fact that a repeated solve of an unmodified object returns the stored status. Tied to /repo by driving the library over the "
  "product {QSexact_solver primal/dual, QSopt_primal, QSopt_dual} x 4x4 pricing rules x scaling x mpf precision x warm-start bases (incl. 50/100/150-"
  "column LPs for partial pricing, and a sweep of thousands of small LPs with two-sided column bounds through mpq_QSopt_dual / _primal for the bound-flipping ratio tests), passing every OPTIMAL/INFEASIBLE through the proved checkers and comparing all statuses and values with the "
  "certified reference and with each other. Partial: definitiveness under every configuration is explored, not proved.",
  COMMON_NOTE + "As C03.", "DESIGN.md C04", "Lean 4 proof of uniqueness of certified answers + configuration-product exploration"),
 "C05": ("proof",
  "Lean session state machine (basis / cached solution / factorok / status per public entry point, solver results and the flags of "
  "ILLlib_delrows as oracle answers) with the invariant, proved for ALL histories by induction, that a stored solution is either computed for the "
  "problem exactly as it stands or survived only 'basis ok, cache ok' row deletions, that every other successful edit drops it, and that accessors "
  "fail without it; tied to /repo by comparing the session fields after every step of generated and bounded-exhaustive edit/solve histories, and by "
  "the oracle: every re-solve is compared with a fresh copy of the current problem solved from scratch and every OPTIMAL / every accessor value "
  "between edit and solve goes through the proved checker certOK against the problem as it stands (served slacks and reduced costs must be the ones the served x and pi determine). Partial: the correctness of warm-started "
  "pivoting itself (LU reuse, retained norms) is explored through its results, not proved.",
  COMMON_NOTE + "The fresh copy is built from the library's own query dump (C06). Only well-formed edits (lower <= upper) are generated.",
  "DESIGN.md C05", "Lean 4 invariant proof over the session state machine + correspondence check with certificate oracle"),
 "C06": ("proof",
  "Reference model Spec of the editing API in Lean (24 call kinds incl. list/set/named variants, generated-name rule) with its guard and atomicity "
  "theorems; the real library is compared with Spec after EVERY operation of generated histories through the whole query API (counts, nzcount, "
  "row-wise coefficients, rhs, sense, range, objective, bounds, objective sense, names, name->index, single coefficients). The raw column store "
  "(matbeg/matcnt/matind, matsize/matfree, structmap, rowmap) is modelled too: Qsx.Store transliterates matrix_addrow/_addrow_end/_addcoef/_addcol, "
  "delcols_work and the delete loops, and is compared field by field with the real arrays after every call; its free-space accounting is proved safe "
  "(see C17). The symbol table behind every name query (symtab.c: chained hash table, swap-with-last deletion, doubling rebuild, string pool with "
  "deferred compaction) is modelled as Qsx.Symtab and compared with the real table after every operation of direct sessions (entries, every chain "
  "in chain order, capacities, pool counters); theorems symtab_history / symtab_lookup_history: for every history of registrations, deletions and renamings the "
  "hash structure stays consistent, the table holds exactly the list a four-line specification computes and a lookup returns the position of the "
  "name in that list; symtab_getindex_after_reset: after index_reset with the distinct names of a well-formed table getindex of the j-th name is j. "
  "Partial: the abstraction theorem Store -> Spec (that the store represents the matrix Spec describes) is not proved, it is observed through both ties.",
  COMMON_NOTE + "Duplicate indices inside one added row/column are not generated. In Spec names are a finite map; the item-index field of the symbol table is covered by the reset theorem, not by the history theorem.",
  "DESIGN.md C06", "Lean 4 reference model with proved guards + per-operation model/implementation correspondence check"),
 "C07": ("proof",
  "Lean theorems over the reference model: each call is rejected exactly outside the documented argument ranges (index in [0,count), known / new "
  "name, sense in LGER, selector in LUB) and a rejected call - list variants included - leaves the state unchanged, for all states and arguments; "
  "tied to /repo by calling every public function that takes an index, name, selector, basis or parameter with every boundary value in every "
  "lifecycle state (empty, loaded, solved, edited, shrunk) inside forked ASan children and comparing return code and the complete before/after dump.",
  COMMON_NOTE + "NULL pointer arguments are not exercised. The internal flag factorok is not counted as observable state.",
  "DESIGN.md C07", "Lean 4 proof of guard exactness and atomicity over the reference model + boundary-value correspondence check"),
 "C20": ("proof",
  "Lean model of QSlogv (handler => one complete message, no descriptor touched) and the theorem no_direct_writers: the table of call sites that "
  "write to stdout/stderr without QSlog - RE-EXTRACTED from /repo's preprocessed sources by the translator on every run - contains only the allowed "
  "sites (the no-handler branch of QSlogv, QSwrite_prob with a NULL name, the interactive editor/prompt, trace-only blocks whose TRACE flag is 0), "
  "by decide over the whole table; tied dynamically by running failing calls, rejected arguments, solves at every display level, edit histories and "
  "a message-length sweep with a handler installed and fd 1/2 captured: 0 bytes must arrive and every message must arrive complete.",
  COMMON_NOTE + "The site extractor is a brace-depth scanner over gcc -E output (trusted). Interactive editor not driven.",
  "DESIGN.md C20", "Lean 4 proof over a logging model + regenerated effect table (translator) + fd-capture correspondence check"),
}

NOT_BUILT = "not claimed in this revision: the check for it is not built yet (plan: DESIGN.md section 10)"
NA = {
 "C18": "leak freedom of 58 kLOC of C needs a memory semantics of C; no executable Lean model can express it without LeakSanitizer standing in "
        "for the proof, which this technique family rules out (DESIGN.md C18)",
}

checks = []
for pid, (cat, text, note, ref, tech) in CLAIMS.items():
    checks.append({"property_id": pid, "quick_cmd": "./check %s --tier quick" % pid, "thorough_cmd": "./check %s --tier thorough" % pid,
                   "evidence_file": "evidence/%s.json" % pid, "replay_cmd_template": "./check %s --replay {path}" % pid, "engine": "qsx-lean",
                   "level_claimed": {"category": cat, "text": text, "design_ref": ref}, "level_note": note, "technique": tech})
na = [{"property_id": p["id"], "reason": NA.get(p["id"], NOT_BUILT)} for p in props if p["id"] not in CLAIMS]
m = {"version": 1, "setup_cmd": "./check setup",
     "hooks": {"guard": "QSOPT_EX_VERIF",
               "enable": "every check copies /repo's working tree to a scratch dir and compiles it with gcc -DQSOPT_EX_VERIF (vlib/build.py); no autotools",
               "baseline_off_cmd": "./check baseline-off", "source_commits": ["f8c226f", "7c118c8"], "add_only": True},
     "engines": [{"name": "qsx-lean", "path": "lean/", "serves_properties": sorted(CLAIMS),
                  "kind_free_text": "Lean 4 models + theorems (lake project Qsx), compiled model driver qsxdrv, C harness harness/*.c, python orchestrator vlib/"}],
     "checks": checks,
     "notes": "Technique family: machine-checked proof in Lean 4 with a checked model/implementation correspondence. See DESIGN.md.",
     "not_applicable": na}
json.dump(m, open(os.path.join(HERE, "MANIFEST.json"), "w"), indent=1)
print("claimed:", sorted(CLAIMS), "not claimed:", [x["property_id"] for x in na])
