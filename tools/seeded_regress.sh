#!/bin/bash
# usage: tools/seeded_regress.sh  -- applies every seeded change in turn and runs the quick check of its property
# (and the checks named in meta.caught_by); prints one line per change.  Nothing else may touch /repo meanwhile.
cd /verif
for d in seeded/*/; do
  n=$(basename $d)
  pids=$(python3 - "$d" <<'PY'
import json,sys,re
m=json.load(open(sys.argv[1]+"meta.json"))
ids=[m["property"]]+re.findall(r"\bC\d\d\b", " ".join(m.get("caught_by") or []))
seen=[]
for i in ids:
    if i not in seen: seen.append(i)
print(" ".join(seen[:3]))
PY
)
  git -C /repo apply /verif/$d/patch.diff 2>/dev/null || { echo "$n NOAPPLY"; continue; }
  res=""
  for p in $pids; do
    out=$(timeout 1800 ./check $p 2>&1 | tail -1)
    case "$out" in *FAILED*) res="$res $p:caught";; *OK*) res="$res $p:MISSED";; *) res="$res $p:?";; esac
    case "$out" in *FAILED*) break;; esac
  done
  git -C /repo checkout -- .
  echo "$n$res"
done
