#!/bin/bash
# usage: qsbuild.sh <source tree (worktree of qsopt-ex)> <build dir>   [CFLAGS_EXTRA in env]
# Fast out-of-tree build (no autotools): instantiates the dbl/mpq/mpf templates like Makefile.am,
# compiles in parallel, produces <build>/libqsx.a, <build>/qsopt_ex/*.h, <build>/tests/test_qs,
# <build>/esolver/esolver.   Include with -I<build> -I<build>/qsopt_ex ; link libqsx.a -lgmp -lz -lbz2 -lm -lpthread
set -e
SRC=$(realpath $1); B=$2
rm -rf $B; mkdir -p $B
( cd $SRC && git ls-files -c -o --exclude-standard -- qsopt_ex esolver tests | grep -E '\.(c|h)$' | grep -vE '_(dbl|mpq|mpf)\.[ch]$' | rsync -a --files-from=- . $B/ )
if [ -f $SRC/config.h ]; then cp $SRC/config.h $B/; else cp /repo/config.h $B/ 2>/dev/null || cat > $B/config.h <<EOT
#define HAVE_LIBZ 1
#define HAVE_LIBBZ2 1
#define DEBUG 1
#define PACKAGE_STRING "QSopt_ex"
#define VERSION "2.5.10.3"
EOT
fi
getlist() { python3 - "$SRC/Makefile.am" "$1" <<'PY'
import re,sys
t=open(sys.argv[1]).read(); v=sys.argv[2]
m=re.search(r"^%s\s*=\s*\\\n((?:[^\n]*\\\n)*[^\n]*\n)"%re.escape(v),t,re.M)
print(" ".join(w for w in m.group(1).replace("\\\n"," ").split() if w.startswith("qsopt_ex/")))
PY
}
MAIN=$(getlist MAIN_SOURCE_FILES); TS=$(getlist TEMPLATE_SOURCE_FILES)
TH="$(getlist TEMPLATE_PUBLIC_HEADER_FILES) $(getlist TEMPLATE_PRIVATE_HEADER_FILES)"
CS="$MAIN"
cd $B
for f in $TS $TH; do
  base=${f%.*}; ext=${f##*.}
  for p in dbl:double mpq:mpq_t mpf:mpf_t; do n=${p%%:*}; ty=${p##*:}
    sed -e "s|EGLPNUM_TYPENAME|$n|g" -e "s|EGLPNUM_TYPE|$ty|g" $f > ${base}_$n.$ext
    [ $ext = c ] && CS="$CS ${base}_$n.c"
  done
done
echo $CS | tr ' ' '\n' | xargs -P16 -I{} sh -c "gcc -O1 -g -DHAVE_CONFIG_H -w $CFLAGS_EXTRA -I$B -I$B/qsopt_ex -c {} -o \$(echo {} | sed 's/\.c$/.o/')"
ar rcs libqsx.a $(echo $CS | sed 's/\.c\b/.o/g')
L="-lgmp -lz -lbz2 -lm -lpthread"
gcc -O1 -g -DHAVE_CONFIG_H -w $CFLAGS_EXTRA -I$B -I$B/qsopt_ex tests/test_qs.c libqsx.a $L -o tests/test_qs
gcc -O1 -g -DHAVE_CONFIG_H -w $CFLAGS_EXTRA -I$B -I$B/qsopt_ex esolver/esolver.c libqsx.a $L -o esolver/esolver
echo BUILD-OK
