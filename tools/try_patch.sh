#!/bin/bash
# usage: tools/try_patch.sh <patch.diff> <pid> [pid...]   -- applies the patch to /repo, runs the quick checks, reverts
P=$(realpath $1); shift
git -C /repo apply "$P" || { echo "patch does not apply"; exit 2; }
for pid in "$@"; do
  echo "=== $pid with $(basename $(dirname $P))/$(basename $P)"
  # the evidence file must keep describing the unchanged tree: put the committed one back after the run on the patched tree
  cp /verif/evidence/$pid.json /tmp/.try_patch_evidence_$pid.json 2>/dev/null
  ( cd /verif && timeout 1800 ./check $pid --tier ${TIER:-quick} 2>&1 | grep -v "^  #" | tail -${LINES_OUT:-6} )
  [ -f /tmp/.try_patch_evidence_$pid.json ] && mv /tmp/.try_patch_evidence_$pid.json /verif/evidence/$pid.json
done
git -C /repo checkout -- .
