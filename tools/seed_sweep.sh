#!/bin/bash
# usage: tools/seed_sweep.sh "<pids>" "<seeds>" [tier]   -- runs the checks at several seeds on the clean tree
./check setup > /dev/null 2>&1
for s in $2; do for p in $1; do
  out=$(VERIF_SEED=$s ./check $p --tier ${3:-quick} 2>&1 | grep -v "^  \|KNOWN-FINDING" | tail -3 | tr '\n' ' ')
  echo "seed=$s $out"
done; done
