#!/usr/bin/env python3
"""Regenerates the data-driven parts of DESIGN.md section 11 (fix list, known findings, seeded table) from
known_findings.json and seeded/*/meta.json.  Text between the BEGIN/END markers is replaced; the rest is untouched."""
import json, os, re, glob

V = os.path.dirname(os.path.dirname(os.path.abspath(__file__)))
HOW = {
    "C01-opttest-skips-free-columns": "C01 quick: directed perturbation 'a non-basic column at 0 is declared free' of every true certificate + tiny-cost family (added after a miss at a later RNG stream)",
    "C01-cache-rc-wrong-index": "C01 quick (after `newcg`: a third of the problems are built rows first, columns through QSadd_col, so structmap is not the identity)",
    "C02-fixed-columns-skipped": "C02 quick: exact-test differential + checkFarkas oracle",
    "C02-exact-retest-dropped": "C02 / C01 / C03 quick (after the tiny-coefficient family: floating point misjudges the LP, only the exact re-test protects the answer; the H1 trace no longer replays through the driver model and a wrong answer is exhibited)",
    "C03-unbounded-skips-ladder": "C03 quick: UNBOUNDED on an LP whose certified class is optimal / trace vs driver model",
    "C03-price-phaseI-free-direction": "C03 quick",
    "C04-dobj-skips-fixed": "C04 quick",
    "C04-scale-min-max-typo": "C04 quick",
    "C05-chgobj-keeps-cache-wrong-index": "C05 quick (after `newcg` starts)",
    "C05-chgsense-R-range-kept": "C05 quick (after adding sense changes to and from R to the exhaustive edit list)",
    "C06-delrows-empty-marker-freed": "C06 quick: raw arrays vs Store model / API dump vs Spec",
    "C06-first-ranged-row-no-rangeval": "C06 quick",
    "C07-chgbnds-selector-unchecked": "C07 quick",
    "C07-loadbasis-size-and": "C07 quick",
    "C08-scanner-sign-kept-after-slash": "C08 quick (also C10)",
    "C08-bounds-line-unindented": "C08 quick: bounds section of the written file vs `LpBounds.writeCol`",
    "C09-objname-unique-vs-coltab": "C09 quick (after rows called `obj`; the same battery exposed the LP-writer defect repaired in 0f0350f)",
    "C09-E-range-negation-lost": "C09 quick: RANGES tie (`MpsRanges.readRow` on hand-written files with negative R on E rows)",
    "C10-leading-fraction-zeros": "C10 quick: scanner differential",
    "C10-objective-repeat-overwrites": "C10 quick: independent generator repeats a variable in the objective",
    "C11-symtab-pool-grow-once": "C11 quick",
    "C11-buildmatrix-dropped-column": "C11 quick (after the hand-written files with columns that occur only in the Bounds section)",
    "C14-writebasis-grabs-stale": "C14 quick (after loaded-basis patterns: write the basis that was loaded, not the one left by the last solve)",
    "C14-readbasis-symtab-slot": "C14 quick (after deleted-column patterns: symbol-table slot differs from the column index)",
    "C20-clear-drops-handler": "C20 quick (after the second-session battery: QSexactClear + QSexactStart with the handler still installed)",
    "C20-readbasis-perror": "C20 quick: bytes on fd 2 for a missing basis file",
    "C03-ratio-pII-no-kmin": "C03 quick: mpf ratio-test battery (RATIO_FAILED although a row blocks; theorem ratio_pII_never_failed) and corpus LP F12 ends UNSOLVED",
    "C09-mps-obj-structmap-index": "C09 quick (after building a third of the problems rows first, columns through QSadd_col: structmap is not the identity)",
    "C09-int-lower-only-becomes-binary": "C10 quick (independent generator: integer column with a lower bound only); not seen by C09's round trips, whose reference object comes from the same reader",
    "C06-symtab-delete-relink-head": "C06 quick: symtab.c vs Qsx.Symtab (chain of the moved entry differs after a delete)",
    "C06-addcol-stale-intmarker": "C16 quick (after adding the expectation that integrality marks move with their columns and new columns are continuous)",
    "C16-copy-objname-collision": "C16 quick (after rows called obj / OBJ / rhs in the generated histories)",
    "C16-mpf-objlim-via-double": "C16 quick: mpf copy parameters through convOK",
    "C19-plainwrite-format-string": "C19 quick and C08 quick (after names containing %d, %s, %% in the name pools)",
    "C19-setparam-pricing-range": "C19 quick: option sweep -d 9",
    "C12-pfeasible-upper-guard-lower": "C12 quick: supplied-basis enumeration vs verdict model",
    "C12-dfeasible-free-positive-dropped": "C12 quick: supplied-basis enumeration vs verdict model",
    "C13-btranl3-zero-shortcut": "C13 quick (after the bump family: 30-120 rows, identity plus a small integer block, every row of the inverse)",
    "C13-move-pivot-row-backpointer": "C13 quick (after the sparse-update family: 28-60 rows, forty column replacements without refactorization, rows of the inverse after each)",
}


def existing_rows(text):
    rows = {}
    for m in re.finditer(r"^\| `([^`]+)` \| (C\d\d) \| (.*) \|$", text, re.M):
        rows[m.group(1)] = m.group(3)
    return rows


def main():
    p = os.path.join(V, "DESIGN.md")
    text = open(p).read()
    kf = json.load(open(os.path.join(V, "known_findings.json")))
    old = existing_rows(text)

    fixes = "\n".join("- " + f[len("fixed: "):] if f.startswith("fixed: ") else "- " + f for f in kf["fixed"])
    finds = "\n".join("- `%s` (%s): %s  \n  replay: `%s`  \n  not repaired because: %s" %
                      (f["id"], f["property"], f["what"], f["replay"], f["why_not_fixed"]) for f in kf["findings"])
    rows = []
    for d in sorted(glob.glob(os.path.join(V, "seeded", "*", "meta.json"))):
        n = os.path.basename(os.path.dirname(d))
        m = json.load(open(d))
        how = HOW.get(n) or old.get(n) or ", ".join(m.get("caught_by") or ["?"])
        if len(how) < 8 and m.get("caught_by"):
            how = ", ".join(m["caught_by"])
        how = re.sub(r"( \*\(patch re-created on the current tree: .*\)\*)+$", "", how)
        if m.get("rebased"):
            how += " *(patch re-created on the current tree: %s)*" % m["rebased"]
        rows.append("| `%s` | %s | %s |" % (n, m["property"], how))
    table = "| seeded change | property | caught by |\n|---|---|---|\n" + "\n".join(rows)

    def put(text, tag, body):
        b, e = "<!-- BEGIN %s -->" % tag, "<!-- END %s -->" % tag
        if b not in text:
            raise SystemExit("marker %s missing in DESIGN.md" % tag)
        i, j = text.index(b) + len(b), text.index(e)
        return text[:i] + "\n" + body + "\n" + text[j:]

    text = put(text, "FIXES", fixes)
    text = put(text, "FINDINGS", finds)
    text = put(text, "SEEDED", table)
    open(p, "w").write(text)
    print("DESIGN.md: %d fixes, %d findings, %d seeded changes" % (len(kf["fixed"]), len(kf["findings"]), len(rows)))


if __name__ == "__main__":
    main()
