/-
Model of the logging layer (`logging.c`): `QSlogv` formats the whole message into a heap buffer
and hands it either to the registered handler — one call, the complete text — or, when no handler
is registered, to `fprintf (stderr, "%s\n", …)`.  The effect signature of the rest of the library
is the *generated* table `Gen.directWriters`: every call site, after preprocessing, that writes to
stdout/stderr without going through `QSlog`.
-/
import Qsx.Generated.Tables

namespace Qsx.Log
open Qsx.Gen

inductive Event
  | toHandler (msg : String)     -- one handler invocation with the complete formatted text
  | toFd (fd : Nat) (bytes : String)
deriving Repr, BEq, DecidableEq

structure St where
  handler : Bool

/-- `QSlogv` (logging.c:43-78) on an already formatted message -/
def qslog (s : St) (msg : String) : List Event :=
  if s.handler then [.toHandler msg] else [.toFd 2 (msg ++ "\n")]

def Event.isFd : Event → Bool
  | .toFd .. => true
  | _ => false

/-- sites that may write to fd 1/2 although a handler is installed, each with its reason -/
def allowedSite (e : String × String × String × String × Nat) : Bool :=
  let (file, fn, callee, stream, _) := e
  -- the no-handler branch of QSlogv itself, and its abort paths (`perror` + `abort()`: never return)
  (file == "logging.c" && fn == "QSlogv") ||
  -- documented behaviour: a NULL file name means "write the problem to standard output"
  (fn == "mpq_QSwrite_prob" && callee == "EGioOpenFILE" && stream == "stdout") ||
  -- the interactive line editor and the interactive prompt of the LP reader (only the editor sets
  -- `interactive`; read_lp.c:111,137): a terminal tool, not a library call made by a host
  (fn == "mpq_ILLeditor") || (fn == "mpq_ILLread_lp_state_next_line" && stream == "stdout") ||
  -- `ILL_IFDOTRACE` blocks, compiled in but guarded by the file-static flag TRACE, which is 0
  ((fn == "convert_rawlpdata_to_lpdata" || fn == "mpq_ILLprint_rawlpdata") && file == "rawlp_mpq.c" &&
     traceFlags.lookup "rawlp.c" == some 0)

end Qsx.Log
