/-
Token-level parsers / printers of the line protocol shared by the harness and the model driver.
-/
import Qsx.Model.Cert
import Qsx.Model.LP

namespace Qsx

structure Ctx where
  pinf : Rat := 0
  ninf : Rat := 0

abbrev P := StateT (List String) Option

def pTok : P String := fun s => match s with
  | [] => none
  | t :: r => some (t, r)

def pNat : P Nat := do let t ← pTok; match t.toNat? with | some n => pure n | none => failure
def pInt : P Int := do let t ← pTok; match t.toInt? with | some n => pure n | none => failure

def pRat (cx : Ctx) : P Rat := do
  let t ← pTok
  if t == "inf" then pure cx.pinf
  else if t == "-inf" then pure cx.ninf
  else match parseRat? t with | some q => pure q | none => failure

def pMany {α} (n : Nat) (p : P α) : P (Array α) := do
  let mut a : Array α := Array.mkEmpty n
  for _ in [0:n] do
    a := a.push (← p)
  pure a

def pRatArr (cx : Ctx) : P (Array Rat) := do let n ← pNat; pMany n (pRat cx)

def pExpect (s : String) : P Unit := do let t ← pTok; if t == s then pure () else failure

def pEnt (cx : Ctx) : P (List (Nat × Rat)) := do
  let k ← pNat
  let a ← pMany k (do let i ← pNat; let v ← pRat cx; pure (i, v))
  pure a.toList

def pCol (cx : Ctx) : P Col := do
  let obj ← pRat cx; let lo ← pRat cx; let up ← pRat cx
  let ent ← pEnt cx
  pure { ent, lo, up, obj }

/-- `ilp <min|max> ns m {obj lo up k {i a}*k}*(ns+m) rhs*m` -/
def pILP (cx : Ctx) : P ILP := do
  pExpect "ilp"
  let sense ← pTok
  let ns ← pNat; let m ← pNat
  let sc ← pMany ns (pCol cx)
  let lc ← pMany m (pCol cx)
  let rhs ← pMany m (pRat cx)
  pure { nrows := m, scols := sc, lcols := lc, rhs, isMin := sense == "min" }

/-- status string such as `1021`; `-` is the empty string -/
def pStat : P (Array Nat) := do
  let t ← pTok
  if t == "-" then pure #[] else pure (t.toList.map Char.toNat).toArray

def fmtRat (cx : Ctx) (q : Rat) : String :=
  if q == cx.pinf && cx.pinf != 0 then "inf"
  else if q == cx.ninf && cx.ninf != 0 then "-inf" else ratToStr q

def fmtArr (cx : Ctx) (key : String) (a : Array Rat) : String :=
  key ++ " " ++ toString a.size ++ a.foldl (fun s q => s ++ " " ++ fmtRat cx q) ""

def fmtStat (a : Array Nat) : String :=
  if a.isEmpty then "-" else String.ofList (a.toList.map Char.ofNat)

/-- `lp <min|max> nc nr {obj lo up}*nc {sense rhs range k {j a}*k}*nr` -/
def pLP (cx : Ctx) : P LP := do
  pExpect "lp"
  let sense ← pTok
  let nc ← pNat; let nr ← pNat
  let cols ← pMany nc (do let o ← pRat cx; let l ← pRat cx; let u ← pRat cx; pure ({ obj := o, lo := l, up := u } : VCol))
  let rows ← pMany nr (do
    let s ← pTok
    let rhs ← pRat cx; let rg ← pRat cx
    let ent ← pEnt cx
    pure ({ sense := s.front, rhs, range := rg, ent } : Row))
  pure { isMin := sense == "min", cols, rows }

def fmtCol (cx : Ctx) (c : Col) : String :=
  fmtRat cx c.obj ++ " " ++ fmtRat cx c.lo ++ " " ++ fmtRat cx c.up ++ " " ++ toString c.ent.length ++
    c.ent.foldl (fun s e => s ++ " " ++ toString e.1 ++ " " ++ fmtRat cx e.2) ""

def fmtILP (cx : Ctx) (P : ILP) : String :=
  "ilp " ++ (if P.isMin then "min" else "max") ++ " " ++ toString P.ns ++ " " ++ toString P.nrows ++
    P.scols.foldl (fun s c => s ++ " " ++ fmtCol cx c) "" ++
    P.lcols.foldl (fun s c => s ++ " " ++ fmtCol cx c) "" ++
    P.rhs.foldl (fun s q => s ++ " " ++ fmtRat cx q) ""

end Qsx
