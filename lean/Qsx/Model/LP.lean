/-
The LP as the public query API shows it (columns with objective and bounds, rows with sense /
rhs / range), its feasibility semantics, the construction of the internal LP exactly as
`ILLlib_addrow` (lib.c:1243-1306) creates logical columns, and the API-level certificate checkers
used as the oracle for every answer the real solver returns.
-/
import Qsx.Model.Cert
import Qsx.Model.Sem

namespace Qsx

structure VCol where
  obj : Rat
  lo  : Rat
  up  : Rat
deriving Inhabited, Repr, BEq

structure Row where
  sense : Char
  rhs   : Rat
  range : Rat
  ent   : List (Nat × Rat)     -- (column index, coefficient)
deriving Inhabited, Repr, BEq

structure LP where
  isMin : Bool
  cols  : Array VCol
  rows  : Array Row
deriving Inhabited, Repr, BEq

namespace LP
@[inline] def nc (L : LP) : Nat := L.cols.size
@[inline] def nr (L : LP) : Nat := L.rows.size
@[inline] def col (L : LP) (j : Nat) : VCol := L.cols.getD j default
@[inline] def row (L : LP) (i : Nat) : Row := L.rows.getD i default

/-- `a_i · x` -/
def act (L : LP) (x : Nat → Rat) (i : Nat) : Rat := entDot (L.row i).ent x

/-- a row's constraint, in the documented meaning of the four senses -/
def rowHolds (r : Row) (v : Rat) : Prop :=
  if r.sense = 'L' then v ≤ r.rhs
  else if r.sense = 'G' then r.rhs ≤ v
  else if r.sense = 'E' then v = r.rhs
  else r.rhs ≤ v ∧ v ≤ r.rhs + r.range

/-- feasibility through the API's eyes; `pinf`/`ninf` are the encodings of an absent bound -/
structure Feasible (L : LP) (pinf ninf : Rat) (x : Nat → Rat) : Prop where
  rows : ∀ i, i < L.nr → rowHolds (L.row i) (L.act x i)
  lo : ∀ j, j < L.nc → (L.col j).lo ≠ ninf → (L.col j).lo ≤ x j
  up : ∀ j, j < L.nc → (L.col j).up ≠ pinf → x j ≤ (L.col j).up

def objv (L : LP) (x : Nat → Rat) : Rat := sumTo L.nc fun j => (L.col j).obj * x j

def better (L : LP) (v w : Rat) : Prop := if L.isMin then v ≤ w else w ≤ v

/-- coefficient and bounds of the logical column `ILLlib_addrow` creates for a row -/
def logCoef (r : Row) : Rat := if r.sense = 'G' ∨ r.sense = 'R' then -1 else 1
def logUp (pinf : Rat) (r : Row) : Rat :=
  if r.sense = 'E' then 0 else if r.sense = 'R' then r.range else pinf

/-- column `j` of the row-wise stored matrix: entries in row order, duplicates kept -/
def colEnt (L : LP) (j : Nat) : List (Nat × Rat) :=
  (List.range L.nr).flatMap fun i =>
    ((L.row i).ent.filter (fun e => e.1 == j)).map fun e => (i, e.2)

def toInternal (L : LP) (pinf : Rat) : ILP :=
  { nrows := L.nr
    scols := (List.range L.nc).toArray.map fun j =>
      { ent := L.colEnt j, lo := (L.col j).lo, up := (L.col j).up, obj := (L.col j).obj }
    lcols := (List.range L.nr).toArray.map fun i =>
      { ent := [(i, logCoef (L.row i))], lo := 0, up := logUp pinf (L.row i), obj := 0 }
    rhs := L.rows.map (·.rhs)
    isMin := L.isMin }

/-- value of the logical variable of row `i` at `x`:  `a·x + coef·s = rhs` -/
def slackOf (L : LP) (x : Nat → Rat) (i : Nat) : Rat :=
  (( L.row i).rhs - L.act x i) / logCoef (L.row i)

end LP

/-! ### basis-free certificate check on the internal LP -/

/-- rows, bounds, complementary slackness with no reduced cost leaning on an infinite bound -/
def certCheck (P : ILP) (pinf ninf : Rat) (x s y : Nat → Rat) : Bool :=
  (allTo P.nrows fun i => decide (structAct P x i + (P.lcol i).coef * s i = P.b i)) &&
  (allTo P.ns fun j => decide ((P.scol j).lo ≤ x j) && decide (x j ≤ (P.scol j).up)) &&
  (allTo P.nrows fun i => decide ((P.lcol i).lo ≤ s i) && decide (s i ≤ (P.lcol i).up)) &&
  (allTo P.ns fun j => csOK P.isMin (P.scol j) (x j) (dzOf (P.scol j) y)) &&
  (allTo P.nrows fun i => csOK P.isMin (P.lcol i) (s i) (dzOf (P.lcol i) y)) &&
  (allTo P.ns fun j =>
    (!posDir P.isMin (dzOf (P.scol j) y) || (P.scol j).lo != ninf) &&
    (!negDir P.isMin (dzOf (P.scol j) y) || (P.scol j).up != pinf)) &&
  (allTo P.nrows fun i =>
    (!posDir P.isMin (dzOf (P.lcol i) y) || (P.lcol i).lo != ninf) &&
    (!negDir P.isMin (dzOf (P.lcol i) y) || (P.lcol i).up != pinf))

namespace LP

/-- API-level optimality certificate: a primal vector and row duals.  Everything else (slacks,
reduced costs, value) is recomputed. -/
def certOK (L : LP) (pinf ninf : Rat) (x pi : Array Rat) : Bool :=
  x.size == L.nc && pi.size == L.nr &&
  certCheck (L.toInternal pinf) pinf ninf (rget x) (L.slackOf (rget x)) (rget pi)

/-- API-level Farkas certificate -/
def checkFarkas (L : LP) (pinf ninf : Rat) (y : Array Rat) : Bool :=
  y.size == L.nr && infeasibleTest (L.toInternal pinf) pinf ninf y

/-- API-level unboundedness certificate: a feasible point and an improving recession direction -/
def checkRay (L : LP) (pinf ninf : Rat) (x r : Array Rat) : Bool :=
  x.size == L.nc && r.size == L.nc &&
  -- x feasible (decidable version)
  (allTo L.nr fun i =>
    let v := L.act (rget x) i; let w := L.row i
    if w.sense = 'L' then decide (v ≤ w.rhs) else if w.sense = 'G' then decide (w.rhs ≤ v)
    else if w.sense = 'E' then decide (v = w.rhs) else decide (w.rhs ≤ v) && decide (v ≤ w.rhs + w.range)) &&
  (allTo L.nc fun j => ((L.col j).lo == ninf || decide ((L.col j).lo ≤ rget x j)) &&
                        ((L.col j).up == pinf || decide (rget x j ≤ (L.col j).up))) &&
  -- r is a recession direction
  (allTo L.nr fun i =>
    let v := L.act (rget r) i; let w := L.row i
    if w.sense = 'L' then decide (v ≤ 0) else if w.sense = 'G' then decide (0 ≤ v)
    else decide (v = 0)) &&
  (allTo L.nc fun j => ((L.col j).lo == ninf || decide (0 ≤ rget r j)) &&
                        ((L.col j).up == pinf || decide (rget r j ≤ 0))) &&
  -- r improves
  (if L.isMin then decide (L.objv (rget r) < 0) else decide (0 < L.objv (rget r)))

end LP
end Qsx
