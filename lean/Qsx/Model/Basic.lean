/-
Shared executable helpers of the models: rationals on the wire (`p/q` in lowest terms), sums over
index ranges, total array access.  Core Lean only — no Mathlib import in any Model file, so the
line-protocol driver links as a native executable.
-/
namespace Qsx

/-- `Σ_{i<n} f i`, written as a fold so that it is executable and structurally recursive. -/
def sumTo : Nat → (Nat → Rat) → Rat
  | 0, _ => 0
  | n+1, f => sumTo n f + f n

/-- Sum of a list of rationals (own definition to keep one simp-normal form in proofs). -/
def lsum : List Rat → Rat
  | [] => 0
  | a :: l => a + lsum l

/-- total array read, default 0 (every theorem states the index range under which this is the
    real read; the harness never sends shorter arrays than the declared sizes). -/
@[inline] def rget (a : Array Rat) (i : Nat) : Rat := a.getD i 0

@[inline] def nget (a : Array Nat) (i : Nat) : Nat := a.getD i 0

/-- build an array of `n` rationals from an index function -/
def tab (n : Nat) (f : Nat → Rat) : Array Rat := (List.range n).toArray.map f

/-- `∀ i < n, p i` as a Bool -/
def allTo (n : Nat) (p : Nat → Bool) : Bool := (List.range n).all p

/-- first `i < n` (ascending) with `p i`, if any -/
def findTo (n : Nat) (p : Nat → Bool) : Option Nat := (List.range n).find? p

/-! ### wire format -/

def ratToStr (q : Rat) : String :=
  if q.den = 1 then toString q.num else toString q.num ++ "/" ++ toString q.den

def parseRat? (s : String) : Option Rat :=
  match s.splitOn "/" with
  | [n] => n.toInt?.map (fun (z : Int) => (z : Rat))
  | [n, d] => match n.toInt?, d.toNat? with
    | some z, some k => if k = 0 then none else some (mkRat z k)
    | _, _ => none
  | _ => none

def ratsToStr (a : Array Rat) : String :=
  toString a.size ++ a.foldl (fun s q => s ++ " " ++ ratToStr q) ""

end Qsx
