/-
The symbol table behind every row / column name (symtab.c): a chained hash table over an entry
array with swap-with-last deletion, a doubling rebuild, and a string pool with deferred compaction.

The model keeps what the code's behaviour depends on and the C structure exposes: the entries in
table order (name or unnamed, item index), for every bucket the chain of entry numbers *in chain
order* (what following `next` from `hashtable[x]` yields), the capacities `name_space`, `hashspace`,
and the pool counters `strsize`, `strspace`, `freedchars`.  Offsets into the pool are not modelled
(names are stored in the entries).  Names are byte lists; `stringhash` is the C function including
its `unsigned` wrap-around and the sign extension of `char`.
-/
import Qsx.Model.Basic

namespace Qsx.Symtab

abbrev Name := List Nat          -- bytes 0..255

structure Ent where
  name : Option Name
  index : Int
deriving Repr, Inhabited, DecidableEq

structure T where
  hashspace : Nat := 0
  nameSpace : Nat := 0
  ents : Array Ent := #[]
  buckets : Array (List Nat) := #[]
  indexOk : Bool := false
  strsize : Nat := 0
  strspace : Nat := 0
  freed : Nat := 0
deriving Repr, Inhabited

/-- `stringhash`: `x = 37 * x + *key` in `unsigned int`, `*key` a signed `char`; then `% tsize` -/
def rawHash (s : Name) : Nat :=
  s.foldl (fun x b => (37 * x + (if b < 128 then b else 4294967296 - (256 - b))) % 4294967296) 0

def hash (s : Name) (tsize : Nat) : Nat := rawHash s % tsize

def isPrime (p : Nat) : Bool :=
  p % 2 == 1 && (List.range p).all fun i => !(3 ≤ i && i % 2 == 1 && i * i ≤ p && p % i == 0)

/-- `ILLutil_nextprime` (fuel: a prime exists below 2x + 3) -/
def nextPrimeFrom : Nat → Nat → Nat
  | 0, x => x
  | fuel + 1, x => if isPrime x then x else nextPrimeFrom fuel (x + 2)

def nextPrime (x : Nat) : Nat := if x < 3 then 3 else nextPrimeFrom (2 * x + 8) (if x % 2 == 1 then x else x + 1)

def create (initSize : Nat) : T :=
  let n := if initSize == 0 then 1000 else initSize
  let hs := nextPrime n
  { hashspace := hs, nameSpace := n, ents := #[], buckets := Array.replicate hs [], indexOk := false,
    strsize := 0, strspace := n * 5, freed := 0 }

def tablesize (t : T) : Nat := t.ents.size

def nameAt (t : T) (e : Nat) : Option Name := (t.ents[e]?).bind (·.name)

/-- `look_it_up`: the entry of bucket `hash s` carrying `s` (none when the table has no hash space) -/
def lookup (t : T) (s : Name) : Option Nat :=
  if t.hashspace == 0 then none
  else (t.buckets.getD (hash s t.hashspace) []).find? fun e => nameAt t e == some s

/-- `grow_symboltab`: double the entry space and rebuild every chain (later entries in front) -/
def rebuild (ents : Array Ent) (hs : Nat) : Array (List Nat) :=
  (List.range ents.size).foldl (fun b i =>
    match (ents[i]?).bind (·.name) with
    | some s => b.modify (hash s hs) (fun l => i :: l)
    | none => b) (Array.replicate hs [])

def grow (t : T) : T :=
  let ns := t.nameSpace * 2
  let hs := nextPrime ns
  { t with nameSpace := ns, hashspace := hs, buckets := rebuild t.ents hs }

/-- `while (tablesize >= name_space) grow` (fuel: each round doubles a positive space) -/
def growWhile : Nat → T → T
  | 0, t => t
  | fuel + 1, t => if t.ents.size ≥ t.nameSpace then growWhile fuel (grow t) else t

def poolUsed (ents : Array Ent) : Nat :=
  ents.foldl (fun a e => match e.name with | some s => a + s.length + 1 | none => a) 0

/-- `grow_namelist`: compact when at least half of the pool is freed, else double it -/
def growPool (t : T) : T :=
  if 2 * t.freed ≥ t.strspace then { t with strsize := poolUsed t.ents, freed := 0 }
  else { t with strspace := t.strspace * 2 }

/-- `add_string` (fuel: every second round at the latest doubles the pool) -/
def addStringLoop : Nat → T → Nat → T
  | 0, t, _ => t
  | fuel + 1, t, l => if t.strsize + l > t.strspace then addStringLoop fuel (growPool t) l else t

def addString (t : T) (s : Name) : T :=
  let l := s.length + 1
  let t := addStringLoop (2 * (t.strsize + l) + 64) t l
  { t with strsize := t.strsize + l }

/-- `delete_from_list`: unlink entry `e` from the chain of its name (chains hold an entry once, so
dropping every occurrence is dropping the one there is) and count its string as freed -/
def removeFromBucket (t : T) (e : Nat) (s : Name) : T :=
  { t with buckets := t.buckets.modify (hash s t.hashspace) (fun l => l.filter fun e' => e' != e),
           freed := t.freed + s.length + 1 }

/-- `ILLsymboltab_register`: (table, existed) -/
def register (t : T) (s : Option Name) (itemindex : Int) : T × Bool :=
  let t := if itemindex < 0 then { t with indexOk := false } else t
  match s with
  | none =>
    let t := growWhile 64 t
    ({ t with ents := t.ents.push { name := none, index := itemindex } }, false)
  | some s =>
    match lookup t s with
    | some _ => (t, true)
    | none =>
      let t := addString t s
      let t := growWhile 64 t
      let e := t.ents.size
      ({ t with ents := t.ents.push { name := some s, index := itemindex },
                buckets := t.buckets.modify (hash s t.hashspace) (fun l => e :: l) }, false)

/-- `ILLsymboltab_delete`: (table, rval) -/
def delete (t : T) (s : Name) : T × Nat :=
  match lookup t s with
  | none => (t, 1)
  | some d =>
    let t := { t with indexOk := false }
    let t := removeFromBucket t d s
    let last := t.ents.size - 1
    if d == last then ({ t with ents := t.ents.pop }, 0)
    else
      let le := t.ents.getD last default
      let t := match le.name with
        | some ls => { t with buckets := t.buckets.modify (hash ls t.hashspace) (fun l => l.map fun e => if e == last then d else e) }
        | none => t
      ({ t with ents := (t.ents.set! d le).pop }, 0)

/-- `ILLsymboltab_rename` for `i < tablesize`: (table, rval) -/
def rename (t : T) (i : Nat) (newName : Option Name) : T × Nat :=
  if i ≥ t.ents.size then (t, 2)
  else
    match newName.bind (lookup t) with
    | some k => (t, if k == i then 0 else 1)
    | none =>
      let old := nameAt t i
      let t := match old with
        | some os => removeFromBucket t i os
        | none => t
      match newName with
      | some ns =>
        let t := addString t ns
        ({ t with ents := t.ents.modify i (fun e => { e with name := some ns }),
                  buckets := t.buckets.modify (hash ns t.hashspace) (fun l => i :: l) }, 0)
      | none => ({ t with ents := t.ents.modify i (fun e => { e with name := none }) }, 0)

/-- `ILLsymboltab_getindex`: (rval, index) -/
def getindex (t : T) (s : Name) : Nat × Int :=
  if !t.indexOk then (1, -1)
  else match lookup t s with
    | none => (0, -1)
    | some k => (0, (t.ents.getD k default).index)

/-- `ILLsymboltab_index_reset`: (table, rval); stops at the first missing name, as the code does -/
def indexReset (t : T) (names : List Name) : T × Nat :=
  let icount := names.length
  if t.ents.size != icount && t.ents.size != icount + 1 then (t, 1)
  else
    let rec go (t : T) (i : Nat) : List Name → T × Nat
      | [] => ({ t with indexOk := true }, 0)
      | s :: rest =>
        match lookup t s with
        | none => (t, 1)
        | some k => go { t with ents := t.ents.modify k (fun e => { e with index := i }) } (i + 1) rest
    go t 0 names

/-- the abstract content: names in table order -/
def abs (t : T) : List (Option Name) := t.ents.toList.map (·.name)

end Qsx.Symtab
