/-
Multiplication checkers for LU-based solves (C13).  The LU code itself (factor.c: Markowitz
ordering, dense tail, Forrest–Tomlin updates) is not modelled; what is modelled is the *contract*
its outputs have to meet, as executable checks over the dense matrix the caller handed in and its
column-replacement history.
-/
import Qsx.Model.Basic

namespace Qsx.LinAlg
open Qsx

/-- dense matrix on the wire, row major -/
structure Mat where
  rows : Array (Array Rat)
deriving Repr, Inhabited

def Mat.at (M : Mat) (i j : Nat) : Rat := rget (M.rows.getD i #[]) j

/-- `(B x)_i` -/
def mulVec (n : Nat) (B : Nat → Nat → Rat) (x : Nat → Rat) (i : Nat) : Rat := sumTo n fun k => B i k * x k
/-- `(yᵀ B)_k` -/
def vecMul (n : Nat) (y : Nat → Rat) (B : Nat → Nat → Rat) (k : Nat) : Rat := sumTo n fun l => y l * B l k

/-- forward solve contract (`ILLfactor_ftran`): `B x = a` -/
def solveOK (n : Nat) (B : Nat → Nat → Rat) (x a : Nat → Rat) : Bool :=
  allTo n fun i => decide (mulVec n B x i = a i)
/-- backward solve contract (`ILLfactor_btran`): `yᵀ B = cᵀ` -/
def tsolveOK (n : Nat) (B : Nat → Nat → Rat) (y c : Nat → Rat) : Bool :=
  allTo n fun k => decide (vecMul n y B k = c k)
def unit (i : Nat) : Nat → Rat := fun k => if k = i then 1 else 0
/-- row `i` of the basis inverse (`QSget_binv_row`): `r B = e_i` -/
def unitRowOK (n : Nat) (B : Nat → Nat → Rat) (i : Nat) (r : Nat → Rat) : Bool := tsolveOK n B r (unit i)
/-- tableau row (`QSget_tableau_row`): `t = r · [A | logicals]` over all `nall` columns -/
def tabRowOK (n nall : Nat) (A : Nat → Nat → Rat) (r t : Nat → Rat) : Bool :=
  allTo nall fun j => decide (t j = vecMul n r A j)
/-- column replacement (`ILLfactor_update`): column `p` of `B` becomes `a` -/
def replaceCol (B : Nat → Nat → Rat) (p : Nat) (a : Nat → Rat) : Nat → Nat → Rat :=
  fun i k => if k = p then a i else B i k
/-- singularity certificate: a non-zero kernel vector -/
def kernelOK (n : Nat) (B : Nat → Nat → Rat) (v : Nat → Rat) : Bool :=
  !(allTo n fun k => decide (v k = 0)) && solveOK n B v (fun _ => 0)
/-- basis matrix of an LP: column `k` is column `ord k` of `[A | logicals]` -/
def basisOf (A : Nat → Nat → Rat) (ord : Nat → Nat) : Nat → Nat → Rat := fun l k => A l (ord k)

/-- product-form update of the inverse rows after replacing column `p` by `a`, where `w = M a` -/
def etaRows (M : Nat → Nat → Rat) (w : Nat → Rat) (p : Nat) : Nat → Nat → Rat :=
  fun i l => if i = p then M p l / w p else M i l - w i * (M p l / w p)

end Qsx.LinAlg
