/-
Free-space accounting of the column store (C17): what the in-place branch of `matrix_addrow`,
`matrix_addcol` and the move branch of `matrix_addcoef` do to `matfree`, and which writes they
perform relative to the used space — abstracted from `Qsx.Store` to the numbers the bounds
argument needs.  `used = matsize − matfree`; a moved column of `c` entries is written to
`used+1 … used+1+c` (one slot is left as a `-1` separator), so the write is inside the array iff
`c + 1 < matfree`.
-/
namespace Qsx.StoreAcct

/-- what happens to one column touched by a new row (in-place branch of matrix_addrow) -/
inductive Act
  | first                    -- empty column: its reserved slot is used
  | inPlace (atEnd : Bool)   -- a free slot right behind the column; `atEnd`: that slot is the first free one of the store
  | move (c : Nat)           -- no room: the `c` entries and the new one are moved to the end
deriving Repr

/-- `delta` of matrix_addrow: the space demand the guard `delta < matfree` compares -/
def delta : List Act → Nat
  | [] => 0
  | .move c :: as => c + 2 + delta as
  | _ :: as => delta as

def atEndCount : List Act → Nat
  | [] => 0
  | .inPlace true :: as => 1 + atEndCount as
  | _ :: as => atEndCount as

/-- run the actions; `none` as soon as a write would fall outside the array -/
def run (free : Int) : List Act → Option Int
  | [] => some free
  | .first :: as => run free as
  | .inPlace false :: as => run free as
  | .inPlace true :: as => if 0 < free then run (free - 1) as else none
  | .move c :: as => if (c : Int) + 1 < free then run (free - ((c : Int) + 2)) as else none

/-- `matrix_addcol`: growth when `matfree < colcnt + 1`, then `colcnt` entries (or the dummy of an
empty column) are written from `used` on; returns the new `(matsize, matfree)` and the last index written -/
def addcol (size : Nat) (free : Int) (cnt extra : Nat) : Nat × Int × Int :=
  let (size, free) := if free < (cnt : Int) + 1 then (size + (cnt + extra + 1), free + ((cnt + extra + 1 : Nat) : Int)) else (size, free)
  let used : Int := (size : Int) - free
  (size, free - (if cnt = 0 then 1 else (cnt : Int)), used + (if cnt = 0 then 0 else (cnt : Int) - 1))

end Qsx.StoreAcct
