/-
Reference model of the problem-editing API (C06/C07): a problem is a list of named columns and a
list of named rows, and every edit call has the documented meaning on those lists.  Nothing here
knows about the column store, maps, growth increments or logical columns — that is `Store`.

Guards: a call is *valid* iff its indices are inside `[0, count)`, its names are known (for
deletes/lookups) resp. new (for additions), its sense is one of L/G/E/R and its bound selector one
of L/U/B; an invalid call returns `err` and leaves the problem unchanged (C07).
-/
import Qsx.Model.Basic

namespace Qsx.Spec

structure SCol where
  name : String
  obj  : Rat
  lo   : Rat
  up   : Rat
deriving Repr, BEq, Inhabited

structure SRow where
  name  : String
  sense : Char
  rhs   : Rat
  range : Rat
  ent   : List (Nat × Rat)      -- (column index, coefficient), ascending column index
deriving Repr, BEq, Inhabited

structure Prob where
  isMin : Bool := true
  cols  : Array SCol := #[]
  rows  : Array SRow := #[]
deriving Repr, BEq, Inhabited

inductive Op
  | addCol (name : Option String) (obj lo up : Rat) (ent : List (Int × Rat))   -- (row index, value)
  | addRow (name : Option String) (sense : Char) (rhs range : Rat) (ent : List (Int × Rat))
  | delRows (idx : List Int)
  | delCols (idx : List Int)
  | delNamedRows (names : List String)
  | delNamedCols (names : List String)
  | chgCoef (row col : Int) (v : Rat)
  | chgObj (col : Int) (v : Rat)
  | chgRhs (row : Int) (v : Rat)
  | chgRange (row : Int) (v : Rat)
  | chgSenses (l : List (Int × Char))
  | chgBounds (l : List (Int × Char × Rat))
  | chgObjSense (code : Int)          -- 1 = min, -1 = max (QS_MIN / QS_MAX)
deriving Repr, Inhabited

inductive Res | ok | err
deriving Repr, BEq, DecidableEq, Inhabited

def validSense (c : Char) : Bool := c == 'L' || c == 'G' || c == 'E' || c == 'R'

def inRange (i : Int) (n : Nat) : Bool := 0 ≤ i && i < (n : Int)

def colIndex? (p : Prob) (name : String) : Option Nat := p.cols.findIdx? (·.name == name)
def rowIndex? (p : Prob) (name : String) : Option Nat := p.rows.findIdx? (·.name == name)

/-- name the library generates for a NULL name (`ILLlib_findName` / `ILLsymboltab_uname`):
`<prefix><count+1>`, and if that is taken `<prefix><count+1>_<k>` for the first free `k` -/
def genName (pref : String) (taken : String → Bool) (count : Nat) : String :=
  let base := pref ++ toString (count + 1)
  if !taken base then base else
  let rec go (k fuel : Nat) : String :=
    match fuel with
    | 0 => base ++ "_" ++ toString k
    | fuel+1 => if !taken (base ++ "_" ++ toString k) then base ++ "_" ++ toString k else go (k+1) fuel
  go 0 (count + 2)

def insertEnt (ent : List (Nat × Rat)) (j : Nat) (v : Rat) : List (Nat × Rat) :=
  match ent with
  | [] => [(j, v)]
  | (k, w) :: r => if k = j then (j, v) :: r else if j < k then (j, v) :: (k, w) :: r else (k, w) :: insertEnt r j v

/-- keep the elements whose index is not deleted; also the renumbering map -/
def keepIdx {α} [Inhabited α] (a : Array α) (del : Nat → Bool) : Array α :=
  ((List.range a.size).filter (fun i => !del i)).toArray.map (fun i => a[i]!)

def newIndex (del : Nat → Bool) (i : Nat) : Nat := ((List.range i).filter (fun k => !del k)).length

def distinct (l : List Int) : Bool := l.eraseDups.length == l.length

def step (p : Prob) : Op → Prob × Res
  | .addCol name obj lo up ent =>
    let nm := match name with
      | some s => s
      | none => genName "x" (fun s => (colIndex? p s).isSome) p.cols.size
    if (colIndex? p nm).isSome then (p, .err)
    else if !(ent.all fun e => inRange e.1 p.rows.size) then (p, .err)
    else
      let j := p.cols.size
      let rows := (List.range p.rows.size).toArray.map fun (i : Nat) =>
        let r := p.rows[i]!
        match ent.find? (fun e => e.1 = Int.ofNat i) with
        | some e => { r with ent := r.ent ++ [(j, e.2)] }
        | none => r
      ({ p with cols := p.cols.push { name := nm, obj, lo, up }, rows }, .ok)
  | .addRow name sense rhs range ent =>
    let nm := match name with
      | some s => s
      | none => genName "c" (fun s => (rowIndex? p s).isSome) p.rows.size
    if (rowIndex? p nm).isSome then (p, .err)
    else if !(ent.all fun e => inRange e.1 p.cols.size) then (p, .err)
    else
      let e' := (ent.map fun e => (e.1.toNat, e.2)).mergeSort (fun a b => a.1 ≤ b.1)
      ({ p with rows := p.rows.push { name := nm, sense, rhs, range := if sense == 'R' then range else 0, ent := e' } }, .ok)
  | .delRows idx =>
    if !(idx.all fun i => inRange i p.rows.size) then (p, .err) else
    let del := fun (i : Nat) => idx.contains (Int.ofNat i)
    ({ p with rows := keepIdx p.rows del }, .ok)
  | .delCols idx =>
    if !(idx.all fun i => inRange i p.cols.size) then (p, .err) else
    let del := fun (j : Nat) => idx.contains (Int.ofNat j)
    let rows := p.rows.map fun r =>
      { r with ent := (r.ent.filter fun e => !del e.1).map fun e => (newIndex del e.1, e.2) }
    ({ p with cols := keepIdx p.cols del, rows }, .ok)
  | .delNamedRows names =>
    match names.mapM (rowIndex? p) with
    | none => (p, .err)
    | some idx =>
      let del := fun i => idx.contains i
      ({ p with rows := keepIdx p.rows del }, .ok)
  | .delNamedCols names =>
    match names.mapM (colIndex? p) with
    | none => (p, .err)
    | some idx =>
      let del := fun j => idx.contains j
      let rows := p.rows.map fun r =>
        { r with ent := (r.ent.filter fun e => !del e.1).map fun e => (newIndex del e.1, e.2) }
      ({ p with cols := keepIdx p.cols del, rows }, .ok)
  | .chgCoef row col v =>
    if !(inRange row p.rows.size && inRange col p.cols.size) then (p, .err) else
    let i := row.toNat
    ({ p with rows := p.rows.modify i fun r => { r with ent := insertEnt r.ent col.toNat v } }, .ok)
  | .chgObj col v =>
    if !inRange col p.cols.size then (p, .err) else
    ({ p with cols := p.cols.modify col.toNat fun c => { c with obj := v } }, .ok)
  | .chgRhs row v =>
    if !inRange row p.rows.size then (p, .err) else
    ({ p with rows := p.rows.modify row.toNat fun r => { r with rhs := v } }, .ok)
  | .chgRange row v =>
    if !inRange row p.rows.size then (p, .err) else
    if (p.rows[row.toNat]!).sense != 'R' then (p, .err) else
    ({ p with rows := p.rows.modify row.toNat fun r => { r with range := v } }, .ok)
  | .chgSenses l =>
    if !(l.all fun e => inRange e.1 p.rows.size && validSense e.2) then (p, .err) else
    ({ p with rows := l.foldl (fun rows e => rows.modify e.1.toNat fun r => { r with sense := e.2, range := 0 }) p.rows }, .ok)
  | .chgBounds l =>
    if !(l.all fun e => inRange e.1 p.cols.size && (e.2.1 == 'L' || e.2.1 == 'U' || e.2.1 == 'B')) then (p, .err) else
    ({ p with cols := l.foldl (fun cols e => cols.modify e.1.toNat fun c =>
        if e.2.1 == 'L' then { c with lo := e.2.2 } else if e.2.1 == 'U' then { c with up := e.2.2 }
        else { c with lo := e.2.2, up := e.2.2 }) p.cols }, .ok)
  | .chgObjSense code =>
    if code = 1 then ({ p with isMin := true }, .ok)
    else if code = -1 then ({ p with isMin := false }, .ok)
    else (p, .err)

def nzcount (p : Prob) : Nat := p.rows.foldl (fun n r => n + r.ent.length) 0

def getCoef (p : Prob) (row col : Int) : Option Rat :=
  if !(inRange row p.rows.size && inRange col p.cols.size) then none else
  match (p.rows[row.toNat]!).ent.find? (fun e => e.1 = col.toNat) with
  | some e => some e.2
  | none => some 0

end Qsx.Spec
