/-
Model of `QSexact_solver` (exact.c:1438-1789) as a pure function of *oracle answers*.

Everything the floating-point engines and the rational basis evaluation return is an arbitrary
value supplied by the oracle (`Stage`): whether the solve failed, the status it reported, the
iteration count, the basis, the candidate vectors after conversion to rationals, the verdict of
`QSexact_basis_status` and the vectors fetched after it.  What is modelled exactly is the control
flow between those answers: which exact test is run on which vector, when the function returns,
what `*status` is at that moment, and which out-parameters have been written — i.e. the part that
decides whether an answer leaves the function certified.
-/
import Qsx.Model.Cert

namespace Qsx
open Qsx.Gen

abbrev Basis := Array Nat × Array Nat      -- (cstat, rstat)

/-- answers of `QSexact_basis_status` and of the accessor calls that follow it -/
structure BStat where
  fail    : Bool := false        -- an `EGcallD` inside failed → error return
  status  : Nat := 0             -- `*status` it leaves
  getFail : Bool := false        -- `mpq_QSget_x/pi/infeas_array` failed
  x2      : Array Rat := #[]     -- vector passed to the second optimality test
  y2      : Array Rat := #[]     -- vector passed to the second test (duals / Farkas)
deriving Inhabited, Repr

/-- oracle answers of one floating-point stage (the double stage or one mpf rung) -/
structure Stage where
  solveFail  : Bool := false
  fstatus    : Nat := 0          -- status read after the optional extra primal solve
  iter       : Nat := 0
  basis      : Basis := (#[], #[])
  x          : Array Rat := #[]
  y          : Array Rat := #[]
  infeasFail : Bool := false
  bstat      : BStat := {}
deriving Inhabited, Repr

/-- how an answer left the function -/
inductive Cert
  | none
  | optimal (cs rs : Array Nat) (ps ds : Array Rat)    -- passed `optimalTest` on these inputs
  | infeasible (ds : Array Rat)                        -- passed `infeasibleTest` on this vector
deriving Repr, Inhabited

structure Outcome where
  rval   : Nat                       -- 0 success, 1 error
  status : Nat
  xOut   : Option (Array Rat) := none
  yOut   : Option (Array Rat) := none
  basis  : Option Basis := none      -- local `basis` at CLEANUP (copied to `ebasis` if given)
  cert   : Cert := .none
  stagesUsed : Nat := 0
deriving Repr, Inhabited

/-- loop-carried variables -/
structure Carry where
  status     : Nat := 0
  lastStatus : Nat := 0
  lastIter   : Nat := 0
  basis      : Option Basis := none
deriving Repr, Inhabited

inductive StepRes
  | done (o : Outcome)
  | next (c : Carry)
deriving Inhabited

def errOut (c : Carry) : Outcome := { rval := 1, status := c.status, basis := c.basis }

/-- the `switch (*status)` shared by the double stage (exact.c:1491-1597) and every mpf rung
(exact.c:1671-1762).  `isDbl` selects the two places where they differ. -/
def handleStatus (P : ILP) (pinf ninf : Rat) (isDbl : Bool) (st : Stage) (c : Carry) : StepRes :=
  let c := { c with status := st.fstatus, lastStatus := st.fstatus, lastIter := st.iter }
  if st.fstatus = lpOptimal then
    let c := { c with basis := some st.basis }
    match optimalTest P st.basis.1 st.basis.2 st.x st.y with
    | some _ =>
      .done { rval := 0, status := lpOptimal, xOut := some (optPsolAfter P st.basis.1 st.basis.2 st.x),
              yOut := some st.y, basis := c.basis, cert := .optimal st.basis.1 st.basis.2 st.x st.y }
    | none =>
      if st.bstat.fail then .done (errOut c) else
      if st.bstat.status = lpOptimal then
        if st.bstat.getFail then .done (errOut c) else
        match optimalTest P st.basis.1 st.basis.2 st.bstat.x2 st.bstat.y2 with
        | some _ =>
          .done { rval := 0, status := lpOptimal,
                  xOut := some (optPsolAfter P st.basis.1 st.basis.2 st.bstat.x2),
                  yOut := some st.bstat.y2, basis := c.basis,
                  cert := .optimal st.basis.1 st.basis.2 st.bstat.x2 st.bstat.y2 }
        | none => .next { c with status := lpUnsolved, lastStatus := lpUnsolved }
      else .next { c with status := st.bstat.status }
  else if st.fstatus = lpInfeasible then
    if st.infeasFail then (if isDbl then .next c else .next { c with status := lpInfeasible }) else
    if infeasibleTest P pinf ninf st.y then
      .done { rval := 0, status := lpInfeasible, yOut := some st.y, basis := c.basis, cert := .infeasible st.y }
    else
      let c := { c with basis := some st.basis }
      if st.bstat.fail then .done (errOut c) else
      if st.bstat.status = lpInfeasible then
        if st.bstat.getFail then .done (errOut c) else
        if infeasibleTest P pinf ninf st.bstat.y2 then
          .done { rval := 0, status := lpInfeasible, yOut := some st.bstat.y2, basis := c.basis,
                  cert := .infeasible st.bstat.y2 }
        else .next { c with status := lpUnsolved, lastStatus := lpUnsolved }
      else .next { c with status := st.bstat.status }
  else if st.fstatus = lpObjLimit then .done (errOut c)
  else .next c

/-- head of one mpf rung (exact.c:1619-1652): a basis is consumed when the previous stage ended
OPTIMAL or INFEASIBLE with a positive iteration count -/
def rungHead (c : Carry) : Carry :=
  let ls := if c.lastIter = 0 then lpUnsolved else c.lastStatus
  let c := { c with lastStatus := ls }
  if ls = lpOptimal ∨ ls = lpInfeasible then { c with basis := none } else c

def runRungs (P : ILP) (pinf ninf : Rat) : List Stage → Carry → Nat → Outcome
  | [], c, k =>
    -- ladder exhausted (exact.c:1766): a definitive status that never passed an exact test is
    -- not reported
    { rval := 0
      status := if c.status = lpOptimal ∨ c.status = lpInfeasible then lpUnsolved else c.status
      basis := c.basis, stagesUsed := k }
  | st :: rest, c, k =>
    let c := rungHead c
    if st.solveFail then runRungs P pinf ninf rest c (k+1) else
    match handleStatus P pinf ninf false st c with
    | .done o => { o with stagesUsed := k + 1 }
    | .next c' => runRungs P pinf ninf rest c' (k+1)

/-- `QSexact_solver`.  `dbl` is the double-precision stage, `rungs` the answers of the mpf rungs
(only the first `QS_EXACT_MAX_ITER` are ever consulted). -/
def solve (P : ILP) (pinf ninf : Rat) (dbl : Stage) (rungs : List Stage) : Outcome :=
  let rungs := rungs.take exactMaxIter
  if dbl.solveFail then runRungs P pinf ninf rungs {} 1 else
  match handleStatus P pinf ninf true dbl {} with
  | .done o => { o with stagesUsed := 1 }
  | .next c => runRungs P pinf ninf rungs c 1

/-- precision sequence of the ladder: `precision = (unsigned)(precision * 1.5)` -/
def precisions (start : Nat) : Nat → List Nat
  | 0 => []
  | n+1 => start :: precisions (start * 3 / 2) n

end Qsx
