/-
Capacity bookkeeping of the growable per-row / per-column arrays (C17): `rowsize`, `colsize`,
`structsize`, `matcolsize` against the counts, with the growth rule of lib.c
(`if (size < n + 1) { realloc(size + EXTRA); size += EXTRA; }  a[n] = …`).  EXTRA_ROWS / EXTRA_COLS are
re-extracted from lib.c on every run (Qsx.Gen).
-/
import Qsx.Generated.Tables

namespace Qsx.Cap
open Qsx

structure S where
  nrows : Nat := 0
  ncols : Nat := 0
  nstruct : Nat := 0
  matcols : Nat := 0
  rowsize : Nat := 0
  colsize : Nat := 0
  structsize : Nat := 0
  matcolsize : Nat := 0
deriving Repr, DecidableEq, Inhabited

inductive Op
  | addRow | addCol
  | delRows (k : Nat) | delCols (k : Nat)
deriving Repr

def grow (size n extra : Nat) : Nat := if size < n + 1 then size + extra else size

/-- the state after the operation and the indices written into (row arrays, column arrays,
structmap / colnames / intmarker, matbeg / matcnt) — `none` when the array is not written -/
def step (s : S) : Op → S × (Option Nat × Option Nat × Option Nat × Option Nat)
  | .addRow =>
    let rs := grow s.rowsize s.nrows Gen.extraRows
    let cs := grow s.colsize s.ncols Gen.extraCols
    let ms := grow s.matcolsize s.matcols Gen.extraCols
    ({ s with nrows := s.nrows + 1, ncols := s.ncols + 1, matcols := s.matcols + 1, rowsize := rs, colsize := cs, matcolsize := ms },
     (some s.nrows, some s.ncols, none, some s.matcols))
  | .addCol =>
    let cs := grow s.colsize s.ncols Gen.extraCols
    let ss := grow s.structsize s.nstruct Gen.extraCols
    let ms := grow s.matcolsize s.matcols Gen.extraCols
    ({ s with ncols := s.ncols + 1, nstruct := s.nstruct + 1, matcols := s.matcols + 1, colsize := cs, structsize := ss, matcolsize := ms },
     (none, some s.ncols, some s.nstruct, some s.matcols))
  | .delRows k =>
    let k := min k s.nrows
    ({ s with nrows := s.nrows - k, ncols := s.ncols - k, matcols := s.matcols - k }, (none, none, none, none))
  | .delCols k =>
    let k := min k s.nstruct
    ({ s with nstruct := s.nstruct - k, ncols := s.ncols - k, matcols := s.matcols - k }, (none, none, none, none))

def Inv (s : S) : Prop :=
  s.nrows ≤ s.rowsize ∧ s.ncols ≤ s.colsize ∧ s.nstruct ≤ s.structsize ∧ s.matcols ≤ s.matcolsize ∧
  s.ncols = s.nstruct + s.nrows ∧ s.matcols = s.ncols

def inb : Option Nat → Nat → Prop
  | none, _ => True
  | some i, n => i < n

/-- every index written by the operation lies inside the array as sized *after* the growth step -/
def WritesInBounds (s' : S) (w : Option Nat × Option Nat × Option Nat × Option Nat) : Prop :=
  inb w.1 s'.rowsize ∧ inb w.2.1 s'.colsize ∧ inb w.2.2.1 s'.structsize ∧ inb w.2.2.2 s'.matcolsize

def run (s : S) (ops : List Op) : S := ops.foldl (fun s o => (step s o).1) s

end Qsx.Cap
