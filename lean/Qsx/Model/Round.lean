/-
Conversion to reduced precision (C16): the contract of `QScopy_array_mpq_dbl` / `_mpq_mpf`
(`mpq_get_d`, `mpf_set_q`: truncation) as an executable check: the converted value `d` of a
rational `q` is within one unit in the last place of a `p`-bit significand.
-/
import Qsx.Model.Basic

namespace Qsx.Round
open Qsx

def pow2 (e : Int) : Rat := if 0 ≤ e then (2 : Rat) ^ e.toNat else 1 / (2 : Rat) ^ (-e).toNat

def rabs (q : Rat) : Rat := if q < 0 then -q else q

/-- `2^e ≤ |d| < 2^(e+1)` -/
def bracket (d : Rat) (e : Int) : Bool := decide (pow2 e ≤ rabs d) && decide (rabs d < pow2 (e + 1))

/-- binary exponent of a non-zero rational (candidates around `log2 num − log2 den`) -/
def expOf (d : Rat) : Int :=
  let e0 : Int := (Nat.log2 d.num.natAbs : Int) - (Nat.log2 d.den : Int)
  if bracket d (e0 - 1) then e0 - 1 else if bracket d e0 then e0 else e0 + 1

/-- zero stays zero; otherwise `d` has the binary exponent `e` and `|q − d| ≤ 2^(e+1−p)` (one ulp of a p-bit significand) -/
def ulpOK (q d : Rat) (e : Int) (p : Nat) : Bool :=
  if d == 0 then q == 0
  else bracket d e && decide (rabs (q - d) ≤ pow2 (e + 1 - (p : Int)))

def convOK (q d : Rat) (p : Nat) : Bool := ulpOK q d (expOf d) p

end Qsx.Round
