/-
The esolver front end (C19): the solution file as a codec between full solution vectors and the
"name = value" entries of the non-zero components (`QSexact_print_sol`, exact.c:50-151), and the
file-type decision of `get_ftype` (esolver.c:92-115).
-/
import Qsx.Model.Basic

namespace Qsx.SolFile
open Qsx

/-- one section of the file: the entries `name = value` of the non-zero components, in index order -/
def encodeSec (names : List String) (vals : List Rat) : List (String × Rat) :=
  (names.zip vals).filter fun e => e.2 != 0

def lookup (n : String) : List (String × Rat) → Option Rat
  | [] => none
  | e :: es => if e.1 = n then some e.2 else lookup n es

/-- the reader's side: value of every name, 0 when the name is not listed -/
def decodeSec (names : List String) (ents : List (String × Rat)) : List Rat :=
  names.map fun n => (lookup n ents).getD 0

inductive FType | mps | lp
deriving DecidableEq, Repr

def isComp (s : String) : Bool := s == "gz" || s == "GZ" || s == "bz2" || s == "BZ2"
def isLp (s : String) : Bool := s == "lp" || s == "LP"

/-- `get_ftype`: the name is split at '.', a trailing compression suffix is dropped, the last
remaining component (if it is not the first) decides; `-L` forces LP -/
def ftypeOf (forceLp : Bool) (parts : List String) : FType :=
  if forceLp then .lp else
  match parts.reverse with
  | [] => .mps
  | [_] => .mps
  | last :: rest =>
    if isComp last then
      match rest with
      | [] => .mps
      | [_] => .mps
      | l2 :: _ => if isLp l2 then .lp else .mps
    else if isLp last then .lp else .mps

end Qsx.SolFile
