/-
Model of the number scanner `mpq_EGlpNumReadStrXc` (eg_lpnum.c:694-836): the flag-driven state
machine that turns the text of a numeric literal into an exact rational, and reports how many
characters it consumed.  Every number in an LP / MPS / basis file passes through it.

The state mirrors the C locals one for one (`a_dot, a_exp, a_exp_sgn, a_sgn, a_div, l_exp, sgn,
exp_sgn, n_dig, cn, den[0], den[1]`); `den[cn]` is kept as the raw numerator/denominator pair the
C code manipulates, `den[0]` becomes a value once `/` has been read.  `l_exp` is an `int` in C; since
fix d278e6f a further exponent digit arriving when `l_exp > 9999` makes the scanner give up ("nothing
read"), so `l_exp` never exceeds 99999 and the unbounded `Nat` here is faithful (`fail`).
-/
import Qsx.Model.Basic

namespace Qsx.Num

structure St where
  aDot    : Bool := true
  aExp    : Bool := false
  aExpSgn : Bool := false
  aSgn    : Bool := true
  aDiv    : Bool := true
  lExp    : Nat := 0
  sgn     : Bool := false
  expSgn  : Bool := false
  nDig    : Nat := 0
  num     : Nat := 0          -- numerator of den[cn]
  den     : Nat := 1          -- denominator of den[cn]
  first   : Option Rat := none  -- den[0] after '/', i.e. cn = 1
  n       : Nat := 0          -- characters consumed
  fail    : Bool := false     -- gave up: exponent of more than five digits
deriving Repr, Inhabited

def isDigit (c : Char) : Bool := '0' ≤ c && c ≤ '9'
def digitVal (c : Char) : Nat := c.toNat - '0'.toNat

/-- loop condition (eg_lpnum.c:718-723) -/
def accepts (s : St) (c : Char) : Bool :=
  isDigit c || (s.aDot && c == '.') || (s.aExp && (c == 'e' || c == 'E')) ||
  (s.aSgn && (c == '+' || c == '-')) || (s.aDiv && c == '/') || (s.aExpSgn && (c == '+' || c == '-'))

/-- value of `den[cn]` after exponent expansion and sign (eg_lpnum.c:781-793, 814-827) -/
def finishVal (num den lExp : Nat) (expSgn sgn : Bool) : Rat :=
  let v : Rat := if expSgn then mkRat num (den * 10 ^ lExp) else mkRat (num * 10 ^ lExp) den
  if sgn then -v else v

/-- loop body (the `switch`, eg_lpnum.c:725-807) followed by `++n_char` -/
def step (s : St) (c : Char) : St :=
  let s := { s with n := s.n + 1 }
  if isDigit c then
    if s.aExp || s.nDig == 0 then
      { s with den := if s.aDot then s.den else s.den * 10, num := s.num * 10 + digitVal c,
               nDig := s.nDig + 1, aExp := true, aSgn := false }
    else if s.lExp > 9999 then { s with fail := true }
    else
      { s with lExp := 10 * s.lExp + digitVal c, aExpSgn := false, aSgn := false }
  else if c == '.' then { s with aSgn := false, aDot := false }
  else if c == '-' then
    let s := if s.aSgn then { s with sgn := true } else { s with expSgn := true }
    { s with aSgn := false, aExpSgn := false }
  else if c == '+' then { s with aSgn := false, aExpSgn := false }
  else if c == 'e' || c == 'E' then { s with aSgn := false, aExp := false, aExpSgn := true }
  else -- '/'
    { s with first := some (finishVal s.num s.den s.lExp s.expSgn s.sgn), num := 0, den := 1,
             sgn := false, expSgn := false, lExp := 0, aDiv := false, nDig := 0, aDot := true,
             aExp := false, aExpSgn := false, aSgn := true }

def scanLoop : St → List Char → St
  | s, [] => s
  | s, c :: cs => if s.fail then s else if accepts s c then scanLoop (step s c) cs else s

inductive Val
  | none                -- zero characters reported: `var` is left untouched
  | ok (q : Rat)
deriving Repr, BEq, Inhabited

def result (s : St) : Nat × Val :=
  if s.fail then (0, .none) else
  if s.n = 0 then (0, .none) else
  let cur := finishVal s.num s.den s.lExp s.expSgn s.sgn
  match s.first with
  | Option.none => (s.n, .ok cur)
  | some v0 => if cur = 0 then (0, .none)    -- zero denominator: "nothing read" (eg_lpnum.c:831-836)
               else (s.n, .ok (v0 / cur))

def scan (cs : List Char) : Nat × Val := result (scanLoop {} cs)

/-- `ILLget_value`-style use: the reader treats "0 characters" as an omitted coefficient -/
def scanStr (s : String) : Nat × Val := scan s.toList

end Qsx.Num
