/-
The primal phase-II ratio test (C03): `ILLratio_pII_test` (ratio.c:264-455), a loop-by-loop
transliteration.  The entering column moves by `t ≥ 0` (up for VINCREASE, down for VDECREASE), basic
variable `i` moves to `x_i - t·y_i` resp. `x_i + t·y_i`; the test picks the step length and the
leaving row with a two-pass (Harris) rule: pass 1 computes `t_max`, the smallest ratio with the
feasibility tolerance added; pass 2 picks, among the rows whose plain ratio is at most `t_max`, the
one with the largest pivot.  `inf` is the library's stand-in for an infinite bound
(`mpq_ILL_MAXDOUBLE`); bounds equal to `±inf` are "no bound".

`pIIWith leq` is the test with the comparison of pass 2 left abstract: with truncating arithmetic
(mpf) the computed `t_i ≤ t_max` need not be monotone, which is how the unrepaired code could end
with no row at all (RATIO_FAILED on a blocked step).  `pII` is the exact instance.
-/
import Qsx.Model.Basic

namespace Qsx.Ratio
open Qsx

structure Row where
  y : Rat
  x : Rat
  l : Rat
  u : Rat
deriving Repr, Inhabited

structure Par where
  inf : Rat          -- INFTY; NINFTY = -inf
  pivtol : Rat
  pftol : Rat
  incr : Bool        -- dir == VINCREASE
  ebounded : Bool    -- vtype[ecol] == VBOUNDED
  el : Rat
  eu : Rat
deriving Repr, Inhabited

inductive Stat | unbounded | nobchange | bchange | failed
deriving Repr, DecidableEq, Inhabited

def Stat.code : Stat → Nat
  | .unbounded => 1 | .nobchange => 2 | .bchange => 3 | .failed => 4

def statLower : Int := 3
def statUpper : Int := 2

structure Res where
  stat : Stat
  lindex : Int
  tz : Rat
  pivot : Rat
  lvstat : Int
  boundch : Bool
  lbound : Rat
deriving Repr, Inhabited

def absR (q : Rat) : Rat := if q < 0 then -q else q

/-- `EGlpNumIsNeqZero (y, pivtol)`: the row takes part -/
def relevant (p : Par) (r : Row) : Bool := decide (p.pivtol < absR r.y)

def towardLower (p : Par) (r : Row) : Bool :=
  (p.incr && decide (0 < r.y)) || (!p.incr && decide (r.y < 0))
def towardUpper (p : Par) (r : Row) : Bool :=
  (p.incr && decide (r.y < 0)) || (!p.incr && decide (0 < r.y))

/-- pass-1 ratio (tolerance added); `inf` when the row does not block -/
def ratio1 (p : Par) (r : Row) : Rat :=
  if towardLower p r then (if r.l != -p.inf then (r.x - r.l + p.pftol) / absR r.y else p.inf)
  else if towardUpper p r then (if r.u != p.inf then (r.u + p.pftol - r.x) / absR r.y else p.inf)
  else p.inf

/-- pass-2 ratio (no tolerance) -/
def ratio2 (p : Par) (r : Row) : Rat :=
  if towardLower p r then (if r.l != -p.inf then (r.x - r.l) / absR r.y else p.inf)
  else if towardUpper p r then (if r.u != p.inf then (r.u - r.x) / absR r.y else p.inf)
  else p.inf

/-- pass 1: `(t_max, kmin)` -/
def pass1 (p : Par) : List Row → Nat → Rat × Int → Rat × Int
  | [], _, st => st
  | r :: rs, k, (tm, km) =>
    let st' : Rat × Int :=
      if !relevant p r then (tm, km)
      else
        let t := ratio1 p r
        if t == p.inf then (tm, km)
        else if t < tm then (t, (k : Int)) else (tm, km)
    pass1 p rs (k + 1) st'

structure Sel where
  indx : Int := -1
  tz : Rat := 0
  yi : Rat := 0
  ayi : Rat := 0
deriving Repr, Inhabited

/-- pass 2 with the comparison `t_i ≤ t_max` abstract -/
def pass2 (leq : Rat → Rat → Bool) (p : Par) (tmax : Rat) (kmin : Int) : List Row → Nat → Sel → Sel
  | [], _, s => s
  | r :: rs, k, s =>
    let s' : Sel :=
      if !relevant p r then s
      else
        let t := ratio2 p r
        if ((k : Int) == kmin || leq t tmax) && decide (s.ayi < absR r.y) then
          { indx := k, tz := t, yi := r.y, ayi := absR r.y }
        else s
    pass2 leq p tmax kmin rs (k + 1) s'

def noRow (st : Stat) (tz : Rat) : Res :=
  { stat := st, lindex := -1, tz := tz, pivot := 0, lvstat := -1, boundch := false, lbound := 0 }

def xAt (rows : List Row) (i : Int) : Rat :=
  if i < 0 then 0 else ((rows[i.toNat]?).map (·.x)).getD 0

def pIIWith (leq : Rat → Rat → Bool) (p : Par) (rows : List Row) : Res :=
  let (tmax, kmin) := pass1 p rows 0 (p.inf, -1)
  let d := p.eu - p.el
  if p.ebounded && decide (d ≤ tmax) then
    noRow .nobchange (if p.incr then d else -d)
  else if p.inf ≤ tmax then noRow .unbounded 0
  else
    let s := pass2 leq p tmax kmin rows 0 {}
    if s.indx < 0 then noRow .failed 0
    else
      let lv : Int :=
        if p.incr then (if 0 < s.yi then statLower else statUpper)
        else (if 0 < s.yi then statUpper else statLower)
      if s.tz < 0 then
        let tz := absR tmax / 10
        let xb := xAt rows s.indx
        let lb := if lv == statLower then xb - tz * s.ayi else xb + tz * s.ayi
        { stat := .bchange, lindex := s.indx, tz := if p.incr then tz else -tz, pivot := s.yi,
          lvstat := lv, boundch := true, lbound := lb }
      else
        { stat := .bchange, lindex := s.indx, tz := if p.incr then s.tz else -s.tz, pivot := s.yi,
          lvstat := lv, boundch := false, lbound := 0 }

/-- the test in exact arithmetic -/
def pII (p : Par) (rows : List Row) : Res := pIIWith (fun a b => decide (a ≤ b)) p rows

/-- value of a basic variable after a step of length `t ≥ 0` of the entering column -/
def newx (p : Par) (r : Row) (t : Rat) : Rat := if p.incr then r.x - t * r.y else r.x + t * r.y

/-- inside its bounds relaxed by `tol`; a bound equal to `±inf` is no bound -/
def inBounds (p : Par) (tol : Rat) (r : Row) (v : Rat) : Prop :=
  (r.l ≠ -p.inf → r.l - tol ≤ v) ∧ (r.u ≠ p.inf → v ≤ r.u + tol)



/-! ### the dual phase-II ratio test (`ILLratio_dII_test`, ratio.c:638-787)

The same two-pass rule on the dual side.  For a non-basic column `j` of the pivot row, `x` is its
dual slack (`dz_j` at lower / free, `-dz_j` at upper — non-negative when dual feasible) and `y` the
rate at which the slack shrinks per unit of step; a free column must keep its reduced cost at 0 and
blocks in both directions.  In the vocabulary of the primal test this is a row with bounds `[0, inf)`
(`[0, 0]` for a free column) and an increasing entering variable, which is how the model is written:
`dII` runs `pass1` / `pass2` on `toRow`. -/

structure DCol where
  zA : Rat
  dz : Rat
  cz : Rat
  vstat : Nat        -- STAT_UPPER 2, STAT_LOWER 3, STAT_ZERO 4
  skip : Bool        -- vtype VARTIFICIAL or VFIXED
deriving Repr, Inhabited

def vUpper : Nat := 2
def vLower : Nat := 3
def vZero : Nat := 4

/-- `GET_XY_DRATIOTEST` -/
def dualXY (lvUpper : Bool) (c : DCol) : Rat × Rat :=
  let (x, y) := if c.vstat == vUpper then (-c.dz, c.zA) else (c.dz, -c.zA)
  (x, if lvUpper then -y else y)

def toRow (inf : Rat) (lvUpper : Bool) (c : DCol) : Row :=
  let (x, y) := dualXY lvUpper c
  { y := if c.skip then 0 else y, x := x, l := 0, u := if c.vstat == vZero then 0 else inf }

structure DRes where
  stat : Stat
  eindex : Int
  tz : Rat
  pivot : Rat
  coeffch : Bool
  ecoeff : Rat
deriving Repr, Inhabited

def dPar (inf pivtol dftol : Rat) : Par :=
  { inf := inf, pivtol := pivtol, pftol := dftol, incr := true, ebounded := false, el := 0, eu := 0 }

def colAt (cols : List DCol) (i : Int) : DCol :=
  if i < 0 then default else (cols[i.toNat]?).getD default

def dIICore (leq : Rat → Rat → Bool) (p : Par) (rows : List Row) (cols : List DCol) : DRes :=
  let (tmax, kmin) := pass1 p rows 0 (p.inf, -1)
  if p.inf ≤ tmax then { stat := .unbounded, eindex := -1, tz := 0, pivot := 0, coeffch := false, ecoeff := 0 }
  else
    let s := pass2 leq p tmax kmin rows 0 {}
    if s.indx < 0 then { stat := .failed, eindex := -1, tz := 0, pivot := 0, coeffch := false, ecoeff := 0 }
    else
      let c := colAt cols s.indx
      if s.tz < 0 then
        let tz := absR tmax / 20
        let e0 := c.cz - c.dz
        if c.vstat == vLower then
          { stat := .bchange, eindex := s.indx, tz := tz, pivot := c.zA, coeffch := true, ecoeff := e0 + tz * s.ayi }
        else if c.vstat == vUpper then
          { stat := .bchange, eindex := s.indx, tz := tz, pivot := c.zA, coeffch := true, ecoeff := e0 - tz * s.ayi }
        else
          { stat := .bchange, eindex := s.indx, tz := 0, pivot := c.zA, coeffch := true, ecoeff := e0 }
      else
        { stat := .bchange, eindex := s.indx, tz := s.tz, pivot := c.zA, coeffch := false, ecoeff := 0 }

def dIIWith (leq : Rat → Rat → Bool) (inf pivtol dftol : Rat) (lvUpper : Bool) (cols : List DCol) : DRes :=
  dIICore leq (dPar inf pivtol dftol) (cols.map (toRow inf lvUpper)) cols

def dII (inf pivtol dftol : Rat) (lvUpper : Bool) (cols : List DCol) : DRes :=
  dIIWith (fun a b => decide (a ≤ b)) inf pivtol dftol lvUpper cols

/-- dual slack of a column after a dual step of length `t` -/
def newSlack (inf : Rat) (lvUpper : Bool) (c : DCol) (t : Rat) : Rat :=
  newx (dPar inf 0 0) (toRow inf lvUpper c) t
end Qsx.Ratio
