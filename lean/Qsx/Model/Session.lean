/-
Model of what survives between calls on a `QSdata` object (qsopt.c): whether a basis and a cached
solution are present, the `factorok` flag and `qstatus`, with one transition per public entry
point, transcribed from the wrappers (`free_cache` qsopt.c:2204, `opt_work` qsopt.c:269-418,
`QSdelete_rows` 1107-1142, `QSdelete_cols` 1264-1292, the `QSchange_*` family 1414-1600,
`QSopt_primal/dual` 206-267).  The solver's result, and the two flags `ILLlib_delrows` hands back,
are oracle answers.  `lpVersion` / `cacheVersion` are ghost fields: the number of successful edits
so far and the value it had when the cache was filled.
-/
import Qsx.Generated.Tables

namespace Qsx.Session
open Qsx.Gen

structure S where
  basis    : Bool := false
  cache    : Bool := false
  factorok : Bool := false
  qstatus  : Nat := lpUnsolved
  lpVersion    : Nat := 0      -- ghost
  cacheVersion : Nat := 0      -- ghost: lpVersion when the cache was filled
  keptByDelrows : Bool := false -- ghost: cache survived a delete of basic rows since it was filled
deriving Repr, BEq, Inhabited

inductive Op
  | addCols                     -- QSnew_col / QSadd_col(s): free_cache
  | newRow                      -- QSnew_row: factorok := 0, free_cache
  | addRows (factorokAfter : Bool)  -- QSadd_(ranged_)row(s): ILLlib_addrows sets factorok, free_cache
  | delRows (basisOk cacheOk : Bool) -- oracle: the flags ILLlib_delrows returns
  | delCols (basisOk : Bool)
  | chgKeepFactor               -- QSchange_objcoef / rhscoef / bound(s) / objsense: free_cache only
  | chgMatrix                   -- QSchange_coef / QSchange_sense(s) / QSchange_range: factorok := 0, free_cache
  | chgBound (keep : Bool)      -- QSchange_bound(s): free_cache; oracle: a non-basic column sitting at the bound that became infinite is moved (factorok := 0)
  | loadBasis                   -- QSload_basis*: basis present, factorok := 0
  | optPrimal (rstatus : Nat) (fail : Bool)
  | optDual (rstatus : Nat) (fail : Bool)
  | exactSolver (status : Nat) (fail : Bool) (bas fok : Bool)   -- QSexact_solver on the rational object; oracle for a non-optimal
                                -- outcome: whether a basis is left loaded / the factorization flag (by-products of the basis tests)
  | failedCall                  -- any call rejected by its guard (C07): nothing changes
deriving Repr, Inhabited

def freeCache (s : S) : S := { s with cache := false, qstatus := lpModified, keptByDelrows := false }

def edited (s : S) : S := { s with lpVersion := s.lpVersion + 1 }

/-- `opt_work` (qsopt.c:269-418) -/
def optWork (s : S) (rstatus : Nat) (fail : Bool) : S :=
  if fail then { s with qstatus := lpUnsolved } else
  let s := { s with basis := true }
  let s := if rstatus = lpOptimal then { s with cache := true, cacheVersion := s.lpVersion, keptByDelrows := false }
           else freeCache s
  { s with factorok := true, qstatus := rstatus }

def step (s : S) : Op → S
  | .addCols => freeCache (edited s)
  | .newRow => freeCache { edited s with factorok := false }
  | .addRows f => freeCache { edited s with factorok := f }
  | .delRows bok cok =>
    -- qsopt.c:1119-1137: the basis survives iff it existed and ILLlib_delrows said so; the cache
    -- survives iff moreover cache_ok
    if (s.basis && bok) && cok then { edited s with factorok := false, keptByDelrows := s.cache }
    else freeCache { edited s with basis := s.basis && bok, factorok := false }
  | .delCols bok => freeCache { edited s with basis := s.basis && bok, factorok := false }
  | .chgKeepFactor => freeCache (edited s)
  | .chgMatrix => freeCache { edited s with factorok := false }
  | .chgBound keep => freeCache { edited s with factorok := s.factorok && keep }
  | .loadBasis => { s with basis := true, factorok := false }
  | .optPrimal r fail => if s.basis && s.cache then s else optWork s r fail
  | .optDual r fail => if s.basis && s.cache && s.factorok then s else optWork s r fail
  | .exactSolver st fail bas fok =>
    -- the exact driver loads bases and fills the cache only through QSexact_optimal_test
    if fail then s else
    if st = lpOptimal then { s with basis := true, cache := true, cacheVersion := s.lpVersion, keptByDelrows := false,
                                    factorok := false, qstatus := lpOptimal }
    else { s with cache := false, keptByDelrows := false, basis := bas, factorok := fok,
                  qstatus := if st = lpInfeasible then lpInfeasible else s.qstatus }
  | .failedCall => s

def run (ops : List Op) : S := ops.foldl step {}

/-- the solution accessors (QSget_x_array, pi, rc, slack, solution) succeed iff a cache is present -/
def accessorOk (s : S) : Bool := s.cache

end Qsx.Session
