/-
Exact basis verdicts (C12): what `QSexact_basis_optimalstatus` / `QSexact_basis_dualstatus`
(exact.c:1098-1271) decide, as functions of the internal LP, a basis (status of every structural
and logical column) and the basic solution `(z, y)` of that basis — primal values of all columns
and row multipliers.  `isBasicSol` is the multiplication check that identifies `(z, y)` as *the*
basic solution: rows hold, every non-basic column sits at the bound its status names, every basic
column has reduced cost zero.  The verdicts are then sign conditions at tolerance 0
(`ILLfct_check_pfeasible/dfeasible` with `mpq_zeroLpNum`).
-/
import Qsx.Model.Cert

namespace Qsx.Verdict
open Qsx Qsx.Gen

/-- status codes of the QSbasis arrays -/
def isBasic (st : Nat) : Bool := st == cstatBasic
def isLower (st : Nat) : Bool := st == cstatLower
def isUpper (st : Nat) : Bool := st == cstatUpper

/-- a column agrees with its status: basic ⇒ reduced cost 0; non-basic ⇒ value at the named bound
(non-basic free ⇒ 0) -/
def colOK (c : Col) (st : Nat) (v d : Rat) : Bool :=
  if isBasic st then d == 0
  else if isLower st then v == c.lo
  else if isUpper st then v == c.up
  else v == 0

/-- dual feasibility of one non-basic column at tolerance 0 (fct.c check_dfeasible): fixed columns
are skipped, at-lower needs a reduced cost of the improving-blocked sign, at-upper the opposite,
non-basic free needs 0 -/
def dualOK (isMin : Bool) (c : Col) (st : Nat) (d : Rat) : Bool :=
  if isBasic st then true
  else if isLower st then (c.lo == c.up) || !negDir isMin d
  else if isUpper st then (c.lo == c.up) || !posDir isMin d
  else d == 0

structure BSol where
  x : Array Rat      -- structural values
  s : Array Rat      -- logical values
  y : Array Rat      -- row multipliers
deriving Repr, Inhabited

def isBasicSol (P : ILP) (cs rs : Array Nat) (b : BSol) : Bool :=
  (allTo P.nrows fun i => decide (structAct P (rget b.x) i + (P.lcol i).coef * rget b.s i = P.b i)) &&
  (allTo P.ns fun j => colOK (P.scol j) (nget cs j) (rget b.x j) (dzOf (P.scol j) (rget b.y))) &&
  (allTo P.nrows fun i => colOK (P.lcol i) (nget rs i) (rget b.s i) (dzOf (P.lcol i) (rget b.y)))

def primalFeasible (P : ILP) (b : BSol) : Bool :=
  (allTo P.ns fun j => decide ((P.scol j).lo ≤ rget b.x j) && decide (rget b.x j ≤ (P.scol j).up)) &&
  (allTo P.nrows fun i => decide ((P.lcol i).lo ≤ rget b.s i) && decide (rget b.s i ≤ (P.lcol i).up))

def dualFeasible (P : ILP) (cs rs : Array Nat) (b : BSol) : Bool :=
  (allTo P.ns fun j => dualOK P.isMin (P.scol j) (nget cs j) (dzOf (P.scol j) (rget b.y))) &&
  (allTo P.nrows fun i => dualOK P.isMin (P.lcol i) (nget rs i) (dzOf (P.lcol i) (rget b.y)))

/-- the answer of `QSexact_basis_optimalstatus` -/
def optimalVerdict (P : ILP) (cs rs : Array Nat) (b : BSol) : Bool :=
  primalFeasible P b && dualFeasible P cs rs b

/-- `lp->dobjval` (fct.c compute_dobj): `y·b + Σ_{non-basic} dz_j · (value at its bound)` -/
def dualBound (P : ILP) (cs rs : Array Nat) (b : BSol) : Rat :=
  sumTo P.nrows (fun i => P.b i * rget b.y i)
  + sumTo P.ns (fun j => if isBasic (nget cs j) then 0 else dzOf (P.scol j) (rget b.y) * rget b.x j)
  + sumTo P.nrows (fun i => if isBasic (nget rs i) then 0 else dzOf (P.lcol i) (rget b.y) * rget b.s i)

end Qsx.Verdict
