/-
Reformulations of an LP (C15): the transformations whose effect on status and optimal value the
property fixes, as executable functions on the API-level LP.  The check applies the same
transformations in its generator (python), compares the two renderings line by line, and solves
original and transformed problem with the real library.
-/
import Qsx.Model.LP

namespace Qsx.Xform
open Qsx

def tabA {α : Type} (n : Nat) (f : Nat → α) : Array α := (List.range n).toArray.map f

def mapRows (L : LP) (f : Nat → Row → Row) : LP := { L with rows := tabA L.nr fun i => f i (L.row i) }
def mapCols (L : LP) (f : Nat → VCol → VCol) : LP := { L with cols := tabA L.nc fun j => f j (L.col j) }

/-- negate the objective and flip min/max: value ↦ −value -/
def negObj (L : LP) : LP :=
  { isMin := !L.isMin, cols := tabA L.nc (fun j => { (L.col j) with obj := -(L.col j).obj }), rows := L.rows }

def scaleEnt (t : Rat) (ent : List (Nat × Rat)) : List (Nat × Rat) := ent.map fun e => (e.1, t * e.2)

/-- multiply a row by `t ≠ 0`; a negative factor flips the sense (a ranged row keeps sense 'R' and
its interval `[rhs, rhs+range]` is mirrored) -/
def scaleRowOf (t : Rat) (r : Row) : Row :=
  if 0 < t then { sense := r.sense, rhs := t * r.rhs, range := t * r.range, ent := scaleEnt t r.ent }
  else if r.sense = 'L' then { sense := 'G', rhs := t * r.rhs, range := -(t * r.range), ent := scaleEnt t r.ent }
  else if r.sense = 'G' then { sense := 'L', rhs := t * r.rhs, range := -(t * r.range), ent := scaleEnt t r.ent }
  else if r.sense = 'E' then { sense := 'E', rhs := t * r.rhs, range := -(t * r.range), ent := scaleEnt t r.ent }
  else { sense := r.sense, rhs := t * (r.rhs + r.range), range := -(t * r.range), ent := scaleEnt t r.ent }

def scaleRow (L : LP) (i : Nat) (t : Rat) : LP := mapRows L fun k r => if k = i then scaleRowOf t r else r

def appendRow (L : LP) (r : Row) : LP := { L with rows := L.rows.push r }

def dupRow (L : LP) (i : Nat) : LP := appendRow L (L.row i)

/-- a weaker copy of a row (`t ≥ 0`): implied by the original -/
def relaxRow (r : Row) (t : Rat) : Row :=
  if r.sense = 'L' then { r with rhs := r.rhs + t }
  else if r.sense = 'G' then { r with rhs := r.rhs - t }
  else if r.sense = 'E' then { r with sense := 'L', rhs := r.rhs + t }
  else { r with rhs := r.rhs - t, range := r.range + 2 * t }

def addRedundant (L : LP) (i : Nat) (t : Rat) : LP := appendRow L (relaxRow (L.row i) t)

/-- an equality written as `≤` (in place) and `≥` (appended) -/
def splitEq (L : LP) (i : Nat) : LP :=
  if (L.row i).sense = 'E' then
    appendRow (mapRows L fun k r => if k = i then { r with sense := 'L' } else r) { (L.row i) with sense := 'G' }
  else L

def shiftBound (inf d b : Rat) : Rat := if b = inf then inf else b - d

/-- substitute `x_j = x'_j + d`: bounds move by `-d`, every right-hand side by `-d·a_ij`;
value ↦ value − c_j·d -/
def shiftVar (L : LP) (pinf ninf : Rat) (j : Nat) (d : Rat) : LP :=
  { isMin := L.isMin
    cols := tabA L.nc fun k => if k = j then { (L.col k) with lo := shiftBound ninf d (L.col k).lo, up := shiftBound pinf d (L.col k).up } else L.col k
    rows := tabA L.nr fun i => { (L.row i) with rhs := (L.row i).rhs - d * entAt (L.row i).ent j } }

def scaleBound (inf m b : Rat) : Rat := if b = inf then inf else b / m

/-- substitute `x_j = m·x'_j` (`m > 0`): coefficients and cost of column `j` times `m`, bounds divided by `m` -/
def scaleVar (L : LP) (pinf ninf : Rat) (j : Nat) (m : Rat) : LP :=
  { isMin := L.isMin
    cols := tabA L.nc fun k => if k = j then { obj := m * (L.col k).obj, lo := scaleBound ninf m (L.col k).lo, up := scaleBound pinf m (L.col k).up } else L.col k
    rows := tabA L.nr fun i => { (L.row i) with ent := (L.row i).ent.map fun e => if e.1 = j then (e.1, m * e.2) else e } }

/-- new row `k` is old row `σ k` -/
def permRows (L : LP) (σ : Array Nat) : LP := { L with rows := tabA L.nr fun k => L.row (nget σ k) }

/-- position of `j` in `σ` (the inverse permutation), `j` itself when absent -/
def invAt (σ : Array Nat) (j : Nat) : Nat := (σ.toList.idxOf? j).getD j

/-- new column `k` is old column `σ k`; entries are re-indexed with the inverse permutation -/
def permCols (L : LP) (σ : Array Nat) : LP :=
  { isMin := L.isMin
    cols := tabA L.nc fun k => L.col (nget σ k)
    rows := tabA L.nr fun i => { (L.row i) with ent := (L.row i).ent.map fun e => (invAt σ e.1, e.2) } }

end Qsx.Xform
