/-
The Bounds section of the LP format as a codec (C08): `write_bounds` (lp.c:482-545) with the
default tests of rawlp.c:799-845 on the writer's side; `read_bounds` (lp.c:1141-1247), the
`ILLraw_set_*Bound` setters and `ILLraw_fill_in_bounds` (rawlp.c:623-756) on the reader's side.
One column at a time, at the level of parsed lines (the number scanner is C10).
-/
import Qsx.Model.Basic

namespace Qsx.LpBounds
open Qsx

/-- what the Bounds section says about one column -/
inductive BLine
  | fixed (v : Rat)                            -- `x = v`
  | free                                       -- `x free`
  | range (lo : Option Rat) (up : Option Rat)  -- `lo <= x`, `x <= up`, `lo <= x <= up`
deriving Repr, BEq, DecidableEq

/-- `ILLraw_default_lower` -/
def defaultLower (lo up ninf : Rat) : Bool := (lo == 0 && !decide (up < 0)) || (lo == ninf && decide (up < 0))
/-- `ILLraw_default_upper` -/
def defaultUpper (lo up pinf : Rat) (isInt : Bool) : Bool :=
  if isInt && lo == 0 then up == 1 else up == pinf

/-- the writer: the line printed for a column, if any -/
def writeCol (lo up pinf ninf : Rat) (isInt : Bool) : Option BLine :=
  if lo == up then some (.fixed up)
  else if lo == ninf && up == pinf then some .free
  else
    let pl := !defaultLower lo up ninf
    let pu := !defaultUpper lo up pinf isInt
    if pl || pu then some (.range (if pl then some lo else none) (if pu then some up else none)) else none

/-- the reader: bounds of a column from its line (or from the absence of one) -/
def readCol (pinf ninf : Rat) (isInt : Bool) : Option BLine → Rat × Rat
  | some (.fixed v) => (v, v)
  | some .free => (ninf, pinf)
  | some (.range (some lo) (some up)) => (lo, up)
  | some (.range (some lo) none) => (lo, pinf)                    -- lower given: the upper default is +inf, also for integer columns
  | some (.range none (some up)) => (if up < 0 then ninf else 0, up)
  | some (.range none none) => (0, if isInt then 1 else pinf)
  | none => (0, if isInt then 1 else pinf)

end Qsx.LpBounds

namespace Qsx.MpsBounds
open Qsx Qsx.LpBounds

/-- one BOUNDS record of a column (mps.c:857-905 reader, 1253-1300 writer) -/
inductive Rec
  | fx (v : Rat) | fr | mi | lo (v : Rat) | pl | up (v : Rat)
deriving Repr, BEq, DecidableEq

/-- the writer: records printed for a column, in order -/
def writeCol (lo up pinf ninf : Rat) (isInt : Bool) : List Rec :=
  if lo == up then [.fx lo]
  else if lo == ninf && up == pinf then [.fr]
  else
    (if !defaultLower lo up ninf then [if lo == ninf then Rec.mi else Rec.lo lo] else []) ++
    (if !defaultUpper lo up pinf isInt then [if up == pinf then Rec.pl else Rec.up up] else [])

/-- reader state of one column: values and the "already defined" flags of rawlp.c -/
structure St where
  lower : Rat := 0
  lbind : Bool := false
  upper : Rat := 0
  ubind : Bool := false
deriving Repr

def setLower (s : St) (v : Rat) : St := if s.lbind then s else { s with lower := v, lbind := true }
def setUpper (s : St) (v : Rat) : St := if s.ubind then s else { s with upper := v, ubind := true }

def apply (pinf ninf : Rat) (s : St) : Rec → St
  | .fx v => if s.lbind || s.ubind then s else { lower := v, lbind := true, upper := v, ubind := true }
  | .fr => if s.lbind || s.ubind then s else { lower := ninf, lbind := true, upper := pinf, ubind := true }
  | .mi => setLower s ninf
  | .lo v => setLower s v
  | .pl => setUpper s pinf
  | .up v => setUpper s v

/-- `ILLraw_fill_in_bounds` -/
def fillIn (pinf ninf : Rat) (isInt : Bool) (s : St) : Rat × Rat :=
  let lo := if !s.lbind && s.ubind && decide (s.upper < 0) then ninf else s.lower
  let up := if s.ubind then s.upper else if isInt && !s.lbind then 1 else pinf
  (lo, up)

def readCol (pinf ninf : Rat) (isInt : Bool) (rs : List Rec) : Rat × Rat :=
  fillIn pinf ninf isInt (rs.foldl (apply pinf ninf) {})

end Qsx.MpsBounds

namespace Qsx.MpsRanges
open Qsx

/-- the writer (mps.c:1159-1245): a ranged row goes out as a `G` row with a RANGES record -/
def writeRow (sense : Char) (rhs range : Rat) : Char × Rat × Option Rat :=
  if sense = 'R' then ('G', rhs, some range) else (sense, rhs, none)

/-- the reader (`transferRanges`, rawlp.c:1271-1337): sense, rhs and range of the stored row, which
always means `rhs ≤ row ≤ rhs + range` when the sense is 'R' -/
def readRow (sense : Char) (rhs : Rat) (r : Option Rat) : Char × Rat × Rat :=
  match r with
  | none => (sense, rhs, 0)
  | some r =>
    if sense = 'G' then ('R', rhs, if r < 0 then -r else r)
    else if sense = 'L' then ('R', rhs - (if r < 0 then -r else r), if r < 0 then -r else r)
    else if sense = 'E' then (if r < 0 then ('R', rhs + r, -r) else ('R', rhs, r))
    else (sense, rhs, 0)

end Qsx.MpsRanges
