/-
Semantics of the internal LP (Prop-level definitions the theorems are stated with).
Two readings of the bounds: *box* (the encoded numbers ±INF are ordinary finite bounds) and
*inf* (a bound equal to the encoding of ±infinity is absent).
-/
import Qsx.Model.Cert

namespace Qsx
namespace ILP

/-- shape facts about the internal LP that `Store`'s invariant (C06) provides: one logical column
per row with a single non-zero coefficient in that row; structural entries index existing rows -/
structure WF (P : ILP) : Prop where
  lent : ∀ i, i < P.nrows → ∃ a : Rat, a ≠ 0 ∧ (P.lcol i).ent = [(i, a)]
  sidx : ∀ j, j < P.ns → ∀ e ∈ (P.scol j).ent, e.1 < P.nrows

/-- `A z = rhs` for `z = (x, s)` -/
def RowsHold (P : ILP) (x s : Nat → Rat) : Prop :=
  ∀ i, i < P.nrows → structAct P x i + (P.lcol i).coef * s i = P.b i

structure BoxFeasible (P : ILP) (x s : Nat → Rat) : Prop where
  rows : P.RowsHold x s
  xlo : ∀ j, j < P.ns → (P.scol j).lo ≤ x j
  xup : ∀ j, j < P.ns → x j ≤ (P.scol j).up
  slo : ∀ i, i < P.nrows → (P.lcol i).lo ≤ s i
  sup : ∀ i, i < P.nrows → s i ≤ (P.lcol i).up

/-- feasibility when `ninf`/`pinf` encode an absent lower/upper bound -/
structure Feasible (P : ILP) (pinf ninf : Rat) (x s : Nat → Rat) : Prop where
  rows : P.RowsHold x s
  xlo : ∀ j, j < P.ns → (P.scol j).lo ≠ ninf → (P.scol j).lo ≤ x j
  xup : ∀ j, j < P.ns → (P.scol j).up ≠ pinf → x j ≤ (P.scol j).up
  slo : ∀ i, i < P.nrows → (P.lcol i).lo ≠ ninf → (P.lcol i).lo ≤ s i
  sup : ∀ i, i < P.nrows → (P.lcol i).up ≠ pinf → s i ≤ (P.lcol i).up

def objv (P : ILP) (x s : Nat → Rat) : Rat :=
  sumTo P.ns (fun j => (P.scol j).obj * x j) + sumTo P.nrows (fun i => (P.lcol i).obj * s i)

/-- `v` is at least as good as `w` for the objective sense of `P` -/
def better (P : ILP) (v w : Rat) : Prop := if P.isMin then v ≤ w else w ≤ v

end ILP
end Qsx
