/-
Several problem objects side by side (C16): the store of slots the harness and the model driver
both keep, with the reference editing semantics of `Qsx.Spec` per slot, copy and free.
`QScopy_prob` must behave like `copy`: the new object shows what the original showed at the time
of the copy and nothing done to any other object afterwards — editing, freeing the original — is
visible through it.
-/
import Qsx.Model.Spec

namespace Qsx.Multi
open Qsx

abbrev Store := Nat → Option Spec.Prob

inductive Cmd
  | op (k : Nat) (o : Spec.Op)
  | copy (a b : Nat)
  | free (k : Nat)

/-- the slot a command writes -/
def Cmd.target : Cmd → Nat
  | .op k _ => k
  | .copy _ b => b
  | .free k => k

def set (s : Store) (k : Nat) (v : Option Spec.Prob) : Store := fun i => if i = k then v else s i

def step (s : Store) : Cmd → Store
  | .op k o => match s k with
    | some p => set s k (some (Spec.step p o).1)
    | none => s
  | .copy a b => match s a with
    | some p => set s b (some p)
    | none => s
  | .free k => set s k none

def run (s : Store) (cs : List Cmd) : Store := cs.foldl step s

end Qsx.Multi
