/-
The lexical layer of the MPS reader (C10 / C11): `read_mps.c:87-365` — next_line (key and first field),
mps_skip_comment, next_field, get_double / next_coef, next_bound, next_field_is_number (used by
possibly_blank_name), check_end_of_line, set_end_of_line.  Same conventions as `Qsx.LpLex`: `line` is
the text of the C string in `state->line`, direct dereferences go through `rd` and answer `none`
behind the terminator; libc calls by their meaning on the string.

Two things the LP lexer does not have:
* `state->p` is a null pointer until the first line has been read and again after a call of
  next_line that met the end of the file at once (`pnull`); every other function dereferences it.
* `set_end_of_line` *writes* `'\n'` at the cursor.  On the terminator itself this leaves the
  string unterminated (`unterm`): what follows is whatever the buffer held before.
-/
import Qsx.Model.LpLex

namespace Qsx.MpsLex
open Qsx.LpLex (NUL rd isBlank isSpace scanWhile sscanfS prefixCI cstr Bnd)

/-- `END_LINE` of read_mps.c:54 (a `$` starts a comment) -/
def endLine (c : Char) : Bool := c == '$' || c == '\n' || c == NUL

structure St where
  line : List Char := []
  p : Nat := 0
  pnull : Bool := true              -- state->p == NULL
  unterm : Bool := false            -- the terminator has been overwritten by set_end_of_line
  lineNum : Nat := 0
  fieldNum : Nat := 0
  key : List Char := []
  field : List Char := []
  noType : Bool := false            -- the active section is COLUMNS, RHS or RANGES: its records have no field 1
  file : List (List Char) := []
deriving Repr, Inhabited

/-- `*(state->p + k)` -/
def rdp (s : St) (k : Nat) : Option Char :=
  if s.pnull then none
  else if s.unterm && s.p + k ≥ s.line.length then none
  else rd s.line (s.p + k)

/-- the rest of the string at the cursor, for libc calls (`none`: null pointer or unterminated string) -/
def rest (s : St) : Option (List Char) :=
  if s.pnull || s.unterm then none
  else if s.p ≤ s.line.length then some (s.line.drop s.p) else none

/-- `ILLmps_next_line` -/
def nextLine (s : St) : Option (St × Int) :=
  let rec go : List (List Char) → St → Option (St × Int)
    | [], s => some ({ s with file := [] }, 1)
    | raw :: more, s => do
      let line := cstr raw
      let s := { s with line := line, lineNum := s.lineNum + 1, key := [], field := [], fieldNum := 1, p := 0,
                        pnull := false, unterm := false, file := more }
      let c0 ← rd line 0
      if !isBlank c0 then
        if c0 == '*' || c0 == '\n' then go more s
        else
          match sscanfS line with
          | some k =>
            let p ← scanWhile (fun c _ => isBlank c) line k.length 0
            match sscanfS (line.drop p) with
            | some f => some ({ s with key := k, field := f, p := p + f.length }, 0)
            | none => some ({ s with key := k, p := p }, 0)
          | none => some (s, 1)                       -- "should almost never happen": reported as end of file
      else
        let p ← scanWhile (fun c _ => isBlank c) line 0 0
        match sscanfS (line.drop p) with
        | some f => some ({ s with field := f, p := p + f.length }, 0)
        | none => go more { s with p := p }
  go s.file { s with line := [], p := 0, pnull := true, unterm := false }

/-- `mps_skip_comment` -/
def skipComment (s : St) : Option (St × Bool) := do
  if s.pnull then none
  let p ← if s.unterm then
            -- the loop stops at the '\n' that replaced the terminator, or earlier
            (scanWhile (fun c _ => isBlank c) s.line s.p 0).bind fun q => if q < s.line.length then some q else none
          else scanWhile (fun c _ => isBlank c) s.line s.p 0
  let s := { s with p := p }
  let c ← rdp s 0
  -- number of the field that comes next, in the format's own counting
  let next := s.fieldNum + 1 + (if s.noType then 1 else 0)
  return (s, c == '$' && next ≥ 3 && next % 2 == 1)

/-- `ILLmps_next_field` -/
def nextField (s : St) : Option (St × Int) := do
  let s := { s with field := [] }
  let (s, com) ← skipComment s
  if com then return (s, 1)
  let r ← rest s
  match sscanfS r with
  | some f =>
    let s := { s with field := f, p := s.p + f.length }
    let c ← rdp s 0
    let s := if c != NUL then { s with p := s.p + 1 } else s
    return ({ s with fieldNum := s.fieldNum + 1 }, 0)
  | none => return (s, 1)

/-- `get_double (state, peek, coef)`: (state, ok, coefficient written) -/
def getDouble (s : St) (peek : Bool) : Option (St × Bool × Option Rat) := do
  let (s, com) ← skipComment s
  if com then return (s, false, none)
  let r ← rest s
  match Num.scan r with
  | (n, .ok q) =>
    if n > 0 then
      let s := if peek then s else { s with p := s.p + n, fieldNum := s.fieldNum + 1 }
      return (s, true, some q)
    else return (s, false, some 1)
  | (_, .none) => return (s, false, some 1)

/-- `ILLmps_next_coef` -/
def nextCoef (s : St) : Option (St × Int × Option Rat) := do
  let (s, com) ← skipComment s
  if com then return (s, 1, none)
  let (s, ok, v) ← getDouble s false
  return (s, if ok then 0 else 1, v)

/-- sign character in front of a bound: (sign, characters) -/
def signLen (c : Char) : Int × Nat := if c == '-' then (-1, 1) else if c == '+' then (1, 1) else (1, 0)

/-- characters of a leading INFINITY / INF (case-insensitive), 0 if neither -/
def infLen (r : List Char) : Nat := if prefixCI r "INFINITY".toList then 8 else if prefixCI r "INF".toList then 3 else 0

/-- the infinity branch of next_bound (`len` characters matched): the word must end there -/
def boundInf (s : St) (sg : Int) (len : Nat) : Option (St × Int × Option Bnd) := do
  let q := s.p + len
  let (s', _) ← skipComment { s with p := q }
  let c' ← rdp s' 0
  if !endLine c' && s'.p == q then return (s, 1, none)
  else return ({ s' with fieldNum := s'.fieldNum + 1 }, 0, some (if sg == 1 then .pinf else .ninf))

/-- `ILLmps_next_bound` -/
def nextBound (s : St) : Option (St × Int × Option Bnd) := do
  let (s, com) ← skipComment s
  if com then return (s, 1, none)
  let c ← rdp s 0
  let r ← rest s
  let len := (signLen c).2 + infLen (r.drop (signLen c).2)
  if len > 1 then boundInf s (signLen c).1 len
  else
    let (s, ok, v) ← getDouble s false
    return (s, if ok then 0 else 1, v.map .val)

/-- `ILLmps_next_field_is_number` -/
def nextFieldIsNumber (s : St) : Option (St × Bool) := do
  let (s, com) ← skipComment s
  if com then return (s, false)
  let (s, ok, _) ← getDouble s true
  return (s, ok)

/-- `ILLmps_check_end_of_line`: (state, a warning "Extra fields on line." was issued) -/
def checkEndOfLine (s : St) : Option (St × Bool) := do
  let (s, com) ← skipComment s
  if com then return (s, false)
  let c ← rdp s 0
  return (s, !endLine c)

/-- `ILLmps_set_end_of_line`: `*state->p = '\n'` -/
def setEndOfLine (s : St) : Option St :=
  if s.pnull then none
  else if s.p < s.line.length then some { s with line := s.line.set s.p '\n' }
  else if s.p = s.line.length && !s.unterm then some { s with line := s.line ++ ['\n'], unterm := true }
  else none

/-- the cursor is a pointer into a terminated string -/
def Inv (s : St) : Prop := s.pnull = false ∧ s.unterm = false ∧ s.p ≤ s.line.length

end Qsx.MpsLex
