/-
The lexical layer of the LP-format reader (C10 / C11): `read_lp.c:101-591` — the line buffer with its
cursor `state->p`, and the functions every section parser of `lp.c` is built from: next_line,
skip_blanks, next_field(_on_line), prev_field, next_var (with the reserved-keyword test), keyword
tests, colon, has_colon, next_constraint, sign, test_next_is, value / possible_coef,
possible_bound_value, test_sense / sense, check_subject_to.

The line is a C string: `line` below is its text up to (not including) the terminating NUL.  Every
*direct* dereference `*p`, `p[k]` of the C code goes through `rd`, which answers `none` for a
position behind the terminator — what lies there is not part of the line (stale bytes of earlier,
longer lines, or memory that was never written).  All functions therefore live in `Option`; the
theorems of `Proofs/LpLexSafe` show that from every state with the cursor inside the string no
function ever answers `none`, and that the cursor stays inside the string.  Calls into libc
(`strcpy`, `strchr`, `strlen`, `sscanf("%s")`, `strncasecmp`, `strcasecmp`) are modelled by their
documented meaning on the string.

Characters are bytes (`Char.ofNat 0 … 255`).
-/
import Qsx.Generated.Tables
import Qsx.Model.Num

namespace Qsx.LpLex

def NUL : Char := Char.ofNat 0

/-- `line[i]` for a string whose text is `b`: the text, then the terminator, then nothing that belongs to it -/
def rd (b : List Char) (i : Nat) : Option Char :=
  if h : i < b.length then some b[i] else if i = b.length then some NUL else none

/-- `ILL_ISBLANK` (rawlp.h:43) -/
def isBlank (c : Char) : Bool := c == ' ' || c == '\t' || c == '\r' || c == Char.ofNat 12

/-- `END_LINE` (read_lp.c:61) -/
def endLine (c : Char) : Bool := c == '\\' || c == '\n' || c == NUL

/-- `isspace` in the C locale (used by `sscanf("%s")`) -/
def isSpace (c : Char) : Bool := c == ' ' || (Char.ofNat 9 ≤ c && c ≤ Char.ofNat 13)

def isAlpha (c : Char) : Bool := ('a' ≤ c && c ≤ 'z') || ('A' ≤ c && c ≤ 'Z')

/-- `ILLis_lp_name_char (c, pos)` (lp.c:89-98); the punctuation set is re-extracted from the source -/
def isNameChar (c : Char) (pos : Nat) : Bool :=
  isAlpha c || (pos > 0 && Num.isDigit c) || (pos > 0 && c == '.') ||
  (c != NUL && Gen.lpNameSpecials.toList.contains c)

def lower (c : Char) : Char := if 'A' ≤ c && c ≤ 'Z' then Char.ofNat (c.toNat + 32) else c

/-- `strcasecmp (a, b) == 0` -/
def eqCI (a b : List Char) : Bool := a.map lower == b.map lower

/-- `strncasecmp (s, str, strlen str) == 0` for a `str` without NUL: `str` is a prefix of `s`, case-insensitively -/
def prefixCI (s str : List Char) : Bool := eqCI (s.take str.length) str && str.length ≤ s.length

/-- the loop `while (P (*p, k)) { p++; k++; }` on the rest of the string (`[]` = the cursor is on the terminator) -/
def scanFrom (P : Char → Nat → Bool) : List Char → Nat → Nat → Option Nat
  | [], i, k => if P NUL k then none else some i          -- `none`: stepped over the terminator
  | c :: cs, i, k => if P c k then scanFrom P cs (i + 1) (k + 1) else some i

/-- the loop `while (P (*p, k)) { p++; k++; }` started at position `i`: the position it stops at -/
def scanWhile (P : Char → Nat → Bool) (b : List Char) (i k : Nat) : Option Nat :=
  if i ≤ b.length then scanFrom P (b.drop i) i k else none

/-- the loop `while (P (*p) && p > line) p--;` on the characters at positions `i, i-1, …` -/
def backFrom (P : Char → Bool) : List Char → Nat → Nat
  | _, 0 => 0
  | [], i => i
  | c :: cs, i + 1 => if P c then backFrom P cs i else i + 1

/-- the loop `while (P (*p) && p > line) p--;` started at position `i` -/
def scanBack (P : Char → Bool) (b : List Char) (i : Nat) : Option Nat :=
  if i ≤ b.length then some (backFrom P ((b ++ [NUL]).take (i + 1)).reverse i) else none

inductive Bnd
  | val (q : Rat)
  | pinf
  | ninf
deriving Repr, BEq, Inhabited

structure St where
  line : List Char := []            -- state->line (text before the terminator)
  p : Nat := 0                      -- state->p - state->line
  eof : Bool := false
  lineNum : Nat := 0
  field : List Char := []
  firstCol : Bool := false          -- fieldOnFirstCol
  sense : Char := ' '
  bound : Bnd := .val 0
  file : List (List Char) := []     -- what the line reader will still deliver, one `fgets` result each
deriving Repr, Inhabited

/-- `fgets` with buffer size `size`: at most `size - 1` bytes, a line break ends the piece -/
def chunks (size : Nat) (bytes : List Char) : List (List Char) :=
  let rec go (fuel : Nat) (cur : List Char) (n : Nat) (rest : List Char) (acc : List (List Char)) : List (List Char) :=
    match fuel, rest with
    | _, [] => if cur.isEmpty then acc.reverse else (cur.reverse :: acc).reverse
    | 0, _ => acc.reverse
    | f + 1, c :: r =>
      if c == '\n' || n + 2 ≥ size then go f [] 0 r ((c :: cur).reverse :: acc)
      else go f (c :: cur) (n + 1) r acc
  go (bytes.length + 1) [] 0 bytes []

/-- text of a C string copied out of a buffer holding `bytes`: up to the first NUL -/
def cstr (bytes : List Char) : List Char := bytes.takeWhile (· != NUL)

/-- `ILLread_lp_state_next_line`; returns the C return value -/
def nextLine (s : St) : Option (St × Int) :=
  if s.eof then some (s, 1) else
  let rec go : List (List Char) → Nat → Option (St × Int)
    | [], n => some ({ s with eof := true, lineNum := n + 1, field := [], line := [], p := 0, firstCol := false, file := [] }, 1)
    | raw :: rest, n => do
      let line := (cstr raw).takeWhile (· != '\\')       -- strcpy, then the comment is cut off
      let p ← scanWhile (fun c _ => isBlank c) line 0 0
      let c ← rd line p
      if !endLine c then some ({ s with line := line, p := p, lineNum := n + 1, file := rest }, 0)
      else go rest (n + 1)
  go s.file s.lineNum

/-- `ILLread_lp_state_skip_blanks` -/
def skipBlanks (s : St) (wrap : Bool) : Option (St × Int) := do
  let p ← scanWhile (fun c _ => isBlank c) s.line s.p 0
  let s := { s with p := p }
  let c ← rd s.line p
  if endLine c then
    if wrap then
      let (s', r) ← nextLine s
      -- next_line answers 0 only with the cursor on a character that is neither blank nor END_LINE,
      -- so the enclosing `while (1)` returns 0 on its next round
      if r != 0 then some (s', 1) else some (s', 0)
    else some (s, 0)
  else some (s, 0)

/-- `sscanf (str, "%s", field)`: `none` = EOF (nothing but white space) -/
def sscanfS (str : List Char) : Option (List Char) :=
  let t := str.dropWhile isSpace
  if t.isEmpty then none else some (t.takeWhile (fun c => !isSpace c))

/-- `next_field (state, acrossLines)` -/
def nextField (s : St) (across : Bool) : Option (St × Int) := do
  let (s, _) ← skipBlanks s across
  if s.eof then return (s, 1)
  let s := { s with firstCol := s.p == 0 }
  match sscanfS (s.line.drop s.p) with
  | some f => return ({ s with field := f, p := s.p + f.length }, 0)    -- p += strlen (field)
  | none => return (s, 1)

/-- `ILLlp_error` / `ILLlp_warn` (lp_err with ILLread_lp_state_print_at): the message goes to the log; the cursor
moves over blanks, and the word at the cursor is printed -/
def lpError (s : St) : Option St := do
  let (s, _) ← skipBlanks s false
  if !s.eof then
    let c ← rd s.line s.p
    if c != '\n' then
      let q ← scanWhile (fun c _ => isBlank c) s.line s.p 0
      let _ ← scanWhile (fun c _ => !isBlank c && !endLine c) s.line q 0
  return s

/-- `ILLread_lp_state_prev_field` -/
def prevField (s : St) : Option St := do
  let p := if s.p > 0 then s.p - 1 else s.p
  let p ← scanBack isBlank s.line p
  let p ← scanBack (fun c => !isBlank c) s.line p
  return { s with p := p, firstCol := p == 0 }

def keywords : List (List Char) := Gen.lpKeywords.map String.toList

/-- `ILLread_lp_state_next_var`: 0 = a name, 1 = none, -1 = a reserved word at the start of a line -/
def nextVar (s : St) : Option (St × Int) := do
  let (s, r) ← skipBlanks s true
  if r != 0 then return (s, 1)
  let s := { s with firstCol := s.p == 0 }
  let q ← scanWhile isNameChar s.line s.p 0
  let len := q - s.p
  if len == 0 then return (s, 1)
  let name := (s.line.drop s.p).take len
  if s.firstCol && keywords.any (fun k => k.length == len && eqCI k name) then return (s, -1)
  return ({ s with field := name, p := q }, 0)

/-- `ILLtest_lp_state_keyword (state, kwd)` -/
def testKeyword (s : St) (kwd : List (List Char)) : Int :=
  if !s.eof && s.firstCol && kwd.any (fun k => eqCI s.field k) then 0 else 1

/-- `ILLread_lp_state_bad_keyword` -/
def badKeyword (s : St) : Option (St × Int) := do
  if !s.firstCol then
    let s ← lpError s
    return (s, 1)
  return (s, 0)

/-- `ILLread_lp_state_keyword` -/
def keyword (s : St) (kwd : List (List Char)) : Option (St × Int) := do
  if s.eof then return (s, 1)
  let (s, r) ← badKeyword s
  if r != 0 then return (s, 1)
  return (s, testKeyword s kwd)

/-- `ILLread_lp_state_colon` -/
def colon (s : St) : Option (St × Int) := do
  let (s, r) ← skipBlanks s true
  if r != 0 then return (s, 1)
  let c ← rd s.line s.p
  if c == ':' then return ({ s with p := s.p + 1 }, 0) else return (s, 1)

/-- `ILLread_lp_state_has_colon` -/
def hasColon (s : St) : Option (St × Int) := do
  let (s, _) ← skipBlanks s false
  let q ← scanWhile (fun c _ => !endLine c && c != ':') s.line s.p 0
  let c ← rd s.line q
  return (s, if c == ':' then 1 else 0)

/-- `ILLread_lp_state_next_constraint` -/
def nextConstraint (s : St) : Option (St × Int) := do
  let ln := s.lineNum
  let (s, _) ← skipBlanks s true
  if s.eof then return (s, 1)
  if ln == s.lineNum then
    let s ← lpError s                                -- "Constraints must start on a new line."
    return (s, 1)
  let (s, r) ← nextField s true
  if r == 0 then
    let rv := testKeyword s keywords
    let s ← prevField s
    return (s, if rv == 0 then 1 else 0)
  return (s, 0)

/-- `ILLread_lp_state_sign`: (state, return value, sign) -/
def sign (s : St) : Option (St × Int × Int) := do
  let (s, r) ← skipBlanks s true
  if r != 0 then return (s, 1, 1)
  let c ← rd s.line s.p
  if c == '+' then return ({ s with p := s.p + 1 }, 0, 1)
  if c == '-' then return ({ s with p := s.p + 1 }, 0, -1)
  return (s, 1, 1)

/-- `ILLtest_lp_state_next_is (state, str)` -/
def testNextIs (s : St) (str : List Char) : Option (St × Int) := do
  let (s, _) ← skipBlanks s false
  if prefixCI (s.line.drop s.p) str then
    let c ← rd s.line (s.p + str.length)
    if !isNameChar c 1 then return ({ s with p := s.p + str.length }, 1)
  return (s, 0)

/-- `ILLread_lp_state_value` with the mpq `ILLget_value`: (state, return value, coefficient written) -/
def value (s : St) : Option (St × Int × Option Rat) := do
  let (s, r) ← skipBlanks s true
  if r != 0 then return (s, 1, none)
  let s := { s with firstCol := s.p == 0 }
  match Num.scan (s.line.drop s.p) with
  | (n, .ok q) => if n > 0 then return ({ s with p := s.p + n }, 0, some q) else return (s, 1, some 1)
  | (_, .none) => return (s, 1, some 1)            -- nothing read: the coefficient is set to 1

/-- the INF / INFINITY branch of possible_bound_value (`len` characters matched): the word must end there -/
def infWord (s : St) (sg : Int) (len : Nat) : Option (St × Int) := do
  let q := s.p + len
  let c ← rd s.line q
  let (s', _) ← skipBlanks { s with p := q } false
  if !endLine c && s'.p == q then return (s, 0)              -- a longer word: the cursor goes back
  else return ({ s' with bound := if sg < 0 then .ninf else .pinf }, 1)

/-- `ILLread_lp_state_possible_bound_value` -/
def possibleBoundValue (s : St) : Option (St × Int) := do
  let (s, _, sg) ← sign s
  let rest := s.line.drop s.p
  if prefixCI rest "INFINITY".toList then infWord s sg 8
  else if prefixCI rest "INF".toList then infWord s sg 3
  else
    let (s, r, v) ← value s
    match v with
    | some q =>
      if r == 0 then return ({ s with bound := .val (q * sg) }, 1)
      else return ({ s with bound := .val q }, 0)
    | none => return (s, 0)

/-- `ILLtest_lp_state_sense (state, all)` -/
def testSense (s : St) (all : Bool) : Option (St × Int) := do
  let s := { s with sense := ' ' }
  let (s, r) ← skipBlanks s true
  if r != 0 then return (s, 0)
  let c ← rd s.line s.p
  let s ← (do
    if !all then
      if c == '=' then return { s with p := s.p + 1, sense := 'E' }
      if c == '<' then
        let c1 ← rd s.line (s.p + 1)
        if c1 == '=' then return { s with p := s.p + 2, sense := 'L' }
      return s
    else
      if c == '<' || c == '>' then
        let c1 ← rd s.line (s.p + 1)
        return { s with sense := if c == '<' then 'L' else 'G', p := if c1 == '=' then s.p + 2 else s.p + 1 }
      if c == '=' then
        let c1 ← rd s.line (s.p + 1)
        if c1 == '<' || c1 == '>' then return { s with sense := if c1 == '<' then 'L' else 'G', p := s.p + 2 }
        return { s with sense := 'E', p := s.p + 1 }
      return s : Option St)
  return (s, if s.sense != ' ' then 1 else 0)

/-- `ILLread_lp_state_sense` -/
def readSense (s : St) : Option (St × Int) := do
  let (s, r) ← testSense s true
  if r == 0 then
    let _ ← rd s.line s.p                            -- END_LINE (state->p), *state->p
    let s ← lpError s
    return (s, 1)
  return (s, 0)

/-- `ILLcheck_subject_to` -/
def checkSubjectTo (s : St) : Option (St × Int) := do
  let (s, r) ← nextField s true
  if r != 0 then return (s, r)
  let (s, rv) ← (do
    if eqCI s.field "ST".toList then return (← badKeyword s)
    if eqCI s.field "SUBJECT".toList then
      let q ← scanWhile (fun c _ => isBlank c) s.line s.p 0
      if prefixCI (s.line.drop q) "TO".toList then
        let (s, r) ← badKeyword s
        if r == 0 then return ({ s with p := q + 2 }, 0) else return (s, r)
      return (s, 0)
    return (s, 1) : Option (St × Int))
  if rv != 0 then
    let s ← prevField s
    return (s, rv)
  let (s, _) ← skipBlanks s true
  return (s, rv)

/-- `ILLread_lp_state_init` on a reader that will deliver `file` -/
def init (file : List (List Char)) : Option St := do
  let (s, _) ← skipBlanks { file := file } true
  return s

/-- the cursor is inside the string, and the string is one that `next_line` can have produced -/
def Inv (s : St) : Prop := s.p ≤ s.line.length

/-- what is still to be read: the rest of the line and everything the reader has not delivered -/
def remaining (s : St) : Nat := (s.line.length - s.p) + (s.file.map (fun l => l.length + 1)).sum

end Qsx.LpLex
