/-
Model of the two exact certificate tests of `qsopt_ex/exact.c`:
  `QSexact_optimal_test`    (exact.c:390-817)   ↦ `optimalTest`
  `QSexact_infeasible_test` (exact.c:820-928)   ↦ `infeasibleTest`

The LP is the *internal* one (`p->lp->O`): every column (structural and logical) has bounds and an
objective coefficient, rows are equalities `A z = rhs`.  Columns are presented in API order:
`scols[j]` is internal column `structmap[j]`, `lcols[i]` is internal column `rowmap[i]` (the
harness applies the two maps when it dumps the problem, so a wrong map shows as a disagreement).

What is kept from the C text: the order and content of every comparison that decides the verdict,
the way `p_sol` is overwritten from the basis statuses (clipping for basic/free, bound for
at-lower/at-upper), the recomputation of basic logicals from the row, and the cache that is filled.
What is abstracted: the loops run in a fixed direction and stop at the first failing check in C —
the verdict does not depend on that order (all failing paths return 0), so the model evaluates
"all checks hold".  `EXIT (matcnt[rowmap[i]] != 1)` (process exit) and a zero logical coefficient
(GMP division by zero) are outside the model's domain: `ILP.WF` excludes them, `Store`'s invariant
(C06) establishes `WF`, and the harness never sends such a problem.
-/
import Qsx.Model.Basic
import Qsx.Generated.Tables

namespace Qsx
open Qsx.Gen

structure Col where
  ent : List (Nat × Rat)   -- (row index, coefficient) as stored in matind/matval
  lo  : Rat
  up  : Rat
  obj : Rat
deriving Inhabited, Repr, BEq

structure ILP where
  nrows : Nat
  scols : Array Col
  lcols : Array Col
  rhs   : Array Rat
  isMin : Bool            -- `qslp->objsense == QS_MIN`
deriving Inhabited, Repr

structure Cache where
  val   : Rat
  x     : Array Rat
  rc    : Array Rat
  slack : Array Rat
  pi    : Array Rat
deriving Inhabited, Repr, BEq

namespace ILP
@[inline] def ns (P : ILP) : Nat := P.scols.size
@[inline] def scol (P : ILP) (j : Nat) : Col := P.scols.getD j default
@[inline] def lcol (P : ILP) (i : Nat) : Col := P.lcols.getD i default
@[inline] def b (P : ILP) (i : Nat) : Rat := rget P.rhs i
end ILP

/-- `Σ_e a_e · y[row e]` over the stored entries of a column -/
def entDot (ent : List (Nat × Rat)) (y : Nat → Rat) : Rat :=
  lsum (ent.map fun e => e.2 * y e.1)

/-- coefficient of a column in row `i` (entries with the same row index add up, as the C
    accumulation `rhs_copy[iarr1[j]] += …` does) -/
def entAt (ent : List (Nat × Rat)) (i : Nat) : Rat :=
  lsum (ent.map fun e => if e.1 = i then e.2 else 0)

/-- the single coefficient of a logical column: `A.matval[A.matbeg[rowmap[i]]]` -/
def Col.coef (c : Col) : Rat := match c.ent with
  | e :: _ => e.2
  | [] => 0

/-- `rhs_copy[i]` of exact.c:513-526 -/
def structAct (P : ILP) (x : Nat → Rat) (i : Nat) : Rat :=
  sumTo P.ns fun j => entAt (P.scol j).ent i * x j

def clip (v lo up : Rat) : Rat := if up < v then up else if v < lo then lo else v

def validCstat (st : Nat) : Bool :=
  st == cstatLower || st == cstatUpper || st == cstatBasic || st == cstatFree
def validRstat (st : Nat) : Bool :=
  st == rstatLower || st == rstatUpper || st == rstatBasic

/-- value forced on a column by its basis status (exact.c:450-471 / 489-509) -/
def valByStat (c : Col) (isUpper isLower : Bool) (v : Rat) : Rat :=
  if isUpper then c.up else if isLower then c.lo else clip v c.lo c.up

def xStruct (P : ILP) (cs : Array Nat) (ps : Array Rat) (j : Nat) : Rat :=
  valByStat (P.scol j) (nget cs j == cstatUpper) (nget cs j == cstatLower) (rget ps j)

def sPre (P : ILP) (rs : Array Nat) (ps : Array Rat) (i : Nat) : Rat :=
  valByStat (P.lcol i) (nget rs i == rstatUpper) (nget rs i == rstatLower) (rget ps (P.ns + i))

/-- final value of logical `i` (exact.c:536-557): recomputed from the row when basic -/
def slackVal (P : ILP) (rs : Array Nat) (ps : Array Rat) (x : Nat → Rat) (i : Nat) : Rat :=
  if nget rs i == rstatBasic then (P.b i - structAct P x i) / (P.lcol i).coef else sPre P rs ps i

/-- equality check for a non-basic logical (exact.c:543-555) -/
def rowEqOK (P : ILP) (rs : Array Nat) (ps : Array Rat) (x : Nat → Rat) (i : Nat) : Bool :=
  nget rs i == rstatBasic || decide (sPre P rs ps i * (P.lcol i).coef = P.b i - structAct P x i)

def dzOf (c : Col) (y : Nat → Rat) : Rat := c.obj - entDot c.ent y

/-- `objsense * sign dz > 0` -/
def posDir (isMin : Bool) (d : Rat) : Bool := if isMin then decide (0 < d) else decide (d < 0)
/-- `objsense * sign dz < 0` -/
def negDir (isMin : Bool) (d : Rat) : Bool := if isMin then decide (d < 0) else decide (0 < d)

/-- contribution of one column to `d_obj` (exact.c:609-618) -/
def dualContrib (isMin : Bool) (c : Col) (d : Rat) : Rat :=
  if posDir isMin d then d * c.lo else d * c.up

/-- the two complementary-slackness products (exact.c:622-657) -/
def csOK (isMin : Bool) (c : Col) (v d : Rat) : Bool :=
  (!posDir isMin d || decide ((v - c.lo) * d = 0)) &&
  (!negDir isMin d || decide ((v - c.up) * d = 0))

def countBasic (cs rs : Array Nat) : Nat :=
  (cs.toList.filter (· == cstatBasic)).length + (rs.toList.filter (· == rstatBasic)).length

/-- which check rejected (only used for coverage statistics of the correspondence run) -/
inductive OptReason
  | ok | loadBasis | emptyStruct | badCstat | emptyLogical | badRstat | rowEq | logLower | logUpper
  | csStruct | csLogical | objDiffer
deriving Repr, BEq, DecidableEq

def xArr (P : ILP) (cs : Array Nat) (ps : Array Rat) : Array Rat := tab P.ns (xStruct P cs ps)
def sArr (P : ILP) (cs rs : Array Nat) (ps : Array Rat) : Array Rat :=
  tab P.nrows (slackVal P rs ps (rget (xArr P cs ps)))
def dzSArr (P : ILP) (ds : Array Rat) : Array Rat := tab P.ns fun j => dzOf (P.scol j) (rget ds)
def dzLArr (P : ILP) (ds : Array Rat) : Array Rat := tab P.nrows fun i => dzOf (P.lcol i) (rget ds)

/-- `p_obj` (exact.c:597-598, 664-668) -/
def pObj (P : ILP) (xa sa : Array Rat) : Rat :=
  sumTo P.ns (fun j => (P.scol j).obj * rget xa j) + sumTo P.nrows (fun i => (P.lcol i).obj * rget sa i)

/-- `d_obj` (exact.c:534-535, 609-618, 679-688) -/
def dObj (P : ILP) (ds dzS dzL : Array Rat) : Rat :=
  sumTo P.nrows (fun i => P.b i * rget ds i)
  + sumTo P.ns (fun j => dualContrib P.isMin (P.scol j) (rget dzS j))
  + sumTo P.nrows (fun i => dualContrib P.isMin (P.lcol i) (rget dzL i))

/-- the chain of checks in the order the C function performs them; `.ok` iff none rejects -/
def optReason (P : ILP) (cs rs : Array Nat) (ps ds : Array Rat) : OptReason :=
  -- mpq_QSload_basis: sizes and number of basic entries (qsopt.c:1689, 2028)
  if cs.size ≠ P.ns ∨ rs.size ≠ P.nrows ∨ countBasic cs rs ≠ P.nrows then .loadBasis else
  if !(allTo P.ns fun j => decide ((P.scol j).lo ≤ (P.scol j).up)) then .emptyStruct else
  if !(allTo P.ns fun j => validCstat (nget cs j)) then .badCstat else
  if !(allTo P.nrows fun i => decide ((P.lcol i).lo ≤ (P.lcol i).up)) then .emptyLogical else
  if !(allTo P.nrows fun i => validRstat (nget rs i)) then .badRstat else
  if !(allTo P.nrows fun i => rowEqOK P rs ps (rget (xArr P cs ps)) i) then .rowEq else
  if !(allTo P.nrows fun i => decide ((P.lcol i).lo ≤ rget (sArr P cs rs ps) i)) then .logLower else
  if !(allTo P.nrows fun i => decide (rget (sArr P cs rs ps) i ≤ (P.lcol i).up)) then .logUpper else
  if !(allTo P.ns fun j => csOK P.isMin (P.scol j) (rget (xArr P cs ps) j) (rget (dzSArr P ds) j)) then
    .csStruct else
  if !(allTo P.nrows fun i => csOK P.isMin (P.lcol i) (rget (sArr P cs rs ps) i) (rget (dzLArr P ds) i)) then
    .csLogical else
  if pObj P (xArr P cs ps) (sArr P cs rs ps) ≠ dObj P ds (dzSArr P ds) (dzLArr P ds) then .objDiffer else
  .ok

/-- the cache filled at exact.c:759-772 -/
def optCache (P : ILP) (cs rs : Array Nat) (ps ds : Array Rat) : Cache :=
  { val := pObj P (xArr P cs ps) (sArr P cs rs ps), x := xArr P cs ps, rc := dzSArr P ds,
    slack := sArr P cs rs ps, pi := tab P.nrows (rget ds) }

def optimalTest (P : ILP) (cs rs : Array Nat) (ps ds : Array Rat) : Option Cache :=
  if optReason P cs rs ps ds = .ok then some (optCache P cs rs ps ds) else none

/-- `p_sol` as the caller sees it after an accepting call: overwritten by the values used -/
def optPsolAfter (P : ILP) (cs rs : Array Nat) (ps : Array Rat) : Array Rat :=
  xArr P cs ps ++ sArr P cs rs ps

/-! ### Farkas test -/

/-- `num1` of exact.c:867-874: minus the column's product with the multipliers -/
def farkasT (c : Col) (y : Nat → Rat) : Rat := - entDot c.ent y

/-- refusal conditions exact.c:879-900 -/
def farkasColOK (pinf ninf : Rat) (c : Col) (t : Rat) : Bool :=
  !(c.up == pinf && decide (t < 0)) && !(c.lo == ninf && decide (0 < t))

/-- `dl*lower + du*upper` -/
def farkasContrib (c : Col) (t : Rat) : Rat := if t < 0 then t * c.up else t * c.lo

def farkasObj (P : ILP) (y : Nat → Rat) : Rat :=
  sumTo P.nrows (fun i => P.b i * y i)
  + sumTo P.ns (fun j => farkasContrib (P.scol j) (farkasT (P.scol j) y))
  + sumTo P.nrows (fun i => farkasContrib (P.lcol i) (farkasT (P.lcol i) y))

/-- `pinf`/`ninf` are the values of `mpq_ILL_MAXDOUBLE` / `mpq_ILL_MINDOUBLE` -/
def infeasibleTest (P : ILP) (pinf ninf : Rat) (ds : Array Rat) : Bool :=
  let y := rget ds
  (allTo P.ns fun j => farkasColOK pinf ninf (P.scol j) (farkasT (P.scol j) y)) &&
  (allTo P.nrows fun i => farkasColOK pinf ninf (P.lcol i) (farkasT (P.lcol i) y)) &&
  decide (0 < farkasObj P y)

end Qsx
