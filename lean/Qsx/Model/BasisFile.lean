/-
Model of the basis-file codec: `ILLlib_writebasis` (lib.c:3962-4076) ↦ `encode`,
`ILLlib_readbasis` (lib.c:3741-3960) ↦ `decode`.

Lines are kept at index level (`XL j i`, `XU j i`, `UL j`, `LL j`); the correspondence check renders
them with the problem's names and compares with the file text byte for byte, and reads files back
through the real reader.  Names are assumed distinct and free of white space (the property's
"names needing no repair"), which makes name ↔ index a bijection.
-/
import Qsx.Model.Basic
import Qsx.Generated.Tables

namespace Qsx.BasisFile
open Qsx.Gen

inductive Line
  | XL (col row : Nat)
  | XU (col row : Nat)
  | UL (col : Nat)
  | LL (col : Nat)
deriving Repr, BEq, DecidableEq, Inhabited

/-- skip columns until a basic one (lib.c:4029-4032): index of the basic column and the statuses
after it -/
def findBasic : Nat → List Nat → Option (Nat × List Nat)
  | _, [] => none
  | j, c :: cs => if c = cstatBasic then some (j, cs) else findBasic (j+1) cs

/-- the two-pointer loop lib.c:4019-4052: every non-basic row is paired with the next basic column -/
def pairUp : Nat → List Nat → Nat → List Nat → Option (List Line)
  | _, [], _, _ => some []
  | i, r :: rs, j, cs =>
    if r = rstatBasic then pairUp (i+1) rs j cs
    else match findBasic j cs with
      | none => none                                  -- "No basic column to match non-basic row"
      | some (j', cs') =>
        match pairUp (i+1) rs (j'+1) cs' with
        | none => none
        | some l => some ((if r = rstatLower then Line.XL j' i else Line.XU j' i) :: l)

/-- `UL` lines for the columns at upper bound (lib.c:4056-4062) -/
def upperLines : Nat → List Nat → List Line
  | _, [] => []
  | j, c :: cs => if c = cstatUpper then Line.UL j :: upperLines (j+1) cs else upperLines (j+1) cs

def encode (cstat rstat : List Nat) : Option (List Line) :=
  (pairUp 0 rstat 0 cstat).map (· ++ upperLines 0 cstat)

/-- effect of one line on the two status arrays (lib.c:3843-3870) -/
def applyLine (st : List Nat × List Nat) : Line → List Nat × List Nat
  | .XL c r => (st.1.set c cstatBasic, st.2.set r rstatLower)
  | .XU c r => (st.1.set c cstatBasic, st.2.set r rstatUpper)
  | .UL c => (st.1.set c cstatUpper, st.2)
  | .LL c => (st.1.set c cstatLower, st.2)

/-- "Correct the free variables" (lib.c:3936-3945) -/
def fixFree (free : List Bool) (cstat : List Nat) : List Nat :=
  List.zipWith (fun f c => if f && c == cstatLower then cstatFree else c) free cstat

/-- `free[j]` = column `j` has bounds (−∞, +∞) -/
def decode (free : List Bool) (nrows : Nat) (lines : List Line) : List Nat × List Nat :=
  let st := lines.foldl applyLine (List.replicate free.length cstatLower, List.replicate nrows rstatBasic)
  (fixFree free st.1, st.2)

/-- what a round trip is allowed to change: a non-basic FREE status on a non-free column comes
back at-lower, an at-lower status on a free column comes back FREE; a non-basic row status other
than at-lower is written as `XU` -/
def normalizeC (free : List Bool) (cstat : List Nat) : List Nat :=
  List.zipWith (fun f c =>
    if c == cstatBasic then cstatBasic else if c == cstatUpper then cstatUpper
    else if f then cstatFree else cstatLower) free cstat

def normalizeR (rstat : List Nat) : List Nat :=
  rstat.map fun r => if r == rstatBasic then rstatBasic else if r == rstatLower then rstatLower else rstatUpper

def countBasicC (cstat : List Nat) : Nat := (cstat.filter (· == cstatBasic)).length
def countNonBasicR (rstat : List Nat) : Nat := (rstat.filter (· != rstatBasic)).length

end Qsx.BasisFile
