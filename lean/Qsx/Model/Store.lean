/-
The column store of the LP object (C06 / C17): `ILLmatrix` (matbeg / matcnt / matind / matval with
the free-space bookkeeping matsize / matfree and the `-1` markers) together with `structmap` and
`rowmap`, and the functions that edit it — a transliteration, loop by loop, of
lib.c: matrix_addrow (2429-2521), matrix_addrow_end (2523-2613), matrix_addcoef (2617-2712),
matrix_addcol (2715-2789), delcols_work (1815-1903), and the matrix parts of ILLlib_addrow,
ILLlib_addcol, ILLlib_delrows, ILLlib_delcols, ILLlib_chgcoef.
The harness dumps the raw arrays after every call (`dumpraw`); the model driver replays the same
calls here and the two dumps are compared field by field.
-/
import Qsx.Generated.Tables
import Qsx.Model.Basic
import Qsx.Model.StoreAcct

namespace Qsx.Store
open Qsx

structure M where
  matrows : Nat := 0
  matcols : Nat := 0
  matsize : Nat := 0
  matfree : Int := 0          -- Int: the C field is an int and the code relies on comparisons with it
  matcolsize : Nat := 0
  matbeg : Array Nat := #[]
  matcnt : Array Nat := #[]
  matind : Array Int := #[]
  matval : Array Rat := #[]
  nstruct : Nat := 0
  structmap : Array Nat := #[]
  rowmap : Array Nat := #[]
deriving Repr, Inhabited

@[inline] def geti (a : Array Int) (i : Nat) : Int := a.getD i 0
@[inline] def getn (a : Array Nat) (i : Nat) : Nat := a.getD i 0

/-- `realloc` to `n` entries (new entries unspecified in C; `fill` here, never read before written) -/
def growTo {α : Type} (a : Array α) (n : Nat) (fill : α) : Array α :=
  if a.size < n then a ++ Array.replicate (n - a.size) fill else a

/-- used space `matsize - matfree` -/
def used (A : M) : Nat := (A.matsize - A.matfree).toNat

/-- writes recorded for the bounds theorem: every index stored into matind/matval by an operation -/
abbrev Writes := List Nat

/-- `matrix_addcol` -/
def matrixAddcol (A : M) (colind : List Nat) (colval : List Rat) : M × Writes := Id.run do
  let colcnt := colind.length
  let mut A := A
  if A.matcolsize < A.matcols + 1 then
    A := { A with matbeg := growTo A.matbeg (A.matcolsize + Gen.extraCols) 0,
                  matcnt := growTo A.matcnt (A.matcolsize + Gen.extraCols) 0,
                  matcolsize := A.matcolsize + Gen.extraCols }
  if A.matfree < (colcnt : Int) + 1 then
    let add := colcnt + Gen.extraMat + 1
    A := { A with matind := growTo A.matind (A.matsize + add) (-1),
                  matval := growTo A.matval (A.matsize + add) 0,
                  matsize := A.matsize + add, matfree := A.matfree + add }
  let ind0 := used A
  A := { A with matbeg := (growTo A.matbeg (A.matcols + 1) 0).set! A.matcols ind0,
                matcnt := (growTo A.matcnt (A.matcols + 1) 0).set! A.matcols colcnt }
  let mut w : Writes := []
  if colcnt == 0 then
    A := { A with matind := A.matind.set! ind0 1, matfree := A.matfree - 1 }
    w := [ind0]
  else
    let mut ind := ind0
    for (r, v) in colind.zip colval do
      A := { A with matind := A.matind.set! ind (r : Int), matval := A.matval.set! ind v }
      w := ind :: w
      ind := ind + 1
    A := { A with matfree := A.matfree - colcnt }
  A := { A with matcols := A.matcols + 1 }
  return (A, w)

/-- `matrix_addrow_end`: rebuild the store with room for the new row's entries -/
def matrixAddrowEnd (A : M) (row : Nat) (rowind : List Nat) (rowval : List Rat) : M × Writes := Id.run do
  let rowcnt := rowind.length
  let ncols := A.matcols
  let newsize := A.matsize + rowcnt + Gen.extraMat
  let mut cnt := A.matcnt
  for j in rowind do
    cnt := cnt.set! j (getn cnt j + 1)
  let mut newbeg : Array Nat := Array.replicate (max A.matcolsize ncols) 0
  let mut total := 0
  for j in [0:ncols] do
    newbeg := newbeg.set! j total
    total := total + (if getn cnt j > 0 then getn cnt j else 1)
  let mut newind : Array Int := Array.replicate newsize 0
  let mut newval : Array Rat := Array.replicate newsize 0
  for j in [total:newsize] do
    newind := newind.set! j (-1)
  let mut w : Writes := []
  for j in [0:ncols] do
    if getn A.matcnt j > 0 then
      let mut start := getn newbeg j
      for k in [getn A.matbeg j : getn A.matbeg j + getn A.matcnt j] do
        newind := newind.set! start (geti A.matind k)
        newval := newval.set! start (rget A.matval k)
        w := start :: w
        start := start + 1
    else
      newind := newind.set! (getn newbeg j) 1
      w := getn newbeg j :: w
  let mut mc := A.matcnt
  for (j, v) in rowind.zip rowval do
    let pos := getn newbeg j + getn mc j
    newind := newind.set! pos (row : Int)
    newval := newval.set! pos v
    w := pos :: w
    mc := mc.set! j (getn mc j + 1)
  return ({ A with matsize := newsize, matfree := (newsize : Int) - total, matbeg := newbeg, matcnt := mc,
                   matind := newind, matval := newval }, w)

/-- space demand of a new row: `cnt + 2` for every touched column that has no free slot behind it -/
def rowDelta (A : M) (rowind : List Nat) : Nat :=
  rowind.foldl (fun d j =>
    if getn A.matcnt j > 0 &&
       (getn A.matbeg j + getn A.matcnt j + 1 > A.matsize || geti A.matind (getn A.matbeg j + getn A.matcnt j) != -1)
    then d + getn A.matcnt j + 2 else d) 0

/-- `matrix_addrow`; also returns what happened to each touched column (for the free-space accounting
`Qsx.StoreAcct`; empty when the store was rebuilt by `matrix_addrow_end`) -/
def matrixAddrow (A : M) (rowind : List Nat) (rowval : List Rat) : M × Writes × List StoreAcct.Act := Id.run do
  let delta := rowDelta A rowind
  if (delta : Int) < A.matfree then
    let mut A := A
    let mut w : Writes := []
    let mut acts : List StoreAcct.Act := []
    for (j, v) in rowind.zip rowval do
      let b := getn A.matbeg j
      let c := getn A.matcnt j
      if c == 0 then
        A := { A with matind := A.matind.set! b (A.matrows : Int), matval := A.matval.set! b v, matcnt := A.matcnt.set! j 1 }
        w := b :: w
        acts := acts ++ [.first]
      else if geti A.matind (b + c) == -1 then
        A := { A with matind := A.matind.set! (b + c) (A.matrows : Int), matval := A.matval.set! (b + c) v }
        w := (b + c) :: w
        acts := acts ++ [.inPlace (b + c == used A)]
        if b + c == used A then
          A := { A with matfree := A.matfree - 1 }
        A := { A with matcnt := A.matcnt.set! j (c + 1) }
      else
        let memo := used A + 1
        let mut ind := memo
        for k in [b : b + c] do
          A := { A with matind := (A.matind.set! ind (geti A.matind k)).set! k (-1), matval := A.matval.set! ind (rget A.matval k) }
          w := ind :: w
          ind := ind + 1
        A := { A with matind := A.matind.set! ind (A.matrows : Int), matval := A.matval.set! ind v }
        w := ind :: w
        acts := acts ++ [.move c]
        A := { A with matbeg := A.matbeg.set! j memo, matcnt := A.matcnt.set! j (c + 1), matfree := A.matfree - ((c + 1 : Nat) + 1) }
    return ({ A with matrows := A.matrows + 1 }, w, acts)
  else
    let (A', w) := matrixAddrowEnd A A.matrows rowind rowval
    return ({ A' with matrows := A'.matrows + 1 }, w, [])

/-- `matrix_addcoef` (row, col in range); returns also whether a new non-zero was created -/
def matrixAddcoef (A : M) (row col : Nat) (v : Rat) : M × Writes × Bool := Id.run do
  let b := getn A.matbeg col
  let c := getn A.matcnt col
  -- existing entry?
  for i in [b : b + c] do
    if geti A.matind i == (row : Int) then
      return ({ A with matval := A.matval.set! i v }, [i], false)
  let delta := c + 2
  if c == 0 then
    return ({ A with matind := A.matind.set! b (row : Int), matval := A.matval.set! b v, matcnt := A.matcnt.set! col 1 }, [b], true)
  else if b + c < A.matsize && geti A.matind (b + c) == -1 then
    let A1 := { A with matind := A.matind.set! (b + c) (row : Int), matval := A.matval.set! (b + c) v }
    let A2 := if b + c == used A then { A1 with matfree := A1.matfree - 1 } else A1
    return ({ A2 with matcnt := A2.matcnt.set! col (c + 1) }, [b + c], true)
  else if A.matfree > (delta : Int) then
    let memo := used A + 1
    let mut A := A
    let mut ind := memo
    let mut w : Writes := []
    for k in [b : b + c] do
      A := { A with matind := (A.matind.set! ind (geti A.matind k)).set! k (-1), matval := A.matval.set! ind (rget A.matval k) }
      w := ind :: w
      ind := ind + 1
    A := { A with matind := A.matind.set! ind (row : Int), matval := A.matval.set! ind v }
    w := ind :: w
    return ({ A with matbeg := A.matbeg.set! col memo, matcnt := A.matcnt.set! col (c + 1), matfree := A.matfree - ((c + 1 : Nat) + 1) }, w, true)
  else
    let (A', w) := matrixAddrowEnd A row [col] [v]
    return (A', w, true)

/-- `delcols_work` on the matrix and the two maps (`mark j` = column `j` is deleted) -/
def delcolsWork (A : M) (mark : Nat → Bool) : M := Id.run do
  let ncols := A.matcols
  let mut A := A
  let mut newidx : Array Int := Array.replicate ncols (-1)
  let mut j := 0
  for i in [0:ncols] do
    if !mark i then
      if i != j then
        A := { A with matbeg := A.matbeg.set! j (getn A.matbeg i), matcnt := A.matcnt.set! j (getn A.matcnt i) }
      newidx := newidx.set! i (j : Int)
      j := j + 1
    else
      for k in [0 : getn A.matcnt i] do
        A := { A with matind := A.matind.set! (getn A.matbeg i + k) (-1) }
  -- structmap
  let mut sm := A.structmap
  let mut jj := 0
  for i in [0:A.nstruct] do
    let k := getn A.structmap i
    if !mark k then
      sm := sm.set! jj (geti newidx k).toNat
      jj := jj + 1
  -- rowmap (a deleted logical maps to -1 in C; the caller packs the map right afterwards)
  let rm := A.rowmap.map fun c => (geti newidx c).toNat
  return { A with structmap := sm, rowmap := rm }

/-! ### API level -/

/-- `ILLlib_addrow`: structural indices through `structmap`, then the logical column -/
def addRow (A : M) (ind : List Nat) (val : List Rat) (logCoef : Rat) : M × Writes × String :=
  let tind := ind.map fun j => getn A.structmap j
  let nrows := A.matrows
  let ncols := A.matcols
  let (A1, w1, acts) := matrixAddrow A tind val
  -- the accounting abstraction, checked against the transliteration: the guard held, at most one column ended the
  -- used space, and running the abstract actions from the old matfree gives the new matfree
  let acct :=
    if acts.isEmpty then "rebuilt"
    -- (a column counted in `rowDelta` may find room after all: an earlier move freed the slots behind it)
    else if StoreAcct.delta acts ≤ rowDelta A tind && decide ((rowDelta A tind : Int) < A.matfree) &&
            StoreAcct.atEndCount acts ≤ 1 && StoreAcct.run A.matfree acts == some A1.matfree then "ok"
    else s!"MISMATCH:delta={StoreAcct.delta acts}/{rowDelta A tind},free={A.matfree},atEnd={StoreAcct.atEndCount acts},run={repr (StoreAcct.run A.matfree acts)},new={A1.matfree}"
  let (A2, w2) := matrixAddcol A1 [nrows] [logCoef]
  ({ A2 with rowmap := (growTo A2.rowmap (nrows + 1) 0).set! nrows ncols }, w1 ++ w2, acct)

/-- `ILLlib_addcol` -/
def addCol (A : M) (ind : List Nat) (val : List Rat) : M × Writes :=
  let ncols := A.matcols
  let (A1, w) := matrixAddcol A ind val
  ({ A1 with structmap := (growTo A1.structmap (A1.nstruct + 1) 0).set! A1.nstruct ncols, nstruct := A1.nstruct + 1 }, w)

/-- `ILLlib_chgcoef` -/
def chgCoef (A : M) (row col : Nat) (v : Rat) : M × Writes :=
  let (A', w, _) := matrixAddcoef A row (getn A.structmap col) v
  (A', w)

/-- `ILLlib_delcols` (structural indices) -/
def delCols (A : M) (del : List Nat) : M :=
  let marked := del.map fun j => getn A.structmap j
  let A1 := delcolsWork A (fun c => marked.contains c)
  let k := (del.eraseDups).length
  { A1 with matcols := A1.matcols - k, nstruct := A1.nstruct - k }

/-- `ILLlib_delrows` -/
def delRows (A : M) (del : List Nat) : M := Id.run do
  let nrows := A.matrows
  let ncols := A.matcols
  let rowmark : Nat → Bool := fun i => del.contains i
  let num := (del.eraseDups).length
  let logs := del.map fun i => getn A.rowmap i
  let mut A := delcolsWork A (fun c => logs.contains c)
  A := { A with matcols := A.matcols - num }
  -- pack the rowmap, new row indices
  let mut rm := A.rowmap
  let mut newrow : Array Nat := Array.replicate nrows 0
  let mut j := 0
  for i in [0:nrows] do
    if !rowmark i then
      rm := rm.set! j (getn A.rowmap i)
      newrow := newrow.set! i j
      j := j + 1
  A := { A with rowmap := rm }
  -- remove the entries of deleted rows
  for i in [0 : ncols - num] do
    let b := getn A.matbeg i
    let c := getn A.matcnt i
    let mut dk := 0
    let mut spot := b
    for jj in [0:c] do
      let r := (geti A.matind (b + jj)).toNat
      if rowmark r then
        dk := dk + 1
      else
        A := { A with matval := A.matval.set! spot (rget A.matval (b + jj)), matind := A.matind.set! spot (getn newrow r : Int) }
        spot := spot + 1
    for s in [spot : b + c] do
      A := { A with matind := A.matind.set! s (-1) }
    A := { A with matcnt := A.matcnt.set! i (c - dk) }
    if c - dk == 0 then
      A := { A with matind := A.matind.set! b 1 }
  return { A with matrows := A.matrows - num }

/-- coefficient lookup (`matrix_getcoef`) -/
def getCoef (A : M) (row col : Nat) : Rat := Id.run do
  let c := getn A.structmap col
  for i in [getn A.matbeg c : getn A.matbeg c + getn A.matcnt c] do
    if geti A.matind i == (row : Int) then
      return rget A.matval i
  return 0

end Qsx.Store
