/-
C12 — basis verdicts are exact.
The verdict model (`Qsx.Verdict`) decides 'optimal' / 'dual feasible' and the dual bound from the
basic solution `(x, s, y)` of a basis, where `isBasicSol` is the multiplication check that pins
that solution down (rows hold, non-basic columns at the bound their status names, basic columns
with reduced cost zero).  The theorems say what an accepted verdict *means* for every LP and every
basis: 'optimal' ⇒ the basic solution is an optimum of the LP; 'dual feasible' ⇒ the reported bound
is the objective value of the basic solution and bounds every feasible point from the right side.
-/
import Qsx.Proofs.VerdictSound

namespace Qsx.Props.C12
open Qsx Qsx.Verdict

theorem optimal_verdict_sound {P : ILP} {cs rs : Array Nat} {b : BSol} (hw : P.WF)
    (hb : isBasicSol P cs rs b = true) (hv : optimalVerdict P cs rs b = true) :
    P.BoxFeasible (rget b.x) (rget b.s) ∧
    ∀ x' s', P.BoxFeasible x' s' → P.better (P.objv (rget b.x) (rget b.s)) (P.objv x' s') :=
  verdict_sound hw hb hv

/-- the verdict is exactly "primal feasible and dual feasible at tolerance zero" -/
theorem optimal_verdict_iff (P : ILP) (cs rs : Array Nat) (b : BSol) :
    optimalVerdict P cs rs b = true ↔ (primalFeasible P b = true ∧ dualFeasible P cs rs b = true) := by
  simp [optimalVerdict]

theorem dual_bound_is_objective {P : ILP} {cs rs : Array Nat} {b : BSol} (hw : P.WF)
    (hb : isBasicSol P cs rs b = true) :
    dualBound P cs rs b = P.objv (rget b.x) (rget b.s) :=
  dualBound_eq_objv hw hb

theorem dual_bound_valid {P : ILP} {cs rs : Array Nat} {b : BSol} (hw : P.WF)
    (hb : isBasicSol P cs rs b = true) (hd : dualFeasible P cs rs b = true)
    (x' s' : Nat → Rat) (hf : P.BoxFeasible x' s') :
    P.better (dualBound P cs rs b) (P.objv x' s') :=
  dualBound_valid hw hb hd x' s' hf

/-- two basic solutions of the same basis that both pass the multiplication check and both get the
verdict 'optimal' have the same objective value: the verdict cannot depend on which exact solve
produced the vectors -/
theorem optimal_value_unique {P : ILP} {cs rs cs' rs' : Array Nat} {b b' : BSol} (hw : P.WF)
    (hb : isBasicSol P cs rs b = true) (hv : optimalVerdict P cs rs b = true)
    (hb' : isBasicSol P cs' rs' b' = true) (hv' : optimalVerdict P cs' rs' b' = true) :
    P.objv (rget b.x) (rget b.s) = P.objv (rget b'.x) (rget b'.s) := by
  obtain ⟨f1, o1⟩ := verdict_sound hw hb hv
  obtain ⟨f2, o2⟩ := verdict_sound hw hb' hv'
  have a := o1 _ _ f2
  have c := o2 _ _ f1
  unfold ILP.better at a c
  split at a <;> simp_all <;> exact Rat.le_antisymm (by assumption) (by assumption)

-- non-vacuity: min x0, x0 ∈ [1,3], one row x0 + s = 4 with s ∈ [0, 10]; basis {s}, x0 at lower
private def P0 : ILP :=
  { nrows := 1, scols := #[{ ent := [(0, 1)], lo := 1, up := 3, obj := 1 }],
    lcols := #[{ ent := [(0, 1)], lo := 0, up := 10, obj := 0 }], rhs := #[4], isMin := true }
private def b0 : BSol := { x := #[1], s := #[3], y := #[0] }
#guard isBasicSol P0 #[Gen.cstatLower] #[Gen.rstatBasic] b0
#guard optimalVerdict P0 #[Gen.cstatLower] #[Gen.rstatBasic] b0
#guard dualBound P0 #[Gen.cstatLower] #[Gen.rstatBasic] b0 == 1
-- x0 at upper instead: still a basic solution, dual infeasible, verdict 'not optimal'
#guard isBasicSol P0 #[Gen.cstatUpper] #[Gen.rstatBasic] { x := #[3], s := #[1], y := #[0] }
#guard !optimalVerdict P0 #[Gen.cstatUpper] #[Gen.rstatBasic] { x := #[3], s := #[1], y := #[0] }

end Qsx.Props.C12
