/-
C07 — invalid arguments are rejected with an error and leave the problem untouched.
The reference model's guards accept exactly the documented argument ranges, for every problem and
every argument value; a rejected call changes nothing.  The correspondence check compares the real
library's return code and its before/after state with this model at every boundary value.
-/
import Qsx.Model.Spec

namespace Qsx.Props.C07
open Qsx.Spec

theorem inRange_iff (i : Int) (n : Nat) : inRange i n = true ↔ 0 ≤ i ∧ i < (n : Int) := by
  simp [inRange]

theorem rejected_iff_invalid_chgCoef (p : Prob) (r c : Int) (v : Rat) :
    (step p (.chgCoef r c v)).2 = .err ↔ ¬ ((0 ≤ r ∧ r < p.rows.size) ∧ (0 ≤ c ∧ c < p.cols.size)) := by
  simp only [step]
  split
  · rename_i h
    simp only [inRange, Bool.and_eq_true, decide_eq_true_eq, Bool.not_eq_true'] at h
    simp only [true_iff]
    intro hh
    simp [hh.1.1, hh.1.2, hh.2.1, hh.2.2] at h
  · rename_i h
    simp only [inRange, Bool.and_eq_true, decide_eq_true_eq, Bool.not_eq_true', Bool.not_eq_false] at h
    simp [h.1.1, h.1.2, h.2.1, h.2.2]

theorem rejected_iff_invalid_delRows (p : Prob) (idx : List Int) :
    (step p (.delRows idx)).2 = .err ↔ ¬ (∀ i ∈ idx, 0 ≤ i ∧ i < p.rows.size) := by
  simp only [step]
  split <;> simp_all [inRange]

theorem rejected_iff_invalid_delCols (p : Prob) (idx : List Int) :
    (step p (.delCols idx)).2 = .err ↔ ¬ (∀ i ∈ idx, 0 ≤ i ∧ i < p.cols.size) := by
  simp only [step]
  split <;> simp_all [inRange]

theorem rejected_iff_invalid_chgBounds (p : Prob) (l : List (Int × Char × Rat)) :
    (step p (.chgBounds l)).2 = .err ↔
      ¬ (∀ e ∈ l, (0 ≤ e.1 ∧ e.1 < p.cols.size) ∧ (e.2.1 = 'L' ∨ e.2.1 = 'U' ∨ e.2.1 = 'B')) := by
  simp only [step]
  split
  · rename_i h
    simp only [true_iff]
    intro hh
    simp only [Bool.not_eq_true', List.all_eq_false] at h
    obtain ⟨e, he, hb⟩ := h
    have := hh e he
    simp [inRange, this.1.1, this.1.2] at hb
    rcases this.2 with h1 | h1 | h1 <;> simp [h1] at hb
  · rename_i h
    simp only [Bool.not_eq_true', Bool.not_eq_false, List.all_eq_true] at h
    simp only [reduceCtorEq, false_iff]
    intro hne
    apply hne
    intro e he
    have := h e he
    simp only [inRange, Bool.and_eq_true, decide_eq_true_eq, Bool.or_eq_true, beq_iff_eq] at this
    exact ⟨this.1, by rcases this.2 with (h1 | h1) | h1 <;> simp [h1]⟩

theorem rejected_iff_invalid_chgSenses (p : Prob) (l : List (Int × Char)) :
    (step p (.chgSenses l)).2 = .err ↔
      ¬ (∀ e ∈ l, (0 ≤ e.1 ∧ e.1 < p.rows.size) ∧ (e.2 = 'L' ∨ e.2 = 'G' ∨ e.2 = 'E' ∨ e.2 = 'R')) := by
  simp only [step]
  split
  · rename_i h
    simp only [true_iff]
    intro hh
    simp only [Bool.not_eq_true', List.all_eq_false] at h
    obtain ⟨e, he, hb⟩ := h
    have := hh e he
    simp [inRange, this.1.1, this.1.2, validSense] at hb
    rcases this.2 with h1 | h1 | h1 | h1 <;> simp [h1] at hb
  · rename_i h
    simp only [Bool.not_eq_true', Bool.not_eq_false, List.all_eq_true] at h
    simp only [reduceCtorEq, false_iff]
    intro hne
    apply hne
    intro e he
    have := h e he
    simp only [inRange, validSense, Bool.and_eq_true, decide_eq_true_eq, Bool.or_eq_true, beq_iff_eq] at this
    exact ⟨this.1, by rcases this.2 with ((h1 | h1) | h1) | h1 <;> simp [h1]⟩

/-- atomicity: whatever the call and the problem, an error return means nothing changed
(list variants included: a list with one bad entry changes nothing) -/
theorem error_leaves_state (p : Prob) (op : Op) (h : (step p op).2 = .err) : (step p op).1 = p := by
  cases op <;> simp only [step] at h ⊢ <;> (repeat' split at h) <;> simp_all

end Qsx.Props.C07
