/-
C19 — the esolver program reports exactly what the library computed.
The solution file lists, per section, the entries `name = value` of the non-zero components.
`decode_encode`: with distinct names that listing determines the full vector — so "precisely the
non-zero values by name" loses nothing, and the check can rebuild x, rc, pi, slack from the file and
hand them to the proved optimality checker of C01/C03.  `entries_exact` is the "precisely" part.
The file-type decision is the total function `ftypeOf`; the correspondence run compares it with
esolver's behaviour on file names of every shape.
-/
import Qsx.Proofs.SolFileRT

namespace Qsx.Props.C19
open Qsx Qsx.SolFile

theorem decode_encode (names : List String) (vals : List Rat) (hd : names.Nodup) (hl : names.length = vals.length) :
    decodeSec names (encodeSec names vals) = vals := SolFile.decode_encode names vals hd hl

theorem entries_exact (names : List String) (vals : List Rat) (e : String × Rat) :
    e ∈ encodeSec names vals ↔ (e ∈ names.zip vals ∧ e.2 ≠ 0) :=
  ⟨fun h => ⟨(encode_mem names vals e h).2, (encode_mem names vals e h).1⟩, fun h => mem_encode names vals e h.1 h.2⟩

/-- `-L` always selects the LP reader -/
theorem force_lp (parts : List String) : ftypeOf true parts = .lp := by simp [ftypeOf]

-- non-vacuity
#guard encodeSec ["x", "y", "z"] [1/2, 0, -3] == [("x", 1/2), ("z", -3)]
#guard decodeSec ["x", "y", "z"] [("x", 1/2), ("z", -3)] == [1/2, 0, -3]
#guard ftypeOf false ["a", "lp"] == .lp && ftypeOf false ["a", "lp", "gz"] == .lp && ftypeOf false ["a", "mps", "bz2"] == .mps
#guard ftypeOf false ["lp"] == .mps && ftypeOf false ["a", "LP", "BZ2"] == .lp && ftypeOf false ["lp", "gz"] == .mps

end Qsx.Props.C19
