/-
C13 — LU-based solves are exact.
The factorization code is not modelled; its *contract* is: forward solves satisfy `B x = a`,
backward solves `yᵀ B = cᵀ`, inverse rows `r B = e_i`, tableau rows `t = r·[A|I]`, for the matrix
obtained from the one handed in by the column-replacement history so far (`replaceCol`).  The
checks below are what the correspondence run evaluates on every output of the real code; the
theorems say what passing them means, for every dimension and every history.
-/
import Qsx.Proofs.LinAlgSound

namespace Qsx.Props.C13
open Qsx Qsx.LinAlg

/-- inverse rows that pass the check determine every forward solve: `x = M a` -/
theorem forward_solve_determined {n : Nat} {B M : Nat → Nat → Rat} {x a : Nat → Rat}
    (hM : ∀ i, i < n → unitRowOK n B i (M i) = true) (hx : solveOK n B x a = true) :
    ∀ i, i < n → x i = sumTo n (fun l => M i l * a l) :=
  solve_eq_of_inverse_rows hM hx

theorem forward_solve_unique {n : Nat} {B M : Nat → Nat → Rat} {x x' a : Nat → Rat}
    (hM : ∀ i, i < n → unitRowOK n B i (M i) = true) (hx : solveOK n B x a = true) (hx' : solveOK n B x' a = true) :
    ∀ i, i < n → x i = x' i :=
  solve_unique hM hx hx'

/-- a matrix with a kernel certificate has no full set of inverse rows: a singular matrix that is
"solved" would be caught by the inverse-row check -/
theorem singular_not_invertible {n : Nat} {B M : Nat → Nat → Rat} {v : Nat → Rat}
    (hk : kernelOK n B v = true) : ¬ (∀ i, i < n → unitRowOK n B i (M i) = true) :=
  no_inverse_of_kernel hk

/-- column replacement with a zero spike entry yields a singular matrix (explicit kernel vector) -/
theorem zero_spike_singular {n : Nat} {B : Nat → Nat → Rat} {w a : Nat → Rat} {p : Nat} (hp : p < n)
    (hw : solveOK n B w a = true) (h0 : w p = 0) :
    kernelOK n (replaceCol B p a) (fun k => if k = p then -1 else w k) = true :=
  singular_update hp hw h0

/-- column replacement with a non-zero spike entry keeps the matrix invertible, for every history:
inverse rows of the updated matrix exist (product-form update) -/
theorem nonzero_spike_invertible {n : Nat} {B M : Nat → Nat → Rat} {w a : Nat → Rat} {p : Nat} (hp : p < n)
    (hM : ∀ i, i < n → unitRowOK n B i (M i) = true)
    (hw : ∀ i, i < n → w i = sumTo n (fun l => M i l * a l)) (hne : w p ≠ 0) :
    ∀ i, i < n → unitRowOK n (replaceCol B p a) i (etaRows M w p i) = true :=
  eta_update hp hM hw hne

theorem tableau_basic_entries {n nall : Nat} {A : Nat → Nat → Rat} {ord : Nat → Nat} {i : Nat} {r t : Nat → Rat}
    (hr : unitRowOK n (basisOf A ord) i r = true) (ht : tabRowOK n nall A r t = true)
    (k : Nat) (hk : k < n) (hord : ord k < nall) : t (ord k) = unit i k :=
  tableau_row_basic hr ht k hk hord

theorem tableau_equation {n nall : Nat} {A : Nat → Nat → Rat} {r t z b : Nat → Rat}
    (ht : tabRowOK n nall A r t = true)
    (hz : ∀ l, l < n → sumTo nall (fun j => A l j * z j) = b l) :
    sumTo nall (fun j => t j * z j) = sumTo n (fun l => r l * b l) :=
  tableau_row_equation ht hz

-- non-vacuity: B = [[1,1],[1,-1]], inverse rows (1/2,1/2),(1/2,-1/2); replacing column 0 by (1,1) is a zero-spike (singular) update
private def B0 : Nat → Nat → Rat := fun i k => if i = 1 ∧ k = 1 then -1 else 1
#guard unitRowOK 2 B0 0 (fun l => (1:Rat)/2) && unitRowOK 2 B0 1 (fun l => if l = 0 then (1:Rat)/2 else -1/2)
#guard solveOK 2 B0 (fun k => if k = 0 then 0 else 1) (fun i => if i = 0 then 1 else -1)
#guard kernelOK 2 (replaceCol B0 0 (fun i => if i = 0 then 1 else -1)) (fun k => if k = 0 then -1 else 1)

end Qsx.Props.C13
