/-
C16 — copies are faithful and independent; reduced-precision copies agree up to conversion error.
`Qsx.Multi` is the store of problem objects with the reference editing semantics per object; the
correspondence run drives the real library and this model with the same interleavings of edits,
copies and frees on several objects and compares what every object shows after every step.
`Qsx.Round.convOK` is the check applied to every number of the `dbl` / `mpf` copies.
-/
import Qsx.Proofs.CopySound

namespace Qsx.Props.C16
open Qsx Qsx.Multi Qsx.Round

theorem copy_faithful (s : Store) (a b : Nat) (p : Spec.Prob) (h : s a = some p) :
    step s (.copy a b) b = some p := Multi.copy_faithful s a b p h

theorem copy_independent (s : Store) (a b : Nat) (p : Spec.Prob) (h : s a = some p) (cs : List Cmd)
    (hcs : ∀ c ∈ cs, b ≠ c.target) : run (step s (.copy a b)) cs b = some p :=
  Multi.copy_independent s a b p h cs hcs

theorem original_independent (s : Store) (a b : Nat) (hab : a ≠ b) (cs : List Cmd)
    (hcs : ∀ c ∈ cs, a ≠ c.target) : run (step s (.copy a b)) cs a = s a :=
  Multi.original_independent s a b hab cs hcs

/-- no command changes what any other object shows -/
theorem objects_isolated (s : Store) (c : Cmd) (k : Nat) (h : k ≠ c.target) : step s c k = s k :=
  step_other s c k h

theorem conversion_relative_error {q d : Rat} {e : Int} {p : Nat} (h : ulpOK q d e p = true) (hd : d ≠ 0) :
    |q - d| ≤ (2 : Rat) ^ (1 - (p : Int)) * |d| := ulpOK_rel h hd

theorem conversion_zero {q : Rat} {e : Int} {p : Nat} (h : ulpOK q 0 e p = true) : q = 0 := ulpOK_zero h

-- non-vacuity: 1/3 truncated to 53 bits is within one ulp; 1/3 against 0.3333 is not; exponents are found
#guard convOK (1/3) (6004799503160661/18014398509481984) 53
#guard !convOK (1/3) (3333/10000) 53
#guard expOf (6004799503160661/18014398509481984) == -2
#guard expOf 4 == 2 && expOf (-5) == 2 && expOf (1/2) == -1
#guard convOK 0 0 53 && !convOK (1/1000000) 0 53

end Qsx.Props.C16
