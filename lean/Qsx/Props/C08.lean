/-
C08 — LP writer/reader round trip: the layers the round trip rests on.
L1 numbers: `Qsx.Props.C10`; L2 bounds section: `lp_bounds_roundtrip`; L3 ranged rows: `range_split`.
The section grammar and line layout around these layers are not modelled (round trips + C11).
-/
import Qsx.Proofs.NumScan
import Qsx.Proofs.LpBoundsRT
import Qsx.Model.LP

namespace Qsx.Props.C08
open Qsx

/-- L3. A ranged row `rhs ≤ a·x ≤ rhs + range` holds exactly when its two one-sided halves
`a·x ≥ rhs` and `a·x ≤ rhs + range` hold — which is how the LP writer renders it. -/
theorem range_split (rhs range v : Rat) (ent : List (Nat × Rat)) :
    LP.rowHolds { sense := 'R', rhs := rhs, range := range, ent := ent } v ↔
      (LP.rowHolds { sense := 'G', rhs := rhs, range := 0, ent := ent } v ∧
       LP.rowHolds { sense := 'L', rhs := rhs + range, range := 0, ent := ent } v) := by
  simp [LP.rowHolds]

/-- L2. The Bounds section of the LP format: for every pair of bounds `lo ≤ up` (infinite bounds as
their encodings), integer column or not, the reader applied to what the writer prints — or omits —
for the column returns the same bounds.  The writer's output is compared with `LpBounds.writeCol`
on every generated file. -/
theorem lp_bounds_roundtrip (lo up pinf ninf : Rat) (isInt : Bool) (hle : lo ≤ up) (hn : ninf < 0) (hp : 1 < pinf) :
    LpBounds.readCol pinf ninf isInt (LpBounds.writeCol lo up pinf ninf isInt) = (lo, up) :=
  LpBounds.read_write lo up pinf ninf isInt hle hn hp

-- non-vacuity: (-inf, 3] prints both bounds; (-inf, -2] prints only the upper one and reads back with lower -inf
#guard LpBounds.writeCol (-1000) 3 1000 (-1000) false == some (.range (some (-1000)) (some 3))
#guard LpBounds.writeCol (-1000) (-2) 1000 (-1000) false == some (.range none (some (-2)))
#guard LpBounds.readCol 1000 (-1000) false (some (.range none (some (-2)))) == (-1000, -2)
#guard LpBounds.writeCol 0 1 1000 (-1000) true == none && LpBounds.readCol 1000 (-1000) true none == (0, 1)

end Qsx.Props.C08
