/-
C08 — LP writer/reader round trip: the layers the round trip rests on.
(placeholder obligations are replaced as the layer proofs land; see DESIGN.md C08)
-/
import Qsx.Proofs.NumScan
import Qsx.Model.LP

namespace Qsx.Props.C08
open Qsx

/-- L3. A ranged row `rhs ≤ a·x ≤ rhs + range` holds exactly when its two one-sided halves
`a·x ≥ rhs` and `a·x ≤ rhs + range` hold — which is how the LP writer renders it. -/
theorem range_split (rhs range v : Rat) (ent : List (Nat × Rat)) :
    LP.rowHolds { sense := 'R', rhs := rhs, range := range, ent := ent } v ↔
      (LP.rowHolds { sense := 'G', rhs := rhs, range := 0, ent := ent } v ∧
       LP.rowHolds { sense := 'L', rhs := rhs + range, range := 0, ent := ent } v) := by
  simp [LP.rowHolds]

end Qsx.Props.C08
