/-
C03 — the reported status and value equal the mathematical truth.
What a theorem can carry: each of the three definitive answers has a certificate checker whose
acceptance implies the answer is true, the three classes exclude each other, the certified optimal
value is unique — so "the truth" is well defined by whichever certificate exists — and the exact
driver runs at most 1 + QS_EXACT_MAX_ITER floating-point stages.
-/
import Qsx.Proofs.ApiSound
import Qsx.Proofs.DriverSound
import Qsx.Proofs.RatioSound

namespace Qsx.Props.C03
open Qsx Qsx.Gen

theorem optimal_cert_sound {L : LP} {pinf ninf : Rat} {x pi : Array Rat} (hw : L.WF)
    (h : L.certOK pinf ninf x pi = true) : L.IsOptimal pinf ninf (rget x) := LP.certOK_sound hw h

theorem farkas_cert_sound {L : LP} {pinf ninf : Rat} {y : Array Rat} (hw : L.WF)
    (h : L.checkFarkas pinf ninf y = true) : ¬ ∃ x, L.Feasible pinf ninf x := LP.checkFarkas_sound hw h

theorem ray_cert_sound {L : LP} {pinf ninf : Rat} {x r : Array Rat}
    (h : L.checkRay pinf ninf x r = true) : L.Unbounded pinf ninf := LP.checkRay_sound h

/-- no LP carries certificates of two different classes -/
theorem classes_exclusive {L : LP} {pinf ninf : Rat} (hw : L.WF) :
    (∀ x pi y, L.certOK pinf ninf x pi = true → L.checkFarkas pinf ninf y = true → False) ∧
    (∀ x pi x0 r, L.certOK pinf ninf x pi = true → L.checkRay pinf ninf x0 r = true → False) ∧
    (∀ x0 r y, L.checkRay pinf ninf x0 r = true → L.checkFarkas pinf ninf y = true → False) :=
  ⟨fun _ _ _ h1 h2 => LP.optimal_farkas_exclusive hw h1 h2,
   fun _ _ _ _ h1 h2 => LP.optimal_ray_exclusive hw h1 h2,
   fun _ _ _ h1 h2 => LP.ray_farkas_exclusive hw h1 h2⟩

theorem value_unique {L : LP} {pinf ninf : Rat} {x₁ pi₁ x₂ pi₂ : Array Rat} (hw : L.WF)
    (h1 : L.certOK pinf ninf x₁ pi₁ = true) (h2 : L.certOK pinf ninf x₂ pi₂ = true) :
    L.objv (rget x₁) = L.objv (rget x₂) := LP.certified_value_unique hw h1 h2

/-- the exact driver consults at most `1 + QS_EXACT_MAX_ITER` floating-point stages, whatever
they answer -/
theorem ladder_bound (P : ILP) (pinf ninf : Rat) (dbl : Stage) (rungs : List Stage) :
    (solve P pinf ninf dbl rungs).stagesUsed ≤ 1 + exactMaxIter := solve_stage_bound P pinf ninf dbl rungs


/-! ### the primal phase-II ratio test (ratio.c:264-455, model `Qsx.Ratio`)

UNBOUNDED is the one definitive status the exact solver does not re-check; it is decided by this
test.  In exact arithmetic (the `mpq` instance: both tolerances 0) and from a basic solution inside
its bounds, the test's answers are sound statements about the step, for every number of rows. -/

open Qsx.Ratio in
/-- whatever the comparison of pass 2 answers (i.e. in any arithmetic), the test never ends
RATIO_FAILED: the row that defined `t_max` always qualifies (fix f07d9ed) -/
theorem ratio_pII_never_failed (leq : Rat → Rat → Bool) (p : Ratio.Par) (hp : 0 ≤ p.pivtol) (rows : List Ratio.Row) :
    (pIIWith leq p rows).stat ≠ .failed := pIIWith_never_failed leq p hp rows

open Qsx.Ratio in
/-- RATIO_UNBOUNDED: every step length up to `inf` keeps every basic variable inside its bounds -/
theorem ratio_pII_unbounded_ray (p : Ratio.Par) (rows : List Ratio.Row) (hpv : p.pivtol = 0)
    (hfeas : ∀ r ∈ rows, inBounds p p.pftol r r.x) (h : (pII p rows).stat = .unbounded) :
    ∀ r ∈ rows, ∀ t, 0 ≤ t → t ≤ p.inf → inBounds p p.pftol r (newx p r t) :=
  pII_unbounded_sound p rows hpv hfeas h

open Qsx.Ratio in
/-- RATIO_NOBCHANGE: the entering variable goes to its other bound and nothing leaves its bounds -/
theorem ratio_pII_flip_feasible (p : Ratio.Par) (rows : List Ratio.Row) (hpv : p.pivtol = 0)
    (hfeas : ∀ r ∈ rows, inBounds p p.pftol r r.x) (hd : 0 ≤ p.eu - p.el)
    (h : (pII p rows).stat = .nobchange) :
    (pII p rows).tz = (if p.incr then p.eu - p.el else -(p.eu - p.el)) ∧ (pII p rows).lindex = -1 ∧
    ∀ r ∈ rows, inBounds p p.pftol r (newx p r (p.eu - p.el)) :=
  pII_nobchange_sound p rows hpv hfeas hd h

open Qsx.Ratio in
/-- RATIO_BCHANGE at tolerance 0: a non-negative step, no bound shift, every basic variable stays
inside its bounds and the leaving one lands exactly on the bound `lvstat` names -/
theorem ratio_pII_step_feasible (p : Ratio.Par) (rows : List Ratio.Row) (hpv : p.pivtol = 0) (hpf : p.pftol = 0)
    (hfeas : ∀ r ∈ rows, inBounds p 0 r r.x) (h : (pII p rows).stat = .bchange) :
    ∃ t c, 0 ≤ t ∧ (pII p rows).tz = (if p.incr then t else -t) ∧ (pII p rows).boundch = false ∧
      0 ≤ (pII p rows).lindex ∧ rows[(pII p rows).lindex.toNat]? = some c ∧
      (pII p rows).pivot = c.y ∧ c.y ≠ 0 ∧
      (∀ r ∈ rows, inBounds p 0 r (newx p r t)) ∧
      (((pII p rows).lvstat = Ratio.statLower ∧ c.l ≠ -p.inf ∧ newx p c t = c.l) ∨
       ((pII p rows).lvstat = Ratio.statUpper ∧ c.u ≠ p.inf ∧ newx p c t = c.u)) :=
  pII_bchange_sound p rows hpv hpf hfeas h

open Qsx.Ratio in
/-- among the rows that reach their bound no later than the chosen step the leaving row has the
largest pivot element -/
theorem ratio_pII_largest_pivot (p : Ratio.Par) (rows : List Ratio.Row) (hpv : p.pivtol = 0) (hpf : p.pftol = 0)
    (hfeas : ∀ r ∈ rows, inBounds p 0 r r.x) (h : (pII p rows).stat = .bchange) :
    ∀ (j : Nat) (r : Ratio.Row), rows[j]? = some r → r.y ≠ 0 → ratio2 p r ≤ absR (pII p rows).tz →
      absR r.y ≤ absR (pII p rows).pivot :=
  pII_bchange_largest_pivot p rows hpv hpf hfeas h

/-- the hypotheses are satisfiable and the three outcomes occur: two rows, increasing entering
column; row 0 blocks at 3/2, row 1 at 2 -/
example :
    let p : Ratio.Par := { inf := 1000, pivtol := 0, pftol := 0, incr := true, ebounded := false, el := 0, eu := 0 }
    let rows : List Ratio.Row := [{ y := 2, x := 3, l := 0, u := 1000 }, { y := -1, x := 1, l := -1000, u := 3 }]
    (Ratio.pII p rows).stat = .bchange ∧ (Ratio.pII p rows).lindex = 0 ∧ (Ratio.pII p rows).tz = 3 / 2 := by
  decide +kernel

example :
    let p : Ratio.Par := { inf := 1000, pivtol := 0, pftol := 0, incr := true, ebounded := false, el := 0, eu := 0 }
    let rows : List Ratio.Row := [{ y := -2, x := 3, l := 0, u := 1000 }]
    (Ratio.pII p rows).stat = .unbounded := by
  decide +kernel


/-! ### the dual phase-II ratio test (ratio.c:638-787, `Qsx.Ratio.dII`): the same rule on dual slacks -/

open Qsx.Ratio in
theorem ratio_dII_never_failed (leq : Rat → Rat → Bool) (inf pivtol dftol : Rat) (hp : 0 ≤ pivtol)
    (lvUpper : Bool) (cols : List DCol) :
    (dIIWith leq inf pivtol dftol lvUpper cols).stat ≠ .failed :=
  dIIWith_never_failed leq inf pivtol dftol hp lvUpper cols

open Qsx.Ratio in
/-- RATIO_UNBOUNDED in the dual (the evidence for "primal infeasible"): every dual step up to `inf`
keeps every non-basic column dual feasible -/
theorem ratio_dII_unbounded_ray (inf dftol : Rat) (lvUpper : Bool) (cols : List DCol)
    (hfeas : ∀ c ∈ cols, inBounds (dPar inf 0 dftol) dftol (toRow inf lvUpper c) (toRow inf lvUpper c).x)
    (h : (dII inf 0 dftol lvUpper cols).stat = .unbounded) :
    ∀ c ∈ cols, ∀ t, 0 ≤ t → t ≤ inf →
      inBounds (dPar inf 0 dftol) dftol (toRow inf lvUpper c) (newx (dPar inf 0 dftol) (toRow inf lvUpper c) t) :=
  dII_unbounded_sound inf dftol lvUpper cols hfeas h

open Qsx.Ratio in
/-- RATIO_BCHANGE in the dual at tolerance 0: dual feasibility is kept and the entering column's
reduced cost becomes 0 -/
theorem ratio_dII_step_feasible (inf : Rat) (lvUpper : Bool) (cols : List DCol)
    (hfeas : ∀ c ∈ cols, inBounds (dPar inf 0 0) 0 (toRow inf lvUpper c) (toRow inf lvUpper c).x)
    (h : (dII inf 0 0 lvUpper cols).stat = .bchange) :
    ∃ t c, 0 ≤ t ∧ (dII inf 0 0 lvUpper cols).tz = t ∧ (dII inf 0 0 lvUpper cols).coeffch = false ∧
      0 ≤ (dII inf 0 0 lvUpper cols).eindex ∧ cols[(dII inf 0 0 lvUpper cols).eindex.toNat]? = some c ∧
      (dII inf 0 0 lvUpper cols).pivot = c.zA ∧ c.skip = false ∧ c.zA ≠ 0 ∧
      (∀ c' ∈ cols, inBounds (dPar inf 0 0) 0 (toRow inf lvUpper c') (newSlack inf lvUpper c' t)) ∧
      newSlack inf lvUpper c t = 0 :=
  dII_bchange_sound inf lvUpper cols hfeas h

/-- non-vacuity: two columns at lower with slacks 3 and 1, leaving variable at lower; column 1 blocks first -/
example :
    let cols : List Ratio.DCol := [{ zA := -2, dz := 3, cz := 0, vstat := 3, skip := false },
                                   { zA := -1, dz := 1, cz := 0, vstat := 3, skip := false }]
    (Ratio.dII 1000 0 0 false cols).stat = .bchange ∧ (Ratio.dII 1000 0 0 false cols).eindex = 1 ∧
    (Ratio.dII 1000 0 0 false cols).tz = 1 := by
  decide +kernel

end Qsx.Props.C03
