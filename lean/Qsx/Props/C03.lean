/-
C03 — the reported status and value equal the mathematical truth.
What a theorem can carry: each of the three definitive answers has a certificate checker whose
acceptance implies the answer is true, the three classes exclude each other, the certified optimal
value is unique — so "the truth" is well defined by whichever certificate exists — and the exact
driver runs at most 1 + QS_EXACT_MAX_ITER floating-point stages.
-/
import Qsx.Proofs.ApiSound
import Qsx.Proofs.DriverSound

namespace Qsx.Props.C03
open Qsx Qsx.Gen

theorem optimal_cert_sound {L : LP} {pinf ninf : Rat} {x pi : Array Rat} (hw : L.WF)
    (h : L.certOK pinf ninf x pi = true) : L.IsOptimal pinf ninf (rget x) := LP.certOK_sound hw h

theorem farkas_cert_sound {L : LP} {pinf ninf : Rat} {y : Array Rat} (hw : L.WF)
    (h : L.checkFarkas pinf ninf y = true) : ¬ ∃ x, L.Feasible pinf ninf x := LP.checkFarkas_sound hw h

theorem ray_cert_sound {L : LP} {pinf ninf : Rat} {x r : Array Rat}
    (h : L.checkRay pinf ninf x r = true) : L.Unbounded pinf ninf := LP.checkRay_sound h

/-- no LP carries certificates of two different classes -/
theorem classes_exclusive {L : LP} {pinf ninf : Rat} (hw : L.WF) :
    (∀ x pi y, L.certOK pinf ninf x pi = true → L.checkFarkas pinf ninf y = true → False) ∧
    (∀ x pi x0 r, L.certOK pinf ninf x pi = true → L.checkRay pinf ninf x0 r = true → False) ∧
    (∀ x0 r y, L.checkRay pinf ninf x0 r = true → L.checkFarkas pinf ninf y = true → False) :=
  ⟨fun _ _ _ h1 h2 => LP.optimal_farkas_exclusive hw h1 h2,
   fun _ _ _ _ h1 h2 => LP.optimal_ray_exclusive hw h1 h2,
   fun _ _ _ h1 h2 => LP.ray_farkas_exclusive hw h1 h2⟩

theorem value_unique {L : LP} {pinf ninf : Rat} {x₁ pi₁ x₂ pi₂ : Array Rat} (hw : L.WF)
    (h1 : L.certOK pinf ninf x₁ pi₁ = true) (h2 : L.certOK pinf ninf x₂ pi₂ = true) :
    L.objv (rget x₁) = L.objv (rget x₂) := LP.certified_value_unique hw h1 h2

/-- the exact driver consults at most `1 + QS_EXACT_MAX_ITER` floating-point stages, whatever
they answer -/
theorem ladder_bound (P : ILP) (pinf ninf : Rat) (dbl : Stage) (rungs : List Stage) :
    (solve P pinf ninf dbl rungs).stagesUsed ≤ 1 + exactMaxIter := solve_stage_bound P pinf ninf dbl rungs

end Qsx.Props.C03
