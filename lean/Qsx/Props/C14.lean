/-
C14 — a basis file reads back as the same basis.
-/
import Qsx.Proofs.BasisFileRT

namespace Qsx.Props.C14
open Qsx.BasisFile

/-- For every numbers of columns and rows and every basis with exactly `nrows` basic entries
(equivalently: as many basic columns as non-basic rows), the writer succeeds and the reader,
applied to the writer's lines, returns the same basic set and the same at-upper assignments;
non-basic free columns may come back as free instead of at-lower (`normalizeC`). -/
theorem decode_encode (free : List Bool) (cstat rstat : List Nat)
    (hlen : free.length = cstat.length) (hcount : countBasicC cstat = countNonBasicR rstat) :
    ∃ lines, encode cstat rstat = some lines ∧
      decode free rstat.length lines = (normalizeC free cstat, normalizeR rstat) :=
  Qsx.BasisFile.decode_encode free cstat rstat hlen hcount

theorem encode_total (cstat rstat : List Nat) (hcount : countBasicC cstat = countNonBasicR rstat) :
    (encode cstat rstat).isSome = true :=
  Qsx.BasisFile.encode_total cstat rstat hcount

-- non-vacuity: a 4-column, 2-row basis (basic, upper, free, lower | lower, basic)
#guard encode [49, 50, 51, 48] [48, 49] == some [Line.XL 0 0, Line.UL 1]
#guard (encode [49, 50, 51, 48] [48, 49]).map (decode [false, false, true, true] 2) == some ([49, 50, 51, 51], [48, 49])
#guard countBasicC [49, 50, 51, 48] == countNonBasicR [48, 49]

end Qsx.Props.C14
