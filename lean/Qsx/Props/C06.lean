/-
C06 — query functions reflect exactly the edits made.  Reference-model level obligations
(the refinement of the column store to this model is in Qsx/Proofs/StoreRefine*.lean as it lands).
-/
import Qsx.Model.Spec

namespace Qsx.Props.C06
open Qsx.Spec

/-- every call has a defined outcome on every problem (the reference semantics is total) -/
theorem step_total (p : Prob) (op : Op) : (step p op).2 = .ok ∨ (step p op).2 = .err := by
  cases h : (step p op).2 <;> simp

/-- a rejected call leaves the reference problem unchanged (used by C07) -/
theorem err_unchanged (p : Prob) (op : Op) (h : (step p op).2 = .err) : (step p op).1 = p := by
  cases op <;> simp only [step] at h ⊢ <;> (repeat' split at h) <;> simp_all

end Qsx.Props.C06
