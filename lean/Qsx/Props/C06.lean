/-
C06 — query functions reflect exactly the edits made.  Reference-model level obligations
(the refinement of the column store to this model is in Qsx/Proofs/StoreRefine*.lean as it lands).
-/
import Qsx.Model.Spec
import Qsx.Proofs.SymtabSound
import Qsx.Proofs.SymtabIndex

namespace Qsx.Props.C06
open Qsx.Spec

/-- every call has a defined outcome on every problem (the reference semantics is total) -/
theorem step_total (p : Prob) (op : Op) : (step p op).2 = .ok ∨ (step p op).2 = .err := by
  cases h : (step p op).2 <;> simp

/-- a rejected call leaves the reference problem unchanged (used by C07) -/
theorem err_unchanged (p : Prob) (op : Op) (h : (step p op).2 = .err) : (step p op).1 = p := by
  cases op <;> simp only [step] at h ⊢ <;> (repeat' split at h) <;> simp_all

/-! ### the symbol table behind every name query (symtab.c, model `Qsx.Symtab`)

For every history of registrations (named or unnamed, with table growth and string-pool
maintenance), deletions (swap with the last entry) and renamings the hash structure stays consistent, the
table holds exactly the list a four-line specification computes, and a lookup returns exactly the
position of the name in that list. -/

namespace Sym
open Qsx.Symtab

inductive Op
  | reg (s : Option Name) (idx : Int)
  | del (s : Name)
  | ren (i : Nat) (s : Option Name)

def step (t : T) : Op → T
  | .reg s i => (register t s i).1
  | .del s => (delete t s).1
  | .ren i s => (rename t i s).1

/-- the specification: a plain list of optional names -/
def specStep (l : List (Option Name)) : Op → List (Option Name)
  | .reg none _ => l ++ [none]
  | .reg (some n) _ => if some n ∈ l then l else l ++ [some n]
  | .del s => specDelete l s
  | .ren i s => specRename l i s

theorem history_from (ops : List Op) : ∀ (t : T), WF t →
    WF (ops.foldl step t) ∧ abs (ops.foldl step t) = ops.foldl specStep (abs t) := by
  induction ops with
  | nil => intro t hw; exact ⟨hw, rfl⟩
  | cons op ops ih =>
    intro t hw
    simp only [List.foldl_cons]
    have hstep : WF (step t op) ∧ abs (step t op) = specStep (abs t) op := by
      cases op with
      | reg s i =>
        refine ⟨register_wf hw s i, ?_⟩
        have := (register_abs hw s i).1
        cases s <;> simpa [step, specStep] using this
      | del s => exact ⟨delete_wf hw s, (delete_abs hw s).1⟩
      | ren i s => exact ⟨rename_wf hw i s, rename_abs hw i s⟩
    obtain ⟨h1, h2⟩ := ih (step t op) hstep.1
    exact ⟨h1, by rw [h2, hstep.2]⟩

end Sym

/-- every reachable symbol table is well formed and holds the specified list of names -/
theorem symtab_history (n : Nat) (ops : List Sym.Op) :
    Qsx.Symtab.WF (ops.foldl Sym.step (Qsx.Symtab.create n)) ∧
    Qsx.Symtab.abs (ops.foldl Sym.step (Qsx.Symtab.create n)) = ops.foldl Sym.specStep [] := by
  have := Sym.history_from ops (Qsx.Symtab.create n) (Qsx.Symtab.create_wf n)
  simpa [Qsx.Symtab.abs, Qsx.Symtab.create] using this

/-- after any history a lookup answers exactly what the specified list says: entry `e` iff the list
has the name at position `e` -/
theorem symtab_lookup_history (n : Nat) (ops : List Sym.Op) (s : Qsx.Symtab.Name) (e : Nat) :
    Qsx.Symtab.lookup (ops.foldl Sym.step (Qsx.Symtab.create n)) s = some e ↔
      (ops.foldl Sym.specStep [])[e]? = some (some s) := by
  obtain ⟨hw, habs⟩ := symtab_history n ops
  rw [Qsx.Symtab.lookup_iff hw, ← habs, Qsx.Symtab.abs_getElem?]
  constructor
  · intro h
    rw [if_pos (Qsx.Symtab.nameAt_lt h), h]
  · intro h
    split at h
    · simpa using h
    · cases h

/-- the hypotheses are met by a non-trivial history: three names into a table of initial size 1
(two growth steps), one deletion in the middle -/
example :
    let ops : List Sym.Op := [.reg (some [97]) 0, .reg (some [98]) 1, .reg (some [99]) 2, .del [97], .ren 1 (some [100])]
    ops.foldl Sym.specStep [] = [some [99], some [100]] ∧
    Qsx.Symtab.lookup (ops.foldl Sym.step (Qsx.Symtab.create 1)) [99] = some 0 := by
  decide +kernel

/-- name → item index (what `QSget_column_index` / `QSget_row_index` answer): after
`ILLsymboltab_index_reset` with the distinct names of a well-formed table, `getindex` of the j-th
name is j -/
theorem symtab_getindex_after_reset {t : Qsx.Symtab.T} (hw : Qsx.Symtab.WF t) (names : List Qsx.Symtab.Name)
    (hsz : t.ents.size = names.length ∨ t.ents.size = names.length + 1)
    (hall : ∀ s ∈ names, ∃ k, Qsx.Symtab.lookup t s = some k) (hnd : names.Nodup) :
    (Qsx.Symtab.indexReset t names).2 = 0 ∧ Qsx.Symtab.WF (Qsx.Symtab.indexReset t names).1 ∧
    ∀ (j : Nat) s, names[j]? = some s →
      Qsx.Symtab.getindex (Qsx.Symtab.indexReset t names).1 s = (0, (j : Int)) :=
  Qsx.Symtab.getindex_after_reset hw names hsz hall hnd

end Qsx.Props.C06
