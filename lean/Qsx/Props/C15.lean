/-
C15 — equivalent formulations receive equivalent answers.
`Sim L L' a b` : `L'` is a reformulation of `L` (feasible points correspond, objective values related
by `v' = a·v + b`, a negative `a` going with the opposite sense).  The three theorems at the top say
that a reformulation has the same definitive status and the transformed optimal value; `sim_trans`
closes reformulations under composition (so every composition of the listed transformations is
covered by induction on its length); the remaining theorems show that each listed transformation
— as implemented by `Qsx.Xform`, the functions the check's generator is compared against — is a
reformulation.  Side conditions are exactly the obvious ones (indices in range, non-zero / positive
factors, a finite bound not moved onto the encoding of infinity).
-/
import Qsx.Proofs.XformInst

namespace Qsx.Props.C15
open Qsx Qsx.Xform

theorem status_infeasible {L L' : LP} {pinf ninf a b : Rat} (h : Sim L L' pinf ninf a b) :
    Infeasible L pinf ninf ↔ Infeasible L' pinf ninf := h.infeasible
theorem status_unbounded {L L' : LP} {pinf ninf a b : Rat} (h : Sim L L' pinf ninf a b) :
    Unbounded L pinf ninf ↔ Unbounded L' pinf ninf := h.unbounded
theorem optimal_value {L L' : LP} {pinf ninf a b : Rat} (h : Sim L L' pinf ninf a b) (v : Rat) :
    IsOpt L pinf ninf v ↔ IsOpt L' pinf ninf (a * v + b) := h.optimal v

theorem sim_trans {L L' L'' : LP} {pinf ninf a b a' b' : Rat}
    (h : Sim L L' pinf ninf a b) (h' : Sim L' L'' pinf ninf a' b') :
    Sim L L'' pinf ninf (a' * a) (a' * b + b') := h.trans h'

theorem neg_objective (L : LP) (pinf ninf : Rat) : Sim L (negObj L) pinf ninf (-1) 0 := negObj_sim L pinf ninf
theorem scale_row (L : LP) (pinf ninf : Rat) (i : Nat) (t : Rat) (ht : t ≠ 0) :
    Sim L (scaleRow L i t) pinf ninf 1 0 := scaleRow_sim L pinf ninf i t ht
theorem duplicate_row (L : LP) (pinf ninf : Rat) (i : Nat) (hi : i < L.nr) :
    Sim L (dupRow L i) pinf ninf 1 0 := dupRow_sim L pinf ninf i hi
theorem redundant_row (L : LP) (pinf ninf : Rat) (i : Nat) (t : Rat) (hi : i < L.nr) (ht : 0 ≤ t) :
    Sim L (addRedundant L i t) pinf ninf 1 0 := addRedundant_sim L pinf ninf i t hi ht
theorem split_equality (L : LP) (pinf ninf : Rat) (i : Nat) (hi : i < L.nr) :
    Sim L (splitEq L i) pinf ninf 1 0 := splitEq_sim L pinf ninf i hi
theorem shift_variable (L : LP) (pinf ninf : Rat) (j : Nat) (d : Rat) (hj : j < L.nc)
    (hlo : (L.col j).lo ≠ ninf → (L.col j).lo - d ≠ ninf) (hup : (L.col j).up ≠ pinf → (L.col j).up - d ≠ pinf) :
    Sim L (shiftVar L pinf ninf j d) pinf ninf 1 (-((L.col j).obj * d)) := shiftVar_sim L pinf ninf j d hj hlo hup
theorem scale_variable (L : LP) (pinf ninf : Rat) (j : Nat) (m : Rat) (hm : 0 < m)
    (hlo : (L.col j).lo ≠ ninf → (L.col j).lo / m ≠ ninf) (hup : (L.col j).up ≠ pinf → (L.col j).up / m ≠ pinf) :
    Sim L (scaleVar L pinf ninf j m) pinf ninf 1 0 := scaleVar_sim L pinf ninf j m hm hlo hup
theorem permute_rows (L : LP) (pinf ninf : Rat) (σ : Array Nat)
    (hin : ∀ k, k < L.nr → nget σ k < L.nr) (honto : ∀ i, i < L.nr → ∃ k, k < L.nr ∧ nget σ k = i) :
    Sim L (permRows L σ) pinf ninf 1 0 := permRows_sim L pinf ninf σ hin honto
theorem permute_columns (L : LP) (pinf ninf : Rat) (σ : Array Nat)
    (h1 : ∀ k, k < L.nc → nget σ k < L.nc ∧ invAt σ (nget σ k) = k)
    (h2 : ∀ j, j < L.nc → invAt σ j < L.nc ∧ nget σ (invAt σ j) = j)
    (hent : ∀ i, i < L.nr → ∀ e ∈ (L.row i).ent, e.1 < L.nc) :
    Sim L (permCols L σ) pinf ninf 1 0 := permCols_sim L pinf ninf σ h1 h2 hent

-- non-vacuity: min x0 + 2 x1, x0 ∈ [0,4], x1 ∈ [1,∞), row x0 + x1 = 3
private def L0 : LP :=
  { isMin := true, cols := #[{ obj := 1, lo := 0, up := 4 }, { obj := 2, lo := 1, up := 1000 }],
    rows := #[{ sense := 'E', rhs := 3, range := 0, ent := [(0, 1), (1, 1)] }] }
#guard (splitEq L0 0).nr == 2 && ((splitEq L0 0).row 0).sense == 'L' && ((splitEq L0 0).row 1).sense == 'G'
#guard ((scaleRow L0 0 (-2)).row 0) == { sense := 'E', rhs := -6, range := 0, ent := [(0, -2), (1, -2)] }
#guard ((shiftVar L0 1000 (-1000) 1 1).row 0).rhs == 2 && ((shiftVar L0 1000 (-1000) 1 1).col 1).lo == 0
#guard ((permCols L0 #[1, 0]).row 0).ent == [(1, 1), (0, 1)] && ((permCols L0 #[1, 0]).col 0).obj == 2
#guard invAt #[2, 0, 1] 0 == 1 && invAt #[2, 0, 1] 2 == 0

end Qsx.Props.C15
