/-
C10 — files are read as the exact problem their text denotes: the numeric-literal layer.
-/
import Qsx.Proofs.NumScan
import Qsx.Proofs.LpLexSafe

namespace Qsx.Props.C10
open Qsx.Num

/-- Every literal `[±] digits [. digits] [e|E [±] digits]` with at least one mantissa digit and
arbitrarily many digits, followed by the end of the text or by a character that cannot continue a
number, is consumed exactly and becomes exactly the rational it spells (`0.1 ↦ 1/10`). -/
theorem scan_literal (l : Lit) (hw : l.WF) (rest : List Char) (ht : Term rest) :
    scan (l.render ++ rest) = (l.render.length, Val.ok l.value) :=
  Qsx.Num.scan_literal l hw rest ht

/-- an exponent below 100000 (any number of leading zeros) satisfies the guard hypothesis of
`Lit.WF`; mantissa digits are unrestricted -/
theorem exponent_below_100000_ok (ds : List Nat) (h : dval ds < 100000) : GuardOK 0 ds := by
  apply guardOK_of_lt
  rw [acc_eq]; simpa using h

/-- since fix d278e6f: a literal with a well-formed mantissa whose exponent digits do not pass the guard
(more than five significant digits) is not read at all - zero characters, the variable untouched -
whatever follows; `l_exp` therefore never exceeds 99999 and cannot overflow the C `int` -/
theorem scan_exponent_guard (l : Lit) (hw : l.WF) (up : Bool) (sg : Sign) (e : List Nat)
    (hed : ∀ d ∈ e, d < 10) (hg : ¬ GuardOK 0 e) (rest : List Char) :
    scan (({ l with ex := some (up, sg, e) } : Lit).render ++ rest) = (0, Val.none) :=
  Qsx.Num.scan_exponent_guard l hw up sg e hed hg rest

/-- the scanner never reports more characters than it was given, and it always terminates
(structural recursion on the text) -/
theorem scan_consumes_le (cs : List Char) : (scan cs).1 ≤ cs.length :=
  Qsx.Num.scan_consumes_le cs

/-- a zero denominator is never divided by: the result is "nothing read" -/
theorem scan_no_div_zero (cs : List Char) (q : Rat) (n : Nat) (h : scan cs = (n, Val.ok q)) :
    ∀ v0, (scanLoop {} cs).first = some v0 →
      finishVal (scanLoop {} cs).num (scanLoop {} cs).den (scanLoop {} cs).lExp (scanLoop {} cs).expSgn (scanLoop {} cs).sgn ≠ 0 :=
  Qsx.Num.scan_no_div_zero cs q n h

-- non-vacuity (executable): `0.1`, `-12.50e-1`, `3/4`, `1/0`
#guard scanStr "0.1" == (3, Val.ok (1/10))
#guard scanStr "-12.50e-1x" == (9, Val.ok (-5/4))
#guard scanStr "3/4 " == (3, Val.ok (3/4))
#guard scanStr "1/0" == (0, Val.none)
#guard scanStr "7e100000" == (0, Val.none)
#guard scanStr "7e000012x" == (8, Val.ok 7000000000000)
#guard (scanStr "1e-99999").1 == 8
#guard (Lit.render { sg := .minus, ip := [1, 2], fp := some [5, 0], ex := some (false, .minus, [1]) }) == "-12.50e-1".toList


/-! ### token level: comments are immaterial to the row-name test of the LP reader (model `Qsx.LpLex`, read_lp.c) -/

/-- `has_colon` (which decides whether a constraint or the objective starts with a row name) answers 1 exactly when a `:`
occurs on the rest of the line before its end.  The line is what next_line left of the text: everything from the first
`\\` on - the comment - is cut off (`LpLex.nextLine`), so a `:` inside a comment does not count, and what lies behind the
string terminator is never looked at (before fix ef5c071 both were false). -/
theorem has_colon_spec (s : LpLex.St) (h : LpLex.Inv s) :
    ∃ s1 r1, LpLex.skipBlanks s false = some (s1, r1) ∧
      LpLex.hasColon s = some (s1, if LpLex.colonAhead (s1.line.drop s1.p) then 1 else 0) :=
  LpLex.hasColon_spec s h

/-- a constraint with a `:` only in its comment has no row name; one with a label has -/
example : (do let s ← LpLex.init ["x + y >= 1 \\ ratio: 3\n".toList]
              let (_, r) ← LpLex.hasColon s
              pure r) = some 0 := by decide +kernel
example : (do let s ← LpLex.init [" c1 : x + y >= 1 \\ ratio\n".toList]
              let (_, r) ← LpLex.hasColon s
              pure r) = some 1 := by decide +kernel

end Qsx.Props.C10
