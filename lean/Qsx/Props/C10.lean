/-
C10 — files are read as the exact problem their text denotes: the numeric-literal layer.
-/
import Qsx.Proofs.NumScan

namespace Qsx.Props.C10
open Qsx.Num

/-- Every literal `[±] digits [. digits] [e|E [±] digits]` with at least one mantissa digit and
arbitrarily many digits, followed by the end of the text or by a character that cannot continue a
number, is consumed exactly and becomes exactly the rational it spells (`0.1 ↦ 1/10`). -/
theorem scan_literal (l : Lit) (hw : l.WF) (rest : List Char) (ht : Term rest) :
    scan (l.render ++ rest) = (l.render.length, Val.ok l.value) :=
  Qsx.Num.scan_literal l hw rest ht

/-- the scanner never reports more characters than it was given, and it always terminates
(structural recursion on the text) -/
theorem scan_consumes_le (cs : List Char) : (scan cs).1 ≤ cs.length :=
  Qsx.Num.scan_consumes_le cs

/-- a zero denominator is never divided by: the result is "nothing read" -/
theorem scan_no_div_zero (cs : List Char) (q : Rat) (n : Nat) (h : scan cs = (n, Val.ok q)) :
    ∀ v0, (scanLoop {} cs).first = some v0 →
      finishVal (scanLoop {} cs).num (scanLoop {} cs).den (scanLoop {} cs).lExp (scanLoop {} cs).expSgn (scanLoop {} cs).sgn ≠ 0 :=
  Qsx.Num.scan_no_div_zero cs q n h

-- non-vacuity (executable): `0.1`, `-12.50e-1`, `3/4`, `1/0`
#guard scanStr "0.1" == (3, Val.ok (1/10))
#guard scanStr "-12.50e-1x" == (9, Val.ok (-5/4))
#guard scanStr "3/4 " == (3, Val.ok (3/4))
#guard scanStr "1/0" == (0, Val.none)
#guard (Lit.render { sg := .minus, ip := [1, 2], fp := some [5, 0], ex := some (false, .minus, [1]) }) == "-12.50e-1".toList

end Qsx.Props.C10
