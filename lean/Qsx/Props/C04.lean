/-
C04 — the answer is a function of the LP only.
For one LP, any two outcomes that each carry an accepted certificate — whatever configuration,
warm start or repetition produced them — have the same class and the same value.  No enumeration
of configurations is involved: the statement quantifies over the certificates.
-/
import Qsx.Proofs.ApiSound
import Qsx.Model.Session

namespace Qsx.Props.C04
open Qsx

/-- a certified answer: the class together with the certificate that the proved checker accepted -/
inductive Certified (L : LP) (pinf ninf : Rat)
  | optimal (x pi : Array Rat) (h : L.certOK pinf ninf x pi = true)
  | infeasible (y : Array Rat) (h : L.checkFarkas pinf ninf y = true)
  | unbounded (x r : Array Rat) (h : L.checkRay pinf ninf x r = true)

def Certified.cls {L : LP} {pinf ninf : Rat} : Certified L pinf ninf → Nat
  | .optimal .. => 1 | .infeasible .. => 2 | .unbounded .. => 3

theorem certified_status_agree {L : LP} {pinf ninf : Rat} (hw : L.WF) (a b : Certified L pinf ninf) :
    a.cls = b.cls := by
  cases a <;> cases b <;> simp only [Certified.cls] <;> first
    | rfl
    | (exfalso; first
        | exact LP.optimal_farkas_exclusive hw ‹_› ‹_›
        | exact LP.optimal_ray_exclusive hw ‹_› ‹_›
        | exact LP.ray_farkas_exclusive hw ‹_› ‹_›)

theorem certified_answers_agree {L : LP} {pinf ninf : Rat} {x₁ pi₁ x₂ pi₂ : Array Rat} (hw : L.WF)
    (h1 : L.certOK pinf ninf x₁ pi₁ = true) (h2 : L.certOK pinf ninf x₂ pi₂ = true) :
    L.objv (rget x₁) = L.objv (rget x₂) := LP.certified_value_unique hw h1 h2

/-- a second `QSopt_primal` on an unmodified, solved object performs no work and returns the
stored status (session model, qsopt.c:206-234) -/
theorem repeated_solve_cached (s : Session.S) (r : Nat) (f : Bool) (hb : s.basis = true) (hc : s.cache = true) :
    Session.step s (.optPrimal r f) = s := by
  simp [Session.step, hb, hc]

end Qsx.Props.C04
