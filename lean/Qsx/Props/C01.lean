/-
C01 — OPTIMAL is only ever reported together with an exact optimality certificate.
Property theorems only; helper lemmas live in Qsx/Proofs.
-/
import Qsx.Proofs.DriverSound
import Qsx.Proofs.ApiSound

namespace Qsx.Props.C01
open Qsx Qsx.Gen

/-- T1. What an accepting run of `QSexact_optimal_test` establishes (bounds read as the finite
numbers they are): the cached point satisfies every row and bound exactly, primal value = dual
value = reported value, and no point inside the bounds is better. -/
theorem test_sound_box {P : ILP} {cs rs : Array Nat} {ps ds : Array Rat} {c : Cache}
    (hw : P.WF) (h : optimalTest P cs rs ps ds = some c) :
    P.BoxFeasible (rget c.x) (rget c.slack) ∧
    c.val = P.objv (rget c.x) (rget c.slack) ∧
    c.val = dObj P ds (dzSArr P ds) (dzLArr P ds) ∧
    ∀ x' s', P.BoxFeasible x' s' → P.better c.val (P.objv x' s') :=
  optimalTest_sound_box hw h

/-- T2. Same with bounds equal to the encoding of ±infinity read as absent — under the side
condition that no non-zero reduced cost leans on such a bound (the C code does not check it; the
correspondence run evaluates it on every real OPTIMAL; DESIGN F8). -/
theorem test_sound_inf {P : ILP} {cs rs : Array Nat} {ps ds : Array Rat} {c : Cache}
    {pinf ninf : Rat} (hw : P.WF) (h : optimalTest P cs rs ps ds = some c)
    (hn : noActiveInfinite P pinf ninf ds = true) :
    P.Feasible pinf ninf (rget c.x) (rget c.slack) ∧
    c.val = P.objv (rget c.x) (rget c.slack) ∧
    ∀ x' s', P.Feasible pinf ninf x' s' → P.better c.val (P.objv x' s') :=
  optimalTest_sound_inf hw h hn

/-- T4. Whatever the floating-point engines and the rational basis evaluation answer,
`QSexact_solver` returns success with status OPTIMAL only after `optimalTest` accepted, and the
vectors written to the caller's `x` and `y` are exactly the tested ones. -/
theorem solver_optimal_certified (P : ILP) (pinf ninf : Rat) (dbl : Stage) (rungs : List Stage)
    (h0 : (solve P pinf ninf dbl rungs).rval = 0)
    (h1 : (solve P pinf ninf dbl rungs).status = lpOptimal) :
    ∃ cs rs ps ds c, optimalTest P cs rs ps ds = some c ∧
      (solve P pinf ninf dbl rungs).xOut = some (optPsolAfter P cs rs ps) ∧
      (solve P pinf ninf dbl rungs).yOut = some ds := by
  obtain ⟨cs, rs, ps, ds, c, _, hc, hx, hy⟩ := (solve_certified P pinf ninf dbl rungs h0).1 h1
  exact ⟨cs, rs, ps, ds, c, hc, hx, hy⟩

/-- T4 ∘ T1. The `x` handed back with OPTIMAL is a true optimum of the internal LP. -/
theorem solver_optimal_is_optimum (P : ILP) (hw : P.WF) (pinf ninf : Rat) (dbl : Stage) (rungs : List Stage)
    (h0 : (solve P pinf ninf dbl rungs).rval = 0)
    (h1 : (solve P pinf ninf dbl rungs).status = lpOptimal) :
    ∃ c : Cache, (solve P pinf ninf dbl rungs).xOut = some (c.x ++ c.slack) ∧
      P.BoxFeasible (rget c.x) (rget c.slack) ∧
      ∀ x' s', P.BoxFeasible x' s' → P.better (P.objv (rget c.x) (rget c.slack)) (P.objv x' s') := by
  obtain ⟨cs, rs, ps, ds, c, hc, hx, _⟩ := solver_optimal_certified P pinf ninf dbl rungs h0 h1
  have F := optimalTest_facts hc
  obtain ⟨hb, hv, _, hd⟩ := optimalTest_sound_box hw hc
  refine ⟨c, ?_, hb, fun x' s' hf => ?_⟩
  · rw [hx, F.hx, F.hs]; rfl
  · rw [← hv]; exact hd x' s' hf

/-- T5. The API-level checker through which every OPTIMAL answer of every solve entry point
(including the direct rational simplex) and every accessor value is passed: if it accepts `(x, π)`
then `x` satisfies every row sense/range and column bound and is optimal. -/
theorem certOK_sound {L : LP} {pinf ninf : Rat} {x pi : Array Rat} (hw : L.WF)
    (h : L.certOK pinf ninf x pi = true) : L.IsOptimal pinf ninf (rget x) :=
  LP.certOK_sound hw h

theorem certified_value_unique {L : LP} {pinf ninf : Rat} {x₁ pi₁ x₂ pi₂ : Array Rat} (hw : L.WF)
    (h1 : L.certOK pinf ninf x₁ pi₁ = true) (h2 : L.certOK pinf ninf x₂ pi₂ = true) :
    L.objv (rget x₁) = L.objv (rget x₂) :=
  LP.certified_value_unique hw h1 h2

/-! non-vacuity (evaluated by `#guard` when the file is built; Rat arithmetic does not reduce in the
kernel, so these are executable checks, and the correspondence run counts the accepting cases): a concrete LP (min -x-y, x+2y ≤ 4, 3x+y ≤ 6) whose true certificate is accepted -/
def exILP : ILP :=
  { nrows := 2
    scols := #[{ ent := [(0, 1), (1, 3)], lo := 0, up := 1000, obj := -1 },
               { ent := [(0, 2), (1, 1)], lo := 0, up := 1000, obj := -1 }]
    lcols := #[{ ent := [(0, 1)], lo := 0, up := 1000, obj := 0 }, { ent := [(1, 1)], lo := 0, up := 1000, obj := 0 }]
    rhs := #[4, 6], isMin := true }

#guard (optimalTest exILP #[49, 49] #[48, 48] #[8/5, 6/5, 0, 0] #[-2/5, -1/5]).isSome
#guard !(optimalTest exILP #[49, 49] #[48, 48] #[8/5, 6/5, 0, 0] #[-2/5, -1/4]).isSome

end Qsx.Props.C01
