/-
C02 — INFEASIBLE is only ever reported together with an exact Farkas certificate.
-/
import Qsx.Proofs.DriverSound
import Qsx.Proofs.ApiSound

namespace Qsx.Props.C02
open Qsx Qsx.Gen

/-- If `QSexact_infeasible_test` accepts `y`, the internal LP has no feasible point; by
construction of the test the multipliers never lean on a bound that encodes ±infinity. -/
theorem test_sound {P : ILP} {pinf ninf : Rat} {ds : Array Rat}
    (hw : P.WF) (h : infeasibleTest P pinf ninf ds = true) : ¬ ∃ x s, P.Feasible pinf ninf x s :=
  infeasibleTest_sound hw h

/-- `QSexact_solver` returns success with status INFEASIBLE only after `infeasibleTest` accepted
the very vector it wrote to the caller's `y`. -/
theorem solver_infeasible_certified (P : ILP) (pinf ninf : Rat) (dbl : Stage) (rungs : List Stage)
    (h0 : (solve P pinf ninf dbl rungs).rval = 0)
    (h1 : (solve P pinf ninf dbl rungs).status = lpInfeasible) :
    ∃ ds, infeasibleTest P pinf ninf ds = true ∧ (solve P pinf ninf dbl rungs).yOut = some ds := by
  obtain ⟨ds, _, hc, hy⟩ := (solve_certified P pinf ninf dbl rungs h0).2 h1
  exact ⟨ds, hc, hy⟩

theorem solver_infeasible_is_infeasible (P : ILP) (hw : P.WF) (pinf ninf : Rat) (dbl : Stage)
    (rungs : List Stage) (h0 : (solve P pinf ninf dbl rungs).rval = 0)
    (h1 : (solve P pinf ninf dbl rungs).status = lpInfeasible) :
    ¬ ∃ x s, P.Feasible pinf ninf x s := by
  obtain ⟨ds, hc, _⟩ := solver_infeasible_certified P pinf ninf dbl rungs h0 h1
  exact infeasibleTest_sound hw hc

/-- API-level statement used as the oracle on every INFEASIBLE answer. -/
theorem checkFarkas_sound {L : LP} {pinf ninf : Rat} {y : Array Rat} (hw : L.WF)
    (h : L.checkFarkas pinf ninf y = true) : ¬ ∃ x, L.Feasible pinf ninf x :=
  LP.checkFarkas_sound hw h

/-- No LP that has a feasible point is reported INFEASIBLE by the exact solver (the internal LP
being the one `ILLlib_addrow` builds for `L`). -/
theorem no_feasible_lp_reported_infeasible (L : LP) (hw : L.WF) (pinf ninf : Rat) (dbl : Stage)
    (rungs : List Stage) (x : Nat → Rat) (hf : L.Feasible pinf ninf x)
    (h0 : (solve (L.toInternal pinf) pinf ninf dbl rungs).rval = 0) :
    (solve (L.toInternal pinf) pinf ninf dbl rungs).status ≠ lpInfeasible := by
  intro h1
  exact solver_infeasible_is_infeasible _ (L.toInternal_WF pinf) pinf ninf dbl rungs h0 h1
    ⟨x, L.slackOf x, L.feasible_lift hw pinf ninf x hf⟩

def exILP : ILP :=
  { nrows := 2
    scols := #[{ ent := [(0, 1), (1, 1)], lo := -1000, up := 1000, obj := 1 }]
    lcols := #[{ ent := [(0, 1)], lo := 0, up := 5000, obj := 0 }, { ent := [(1, -1)], lo := 0, up := 5000, obj := 0 }]
    rhs := #[1, 2], isMin := true }

#guard infeasibleTest exILP 5000 (-1000) #[-1, 1]
#guard !(infeasibleTest exILP 5000 (-1000) #[0, 0])

end Qsx.Props.C02
