/-
C05 — no stale solution is served: invariants of the session state machine for ALL histories.
-/
import Qsx.Model.Session

namespace Qsx.Props.C05
open Qsx.Session Qsx.Gen

/-- a stored solution is always either computed for the problem exactly as it stands now, or it
survived only deletions of rows for which `ILLlib_delrows` reported "basis ok, cache ok" (the
deleted rows were basic with zero duals) -/
def Inv (s : S) : Prop :=  -- (a stored solution implies the status is not MODIFIED, so QSget_objval agrees with the other accessors)
  (s.cache = true → (s.cacheVersion = s.lpVersion ∨ s.keptByDelrows = true)) ∧
  (s.cache = true → s.qstatus ≠ lpModified) ∧
  (s.cache = true → s.basis = true)

theorem status_codes : lpOptimal ≠ lpModified ∧ lpUnsolved ≠ lpModified ∧ lpInfeasible ≠ lpModified := by decide

theorem inv_init : Inv ({} : S) := by simp [Inv]

theorem inv_step (s : S) (op : Op) (h : Inv s) : Inv (step s op) := by
  obtain ⟨d1, d2, d3⟩ := status_codes
  obtain ⟨h1, h2, h3⟩ := h
  cases op <;> simp only [step, freeCache, edited, optWork, Inv] <;>
    (repeat' split) <;> simp_all

/-- **every history**: after any sequence of calls, with any solver results, the invariant holds -/
theorem session_inv (ops : List Op) : Inv (run ops) := by
  unfold run
  suffices ∀ s, Inv s → Inv (ops.foldl step s) from this {} inv_init
  induction ops with
  | nil => intro s h; exact h
  | cons op ops ih => intro s h; exact ih _ (inv_step s op h)

/-- every successful edit other than a row deletion drops the stored solution -/
theorem edit_drops_cache (s : S) (op : Op)
    (h : op = .addCols ∨ op = .newRow ∨ (∃ f, op = .addRows f) ∨ (∃ b, op = .delCols b) ∨ op = .chgKeepFactor ∨ op = .chgMatrix ∨ (∃ k, op = .chgBound k)) :
    (step s op).cache = false ∧ (step s op).qstatus = lpModified := by
  rcases h with h | h | ⟨f, h⟩ | ⟨b, h⟩ | h | h | ⟨k, h⟩ <;> subst h <;> simp [step, freeCache, edited]

/-- the accessors fail exactly when no solution is stored -/
theorem accessors_need_cache (s : S) : accessorOk s = true ↔ s.cache = true := by simp [accessorOk]

/-- a cache only ever appears through a solve that ended OPTIMAL -/
theorem cache_only_after_optimal (s : S) (op : Op) (h0 : s.cache = false) (h1 : (step s op).cache = true) :
    (∃ f, op = .optPrimal lpOptimal f) ∨ (∃ f, op = .optDual lpOptimal f) ∨ (∃ f b k, op = .exactSolver lpOptimal f b k) := by
  cases op <;> simp only [step, freeCache, edited, optWork] at h1 <;> (repeat' split at h1) <;> simp_all

end Qsx.Props.C05
