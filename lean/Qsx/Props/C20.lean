/-
C20 — with a log handler installed the library writes nothing to stdout or stderr.
-/
import Qsx.Model.Log

namespace Qsx.Props.C20
open Qsx.Log Qsx.Gen

/-- with a handler registered, `QSlog` touches no file descriptor and delivers exactly one
message: the complete text -/
theorem qslog_handler_silent (msg : String) :
    qslog { handler := true } msg = [.toHandler msg] ∧
    ∀ e ∈ qslog { handler := true } msg, e.isFd = false := by
  simp [qslog, Event.isFd]

/-- every direct writer that the translator finds in /repo's *current* preprocessed sources is one
of the allowed sites (re-checked by the kernel on every run: a new `fprintf (stderr, …)` anywhere
in the library makes this theorem fail) -/
theorem no_direct_writers : directWriters.all allowedSite = true := by decide

/-- all trace flags are off (the trace-only sites are unreachable) -/
theorem trace_flags_off : traceFlags.all (fun e => e.2 == 0) = true := by decide

end Qsx.Props.C20
