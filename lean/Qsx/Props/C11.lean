/-
C11 — no input file can crash, hang or corrupt the reader: the part the model carries.
(1) the number scanner, (2) the lexical layer of the LP reader (`Qsx.LpLex`, read_lp.c).
Every numeric field of an LP, MPS or basis file is handed to the number scanner; the scanner is a
total function (structural recursion on the text), never reports more characters than the text
has, and never reaches a division with a zero divisor.
-/
import Qsx.Proofs.NumScan
import Qsx.Proofs.LpLexSafe
import Qsx.Proofs.MpsLexSafe
import Qsx.Proofs.LpLexProgress

namespace Qsx.Props.C11
open Qsx.Num

/-- totality: for every character sequence the scanner returns a result (it is a Lean function
defined by structural recursion; this statement records the shape of its result) -/
theorem scan_total (cs : List Char) : ∃ n v, scan cs = (n, v) := ⟨_, _, rfl⟩

theorem scan_consumes_le (cs : List Char) : (scan cs).1 ≤ cs.length := Qsx.Num.scan_consumes_le cs

/-- whenever a value is delivered for a text containing `/`, the divisor was not zero -/
theorem scan_never_divides_by_zero (cs : List Char) (q : Rat) (n : Nat) (h : scan cs = (n, Val.ok q)) :
    ∀ v0, (scanLoop {} cs).first = some v0 →
      finishVal (scanLoop {} cs).num (scanLoop {} cs).den (scanLoop {} cs).lExp (scanLoop {} cs).expSgn (scanLoop {} cs).sgn ≠ 0 :=
  Qsx.Num.scan_no_div_zero cs q n h


/-! ### the lexical layer of the LP reader (read_lp.c), model `Qsx.LpLex`

A lexer call is `Safe` when it answers (the model never had to read behind the string terminator of the line buffer)
and leaves the cursor inside the string.  Every function is safe from every state with the cursor inside the string,
so by induction every sequence of lexer calls after `ILLread_lp_state_init` is - for every file. -/
open Qsx.LpLex in
theorem lplex_init_safe (file : List (List Char)) : ∃ s, init file = some s ∧ Inv s := init_safe file

open Qsx.LpLex in
/-- every lexer function, from every state with the cursor inside the string -/
theorem lplex_safe (s : LpLex.St) (h : Inv s) :
    Safe (nextLine s) ∧ (∀ w, Safe (skipBlanks s w)) ∧ (∀ a, Safe (nextField s a)) ∧
    (∃ s', prevField s = some s' ∧ Inv s') ∧ Safe (nextVar s) ∧ (∀ k, Safe (keyword s k)) ∧
    Safe (colon s) ∧ Safe (hasColon s) ∧ Safe (nextConstraint s) ∧ Safe (sign s) ∧
    (∀ str, Safe (testNextIs s str)) ∧ Safe (value s) ∧ Safe (possibleBoundValue s) ∧
    (∀ a, Safe (testSense s a)) ∧ Safe (readSense s) ∧ Safe (checkSubjectTo s) ∧
    (∃ s', lpError s = some s' ∧ Inv s') :=
  ⟨nextLine_safe s h, fun w => skipBlanks_safe s w h, fun a => nextField_safe s a h, prevField_safe s h,
   nextVar_safe s h, fun k => keyword_safe s k h, colon_safe s h, hasColon_safe s h, nextConstraint_safe s h,
   sign_safe s h, fun str => testNextIs_safe s str h, value_safe s h, possibleBoundValue_safe s h,
   fun a => testSense_safe s a h, readSense_safe s h, checkSubjectTo_safe s h, lpError_safe s h⟩

open Qsx.LpLex in
/-- the generic loop `while (P (*p, k)) p++` stays inside the string exactly because P rejects the terminator -/
theorem lplex_scan_loop_safe (P : Char → Nat → Bool) (hP : ∀ k, P NUL k = false) (b : List Char) (i k : Nat) (h : i ≤ b.length) :
    ∃ j, scanWhile P b i k = some j ∧ i ≤ j ∧ j ≤ b.length := scanWhile_safe P hP b i k h

open Qsx.LpLex in
/-- `has_colon` as it was before fix ef5c071 (`for (pp = p; *pp != '\n'; pp++)`): on the one-character line `x` without
a line break the loop walks over the terminator - the defect the theorem above excludes for the repaired code -/
theorem has_colon_before_fix_reads_behind_terminator :
    scanWhile (fun c _ => c != '\n' && c != ':') ['x'] 0 0 = none := by decide

open Qsx.LpLex in
/-- progress: a token read that reports success leaves strictly less input (rest of the line plus everything the line
reader has not delivered yet), so a parser loop that reads a token per round terminates on every file -/
theorem lplex_progress (s s' : LpLex.St) :
    (colon s = some (s', 0) → remaining s' < remaining s) ∧
    (∀ sg, sign s = some (s', 0, sg) → remaining s' < remaining s) ∧
    (nextVar s = some (s', 0) → remaining s' < remaining s) ∧
    (∀ v, value s = some (s', 0, v) → remaining s' < remaining s) :=
  ⟨colon_progress, fun _ => sign_progress, nextVar_progress, fun _ => value_progress⟩

open Qsx.LpLex in
/-- moving over blanks and on to following lines never yields more input than there was -/
theorem lplex_skip_monotone (s s' : LpLex.St) (w : Bool) (r : Int) (h : skipBlanks s w = some (s', r)) :
    remaining s' ≤ remaining s := skipBlanks_rem h

/-- a two-line text read as name - colon - sign - value -/
def lplexDemo : Option (List Char × Int × Int × Int × Int × Int × Bool × Nat) := do
  let s ← Qsx.LpLex.init [" c1: -3/4 x\n".toList, "end".toList]
  let (s, r1) ← Qsx.LpLex.nextVar s
  let (s, r2) ← Qsx.LpLex.colon s
  let (s, r3, sg) ← Qsx.LpLex.sign s
  let (s, r4, v) ← Qsx.LpLex.value s
  pure (s.field, r1, r2, r3, sg, r4, v.isSome, s.p)

/-- the hypotheses are satisfiable and the functions do something -/
example : (lplexDemo == some (['c', '1'], 0, 0, 0, -1, 0, true, 9)) = true := by decide +kernel


/-! ### the lexical layer of the MPS reader (read_mps.c), model `Qsx.MpsLex` -/

/-- `next_line` always answers, and whenever it reports a line the cursor points into that line's terminated string -/
theorem mpslex_next_line (s : MpsLex.St) : ∃ s' r, MpsLex.nextLine s = some (s', r) ∧ (r = 0 → MpsLex.Inv s') :=
  MpsLex.nextLine_safe s

open Qsx.MpsLex in
/-- every other lexer function, from every state whose cursor points into a terminated string: no null dereference, no read
behind the terminator, and the cursor stays inside the string -/
theorem mpslex_safe (s : MpsLex.St) (h : Inv s) :
    Safe (skipComment s) ∧ Safe (nextField s) ∧ (∀ pk, Safe (getDouble s pk)) ∧ Safe (nextCoef s) ∧ Safe (nextBound s) ∧
    Safe (nextFieldIsNumber s) ∧ Safe (checkEndOfLine s) :=
  ⟨skipComment_safe s h, nextField_safe s h, fun pk => getDouble_safe s pk h, nextCoef_safe s h, nextBound_safe s h,
   nextFieldIsNumber_safe s h, checkEndOfLine_safe s h⟩

open Qsx.MpsLex in
/-- `set_end_of_line` (`*p = '\n'`): strictly inside the string it keeps a terminated string; on the terminator itself it
leaves an unterminated one, and the only call mps.c makes afterwards (check_end_of_line) looks at the written character only -/
theorem mpslex_set_end_of_line (s : MpsLex.St) (h : Inv s) :
    (s.p < s.line.length → ∃ s', setEndOfLine s = some s' ∧ Inv s') ∧
    (s.p = s.line.length → ∃ s1, setEndOfLine s = some s1 ∧ s1.unterm = true ∧ ∃ s2, checkEndOfLine s1 = some (s2, false)) :=
  ⟨setEndOfLine_inside s h, setEndOfLine_at_terminator s h⟩

/-- progress in both readers' field loops: a field delivered by the LP reader's next_field leaves strictly less input, and a
field delivered by the MPS reader's next_field moves the cursor strictly forward on the same line - so the record loops
`for (more = 1; more; more = next_field == 0)` of the section parsers end after at most `strlen (line)` rounds -/
theorem lex_field_progress :
    (∀ (s s' : LpLex.St) (a : Bool), LpLex.nextField s a = some (s', 0) → LpLex.remaining s' < LpLex.remaining s) ∧
    (∀ (s s' : MpsLex.St), MpsLex.nextField s = some (s', 0) → s.p < s'.p ∧ s'.line = s.line) :=
  ⟨fun _ _ _ h => LpLex.nextField_progress h, fun _ _ h => MpsLex.nextField_advances h⟩

/-- key, first field, a coefficient and a bound read from two MPS lines -/
def mpslexDemo : Option (List Char × List Char × Int × Bool × Int × Bool × Nat) := do
  let (s, _) ← MpsLex.nextLine { file := [" x  r1  -3/4\n".toList, " UP bnd y -inf".toList] }
  let (s, _) ← MpsLex.nextField s
  let f1 := s.field
  let (s, r1, v) ← MpsLex.nextCoef s
  let (s, _) ← MpsLex.nextLine s
  let (s, _) ← MpsLex.nextField s
  let (s, _) ← MpsLex.nextField s
  let (s, r2, b) ← MpsLex.nextBound s
  pure (f1, s.field, r1, v == some (-3/4 : Rat), r2, b == some LpLex.Bnd.ninf, s.fieldNum)

example : (mpslexDemo == some (['r', '1'], ['y'], 0, true, 0, true, 4)) = true := by decide +kernel

end Qsx.Props.C11
