/-
C11 — no input file can crash, hang or corrupt the reader: the part the model carries.
Every numeric field of an LP, MPS or basis file is handed to the number scanner; the scanner is a
total function (structural recursion on the text), never reports more characters than the text
has, and never reaches a division with a zero divisor.
-/
import Qsx.Proofs.NumScan

namespace Qsx.Props.C11
open Qsx.Num

/-- totality: for every character sequence the scanner returns a result (it is a Lean function
defined by structural recursion; this statement records the shape of its result) -/
theorem scan_total (cs : List Char) : ∃ n v, scan cs = (n, v) := ⟨_, _, rfl⟩

theorem scan_consumes_le (cs : List Char) : (scan cs).1 ≤ cs.length := Qsx.Num.scan_consumes_le cs

/-- whenever a value is delivered for a text containing `/`, the divisor was not zero -/
theorem scan_never_divides_by_zero (cs : List Char) (q : Rat) (n : Nat) (h : scan cs = (n, Val.ok q)) :
    ∀ v0, (scanLoop {} cs).first = some v0 →
      finishVal (scanLoop {} cs).num (scanLoop {} cs).den (scanLoop {} cs).lExp (scanLoop {} cs).expSgn (scanLoop {} cs).sgn ≠ 0 :=
  Qsx.Num.scan_no_div_zero cs q n h

end Qsx.Props.C11
