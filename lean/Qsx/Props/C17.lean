/-
C17 — memory safety of the size bookkeeping (the part of the property a model can carry).
`Qsx.Cap` models counts and capacities of the growable per-row / per-column arrays with lib.c's
growth rule and the EXTRA_* constants re-extracted from the source.  For every history of
additions and deletions, every write index lies inside the array as sized after the growth step.
The correspondence run compares counts and capacities with the real object after every call.
Actual memory accesses, undefined behaviour and reproducibility are runtime facts: they are
observed (sanitizers, memcheck, repeated runs with perturbed allocator / address space), not proved.
-/
import Qsx.Proofs.CapSound
import Qsx.Proofs.StoreAcctSound
import Qsx.Proofs.SymtabPool
import Qsx.Props.C06

namespace Qsx.Props.C17
open Qsx Qsx.Cap

theorem step_safe (s : S) (o : Op) (h : Cap.Inv s) : WritesInBounds (step s o).1 (step s o).2 ∧ Cap.Inv (step s o).1 :=
  Cap.step_safe s o h

theorem history_safe (ops : List Op) (o : Op) :
    WritesInBounds (step (run {} ops) o).1 (step (run {} ops) o).2 := Cap.history_safe ops o

theorem history_inv (ops : List Op) : Cap.Inv (run {} ops) := run_inv {} ops (by simp [Cap.Inv])

-- non-vacuity: the first added row grows every array from 0 and writes index 0
#guard (step {} .addRow).1.rowsize == Gen.extraRows && (step {} .addRow).2.1 == some 0
#guard (run {} [.addRow, .addCol, .addCol, .delRows 1]).ncols == 2

/-! ### free-space accounting of the sparse column store (matsize / matfree)
`Qsx.Store` transliterates matrix_addrow / _addrow_end / _addcoef / _addcol / delcols_work and is
compared with the real arrays after every call (check C06); each `addrow` of the model is checked at
run time against the abstraction `Qsx.StoreAcct` used here. -/

/-- the guard `delta < matfree` of `matrix_addrow` keeps every write of its in-place branch inside
the array (at most one touched column can end exactly at the first free slot) -/
theorem addrow_guard_sufficient (acts : List StoreAcct.Act) (free : Int)
    (hguard : (StoreAcct.delta acts : Int) < free) (hone : StoreAcct.atEndCount acts ≤ 1) :
    ∃ f, StoreAcct.run free acts = some f ∧ 0 ≤ f := StoreAcct.addrow_guard_sufficient acts free hguard hone

/-- and `delta ≤ matfree` would not be enough -/
theorem addrow_guard_tight (c : Nat) : StoreAcct.run ((c : Int) + 2) [.inPlace true, .move c] = none :=
  StoreAcct.addrow_guard_tight c

theorem addcol_safe (size : Nat) (free : Int) (cnt extra : Nat) (h0 : 0 ≤ free) (h1 : free ≤ size) :
    let r := StoreAcct.addcol size free cnt extra
    0 ≤ r.2.1 ∧ r.2.1 ≤ r.1 ∧ 0 ≤ r.2.2 ∧ r.2.2 < r.1 := StoreAcct.addcol_safe size free cnt extra h0 h1

theorem addcoef_move_safe (c : Nat) (free : Int) (h : (c : Int) + 2 < free) :
    ∃ f, StoreAcct.run free [.move c] = some f ∧ 0 ≤ f := StoreAcct.addcoef_move_safe c free h

#guard StoreAcct.run 10 [.first, .inPlace true, .move 3] == some 4
#guard StoreAcct.delta [.first, .inPlace true, .move 3] == 5

/-! ### the string pool of the symbol table (`add_string` / `grow_namelist`, symtab.c) -/

/-- for every pool state whose live strings fit below `strsize` (checked on every dumped state of
the symbol-table sessions) `add_string` leaves its loop with room for the string and its
terminator - the copy stays inside `strspace` - and keeps `strsize ≤ strspace` -/
theorem symtab_pool_write_fits (t : Symtab.T) (s : Symtab.Name) (h : Symtab.PoolOK t) :
    let t' := Symtab.addStringLoop (2 * (t.strsize + (s.length + 1)) + 64) t (s.length + 1)
    t'.strsize + (s.length + 1) ≤ t'.strspace ∧ (Symtab.addString t s).strsize ≤ (Symtab.addString t s).strspace ∧
    0 < (Symtab.addString t s).strspace :=
  Symtab.addString_fits t s h

/-- for every history of registrations, deletions and renamings the pool invariant holds - so every
`add_string` that any such history performs finds room for its string (previous theorem), without
the hypothesis having to be observed -/
theorem symtab_pool_history (n : Nat) (ops : List Qsx.Props.C06.Sym.Op) :
    Symtab.PoolInv (ops.foldl Qsx.Props.C06.Sym.step (Symtab.create n)) := by
  have key : ∀ (ops : List Qsx.Props.C06.Sym.Op) (t : Symtab.T), Symtab.WF t → Symtab.PoolInv t →
      Symtab.PoolInv (ops.foldl Qsx.Props.C06.Sym.step t) := by
    intro ops
    induction ops with
    | nil => intro t _ h; exact h
    | cons op ops ih =>
      intro t hw h
      simp only [List.foldl_cons]
      cases op with
      | reg s i => exact ih _ (Symtab.register_wf hw s i) (Symtab.register_poolInv h s i)
      | del s => exact ih _ (Symtab.delete_wf hw s) (Symtab.delete_poolInv hw h s)
      | ren i s => exact ih _ (Symtab.rename_wf hw i s) (Symtab.rename_poolInv h i s)
  exact key ops _ (Symtab.create_wf n) (Symtab.create_poolInv n)

end Qsx.Props.C17
