/-
C17 — memory safety of the size bookkeeping (the part of the property a model can carry).
`Qsx.Cap` models counts and capacities of the growable per-row / per-column arrays with lib.c's
growth rule and the EXTRA_* constants re-extracted from the source.  For every history of
additions and deletions, every write index lies inside the array as sized after the growth step.
The correspondence run compares counts and capacities with the real object after every call.
Actual memory accesses, undefined behaviour and reproducibility are runtime facts: they are
observed (sanitizers, memcheck, repeated runs with perturbed allocator / address space), not proved.
-/
import Qsx.Proofs.CapSound

namespace Qsx.Props.C17
open Qsx Qsx.Cap

theorem step_safe (s : S) (o : Op) (h : Cap.Inv s) : WritesInBounds (step s o).1 (step s o).2 ∧ Cap.Inv (step s o).1 :=
  Cap.step_safe s o h

theorem history_safe (ops : List Op) (o : Op) :
    WritesInBounds (step (run {} ops) o).1 (step (run {} ops) o).2 := Cap.history_safe ops o

theorem history_inv (ops : List Op) : Cap.Inv (run {} ops) := run_inv {} ops (by simp [Cap.Inv])

-- non-vacuity: the first added row grows every array from 0 and writes index 0
#guard (step {} .addRow).1.rowsize == Gen.extraRows && (step {} .addRow).2.1 == some 0
#guard (run {} [.addRow, .addCol, .addCol, .delRows 1]).ncols == 2

end Qsx.Props.C17
