/-
C09 — MPS round trip: the layers it rests on.  Numbers: C10.  BOUNDS section: `mps_bounds_roundtrip`.
Ranged rows are written as 'G' rows with a RANGES record (kept for range 0 too); the RANGES /
ROWS / COLUMNS grammar and the agreement with the LP rendering are tied by round trips only.
-/
import Qsx.Proofs.LpBoundsRT

namespace Qsx.Props.C09
open Qsx

/-- The BOUNDS section of the MPS format: reading the records the writer prints for a column
(FX / FR / MI / LO / PL / UP, possibly none) with the reader's "first definition wins" flags and
the fill-in of defaults returns the column's bounds, for every `lo ≤ up`, integer column or not. -/
theorem mps_bounds_roundtrip (lo up pinf ninf : Rat) (isInt : Bool) (hle : lo ≤ up) (hn : ninf < 0) (hp : 1 < pinf) :
    MpsBounds.readCol pinf ninf isInt (MpsBounds.writeCol lo up pinf ninf isInt) = (lo, up) :=
  MpsBounds.read_write lo up pinf ninf isInt hle hn hp

/-- RANGES: a ranged row (range ≥ 0, zero included) is written as a 'G' row plus a RANGES record and read
back as the same ranged row; rows of the other senses are unaffected. -/
theorem mps_ranges_roundtrip (sense : Char) (rhs range : Rat) (hr : 0 ≤ range) (hs : sense = 'R' ∨ range = 0) :
    MpsRanges.readRow (MpsRanges.writeRow sense rhs range).1 (MpsRanges.writeRow sense rhs range).2.1
      (MpsRanges.writeRow sense rhs range).2.2 = (sense, rhs, range) :=
  MpsRanges.read_write sense rhs range hr hs

/-- and the reader gives every RANGES record of a foreign file its standard meaning -/
theorem mps_ranges_meaning (sense : Char) (rhs r v : Rat) (hs : sense = 'G' ∨ sense = 'L' ∨ sense = 'E') :
    let row := MpsRanges.readRow sense rhs (some r)
    row.1 = 'R' ∧
    ((row.2.1 ≤ v ∧ v ≤ row.2.1 + row.2.2) ↔
      (if sense = 'G' then rhs ≤ v ∧ v ≤ rhs + |r|
       else if sense = 'L' then rhs - |r| ≤ v ∧ v ≤ rhs
       else if 0 ≤ r then rhs ≤ v ∧ v ≤ rhs + r else rhs + r ≤ v ∧ v ≤ rhs)) :=
  MpsRanges.read_meaning sense rhs r v hs

#guard MpsRanges.readRow 'L' 10 (some (-4)) == ('R', 6, 4)
#guard MpsRanges.readRow 'E' 10 (some (-4)) == ('R', 6, 4) && MpsRanges.readRow 'E' 10 (some 4) == ('R', 10, 4)

-- non-vacuity: an integer column [0, +inf) needs its PL record (without it the reader makes it binary)
#guard MpsBounds.writeCol 0 1000 1000 (-1000) true == [.pl]
#guard MpsBounds.readCol 1000 (-1000) true [] == (0, 1)
#guard MpsBounds.readCol 1000 (-1000) true [.pl] == (0, 1000)
#guard MpsBounds.writeCol (-1000) 3 1000 (-1000) false == [.mi, .up 3]

end Qsx.Props.C09
