/-
C09 — MPS round trip: the layers it rests on.  Numbers: C10.  BOUNDS section: `mps_bounds_roundtrip`.
Ranged rows are written as 'G' rows with a RANGES record (kept for range 0 too); the RANGES /
ROWS / COLUMNS grammar and the agreement with the LP rendering are tied by round trips only.
-/
import Qsx.Proofs.LpBoundsRT

namespace Qsx.Props.C09
open Qsx

/-- The BOUNDS section of the MPS format: reading the records the writer prints for a column
(FX / FR / MI / LO / PL / UP, possibly none) with the reader's "first definition wins" flags and
the fill-in of defaults returns the column's bounds, for every `lo ≤ up`, integer column or not. -/
theorem mps_bounds_roundtrip (lo up pinf ninf : Rat) (isInt : Bool) (hle : lo ≤ up) (hn : ninf < 0) (hp : 1 < pinf) :
    MpsBounds.readCol pinf ninf isInt (MpsBounds.writeCol lo up pinf ninf isInt) = (lo, up) :=
  MpsBounds.read_write lo up pinf ninf isInt hle hn hp

-- non-vacuity: an integer column [0, +inf) needs its PL record (without it the reader makes it binary)
#guard MpsBounds.writeCol 0 1000 1000 (-1000) true == [.pl]
#guard MpsBounds.readCol 1000 (-1000) true [] == (0, 1)
#guard MpsBounds.readCol 1000 (-1000) true [.pl] == (0, 1000)
#guard MpsBounds.writeCol (-1000) 3 1000 (-1000) false == [.mi, .up 3]

end Qsx.Props.C09
