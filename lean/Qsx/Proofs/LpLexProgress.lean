/-
More progress facts for the LP lexer model (C11): a field delivered by next_field, a sense recognised by
test_sense, and a bound value recognised by possible_bound_value each leave strictly less input.
-/
import Qsx.Proofs.LpLexSafe
import Qsx.Proofs.MpsLexSafe

namespace Qsx.LpLex

theorem sscanfS_pos {t f : List Char} (h : sscanfS t = some f) : 0 < f.length := by
  unfold sscanfS at h
  simp only at h
  split at h
  · simp at h
  · rename_i hne
    simp at h; subst h
    -- the first character left after dropping white space is no white space
    cases hd : List.dropWhile isSpace t with
    | nil => simp [hd] at hne
    | cons c cs =>
      have hc : isSpace c = false := by
        have := List.head?_dropWhile_not isSpace t
        simpa [hd] using this
      simp [List.takeWhile, hc]

/-- `next_field` delivered a field ⇒ strictly less input remains -/
theorem nextField_progress {s s' : St} {a : Bool} (h : nextField s a = some (s', 0)) : remaining s' < remaining s := by
  unfold nextField at h
  simp only [Option.bind_eq_bind, Option.pure_def] at h
  cases h1 : skipBlanks s a with
  | none => simp [h1] at h
  | some x =>
    obtain ⟨s1, r1⟩ := x
    have hr := skipBlanks_rem h1
    simp only [h1, Option.bind_some] at h
    split at h
    · simp at h
    · split at h
      · rename_i f hf
        have hl := sscanfS_len hf
        have hp := sscanfS_pos hf
        simp at h; rw [← h]
        simp at hl
        simp only [remaining] at *; omega
      · simp at h

end Qsx.LpLex

namespace Qsx.MpsLex
open Qsx.LpLex (NUL rd isBlank scanWhile sscanfS scanWhile_ge sscanfS_len sscanfS_pos)

/-- `mps_skip_comment` only moves the cursor forward, on the same line -/
theorem skipComment_mono {s s' : St} {b : Bool} (h : skipComment s = some (s', b)) : s.p ≤ s'.p ∧ s'.line = s.line := by
  rcases s with ⟨line, p0, pnull, unterm, ln, fn, key, field, nt, file⟩
  unfold skipComment at h
  cases pnull
  · cases hq : scanWhile (fun c _ => isBlank c) line p0 0 with
    | none => cases unterm <;> simp [hq] at h
    | some q =>
      have hge := (scanWhile_ge hq).1
      cases unterm
      · simp only [hq, Option.bind_eq_bind, Option.bind_some, Option.pure_def, Bool.false_eq_true, if_false] at h
        cases hc : rdp { line := line, p := q, pnull := false, unterm := false, lineNum := ln, fieldNum := fn, key := key, field := field, noType := nt, file := file } 0 with
        | none => simp [hc] at h
        | some c => simp [hc] at h; obtain ⟨rfl, _⟩ := h; exact ⟨hge, rfl⟩
      · simp only [hq, Option.bind_eq_bind, Option.bind_some, Option.pure_def, Bool.false_eq_true, if_false, if_true] at h
        by_cases hlt : q < line.length
        · simp only [hlt, if_true, Option.bind_some] at h
          cases hc : rdp { line := line, p := q, pnull := false, unterm := true, lineNum := ln, fieldNum := fn, key := key, field := field, noType := nt, file := file } 0 with
          | none => simp [hc] at h
          | some c => simp [hc] at h; obtain ⟨rfl, _⟩ := h; exact ⟨hge, rfl⟩
        · simp [hlt] at h
  · simp at h

/-- a field delivered by `next_field` moves the cursor strictly forward on the same line: the record loops of the section
parsers (`for (more = 1; more; more = next_field == 0)`) end after at most `strlen (line)` rounds -/
theorem nextField_advances {s s' : St} (h : nextField s = some (s', 0)) : s.p < s'.p ∧ s'.line = s.line := by
  unfold nextField at h
  simp only [Option.bind_eq_bind, Option.pure_def] at h
  cases h1 : skipComment { s with field := [] } with
  | none => simp [h1] at h
  | some x =>
    obtain ⟨s1, com⟩ := x
    obtain ⟨hm, hl⟩ := skipComment_mono h1
    simp only [h1, Option.bind_some] at h
    split at h
    · simp at h
    · cases hr : rest s1 with
      | none => simp [hr] at h
      | some r =>
        simp only [hr, Option.bind_some] at h
        split at h
        · rename_i f hf
          have hp := sscanfS_pos hf
          cases hc : rdp { s1 with field := f, p := s1.p + f.length } 0 with
          | none => simp [hc] at h
          | some c =>
            simp only [hc, Option.bind_some] at h
            simp at h; rw [← h]
            constructor
            · simp at hm; split <;> simp <;> omega
            · split <;> simpa using hl
        · simp at h

end Qsx.MpsLex
