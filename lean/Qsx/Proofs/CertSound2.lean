import Qsx.Proofs.CertSound

namespace Qsx
open ILP

theorem clip_mem {v lo up : Rat} (h : lo ≤ up) : lo ≤ clip v lo up ∧ clip v lo up ≤ up := by
  unfold clip
  split
  · exact ⟨h, le_refl _⟩
  · split
    · exact ⟨le_refl _, h⟩
    · constructor <;> linarith

theorem valByStat_mem {c : Col} {u l : Bool} {v : Rat} (h : c.lo ≤ c.up) :
    c.lo ≤ valByStat c u l v ∧ valByStat c u l v ≤ c.up := by
  unfold valByStat
  split
  · exact ⟨h, le_refl _⟩
  · split
    · exact ⟨le_refl _, h⟩
    · exact clip_mem h

/-- one reduced-cost term has the right sign against any value that respects the bound the
reduced cost leans on -/
theorem cs_term {isMin : Bool} {c : Col} {v d v' : Rat}
    (hcs : csOK isMin c v d = true) (hlo : posDir isMin d = true → c.lo ≤ v')
    (hup : negDir isMin d = true → v' ≤ c.up) :
    if isMin then 0 ≤ d * (v' - v) else d * (v' - v) ≤ 0 := by
  unfold csOK at hcs
  simp only [Bool.and_eq_true, Bool.or_eq_true, Bool.not_eq_true', decide_eq_true_eq] at hcs
  obtain ⟨h1, h2⟩ := hcs
  rcases lt_trichotomy d 0 with hd | hd | hd
  · have hd' : ¬ (0 < d) := not_lt.mpr (le_of_lt hd)
    cases isMin
    · -- max, d < 0 : posDir
      have hp : posDir false d = true := by simp [posDir, hd]
      have hv : v = c.lo := by
        rcases h1 with h | h
        · rw [hp] at h; cases h
        · have := (mul_eq_zero.mp h).resolve_right (ne_of_lt hd); linarith
      have := hlo hp
      subst hv
      exact mul_nonpos_of_nonpos_of_nonneg (le_of_lt hd) (by linarith)
    · have hn : negDir true d = true := by simp [negDir, hd]
      have hv : v = c.up := by
        rcases h2 with h | h
        · rw [hn] at h; cases h
        · have := (mul_eq_zero.mp h).resolve_right (ne_of_lt hd); linarith
      have := hup hn
      subst hv
      exact mul_nonneg_of_nonpos_of_nonpos (le_of_lt hd) (by linarith)
  · subst hd; cases isMin <;> simp
  · have hd' : ¬ (d < 0) := not_lt.mpr (le_of_lt hd)
    cases isMin
    · have hn : negDir false d = true := by simp [negDir, hd]
      have hv : v = c.up := by
        rcases h2 with h | h
        · rw [hn] at h; cases h
        · have := (mul_eq_zero.mp h).resolve_right (ne_of_gt hd); linarith
      have := hup hn
      subst hv
      exact mul_nonpos_of_nonneg_of_nonpos (le_of_lt hd) (by linarith)
    · have hp : posDir true d = true := by simp [posDir, hd]
      have hv : v = c.lo := by
        rcases h1 with h | h
        · rw [hp] at h; cases h
        · have := (mul_eq_zero.mp h).resolve_right (ne_of_gt hd); linarith
      have := hlo hp
      subst hv
      exact mul_nonneg (le_of_lt hd) (by linarith)

/-- the accepted point: feasibility, value, dual value -/
theorem optimalTest_point {P : ILP} {cs rs : Array Nat} {ps ds : Array Rat} {c : Cache}
    (hw : P.WF) (h : optimalTest P cs rs ps ds = some c) :
    P.BoxFeasible (rget c.x) (rget c.slack) ∧
    c.val = P.objv (rget c.x) (rget c.slack) ∧
    c.val = dObj P ds (dzSArr P ds) (dzLArr P ds) := by
  have F := optimalTest_facts h
  have hxj : ∀ j, j < P.ns → rget c.x j = xStruct P cs ps j := by
    intro j hj; rw [F.hx]; exact rget_tab _ _ _ hj
  have hsi : ∀ i, i < P.nrows → rget c.slack i = slackVal P rs ps (rget c.x) i := by
    intro i hi; rw [F.hs, F.hx]; exact rget_tab _ _ _ hi
  have hrows : P.RowsHold (rget c.x) (rget c.slack) := by
    intro i hi
    obtain ⟨a, ha, he⟩ := hw.lent i hi
    have hcoef : (P.lcol i).coef = a := by simp [Col.coef, he]
    have hr := F.roweq i hi
    rw [hsi i hi]
    unfold slackVal
    unfold rowEqOK at hr
    by_cases hb : (nget rs i == Gen.rstatBasic) = true
    · simp only [hb, if_true, hcoef]
      rw [mul_div_cancel₀ _ ha]
      ring
    · simp only [hb, if_false, Bool.false_eq_true]
      simp only [hb, Bool.false_or, decide_eq_true_eq] at hr
      linarith
  refine ⟨⟨hrows, ?_, ?_, F.slo, F.sup⟩, F.hval, ?_⟩
  · intro j hj; rw [hxj j hj]; exact (valByStat_mem (F.sbox j hj)).1
  · intro j hj; rw [hxj j hj]; exact (valByStat_mem (F.sbox j hj)).2
  · rw [F.hval]; exact F.hobj

/-- general optimality statement: any point that satisfies the rows and respects, for every
column, the bound its reduced cost leans on, is no better than the accepted point -/
theorem optimalTest_dominates {P : ILP} {cs rs : Array Nat} {ps ds : Array Rat} {c : Cache}
    (hw : P.WF) (h : optimalTest P cs rs ps ds = some c) (x' s' : Nat → Rat)
    (hr : P.RowsHold x' s')
    (hxl : ∀ j, j < P.ns → posDir P.isMin (dzOf (P.scol j) (rget ds)) = true → (P.scol j).lo ≤ x' j)
    (hxu : ∀ j, j < P.ns → negDir P.isMin (dzOf (P.scol j) (rget ds)) = true → x' j ≤ (P.scol j).up)
    (hsl : ∀ i, i < P.nrows → posDir P.isMin (dzOf (P.lcol i) (rget ds)) = true → (P.lcol i).lo ≤ s' i)
    (hsu : ∀ i, i < P.nrows → negDir P.isMin (dzOf (P.lcol i) (rget ds)) = true → s' i ≤ (P.lcol i).up) :
    P.better c.val (P.objv x' s') := by
  have F := optimalTest_facts h
  obtain ⟨hbox, hval, _⟩ := optimalTest_point hw h
  have e1 := objv_split P hw (rget c.x) (rget c.slack) (rget ds) hbox.rows
  have e2 := objv_split P hw x' s' (rget ds) hr
  have hdS : ∀ j, j < P.ns → rget (dzSArr P ds) j = dzOf (P.scol j) (rget ds) := by
    intro j hj; exact rget_tab _ _ _ hj
  have hdL : ∀ i, i < P.nrows → rget (dzLArr P ds) i = dzOf (P.lcol i) (rget ds) := by
    intro i hi; exact rget_tab _ _ _ hi
  have hdiff : P.objv x' s' - P.objv (rget c.x) (rget c.slack)
      = sumTo P.ns (fun j => dzOf (P.scol j) (rget ds) * (x' j - rget c.x j))
        + sumTo P.nrows (fun i => dzOf (P.lcol i) (rget ds) * (s' i - rget c.slack i)) := by
    rw [e1, e2]
    have : ∀ (n : Nat) (d a b : Nat → Rat), sumTo n (fun k => d k * (a k - b k))
        = sumTo n (fun k => d k * a k) - sumTo n (fun k => d k * b k) := by
      intro n d a b; rw [← sumTo_sub]; apply sumTo_congr; intro k _; ring
    rw [this, this]; ring
  have termS : ∀ j, j < P.ns →
      if P.isMin then 0 ≤ dzOf (P.scol j) (rget ds) * (x' j - rget c.x j)
      else dzOf (P.scol j) (rget ds) * (x' j - rget c.x j) ≤ 0 := by
    intro j hj
    have := F.csS j hj
    rw [hdS j hj] at this
    exact cs_term this (hxl j hj) (hxu j hj)
  have termL : ∀ i, i < P.nrows →
      if P.isMin then 0 ≤ dzOf (P.lcol i) (rget ds) * (s' i - rget c.slack i)
      else dzOf (P.lcol i) (rget ds) * (s' i - rget c.slack i) ≤ 0 := by
    intro i hi
    have := F.csL i hi
    rw [hdL i hi] at this
    exact cs_term this (hsl i hi) (hsu i hi)
  unfold better
  rw [hval]
  cases hm : P.isMin
  · simp only [Bool.false_eq_true, ↓reduceIte]
    simp only [hm, Bool.false_eq_true, ↓reduceIte] at termS termL
    have t1 : sumTo P.ns (fun j => dzOf (P.scol j) (rget ds) * (x' j - rget c.x j)) ≤ 0 := by
      have := sumTo_le (n := P.ns) (g := fun _ => 0) termS
      rwa [sumTo_zero (fun _ _ => rfl)] at this
    have t2 : sumTo P.nrows (fun i => dzOf (P.lcol i) (rget ds) * (s' i - rget c.slack i)) ≤ 0 := by
      have := sumTo_le (n := P.nrows) (g := fun _ => 0) termL
      rwa [sumTo_zero (fun _ _ => rfl)] at this
    linarith
  · simp only [↓reduceIte]
    simp only [hm, ↓reduceIte] at termS termL
    have t1 := sumTo_nonneg termS
    have t2 := sumTo_nonneg termL
    linarith

/-- **C01, core (box reading of the bounds).**  An accepting run of the optimality test yields a
point that satisfies every row and every bound of the internal LP exactly, whose objective equals
the reported value and the dual objective, and which no other point inside the bounds improves. -/
theorem optimalTest_sound_box {P : ILP} {cs rs : Array Nat} {ps ds : Array Rat} {c : Cache}
    (hw : P.WF) (h : optimalTest P cs rs ps ds = some c) :
    P.BoxFeasible (rget c.x) (rget c.slack) ∧
    c.val = P.objv (rget c.x) (rget c.slack) ∧
    c.val = dObj P ds (dzSArr P ds) (dzLArr P ds) ∧
    ∀ x' s', P.BoxFeasible x' s' → P.better c.val (P.objv x' s') := by
  obtain ⟨h1, h2, h3⟩ := optimalTest_point hw h
  exact ⟨h1, h2, h3, fun x' s' hf => optimalTest_dominates hw h x' s' hf.rows
    (fun j hj _ => hf.xlo j hj) (fun j hj _ => hf.xup j hj)
    (fun i hi _ => hf.slo i hi) (fun i hi _ => hf.sup i hi)⟩

/-- no column whose reduced cost is non-zero sits at a bound that encodes ±infinity
(`exact.c` does not check this; see DESIGN F8) -/
def noActiveInfinite (P : ILP) (pinf ninf : Rat) (ds : Array Rat) : Bool :=
  (allTo P.ns fun j =>
    (!posDir P.isMin (dzOf (P.scol j) (rget ds)) || (P.scol j).lo != ninf) &&
    (!negDir P.isMin (dzOf (P.scol j) (rget ds)) || (P.scol j).up != pinf)) &&
  (allTo P.nrows fun i =>
    (!posDir P.isMin (dzOf (P.lcol i) (rget ds)) || (P.lcol i).lo != ninf) &&
    (!negDir P.isMin (dzOf (P.lcol i) (rget ds)) || (P.lcol i).up != pinf))

theorem ILP.BoxFeasible.toFeasible {P : ILP} {x s : Nat → Rat} (pinf ninf : Rat)
    (h : P.BoxFeasible x s) : P.Feasible pinf ninf x s :=
  ⟨h.rows, fun j hj _ => h.xlo j hj, fun j hj _ => h.xup j hj,
   fun i hi _ => h.slo i hi, fun i hi _ => h.sup i hi⟩

/-- **C01, core (infinite bounds absent).**  Under the side condition `noActiveInfinite` the
accepted point is optimal among all points feasible when ±INF-encoded bounds are absent. -/
theorem optimalTest_sound_inf {P : ILP} {cs rs : Array Nat} {ps ds : Array Rat} {c : Cache}
    {pinf ninf : Rat} (hw : P.WF) (h : optimalTest P cs rs ps ds = some c)
    (hn : noActiveInfinite P pinf ninf ds = true) :
    P.Feasible pinf ninf (rget c.x) (rget c.slack) ∧
    c.val = P.objv (rget c.x) (rget c.slack) ∧
    ∀ x' s', P.Feasible pinf ninf x' s' → P.better c.val (P.objv x' s') := by
  obtain ⟨h1, h2, _⟩ := optimalTest_point hw h
  unfold noActiveInfinite at hn
  simp only [Bool.and_eq_true, allTo_iff, Bool.or_eq_true, Bool.not_eq_true', bne_iff_ne, ne_eq] at hn
  obtain ⟨hS, hL⟩ := hn
  refine ⟨h1.toFeasible pinf ninf, h2, fun x' s' hf => optimalTest_dominates hw h x' s' hf.rows ?_ ?_ ?_ ?_⟩
  · intro j hj hp
    rcases (hS j hj).1 with h | h
    · rw [hp] at h; cases h
    · exact hf.xlo j hj h
  · intro j hj hp
    rcases (hS j hj).2 with h | h
    · rw [hp] at h; cases h
    · exact hf.xup j hj h
  · intro i hi hp
    rcases (hL i hi).1 with h | h
    · rw [hp] at h; cases h
    · exact hf.slo i hi h
  · intro i hi hp
    rcases (hL i hi).2 with h | h
    · rw [hp] at h; cases h
    · exact hf.sup i hi h

end Qsx
