/-
Soundness of the primal phase-II ratio test model (`Qsx.Ratio`, ratio.c:264-455).

* `pIIWith_never_failed` — for *every* comparison used in pass 2 (monotone or not, i.e. whatever the
  arithmetic does) the test never ends RATIO_FAILED: when pass 1 found a blocking row, that row
  qualifies in pass 2.  This is the repaired behaviour (fix f07d9ed); the unrepaired pass 2 had no
  such row in truncating arithmetic.
* `pII_unbounded_sound`, `pII_nobchange_sound`, `pII_bchange_sound` — in exact arithmetic, from a
  basic solution inside its (tolerance-relaxed) bounds: UNBOUNDED means every step length up to
  `inf` keeps every basic variable inside its bounds; NOBCHANGE / BCHANGE steps keep them inside,
  and with tolerance 0 the leaving variable lands exactly on the bound named by `lvstat`.
-/
import Qsx.Model.Ratio
import Mathlib.Tactic.Linarith
import Mathlib.Tactic.FieldSimp
import Mathlib.Tactic.Ring
import Mathlib.Algebra.Order.Field.Basic

namespace Qsx.Ratio
open Qsx

theorem absR_nonneg (q : Rat) : 0 ≤ absR q := by
  unfold absR; split <;> linarith

theorem absR_of_pos {q : Rat} (h : 0 < q) : absR q = q := by
  unfold absR; rw [if_neg (by linarith)]

theorem absR_of_neg {q : Rat} (h : q < 0) : absR q = -q := by
  unfold absR; rw [if_pos h]

theorem relevant_pos {p : Par} {r : Row} (hp : 0 ≤ p.pivtol) (h : relevant p r = true) :
    0 < absR r.y := by
  unfold relevant at h
  have := of_decide_eq_true h
  linarith

/-! ### pass 1 -/

theorem pass1_spec (p : Par) (rs : List Row) :
    ∀ (k : Nat) (tm : Rat) (km : Int),
      (pass1 p rs k (tm, km)).1 ≤ tm ∧
      (∀ r ∈ rs, relevant p r = true → ratio1 p r ≠ p.inf → (pass1 p rs k (tm, km)).1 ≤ ratio1 p r) ∧
      (pass1 p rs k (tm, km) = (tm, km) ∨
        ∃ j r, rs[j]? = some r ∧ (pass1 p rs k (tm, km)).2 = ((k + j : Nat) : Int) ∧
          relevant p r = true ∧ ratio1 p r = (pass1 p rs k (tm, km)).1 ∧
          (pass1 p rs k (tm, km)).1 < tm) := by
  induction rs with
  | nil => intro k tm km; simp [pass1]
  | cons r rs ih =>
    intro k tm km
    by_cases hr : relevant p r = true
    · by_cases hinf : ratio1 p r = p.inf
      · -- skipped: t == inf
        have hstep : pass1 p (r :: rs) k (tm, km) = pass1 p rs (k + 1) (tm, km) := by
          simp [pass1, hr, hinf]
        rw [hstep]
        obtain ⟨h1, h2, h3⟩ := ih (k + 1) tm km
        refine ⟨h1, ?_, ?_⟩
        · intro r' hr' hrel hne
          rcases List.mem_cons.mp hr' with rfl | hmem
          · exact absurd hinf hne
          · exact h2 r' hmem hrel hne
        · rcases h3 with h3 | ⟨j, r', hj, hk, hrel, hrt, hlt⟩
          · exact Or.inl h3
          · refine Or.inr ⟨j + 1, r', by simpa using hj, ?_, hrel, hrt, hlt⟩
            rw [hk]; push_cast; ring
      · by_cases hlt : ratio1 p r < tm
        · have hstep : pass1 p (r :: rs) k (tm, km) = pass1 p rs (k + 1) (ratio1 p r, (k : Int)) := by
            simp [pass1, hr, hinf, hlt]
          rw [hstep]
          obtain ⟨h1, h2, h3⟩ := ih (k + 1) (ratio1 p r) (k : Int)
          refine ⟨by linarith, ?_, ?_⟩
          · intro r' hr' hrel hne
            rcases List.mem_cons.mp hr' with rfl | hmem
            · exact h1
            · exact h2 r' hmem hrel hne
          · rcases h3 with h3 | ⟨j, r', hj, hk, hrel, hrt, hlt'⟩
            · refine Or.inr ⟨0, r, by simp, ?_, hr, ?_, ?_⟩
              · rw [h3]; simp
              · rw [h3]
              · rw [h3]; exact hlt
            · refine Or.inr ⟨j + 1, r', by simpa using hj, ?_, hrel, hrt, by linarith⟩
              rw [hk]; push_cast; ring
        · have hstep : pass1 p (r :: rs) k (tm, km) = pass1 p rs (k + 1) (tm, km) := by
            simp [pass1, hr, hinf, hlt]
          rw [hstep]
          obtain ⟨h1, h2, h3⟩ := ih (k + 1) tm km
          refine ⟨h1, ?_, ?_⟩
          · intro r' hr' hrel hne
            rcases List.mem_cons.mp hr' with rfl | hmem
            · exact le_trans h1 (not_lt.mp hlt)
            · exact h2 r' hmem hrel hne
          · rcases h3 with h3 | ⟨j, r', hj, hk, hrel, hrt, hlt'⟩
            · exact Or.inl h3
            · refine Or.inr ⟨j + 1, r', by simpa using hj, ?_, hrel, hrt, hlt'⟩
              rw [hk]; push_cast; ring
    · have hstep : pass1 p (r :: rs) k (tm, km) = pass1 p rs (k + 1) (tm, km) := by
        simp [pass1, hr]
      rw [hstep]
      obtain ⟨h1, h2, h3⟩ := ih (k + 1) tm km
      refine ⟨h1, ?_, ?_⟩
      · intro r' hr' hrel hne
        rcases List.mem_cons.mp hr' with rfl | hmem
        · exact absurd hrel hr
        · exact h2 r' hmem hrel hne
      · rcases h3 with h3 | ⟨j, r', hj, hk, hrel, hrt, hlt⟩
        · exact Or.inl h3
        · refine Or.inr ⟨j + 1, r', by simpa using hj, ?_, hrel, hrt, hlt⟩
          rw [hk]; push_cast; ring

/-! ### pass 2 -/

theorem pass2_keeps_nonneg (leq : Rat → Rat → Bool) (p : Par) (tmax : Rat) (kmin : Int)
    (rs : List Row) : ∀ (k : Nat) (s : Sel), 0 ≤ s.indx →
      0 ≤ (pass2 leq p tmax kmin rs k s).indx := by
  induction rs with
  | nil => intro k s h; simpa [pass2] using h
  | cons r rs ih =>
    intro k s h
    unfold pass2
    apply ih
    dsimp only
    split
    · exact h
    · split
      · exact Int.natCast_nonneg k
      · exact h

/-- the row that defined `t_max` is always picked up (unless an earlier row was already chosen) -/
theorem pass2_hits (leq : Rat → Rat → Bool) (p : Par) (hp : 0 ≤ p.pivtol) (tmax : Rat) (kmin : Int)
    (rs : List Row) : ∀ (k : Nat) (s : Sel) (j : Nat) (r : Row),
      rs[j]? = some r → kmin = ((k + j : Nat) : Int) → relevant p r = true →
      (0 ≤ s.indx ∨ s.ayi = 0) → 0 ≤ (pass2 leq p tmax kmin rs k s).indx := by
  induction rs with
  | nil => intro k s j r h; simp at h
  | cons r0 rs ih =>
    intro k s j r hj hk hrel hs
    cases j with
    | zero =>
      simp at hj
      subst hj
      unfold pass2
      apply pass2_keeps_nonneg
      dsimp only
      rw [if_neg (by simp [hrel])]
      have hkk : ((k : Int) == kmin) = true := by simp [hk]
      rcases hs with hs | hs
      · split
        · exact Int.natCast_nonneg k
        · exact hs
      · have hpos := relevant_pos hp hrel
        rw [if_pos (by simp [hkk, hs, hpos])]
        exact Int.natCast_nonneg k
    | succ j =>
      have hj' : rs[j]? = some r := by simpa using hj
      unfold pass2
      apply ih (k + 1) _ j r hj' (by rw [hk]; push_cast; ring) hrel
      dsimp only
      split
      · exact hs
      · split
        · exact Or.inl (Int.natCast_nonneg k)
        · exact hs

theorem pass2_spec (leq : Rat → Rat → Bool) (p : Par) (tmax : Rat) (kmin : Int) (rs : List Row) :
    ∀ (k : Nat) (s : Sel),
      pass2 leq p tmax kmin rs k s = s ∨
      ∃ j r, rs[j]? = some r ∧ (pass2 leq p tmax kmin rs k s).indx = ((k + j : Nat) : Int) ∧
        relevant p r = true ∧ (pass2 leq p tmax kmin rs k s).tz = ratio2 p r ∧
        (pass2 leq p tmax kmin rs k s).yi = r.y ∧ (pass2 leq p tmax kmin rs k s).ayi = absR r.y ∧
        (((k + j : Nat) : Int) = kmin ∨ leq (ratio2 p r) tmax = true) := by
  induction rs with
  | nil => intro k s; simp [pass2]
  | cons r rs ih =>
    intro k s
    by_cases hr : relevant p r = true
    · by_cases hc : (((k : Int) == kmin || leq (ratio2 p r) tmax) && decide (s.ayi < absR r.y)) = true
      · have hstep : pass2 leq p tmax kmin (r :: rs) k s =
            pass2 leq p tmax kmin rs (k + 1) { indx := k, tz := ratio2 p r, yi := r.y, ayi := absR r.y } := by
          simp only [pass2, hr, Bool.not_true, Bool.false_eq_true, if_false, hc, if_true]
        rw [hstep]
        rcases ih (k + 1) { indx := k, tz := ratio2 p r, yi := r.y, ayi := absR r.y } with h | ⟨j, r', hj, hi, hrel, htz, hyi, hayi, hq⟩
        · refine Or.inr ⟨0, r, by simp, ?_, hr, ?_, ?_, ?_, ?_⟩
          · rw [h]; simp
          · rw [h]
          · rw [h]
          · rw [h]
          · simp only [Bool.and_eq_true, Bool.or_eq_true, beq_iff_eq] at hc
            simpa using hc.1
        · refine Or.inr ⟨j + 1, r', by simpa using hj, ?_, hrel, htz, hyi, hayi, ?_⟩
          · rw [hi]; push_cast; ring
          · have : ((k + 1 + j : Nat) : Int) = ((k + (j + 1) : Nat) : Int) := by push_cast; ring
            rw [← this]; exact hq
      · have hstep : pass2 leq p tmax kmin (r :: rs) k s = pass2 leq p tmax kmin rs (k + 1) s := by
          simp only [pass2, hr, Bool.not_true, Bool.false_eq_true, if_false, hc]
        rw [hstep]
        rcases ih (k + 1) s with h | ⟨j, r', hj, hi, hrel, htz, hyi, hayi, hq⟩
        · exact Or.inl h
        · refine Or.inr ⟨j + 1, r', by simpa using hj, ?_, hrel, htz, hyi, hayi, ?_⟩
          · rw [hi]; push_cast; ring
          · have : ((k + 1 + j : Nat) : Int) = ((k + (j + 1) : Nat) : Int) := by push_cast; ring
            rw [← this]; exact hq
    · have hstep : pass2 leq p tmax kmin (r :: rs) k s = pass2 leq p tmax kmin rs (k + 1) s := by
        simp [pass2, hr]
      rw [hstep]
      rcases ih (k + 1) s with h | ⟨j, r', hj, hi, hrel, htz, hyi, hayi, hq⟩
      · exact Or.inl h
      · refine Or.inr ⟨j + 1, r', by simpa using hj, ?_, hrel, htz, hyi, hayi, ?_⟩
        · rw [hi]; push_cast; ring
        · have : ((k + 1 + j : Nat) : Int) = ((k + (j + 1) : Nat) : Int) := by push_cast; ring
          rw [← this]; exact hq


/-! ### the test never fails -/

theorem pIIWith_never_failed (leq : Rat → Rat → Bool) (p : Par) (hp : 0 ≤ p.pivtol) (rows : List Row) :
    (pIIWith leq p rows).stat ≠ .failed := by
  unfold pIIWith
  obtain ⟨h1, _, h3⟩ := pass1_spec p rows 0 p.inf (-1)
  generalize hout : pass1 p rows 0 (p.inf, -1) = out at h1 h3
  obtain ⟨tmax, kmin⟩ := out
  dsimp only at h1 h3 ⊢
  split
  · simp [noRow]
  · split
    · simp [noRow]
    · rename_i _ hub
      have hlt : tmax < p.inf := not_le.mp hub
      have hk : ∃ j r, rows[j]? = some r ∧ kmin = ((0 + j : Nat) : Int) ∧ relevant p r = true := by
        rcases h3 with h3 | ⟨j, r, hj, hk, hrel, _, _⟩
        · have : tmax = p.inf := by
            have := congrArg Prod.fst h3; simpa using this
          linarith
        · exact ⟨j, r, hj, hk, hrel⟩
      obtain ⟨j, r, hj, hk, hrel⟩ := hk
      have hidx := pass2_hits leq p hp tmax kmin rows 0 {} j r hj hk hrel (Or.inr rfl)
      rw [if_neg (not_lt.mpr hidx)]
      split <;> simp

/-! ### exact arithmetic: the chosen step keeps the basic variables inside their bounds -/

/-- a step of length `t` not beyond the pass-1 ratio of the row keeps it inside its relaxed bounds -/
theorem row_step_ok (p : Par) (r : Row) (hpv : p.pivtol = 0)
    (hfeas : inBounds p p.pftol r r.x) (tmax : Rat) (hti : tmax ≤ p.inf)
    (hspec : relevant p r = true → ratio1 p r ≠ p.inf → tmax ≤ ratio1 p r)
    (t : Rat) (ht0 : 0 ≤ t) (ht : t ≤ tmax) : inBounds p p.pftol r (newx p r t) := by
  obtain ⟨hl, hu⟩ := hfeas
  by_cases hy0 : r.y = 0
  · unfold newx; rw [hy0]; simp only [mul_zero, sub_zero, add_zero, ite_self]; exact ⟨hl, hu⟩
  have hrel : relevant p r = true := by
    unfold relevant; rw [hpv]
    apply decide_eq_true
    unfold absR; split
    · linarith
    · rcases lt_or_gt_of_ne hy0 with h | h
      · linarith
      · exact h
  have hspec' := hspec hrel
  rcases lt_or_gt_of_ne hy0 with hneg | hpos
  · -- y < 0
    have habs : absR r.y = -r.y := absR_of_neg hneg
    cases hinc : p.incr with
    | true =>
      -- moves up: x - t*y = x + t*|y|
      have hnx : newx p r t = r.x - t * r.y := by unfold newx; rw [hinc]; rfl
      rw [hnx]
      refine ⟨fun h => by have := hl h; nlinarith, fun h => ?_⟩
      have hr1 : ratio1 p r = (r.u + p.pftol - r.x) / absR r.y := by
        unfold ratio1 towardLower towardUpper
        simp [hinc, hneg, not_lt.mpr (le_of_lt hneg), h]
      have hle : tmax ≤ (r.u + p.pftol - r.x) / absR r.y := by
        by_cases he : ratio1 p r = p.inf
        · rw [← hr1, he]; exact hti
        · rw [← hr1]; exact hspec' he
      rw [habs] at hle
      have hpos' : (0 : Rat) < -r.y := by linarith
      have := (le_div_iff₀ hpos').mp (le_trans ht hle)
      nlinarith
    | false =>
      -- moves down: x + t*y
      have hnx : newx p r t = r.x + t * r.y := by unfold newx; rw [hinc]; rfl
      rw [hnx]
      refine ⟨fun h => ?_, fun h => by have := hu h; nlinarith⟩
      have hr1 : ratio1 p r = (r.x - r.l + p.pftol) / absR r.y := by
        unfold ratio1 towardLower towardUpper
        simp [hinc, hneg, h]
      have hle : tmax ≤ (r.x - r.l + p.pftol) / absR r.y := by
        by_cases he : ratio1 p r = p.inf
        · rw [← hr1, he]; exact hti
        · rw [← hr1]; exact hspec' he
      rw [habs] at hle
      have hpos' : (0 : Rat) < -r.y := by linarith
      have := (le_div_iff₀ hpos').mp (le_trans ht hle)
      nlinarith
  · -- y > 0
    have habs : absR r.y = r.y := absR_of_pos hpos
    cases hinc : p.incr with
    | true =>
      have hnx : newx p r t = r.x - t * r.y := by unfold newx; rw [hinc]; rfl
      rw [hnx]
      refine ⟨fun h => ?_, fun h => by have := hu h; nlinarith⟩
      have hr1 : ratio1 p r = (r.x - r.l + p.pftol) / absR r.y := by
        unfold ratio1 towardLower towardUpper
        simp [hinc, hpos, h]
      have hle : tmax ≤ (r.x - r.l + p.pftol) / absR r.y := by
        by_cases he : ratio1 p r = p.inf
        · rw [← hr1, he]; exact hti
        · rw [← hr1]; exact hspec' he
      rw [habs] at hle
      have := (le_div_iff₀ hpos).mp (le_trans ht hle)
      nlinarith
    | false =>
      have hnx : newx p r t = r.x + t * r.y := by unfold newx; rw [hinc]; rfl
      rw [hnx]
      refine ⟨fun h => by have := hl h; nlinarith, fun h => ?_⟩
      have hr1 : ratio1 p r = (r.u + p.pftol - r.x) / absR r.y := by
        unfold ratio1 towardLower towardUpper
        simp [hinc, hpos, not_lt.mpr (le_of_lt hpos), h]
      have hle : tmax ≤ (r.u + p.pftol - r.x) / absR r.y := by
        by_cases he : ratio1 p r = p.inf
        · rw [← hr1, he]; exact hti
        · rw [← hr1]; exact hspec' he
      rw [habs] at hle
      have := (le_div_iff₀ hpos).mp (le_trans ht hle)
      nlinarith


theorem pII_unbounded_sound (p : Par) (rows : List Row) (hpv : p.pivtol = 0)
    (hfeas : ∀ r ∈ rows, inBounds p p.pftol r r.x) (h : (pII p rows).stat = .unbounded) :
    ∀ r ∈ rows, ∀ t, 0 ≤ t → t ≤ p.inf → inBounds p p.pftol r (newx p r t) := by
  unfold pII pIIWith at h
  obtain ⟨h1, h2, _⟩ := pass1_spec p rows 0 p.inf (-1)
  generalize hout : pass1 p rows 0 (p.inf, -1) = out at h h1 h2
  obtain ⟨tmax, kmin⟩ := out
  dsimp only at h h1 h2
  split at h
  · simp [noRow] at h
  · split at h
    · rename_i hub
      intro r hr t ht0 ht
      exact row_step_ok p r hpv (hfeas r hr) tmax h1 (h2 r hr) t ht0 (le_trans ht hub)
    · split at h
      · simp [noRow] at h
      · split at h <;> simp at h

theorem pII_nobchange_sound (p : Par) (rows : List Row) (hpv : p.pivtol = 0)
    (hfeas : ∀ r ∈ rows, inBounds p p.pftol r r.x) (hd : 0 ≤ p.eu - p.el)
    (h : (pII p rows).stat = .nobchange) :
    (pII p rows).tz = (if p.incr then p.eu - p.el else -(p.eu - p.el)) ∧ (pII p rows).lindex = -1 ∧
    ∀ r ∈ rows, inBounds p p.pftol r (newx p r (p.eu - p.el)) := by
  unfold pII pIIWith at h ⊢
  obtain ⟨h1, h2, _⟩ := pass1_spec p rows 0 p.inf (-1)
  generalize hout : pass1 p rows 0 (p.inf, -1) = out at h h1 h2 ⊢
  obtain ⟨tmax, kmin⟩ := out
  dsimp only at h h1 h2 ⊢
  split at h
  · rename_i hc
    rw [if_pos hc]
    simp only [Bool.and_eq_true, decide_eq_true_eq] at hc
    refine ⟨by simp [noRow], by simp [noRow], ?_⟩
    intro r hr
    exact row_step_ok p r hpv (hfeas r hr) tmax h1 (h2 r hr) _ hd hc.2
  · split at h
    · simp [noRow] at h
    · split at h
      · simp [noRow] at h
      · split at h <;> simp at h

theorem ratio1_eq_ratio2 (p : Par) (r : Row) (hpf : p.pftol = 0) : ratio1 p r = ratio2 p r := by
  unfold ratio1 ratio2; rw [hpf]; simp only [add_zero]

/-- exact arithmetic, tolerance 0, feasible start: what pass 2 selects when pass 1 found a finite
`t_max` — the row attains `t_max`, the step `t_max` is non-negative and keeps every row inside its
bounds, and the selected row reaches the bound it moves towards -/
theorem select_exact (p : Par) (rows : List Row) (hpv : p.pivtol = 0) (hpf : p.pftol = 0)
    (hfeas : ∀ r ∈ rows, inBounds p 0 r r.x) (tmax : Rat) (kmin : Int)
    (hout : pass1 p rows 0 (p.inf, -1) = (tmax, kmin)) (hlt : tmax < p.inf)
    (s : Sel) (hs : pass2 (fun a b => decide (a ≤ b)) p tmax kmin rows 0 {} = s) (hidx : ¬ s.indx < 0) :
    ∃ (j : Nat) (c : Row), rows[j]? = some c ∧ s.indx = (j : Int) ∧ s.tz = tmax ∧ s.yi = c.y ∧ s.ayi = absR c.y ∧
      c.y ≠ 0 ∧ 0 ≤ tmax ∧ (∀ r ∈ rows, inBounds p 0 r (newx p r tmax)) ∧
      ((towardLower p c = true ∧ c.l ≠ -p.inf ∧ tmax = (c.x - c.l) / absR c.y) ∨
       (towardLower p c = false ∧ towardUpper p c = true ∧ c.u ≠ p.inf ∧ tmax = (c.u - c.x) / absR c.y)) := by
  have hfeas' : ∀ r ∈ rows, inBounds p p.pftol r r.x := by rw [hpf]; exact hfeas
  obtain ⟨h1, h2, h3⟩ := pass1_spec p rows 0 p.inf (-1)
  rw [hout] at h1 h2 h3
  dsimp only at h1 h2 h3
  have hsp := pass2_spec (fun a b => decide (a ≤ b)) p tmax kmin rows 0 {}
  rw [hs] at hsp
  rcases hsp with hsp | ⟨j, c, hj, hi, hrel, htz, hyi, hayi, hq⟩
  · exfalso; apply hidx; rw [hsp]; decide
  have hr12 := ratio1_eq_ratio2 p c hpf
  have hcm : c ∈ rows := List.mem_of_getElem? hj
  have htm : ratio2 p c = tmax := by
    rcases hq with hq | hq
    · rcases h3 with h3 | ⟨j', r', hj', hk', _, hrt, _⟩
      · have : tmax = p.inf := by have := congrArg Prod.fst h3; simpa using this
        linarith
      · have hjj : j = j' := by
          have : ((0 + j : Nat) : Int) = ((0 + j' : Nat) : Int) := by rw [hq, hk']
          omega
        subst hjj
        rw [hj] at hj'
        cases hj'
        rw [← hr12]; exact hrt
    · have hq' : ratio2 p c ≤ tmax := of_decide_eq_true hq
      by_cases he : ratio1 p c = p.inf
      · rw [hr12] at he; linarith
      · have := h2 c hcm hrel he
        rw [hr12] at this; linarith
  have hy0 : c.y ≠ 0 := by
    have := relevant_pos (le_of_eq hpv.symm) hrel
    intro h0; rw [h0] at this; unfold absR at this; simp at this
  have hcase : (towardLower p c = true ∧ c.l ≠ -p.inf ∧ tmax = (c.x - c.l) / absR c.y) ∨
      (towardLower p c = false ∧ towardUpper p c = true ∧ c.u ≠ p.inf ∧ tmax = (c.u - c.x) / absR c.y) := by
    by_cases hL : towardLower p c = true
    · by_cases hll : c.l = -p.inf
      · have : ratio2 p c = p.inf := by unfold ratio2; simp [hL, hll]
        linarith
      · left
        refine ⟨hL, hll, ?_⟩
        rw [← htm]; unfold ratio2; simp [hL, hll]
    · have hL' : towardLower p c = false := by simpa using hL
      by_cases hU : towardUpper p c = true
      · by_cases huu : c.u = p.inf
        · have : ratio2 p c = p.inf := by unfold ratio2; simp [hL', hU, huu]
          linarith
        · right
          refine ⟨hL', hU, huu, ?_⟩
          rw [← htm]; unfold ratio2; simp [hL', hU, huu]
      · have hU' : towardUpper p c = false := by simpa using hU
        have : ratio2 p c = p.inf := by unfold ratio2; simp [hL', hU']
        linarith
  obtain ⟨hl, hu⟩ := hfeas c hcm
  have ht0 : 0 ≤ tmax := by
    rcases hcase with ⟨_, hll, ht⟩ | ⟨_, _, huu, ht⟩
    · rw [ht]; have := hl hll; exact div_nonneg (by linarith) (absR_nonneg _)
    · rw [ht]; have := hu huu; exact div_nonneg (by linarith) (absR_nonneg _)
  have hstep : ∀ r ∈ rows, inBounds p 0 r (newx p r tmax) := by
    intro r hr
    have := row_step_ok p r hpv (hfeas' r hr) tmax h1 (h2 r hr) tmax ht0 (le_refl _)
    rw [hpf] at this
    exact this
  exact ⟨j, c, hj, by rw [hi]; simp, by rw [htz, htm], hyi, hayi, hy0, ht0, hstep, hcase⟩

/-- where the selected row lands -/
theorem lands (p : Par) (c : Row) (hy0 : c.y ≠ 0) (tmax : Rat) :
    (towardLower p c = true → tmax = (c.x - c.l) / absR c.y → newx p c tmax = c.l) ∧
    (towardLower p c = false → towardUpper p c = true → tmax = (c.u - c.x) / absR c.y → newx p c tmax = c.u) := by
  constructor
  · intro hL ht
    unfold towardLower at hL
    cases hinc : p.incr with
    | true =>
      rw [hinc] at hL
      have hy : 0 < c.y := by simpa using hL
      unfold newx; rw [hinc, ht, absR_of_pos hy]; simp only [if_true]
      field_simp
      ring
    | false =>
      rw [hinc] at hL
      have hy : c.y < 0 := by simpa using hL
      unfold newx; rw [hinc, ht, absR_of_neg hy]
      have : -c.y ≠ 0 := by linarith
      simp only [Bool.false_eq_true, if_false]
      field_simp
      ring
  · intro _ hU ht
    unfold towardUpper at hU
    cases hinc : p.incr with
    | true =>
      rw [hinc] at hU
      have hy : c.y < 0 := by simpa using hU
      unfold newx; rw [hinc, ht, absR_of_neg hy]; simp only [if_true]
      have : -c.y ≠ 0 := by linarith
      field_simp
      ring
    | false =>
      rw [hinc] at hU
      have hy : 0 < c.y := by simpa using hU
      unfold newx; rw [hinc, ht, absR_of_pos hy]
      simp only [Bool.false_eq_true, if_false]
      field_simp
      ring

theorem pII_bchange_sound (p : Par) (rows : List Row) (hpv : p.pivtol = 0) (hpf : p.pftol = 0)
    (hfeas : ∀ r ∈ rows, inBounds p 0 r r.x) (h : (pII p rows).stat = .bchange) :
    ∃ t c, 0 ≤ t ∧ (pII p rows).tz = (if p.incr then t else -t) ∧ (pII p rows).boundch = false ∧
      0 ≤ (pII p rows).lindex ∧ rows[(pII p rows).lindex.toNat]? = some c ∧
      (pII p rows).pivot = c.y ∧ c.y ≠ 0 ∧
      (∀ r ∈ rows, inBounds p 0 r (newx p r t)) ∧
      (((pII p rows).lvstat = statLower ∧ c.l ≠ -p.inf ∧ newx p c t = c.l) ∨
       ((pII p rows).lvstat = statUpper ∧ c.u ≠ p.inf ∧ newx p c t = c.u)) := by
  unfold pII pIIWith at h ⊢
  generalize hout : pass1 p rows 0 (p.inf, -1) = out at h ⊢
  obtain ⟨tmax, kmin⟩ := out
  dsimp only at h ⊢
  split at h
  · simp [noRow] at h
  rename_i hnb
  rw [if_neg hnb]
  split at h
  · simp [noRow] at h
  rename_i hub
  rw [if_neg hub]
  have hlt : tmax < p.inf := not_le.mp hub
  generalize hs : pass2 (fun a b => decide (a ≤ b)) p tmax kmin rows 0 {} = s at h ⊢
  split at h
  · simp [noRow] at h
  rename_i hidx
  rw [if_neg hidx]
  obtain ⟨j, c, hj, hi, htz, hyi, _, hy0, ht0, hstep, hcase⟩ :=
    select_exact p rows hpv hpf hfeas tmax kmin hout hlt s hs hidx
  have htz0 : ¬ s.tz < 0 := by rw [htz]; exact not_lt.mpr ht0
  rw [if_neg htz0]
  dsimp only
  have hidx' : s.indx.toNat = j := by rw [hi]; simp
  refine ⟨tmax, c, ht0, by rw [htz], rfl, by rw [hi]; exact Int.natCast_nonneg _,
    by rw [hidx']; exact hj, hyi, hy0, hstep, ?_⟩
  rw [hyi]
  obtain ⟨hlandL, hlandU⟩ := lands p c hy0 tmax
  rcases hcase with ⟨hL, hll, ht⟩ | ⟨hL, hU, huu, ht⟩
  · left
    refine ⟨?_, hll, hlandL hL ht⟩
    unfold towardLower at hL
    cases hinc : p.incr with
    | true =>
      rw [hinc] at hL
      have hy : 0 < c.y := by simpa using hL
      simp [hy]
    | false =>
      rw [hinc] at hL
      have hy : c.y < 0 := by simpa using hL
      simp [not_lt.mpr (le_of_lt hy)]
  · right
    refine ⟨?_, huu, hlandU hL hU ht⟩
    unfold towardUpper at hU
    cases hinc : p.incr with
    | true =>
      rw [hinc] at hU
      have hy : c.y < 0 := by simpa using hU
      simp [not_lt.mpr (le_of_lt hy)]
    | false =>
      rw [hinc] at hU
      have hy : 0 < c.y := by simpa using hU
      simp [hy]

/-! ### the dual phase-II test -/

/-! ### the dual phase-II test -/

theorem dIICore_never_failed (leq : Rat → Rat → Bool) (p : Par) (hp : 0 ≤ p.pivtol) (rows : List Row)
    (cols : List DCol) : (dIICore leq p rows cols).stat ≠ .failed := by
  unfold dIICore
  obtain ⟨h1, _, h3⟩ := pass1_spec p rows 0 p.inf (-1)
  generalize hout : pass1 p rows 0 (p.inf, -1) = out at h1 h3
  obtain ⟨tmax, kmin⟩ := out
  dsimp only at h1 h3 ⊢
  split
  · simp
  · rename_i hub
    have hlt : tmax < p.inf := not_le.mp hub
    have hk : ∃ j r, rows[j]? = some r ∧ kmin = ((0 + j : Nat) : Int) ∧ relevant p r = true := by
      rcases h3 with h3 | ⟨j, r, hj, hk, hrel, _, _⟩
      · have : tmax = p.inf := by have := congrArg Prod.fst h3; simpa using this
        linarith
      · exact ⟨j, r, hj, hk, hrel⟩
    obtain ⟨j, r, hj, hk, hrel⟩ := hk
    have hidx := pass2_hits leq p hp tmax kmin rows 0 {} j r hj hk hrel (Or.inr rfl)
    rw [if_neg (not_lt.mpr hidx)]
    split
    · split
      · simp
      · split <;> simp
    · simp

theorem dIIWith_never_failed (leq : Rat → Rat → Bool) (inf pivtol dftol : Rat) (hp : 0 ≤ pivtol)
    (lvUpper : Bool) (cols : List DCol) :
    (dIIWith leq inf pivtol dftol lvUpper cols).stat ≠ .failed :=
  dIICore_never_failed leq (dPar inf pivtol dftol) hp _ cols

/-- RATIO_UNBOUNDED on the dual side: every dual step up to `inf` keeps every column's dual slack
non-negative (0 for a free column), up to the tolerance -/
theorem dII_unbounded_sound (inf dftol : Rat) (lvUpper : Bool) (cols : List DCol)
    (hfeas : ∀ c ∈ cols, inBounds (dPar inf 0 dftol) dftol (toRow inf lvUpper c) (toRow inf lvUpper c).x)
    (h : (dII inf 0 dftol lvUpper cols).stat = .unbounded) :
    ∀ c ∈ cols, ∀ t, 0 ≤ t → t ≤ inf →
      inBounds (dPar inf 0 dftol) dftol (toRow inf lvUpper c) (newx (dPar inf 0 dftol) (toRow inf lvUpper c) t) := by
  unfold dII dIIWith dIICore at h
  obtain ⟨h1, h2, _⟩ := pass1_spec (dPar inf 0 dftol) (cols.map (toRow inf lvUpper)) 0 (dPar inf 0 dftol).inf (-1)
  generalize hout : pass1 (dPar inf 0 dftol) (cols.map (toRow inf lvUpper)) 0 ((dPar inf 0 dftol).inf, -1) = out at h h1 h2
  obtain ⟨tmax, kmin⟩ := out
  dsimp only at h h1 h2
  split at h
  · rename_i hub
    intro c hc t ht0 ht
    have hmem : toRow inf lvUpper c ∈ cols.map (toRow inf lvUpper) := List.mem_map_of_mem hc
    exact row_step_ok (dPar inf 0 dftol) _ rfl (hfeas c hc) tmax h1 (h2 _ hmem) t ht0 (le_trans ht hub)
  · split at h
    · simp at h
    · split at h
      · split at h
        · simp at h
        · split at h <;> simp at h
      · simp at h

theorem toRow_y_ne (inf : Rat) (lvUpper : Bool) (c : DCol) (h : (toRow inf lvUpper c).y ≠ 0) :
    c.skip = false ∧ c.zA ≠ 0 := by
  unfold toRow dualXY at h
  cases hs : c.skip with
  | true => simp [hs] at h
  | false =>
    refine ⟨rfl, ?_⟩
    intro hz
    apply h
    simp only [hs, Bool.false_eq_true, if_false]
    split <;> split <;> simp [hz]

/-- RATIO_BCHANGE on the dual side at tolerance 0 from a dual feasible basis: a non-negative step, no
coefficient shift, every column stays dual feasible and the entering column's slack becomes 0 -/
theorem dII_bchange_sound (inf : Rat) (lvUpper : Bool) (cols : List DCol)
    (hfeas : ∀ c ∈ cols, inBounds (dPar inf 0 0) 0 (toRow inf lvUpper c) (toRow inf lvUpper c).x)
    (h : (dII inf 0 0 lvUpper cols).stat = .bchange) :
    ∃ t c, 0 ≤ t ∧ (dII inf 0 0 lvUpper cols).tz = t ∧ (dII inf 0 0 lvUpper cols).coeffch = false ∧
      0 ≤ (dII inf 0 0 lvUpper cols).eindex ∧ cols[(dII inf 0 0 lvUpper cols).eindex.toNat]? = some c ∧
      (dII inf 0 0 lvUpper cols).pivot = c.zA ∧ c.skip = false ∧ c.zA ≠ 0 ∧
      (∀ c' ∈ cols, inBounds (dPar inf 0 0) 0 (toRow inf lvUpper c') (newSlack inf lvUpper c' t)) ∧
      newSlack inf lvUpper c t = 0 := by
  have hfeasR : ∀ r ∈ cols.map (toRow inf lvUpper), inBounds (dPar inf 0 0) 0 r r.x := by
    intro r hr
    obtain ⟨c, hc, rfl⟩ := List.mem_map.mp hr
    exact hfeas c hc
  unfold dII dIIWith dIICore at h ⊢
  generalize hout : pass1 (dPar inf 0 0) (cols.map (toRow inf lvUpper)) 0 ((dPar inf 0 0).inf, -1) = out at h ⊢
  obtain ⟨tmax, kmin⟩ := out
  dsimp only at h ⊢
  split at h
  · simp at h
  rename_i hub
  rw [if_neg hub]
  have hlt : tmax < (dPar inf 0 0).inf := not_le.mp hub
  generalize hs : pass2 (fun a b => decide (a ≤ b)) (dPar inf 0 0) tmax kmin (cols.map (toRow inf lvUpper)) 0 {} = s at h ⊢
  split at h
  · simp at h
  rename_i hidx
  rw [if_neg hidx]
  obtain ⟨j, r, hj, hi, htz, _, _, hy0, ht0, hstep, hcase⟩ :=
    select_exact (dPar inf 0 0) (cols.map (toRow inf lvUpper)) rfl rfl hfeasR tmax kmin hout hlt s hs hidx
  have htz0 : ¬ s.tz < 0 := by rw [htz]; exact not_lt.mpr ht0
  rw [if_neg htz0]
  dsimp only
  rw [List.getElem?_map] at hj
  obtain ⟨c, hcj, hcr⟩ := Option.map_eq_some_iff.mp hj
  subst hcr
  obtain ⟨hskip, hzA⟩ := toRow_y_ne inf lvUpper c hy0
  have hidx' : s.indx.toNat = j := by rw [hi]; simp
  have hcol : colAt cols s.indx = c := by
    unfold colAt; rw [if_neg hidx, hidx', hcj]; rfl
  refine ⟨tmax, c, ht0, htz, rfl, by rw [hi]; exact Int.natCast_nonneg _, by rw [hidx']; exact hcj,
    by rw [hcol], hskip, hzA, ?_, ?_⟩
  · intro c' hc'
    exact hstep _ (List.mem_map_of_mem hc')
  · obtain ⟨hlandL, hlandU⟩ := lands (dPar inf 0 0) (toRow inf lvUpper c) hy0 tmax
    unfold newSlack
    rcases hcase with ⟨hL, _, ht⟩ | ⟨hL, hU, huu, ht⟩
    · rw [hlandL hL ht]; rfl
    · rw [hlandU hL hU ht]
      unfold toRow at huu ⊢
      dsimp only at huu ⊢
      split
      · rfl
      · rename_i hz; exfalso; apply huu; simp only [hz]; rfl

/-! ### the leaving row has the largest pivot among the candidates -/


/-- pass 2 keeps the largest pivot seen so far among the qualifying rows -/
theorem pass2_max (leq : Rat → Rat → Bool) (p : Par) (tmax : Rat) (kmin : Int) (rs : List Row) :
    ∀ (k : Nat) (s : Sel),
      s.ayi ≤ (pass2 leq p tmax kmin rs k s).ayi ∧
      ∀ (j : Nat) (r : Row), rs[j]? = some r → relevant p r = true →
        (((k + j : Nat) : Int) == kmin || leq (ratio2 p r) tmax) = true →
        absR r.y ≤ (pass2 leq p tmax kmin rs k s).ayi := by
  induction rs with
  | nil => intro k s; exact ⟨le_refl _, fun j r h => by simp at h⟩
  | cons r0 rs ih =>
    intro k s
    unfold pass2
    dsimp only
    by_cases hr : relevant p r0 = true
    · by_cases hc : (((k : Int) == kmin || leq (ratio2 p r0) tmax) && decide (s.ayi < absR r0.y)) = true
      · simp only [hr, Bool.not_true, Bool.false_eq_true, if_false, hc, if_true]
        obtain ⟨h1, h2⟩ := ih (k + 1) { indx := k, tz := ratio2 p r0, yi := r0.y, ayi := absR r0.y }
        have hlt : s.ayi < absR r0.y := by
          simp only [Bool.and_eq_true, decide_eq_true_eq] at hc; exact hc.2
        refine ⟨le_trans (le_of_lt hlt) h1, ?_⟩
        intro j r hj hrel hq
        cases j with
        | zero =>
          simp at hj; subst hj
          exact h1
        | succ j' =>
          have hj' : rs[j']? = some r := by simpa using hj
          have e : ((k + 1 + j' : Nat) : Int) = ((k + (j' + 1) : Nat) : Int) := by push_cast; ring
          exact h2 j' r hj' hrel (by rw [e]; exact hq)
      · simp only [hr, Bool.not_true, Bool.false_eq_true, if_false, hc]
        obtain ⟨h1, h2⟩ := ih (k + 1) s
        refine ⟨h1, ?_⟩
        intro j r hj hrel hq
        cases j with
        | zero =>
          simp at hj; subst hj
          -- the row qualifies but was not taken: its pivot is not larger than the current one
          have hq' : (((k : Int) == kmin || leq (ratio2 p r0) tmax)) = true := by simpa using hq
          have : ¬ s.ayi < absR r0.y := by
            intro hlt
            apply hc
            simp only [Bool.and_eq_true, decide_eq_true_eq]
            exact ⟨by simpa using hq', hlt⟩
          exact le_trans (not_lt.mp this) h1
        | succ j' =>
          have hj' : rs[j']? = some r := by simpa using hj
          have e : ((k + 1 + j' : Nat) : Int) = ((k + (j' + 1) : Nat) : Int) := by push_cast; ring
          exact h2 j' r hj' hrel (by rw [e]; exact hq)
    · have hr' : (!relevant p r0) = true := by simpa using hr
      simp only [hr', if_true]
      obtain ⟨h1, h2⟩ := ih (k + 1) s
      refine ⟨h1, ?_⟩
      intro j r hj hrel hq
      cases j with
      | zero => simp at hj; subst hj; exact absurd hrel hr
      | succ j' =>
        have hj' : rs[j']? = some r := by simpa using hj
        have e : ((k + 1 + j' : Nat) : Int) = ((k + (j' + 1) : Nat) : Int) := by push_cast; ring
        exact h2 j' r hj' hrel (by rw [e]; exact hq)

theorem absR_neg (q : Rat) : absR (-q) = absR q := by
  unfold absR
  by_cases h : q < 0
  · have : ¬ (-q < 0) := by linarith
    rw [if_pos h, if_neg this]
  · by_cases h0 : q = 0
    · subst h0; simp
    · have hpos : 0 < q := lt_of_le_of_ne (not_lt.mp h) (Ne.symm h0)
      have : -q < 0 := by linarith
      rw [if_neg h, if_pos this]; ring

/-- among the rows that reach their bound no later than the chosen step, the leaving row has the
largest pivot element (the numerically safest choice the two-pass rule is meant to make) -/
theorem pII_bchange_largest_pivot (p : Par) (rows : List Row) (hpv : p.pivtol = 0) (hpf : p.pftol = 0)
    (hfeas : ∀ r ∈ rows, inBounds p 0 r r.x) (h : (pII p rows).stat = .bchange) :
    ∀ (j : Nat) (r : Row), rows[j]? = some r → r.y ≠ 0 → ratio2 p r ≤ absR (pII p rows).tz →
      absR r.y ≤ absR (pII p rows).pivot := by
  unfold pII pIIWith at h ⊢
  generalize hout : pass1 p rows 0 (p.inf, -1) = out at h ⊢
  obtain ⟨tmax, kmin⟩ := out
  dsimp only at h ⊢
  split at h
  · simp [noRow] at h
  rename_i hnb
  rw [if_neg hnb]
  split at h
  · simp [noRow] at h
  rename_i hub
  rw [if_neg hub]
  have hlt : tmax < p.inf := not_le.mp hub
  have hmax := pass2_max (fun a b => decide (a ≤ b)) p tmax kmin rows 0 {}
  generalize hs : pass2 (fun a b => decide (a ≤ b)) p tmax kmin rows 0 {} = s at h hmax ⊢
  split at h
  · simp [noRow] at h
  rename_i hidx
  rw [if_neg hidx]
  obtain ⟨j0, c, hj0, hi, htz, hyi, hayi, hy0, ht0, hstep, hcase⟩ :=
    select_exact p rows hpv hpf hfeas tmax kmin hout hlt s hs hidx
  have htz0 : ¬ s.tz < 0 := by rw [htz]; exact not_lt.mpr ht0
  rw [if_neg htz0]
  dsimp only
  intro j r hj hy hle
  have habs_tz : absR (if p.incr = true then s.tz else -s.tz) = tmax := by
    split
    · rw [htz]; unfold absR; rw [if_neg (not_lt.mpr ht0)]
    · rw [absR_neg, htz]; unfold absR; rw [if_neg (not_lt.mpr ht0)]
  rw [habs_tz] at hle
  have hrel : relevant p r = true := by
    unfold relevant; rw [hpv]
    apply decide_eq_true
    unfold absR; split
    · linarith
    · rcases lt_or_gt_of_ne hy with h' | h'
      · linarith
      · exact h'
  have := hmax.2 j r hj hrel (by simp [hle])
  rw [hyi, ← hayi]
  exact this


end Qsx.Ratio
