/-
Safety of the LP lexer model (C11): from every state whose cursor is inside the line's string, no
lexer function reads behind the string terminator (the model never answers `none`) and the cursor
stays inside the string.  Plus progress: a successful token read consumes input.
-/
import Qsx.Model.LpLex
import Qsx.Proofs.NumScan

namespace Qsx.LpLex

theorem rd_some {b : List Char} {i : Nat} (h : i ≤ b.length) : ∃ c, rd b i = some c := by
  unfold rd; split
  · exact ⟨_, rfl⟩
  · split
    · exact ⟨_, rfl⟩
    · omega

/-- a character that is not the terminator lies strictly inside the string -/
theorem rd_ne_nul {b : List Char} {i : Nat} {c : Char} (h : rd b i = some c) (hc : c ≠ NUL) : i < b.length := by
  unfold rd at h; split at h
  · assumption
  · split at h
    · simp at h; exact absurd h.symm hc
    · simp at h

theorem rd_le {b : List Char} {i : Nat} {c : Char} (h : rd b i = some c) : i ≤ b.length := by
  unfold rd at h; split at h
  · omega
  · split at h
    · omega
    · simp at h

theorem scanFrom_safe (P : Char → Nat → Bool) (hP : ∀ k, P NUL k = false) :
    ∀ (l : List Char) (i k : Nat), ∃ j, scanFrom P l i k = some j ∧ i ≤ j ∧ j ≤ i + l.length
  | [], i, k => by simp [scanFrom, hP]
  | c :: cs, i, k => by
    unfold scanFrom; split
    · obtain ⟨j, hj, h1, h2⟩ := scanFrom_safe P hP cs (i + 1) (k + 1)
      exact ⟨j, hj, by omega, by simp; omega⟩
    · exact ⟨i, rfl, by omega, by omega⟩

theorem scanWhile_safe (P : Char → Nat → Bool) (hP : ∀ k, P NUL k = false) (b : List Char) (i k : Nat)
    (h : i ≤ b.length) : ∃ j, scanWhile P b i k = some j ∧ i ≤ j ∧ j ≤ b.length := by
  obtain ⟨j, hj, h1, h2⟩ := scanFrom_safe P hP (b.drop i) i k
  refine ⟨j, ?_, h1, ?_⟩
  · simp [scanWhile, h, hj]
  · simp at h2; omega

theorem backFrom_le (P : Char → Bool) : ∀ (l : List Char) (i : Nat), backFrom P l i ≤ i
  | _, 0 => by simp [backFrom]
  | [], i + 1 => by simp [backFrom]
  | c :: cs, i + 1 => by
    unfold backFrom; split
    · have := backFrom_le P cs i; omega
    · omega

theorem scanBack_safe (P : Char → Bool) (b : List Char) (i : Nat) (h : i ≤ b.length) :
    ∃ j, scanBack P b i = some j ∧ j ≤ i := by
  refine ⟨_, by simp [scanBack, h]; rfl, backFrom_le _ _ _⟩

theorem isBlank_nul : isBlank NUL = false := by decide
theorem endLine_nul : endLine NUL = true := by decide
theorem isNameChar_nul (k : Nat) : isNameChar NUL k = false := by
  simp [isNameChar, isAlpha, Num.isDigit, NUL]


/-- the call answers (no read behind the terminator) and leaves the cursor inside the string -/
def Safe {α : Type} (x : Option (St × α)) : Prop := ∃ s r, x = some (s, r) ∧ Inv s

theorem Safe.pure {α : Type} {s : St} {r : α} (h : Inv s) : Safe (some (s, r)) := ⟨s, r, rfl, h⟩

theorem Safe.bind {α β : Type} {x : Option (St × α)} {f : St × α → Option (St × β)}
    (hx : Safe x) (hf : ∀ s r, Inv s → Safe (f (s, r))) : Safe (x >>= f) := by
  obtain ⟨s, r, rfl, hs⟩ := hx
  simpa using hf s r hs

theorem nextLine_go_safe (s : St) : ∀ (file : List (List Char)) (n : Nat), Safe (nextLine.go s file n)
  | [], n => by unfold nextLine.go; exact Safe.pure (by simp [Inv])
  | raw :: rest, n => by
    unfold nextLine.go
    obtain ⟨p, hp, _, hp2⟩ := scanWhile_safe (fun c _ => isBlank c) (fun _ => isBlank_nul)
      ((cstr raw).takeWhile (· != '\\')) 0 0 (Nat.zero_le _)
    obtain ⟨c, hc⟩ := rd_some hp2
    simp only [hp, hc, Option.bind_eq_bind, Option.bind_some]
    split
    · exact Safe.pure (by simpa [Inv] using hp2)
    · exact nextLine_go_safe s rest (n + 1)

theorem nextLine_safe (s : St) (h : Inv s) : Safe (nextLine s) := by
  unfold nextLine; split
  · exact Safe.pure h
  · exact nextLine_go_safe s _ _

theorem skipBlanks_safe (s : St) (wrap : Bool) (h : Inv s) : Safe (skipBlanks s wrap) := by
  unfold skipBlanks
  obtain ⟨p, hp, _, hp2⟩ := scanWhile_safe (fun c _ => isBlank c) (fun _ => isBlank_nul) s.line s.p 0 h
  obtain ⟨c, hc⟩ := rd_some hp2
  have hi : Inv { s with p := p } := hp2
  simp only [hp, hc, Option.bind_eq_bind, Option.bind_some]
  split
  · split
    · obtain ⟨s', r, hs', hi'⟩ := nextLine_safe { s with p := p } hi
      simp only [hs', Option.bind_some]
      split <;> exact Safe.pure hi'
    · exact Safe.pure hi
  · exact Safe.pure hi


theorem sscanfS_len {t f : List Char} (h : sscanfS t = some f) : f.length ≤ t.length := by
  unfold sscanfS at h
  simp only at h
  split at h
  · simp at h
  · simp at h; subst h
    calc _ ≤ (t.dropWhile isSpace).length := (List.takeWhile_sublist _).length_le
      _ ≤ t.length := (List.dropWhile_sublist _).length_le

theorem nextField_safe (s : St) (across : Bool) (h : Inv s) : Safe (nextField s across) := by
  unfold nextField
  obtain ⟨s1, r1, h1, i1⟩ := skipBlanks_safe s across h
  simp only [h1, Option.bind_eq_bind, Option.bind_some, Option.pure_def]
  split
  · exact Safe.pure i1
  · split
    · rename_i f hf
      have := sscanfS_len hf
      refine Safe.pure ?_
      simp [Inv] at *; omega
    · exact Safe.pure i1

theorem prevField_safe (s : St) (h : Inv s) : ∃ s', prevField s = some s' ∧ Inv s' := by
  unfold prevField
  have h0 : (if s.p > 0 then s.p - 1 else s.p) ≤ s.line.length := by unfold Inv at h; split <;> omega
  obtain ⟨p1, hp1, l1⟩ := scanBack_safe isBlank s.line _ h0
  obtain ⟨p2, hp2, l2⟩ := scanBack_safe (fun c => !isBlank c) s.line p1 (by omega)
  simp only [hp1, hp2, Option.bind_eq_bind, Option.bind_some, Option.pure_def]
  refine ⟨_, rfl, ?_⟩
  show p2 ≤ s.line.length
  omega

theorem lpError_safe (s : St) (h : Inv s) : ∃ s', lpError s = some s' ∧ Inv s' := by
  unfold lpError
  obtain ⟨s1, r1, h1, i1⟩ := skipBlanks_safe s false h
  obtain ⟨c, hc⟩ := rd_some i1
  obtain ⟨q, hq, _, hq2⟩ := scanWhile_safe (fun c _ => isBlank c) (fun _ => isBlank_nul) s1.line s1.p 0 i1
  obtain ⟨q', hq', _, _⟩ := scanWhile_safe (fun c _ => !isBlank c && !endLine c) (fun _ => by simp [endLine_nul]) s1.line q 0 hq2
  simp only [h1, Option.bind_eq_bind, Option.bind_some, Option.pure_def]
  split
  · simp only [hc, Option.bind_some]
    split
    · simp only [hq, hq', Option.bind_some]; exact ⟨_, rfl, i1⟩
    · exact ⟨_, rfl, i1⟩
  · exact ⟨_, rfl, i1⟩

theorem badKeyword_safe (s : St) (h : Inv s) : Safe (badKeyword s) := by
  unfold badKeyword
  split
  · obtain ⟨s1, h1, i1⟩ := lpError_safe s h
    simp only [h1, Option.bind_eq_bind, Option.bind_some, Option.pure_def]; exact Safe.pure i1
  · exact Safe.pure h

theorem badKeyword_zero {s s' : St} {r : Int} (h : badKeyword s = some (s', r)) (hr : (r == 0) = true) : s' = s := by
  unfold badKeyword at h
  split at h
  · cases hl : lpError s with
    | none => simp [hl] at h
    | some s1 => simp [hl] at h; obtain ⟨_, rfl⟩ := h; simp at hr
  · simp at h; exact h.1.symm

theorem keyword_safe (s : St) (kwd : List (List Char)) (h : Inv s) : Safe (keyword s kwd) := by
  unfold keyword
  split
  · exact Safe.pure h
  · obtain ⟨s1, r1, h1, i1⟩ := badKeyword_safe s h
    simp only [h1, Option.bind_eq_bind, Option.bind_some, Option.pure_def]
    split <;> exact Safe.pure i1

theorem nextVar_safe (s : St) (h : Inv s) : Safe (nextVar s) := by
  unfold nextVar
  obtain ⟨s1, r1, h1, i1⟩ := skipBlanks_safe s true h
  simp only [h1, Option.bind_eq_bind, Option.bind_some, Option.pure_def]
  split
  · exact Safe.pure i1
  · obtain ⟨q, hq, _, hq2⟩ := scanWhile_safe isNameChar isNameChar_nul s1.line s1.p 0 i1
    simp only [hq, Option.bind_some]
    split
    · exact Safe.pure i1
    · split
      · exact Safe.pure i1
      · exact Safe.pure hq2

theorem colon_safe (s : St) (h : Inv s) : Safe (colon s) := by
  unfold colon
  obtain ⟨s1, r1, h1, i1⟩ := skipBlanks_safe s true h
  simp only [h1, Option.bind_eq_bind, Option.bind_some, Option.pure_def]
  split
  · exact Safe.pure i1
  · obtain ⟨c, hc⟩ := rd_some i1
    simp only [hc, Option.bind_some]
    split
    · rename_i hcc
      have : c ≠ NUL := by intro e; subst e; simp [NUL] at hcc
      have := rd_ne_nul hc this
      exact Safe.pure (by simp [Inv]; omega)
    · exact Safe.pure i1

theorem hasColon_safe (s : St) (h : Inv s) : Safe (hasColon s) := by
  unfold hasColon
  obtain ⟨s1, r1, h1, i1⟩ := skipBlanks_safe s false h
  obtain ⟨q, hq, _, hq2⟩ := scanWhile_safe (fun c _ => !endLine c && c != ':') (fun _ => by simp [endLine_nul]) s1.line s1.p 0 i1
  obtain ⟨c, hc⟩ := rd_some hq2
  simp only [h1, hq, hc, Option.bind_eq_bind, Option.bind_some, Option.pure_def]
  exact Safe.pure i1


theorem nextConstraint_safe (s : St) (h : Inv s) : Safe (nextConstraint s) := by
  unfold nextConstraint
  obtain ⟨s1, r1, h1, i1⟩ := skipBlanks_safe s true h
  simp only [h1, Option.bind_eq_bind, Option.bind_some, Option.pure_def]
  split
  · exact Safe.pure i1
  · split
    · obtain ⟨s2, h2, i2⟩ := lpError_safe s1 i1
      simp only [h2, Option.bind_some]; exact Safe.pure i2
    · obtain ⟨s2, r2, h2, i2⟩ := nextField_safe s1 true i1
      simp only [h2, Option.bind_some]
      split
      · obtain ⟨s3, h3, i3⟩ := prevField_safe s2 i2
        simp only [h3, Option.bind_some]; exact Safe.pure i3
      · exact Safe.pure i2

theorem sign_safe (s : St) (h : Inv s) : Safe (sign s) := by
  unfold sign
  obtain ⟨s1, r1, h1, i1⟩ := skipBlanks_safe s true h
  simp only [h1, Option.bind_eq_bind, Option.bind_some, Option.pure_def]
  split
  · exact Safe.pure i1
  · obtain ⟨c, hc⟩ := rd_some i1
    simp only [hc, Option.bind_some]
    split
    · rename_i hcc
      have : c ≠ NUL := by intro e; subst e; simp [NUL] at hcc
      have := rd_ne_nul hc this
      exact Safe.pure (by simp [Inv]; omega)
    · split
      · rename_i hcc
        have : c ≠ NUL := by intro e; subst e; simp [NUL] at hcc
        have := rd_ne_nul hc this
        exact Safe.pure (by simp [Inv]; omega)
      · exact Safe.pure i1

theorem prefixCI_len {t str : List Char} (h : prefixCI t str = true) : str.length ≤ t.length := by
  unfold prefixCI at h; simp at h; exact h.2

theorem testNextIs_safe (s : St) (str : List Char) (h : Inv s) : Safe (testNextIs s str) := by
  unfold testNextIs
  obtain ⟨s1, r1, h1, i1⟩ := skipBlanks_safe s false h
  simp only [h1, Option.bind_eq_bind, Option.bind_some, Option.pure_def]
  split
  · rename_i hp
    have hl := prefixCI_len hp
    simp at hl
    have hb : s1.p + str.length ≤ s1.line.length := by unfold Inv at i1; omega
    obtain ⟨c, hc⟩ := rd_some hb
    simp only [hc, Option.bind_some]
    split
    · exact Safe.pure hb
    · exact Safe.pure i1
  · exact Safe.pure i1

theorem value_safe (s : St) (h : Inv s) : Safe (value s) := by
  unfold value
  obtain ⟨s1, r1, h1, i1⟩ := skipBlanks_safe s true h
  simp only [h1, Option.bind_eq_bind, Option.bind_some, Option.pure_def]
  split
  · exact Safe.pure i1
  · have hle := Num.scan_consumes_le (List.drop s1.p s1.line)
    split
    · rename_i n q hs
      split
      · refine Safe.pure ?_
        simp [hs] at hle
        show s1.p + n ≤ s1.line.length
        unfold Inv at i1; omega
      · exact Safe.pure i1
    · exact Safe.pure i1


theorem infWord_safe (s : St) (sg : Int) (len : Nat) (h : Inv s) (hb : s.p + len ≤ s.line.length) :
    Safe (infWord s sg len) := by
  unfold infWord
  obtain ⟨c, hc⟩ := rd_some hb
  obtain ⟨s2, r2, h2, i2⟩ := skipBlanks_safe { s with p := s.p + len } false hb
  simp only [hc, h2, Option.bind_eq_bind, Option.bind_some, Option.pure_def]
  split
  · exact Safe.pure h
  · exact Safe.pure i2

theorem possibleBoundValue_safe (s : St) (h : Inv s) : Safe (possibleBoundValue s) := by
  unfold possibleBoundValue
  obtain ⟨s1, ⟨r1, sg⟩, h1, i1⟩ := sign_safe s h
  simp only [h1, Option.bind_eq_bind, Option.bind_some, Option.pure_def]
  split
  · rename_i hp
    have := prefixCI_len hp; simp at this
    exact infWord_safe s1 sg 8 i1 (by unfold Inv at i1; omega)
  · split
    · rename_i hp
      have := prefixCI_len hp; simp at this
      exact infWord_safe s1 sg 3 i1 (by unfold Inv at i1; omega)
    · obtain ⟨s2, ⟨r2, v⟩, h2, i2⟩ := value_safe s1 i1
      simp only [h2, Option.bind_some]
      split
      · split <;> exact Safe.pure i2
      · exact Safe.pure i2

theorem testSense_safe (s : St) (all : Bool) (h : Inv s) : Safe (testSense s all) := by
  unfold testSense
  obtain ⟨s1, r1, h1, i1⟩ := skipBlanks_safe { s with sense := ' ' } true h
  simp only [h1, Option.bind_eq_bind, Option.bind_some, Option.pure_def]
  split
  · exact Safe.pure i1
  · obtain ⟨c, hc⟩ := rd_some i1
    have nn : ∀ {d : Char}, (c == d) = true → d ≠ NUL → s1.p + 1 ≤ s1.line.length := by
      intro d hd hdn
      have : c ≠ NUL := by intro e; subst e; simp at hd; exact hdn hd.symm
      have := rd_ne_nul hc this; omega
    simp only [hc, Option.bind_some]
    split
    · -- bound senses
      split
      · rename_i hcc
        exact Safe.pure (nn hcc (by decide))
      · split
        · rename_i hcc
          have hb := nn hcc (by decide)
          obtain ⟨c1, hc1⟩ := rd_some hb
          simp only [hc1, Option.bind_some]
          split
          · rename_i h11
            have : c1 ≠ NUL := by intro e; subst e; simp [NUL] at h11
            have := rd_ne_nul hc1 this
            exact Safe.pure (by show s1.p + 2 ≤ s1.line.length; omega)
          · exact Safe.pure i1
        · exact Safe.pure i1
    · split
      · rename_i hcc
        have hb : s1.p + 1 ≤ s1.line.length := by
          simp at hcc; rcases hcc with hcc | hcc
          · exact nn (by simpa using hcc) (by decide)
          · exact nn (by simpa using hcc) (by decide)
        obtain ⟨c1, hc1⟩ := rd_some hb
        simp only [hc1, Option.bind_some]
        refine Safe.pure ?_
        show (if (c1 == '=') = true then s1.p + 2 else s1.p + 1) ≤ s1.line.length
        split
        · rename_i h11
          have : c1 ≠ NUL := by intro e; subst e; simp [NUL] at h11
          have := rd_ne_nul hc1 this; omega
        · exact hb
      · split
        · rename_i hcc
          have hb := nn hcc (by decide)
          obtain ⟨c1, hc1⟩ := rd_some hb
          simp only [hc1, Option.bind_some]
          split
          · rename_i h11
            have : c1 ≠ NUL := by
              intro e; subst e; simp [NUL] at h11
            have := rd_ne_nul hc1 this
            exact Safe.pure (by show s1.p + 2 ≤ s1.line.length; omega)
          · exact Safe.pure hb
        · exact Safe.pure i1


theorem readSense_safe (s : St) (h : Inv s) : Safe (readSense s) := by
  unfold readSense
  obtain ⟨s1, r1, h1, i1⟩ := testSense_safe s true h
  simp only [h1, Option.bind_eq_bind, Option.bind_some, Option.pure_def]
  split
  · obtain ⟨c, hc⟩ := rd_some i1
    obtain ⟨s2, h2, i2⟩ := lpError_safe s1 i1
    simp only [hc, h2, Option.bind_some]; exact Safe.pure i2
  · exact Safe.pure i1

theorem checkSubjectTo_safe (s : St) (h : Inv s) : Safe (checkSubjectTo s) := by
  unfold checkSubjectTo
  obtain ⟨s1, r1, h1, i1⟩ := nextField_safe s true h
  simp only [h1, Option.bind_eq_bind, Option.bind_some, Option.pure_def]
  split
  · exact Safe.pure i1
  · -- the inner block is safe
    have inner : Safe (do
        if eqCI s1.field "ST".toList then return (← badKeyword s1)
        if eqCI s1.field "SUBJECT".toList then
          let q ← scanWhile (fun c _ => isBlank c) s1.line s1.p 0
          if prefixCI (s1.line.drop q) "TO".toList then
            let (s, r) ← badKeyword s1
            if r == 0 then return ({ s with p := q + 2 }, 0) else return (s, r)
          return (s1, 0)
        return (s1, 1) : Option (St × Int)) := by
      simp only [Option.bind_eq_bind, Option.pure_def]
      split
      · obtain ⟨s2, r2, h2, i2⟩ := badKeyword_safe s1 i1
        simp only [h2]; exact Safe.pure i2
      · split
        · obtain ⟨q, hq, _, hq2⟩ := scanWhile_safe (fun c _ => isBlank c) (fun _ => isBlank_nul) s1.line s1.p 0 i1
          simp only [hq, Option.bind_some]
          split
          · rename_i hp
            have := prefixCI_len hp; simp at this
            obtain ⟨s2, r2, h2, i2⟩ := badKeyword_safe s1 i1
            simp only [h2, Option.bind_some]
            split
            · rename_i hr
              have := badKeyword_zero h2 hr
              subst this
              exact Safe.pure (by show q + 2 ≤ s2.line.length; omega)
            · exact Safe.pure i2
          · exact Safe.pure i1
        · exact Safe.pure i1
    obtain ⟨s2, r2, h2, i2⟩ := inner
    simp only [Option.bind_eq_bind, Option.pure_def] at h2
    simp only [h2, Option.bind_some]
    split
    · obtain ⟨s3, h3, i3⟩ := prevField_safe s2 i2
      simp only [h3, Option.bind_some]; exact Safe.pure i3
    · obtain ⟨s3, r3, h3, i3⟩ := skipBlanks_safe s2 true i2
      simp only [h3, Option.bind_some]; exact Safe.pure i3

theorem init_safe (file : List (List Char)) : ∃ s, init file = some s ∧ Inv s := by
  unfold init
  obtain ⟨s1, r1, h1, i1⟩ := skipBlanks_safe { file := file } true (by simp [Inv])
  simp only [h1, Option.bind_eq_bind, Option.bind_some, Option.pure_def]
  exact ⟨_, rfl, i1⟩


/-! ### progress: a successful token read consumes input -/

def fileSize (f : List (List Char)) : Nat := (f.map (fun l => l.length + 1)).sum

theorem remaining_eq (s : St) : remaining s = (s.line.length - s.p) + fileSize s.file := rfl

theorem scanFrom_ge (P : Char → Nat → Bool) : ∀ (l : List Char) (i k j : Nat), scanFrom P l i k = some j → i ≤ j ∧ j ≤ i + l.length
  | [], i, k, j, h => by unfold scanFrom at h; split at h <;> simp at h; omega
  | c :: cs, i, k, j, h => by
    unfold scanFrom at h; split at h
    · have := scanFrom_ge P cs (i + 1) (k + 1) j h; simp; omega
    · simp at h; simp; omega

theorem scanWhile_ge {P : Char → Nat → Bool} {b : List Char} {i k j : Nat} (h : scanWhile P b i k = some j) : i ≤ j ∧ j ≤ b.length := by
  unfold scanWhile at h; split at h
  · have := scanFrom_ge P _ _ _ _ h; simp at this; omega
  · simp at h

theorem nextLine_go_rem (s : St) : ∀ (file : List (List Char)) (n : Nat) (s' : St) (r : Int),
    nextLine.go s file n = some (s', r) → remaining s' ≤ fileSize file ∧ (r = 0 → remaining s' < fileSize file)
  | [], n, s', r, h => by
    unfold nextLine.go at h; simp at h; obtain ⟨rfl, rfl⟩ := h; simp [remaining, fileSize]
  | raw :: rest, n, s', r, h => by
    unfold nextLine.go at h
    simp only [Option.bind_eq_bind] at h
    cases hp : scanWhile (fun c _ => isBlank c) (List.takeWhile (fun x => x != '\\') (cstr raw)) 0 0 with
    | none => simp [hp] at h
    | some p =>
      cases hc : rd (List.takeWhile (fun x => x != '\\') (cstr raw)) p with
      | none => simp [hp, hc] at h
      | some c =>
        simp only [hp, hc, Option.bind_some] at h
        have hlen : (List.takeWhile (fun x => x != '\\') (cstr raw)).length ≤ raw.length :=
          ((List.takeWhile_sublist _).trans (List.takeWhile_sublist _)).length_le
        split at h
        · simp at h; obtain ⟨rfl, rfl⟩ := h
          simp only [remaining, fileSize, List.map_cons, List.sum_cons]
          constructor <;> intros <;> omega
        · have ih := nextLine_go_rem s rest (n + 1) s' r h
          simp only [fileSize, List.map_cons, List.sum_cons] at *
          constructor
          · omega
          · intro h0; have := ih.2 h0; omega

theorem nextLine_rem {s s' : St} {r : Int} (h : nextLine s = some (s', r)) : remaining s' ≤ remaining s := by
  unfold nextLine at h; split at h
  · simp at h; rw [← h.1]
  · have := (nextLine_go_rem s _ _ _ _ h).1
    rw [remaining_eq s]; omega

theorem skipBlanks_rem {s s' : St} {w : Bool} {r : Int} (h : skipBlanks s w = some (s', r)) : remaining s' ≤ remaining s := by
  unfold skipBlanks at h
  simp only [Option.bind_eq_bind] at h
  cases hp : scanWhile (fun c _ => isBlank c) s.line s.p 0 with
  | none => simp [hp] at h
  | some p =>
    have hge := (scanWhile_ge hp).1
    have h1 : remaining { s with p := p } ≤ remaining s := by simp only [remaining]; omega
    cases hc : rd s.line p with
    | none => simp [hp, hc] at h
    | some c =>
      simp only [hp, hc, Option.bind_some] at h
      split at h
      · split at h
        · cases hn : nextLine { s with p := p } with
          | none => simp [hn] at h
          | some x =>
            obtain ⟨s2, r2⟩ := x
            have := nextLine_rem hn
            simp only [hn, Option.bind_some] at h
            split at h <;> (simp at h; rw [← h.1]; omega)
        · simp at h; rw [← h.1]; exact h1
      · simp at h; rw [← h.1]; exact h1

/-- `colon` succeeded ⇒ strictly less input remains -/
theorem colon_progress {s s' : St} (h : colon s = some (s', 0)) : remaining s' < remaining s := by
  unfold colon at h
  simp only [Option.bind_eq_bind, Option.pure_def] at h
  cases h1 : skipBlanks s true with
  | none => simp [h1] at h
  | some x =>
    obtain ⟨s1, r1⟩ := x
    have hr := skipBlanks_rem h1
    simp only [h1, Option.bind_some] at h
    split at h
    · simp at h
    · cases hc : rd s1.line s1.p with
      | none => simp [hc] at h
      | some c =>
        simp only [hc, Option.bind_some] at h
        split at h
        · rename_i hcc
          have : c ≠ NUL := by intro e; subst e; simp [NUL] at hcc
          have hlt := rd_ne_nul hc this
          simp at h; rw [← h]
          simp only [remaining] at *; omega
        · simp at h

/-- `sign` found a sign ⇒ strictly less input remains -/
theorem sign_progress {s s' : St} {sg : Int} (h : sign s = some (s', 0, sg)) : remaining s' < remaining s := by
  unfold sign at h
  simp only [Option.bind_eq_bind, Option.pure_def] at h
  cases h1 : skipBlanks s true with
  | none => simp [h1] at h
  | some x =>
    obtain ⟨s1, r1⟩ := x
    have hr := skipBlanks_rem h1
    simp only [h1, Option.bind_some] at h
    split at h
    · simp at h
    · cases hc : rd s1.line s1.p with
      | none => simp [hc] at h
      | some c =>
        simp only [hc, Option.bind_some] at h
        split at h
        · rename_i hcc
          have : c ≠ NUL := by intro e; subst e; simp [NUL] at hcc
          have hlt := rd_ne_nul hc this
          simp at h; rw [← h.1]
          simp only [remaining] at *; omega
        · split at h
          · rename_i hcc
            have : c ≠ NUL := by intro e; subst e; simp [NUL] at hcc
            have hlt := rd_ne_nul hc this
            simp at h; rw [← h.1]
            simp only [remaining] at *; omega
          · simp at h

/-- `next_var` delivered a name ⇒ strictly less input remains -/
theorem nextVar_progress {s s' : St} (h : nextVar s = some (s', 0)) : remaining s' < remaining s := by
  unfold nextVar at h
  simp only [Option.bind_eq_bind, Option.pure_def] at h
  cases h1 : skipBlanks s true with
  | none => simp [h1] at h
  | some x =>
    obtain ⟨s1, r1⟩ := x
    have hr := skipBlanks_rem h1
    simp only [h1, Option.bind_some] at h
    split at h
    · simp at h
    · cases hq : scanWhile isNameChar s1.line s1.p 0 with
      | none => simp [hq] at h
      | some q =>
        have hge := scanWhile_ge hq
        simp only [hq, Option.bind_some] at h
        split at h
        · simp at h
        · rename_i hlen
          split at h
          · simp at h
          · simp at h; rw [← h]
            simp at hlen
            simp only [remaining] at *; omega

/-- `value` read a number ⇒ strictly less input remains -/
theorem value_progress {s s' : St} {v : Option Rat} (h : value s = some (s', 0, v)) : remaining s' < remaining s := by
  unfold value at h
  simp only [Option.bind_eq_bind, Option.pure_def] at h
  cases h1 : skipBlanks s true with
  | none => simp [h1] at h
  | some x =>
    obtain ⟨s1, r1⟩ := x
    have hr := skipBlanks_rem h1
    simp only [h1, Option.bind_some] at h
    split at h
    · simp at h
    · have hle := Num.scan_consumes_le (List.drop s1.p s1.line)
      split at h
      · rename_i n q hs
        split at h
        · simp at h; rw [← h.1]
          simp [hs] at hle
          simp only [remaining] at *; omega
        · simp at h
      · simp at h

end Qsx.LpLex

namespace Qsx.LpLex

/-! ### what `has_colon` answers (C10): is there a `:` on the rest of the line, comments and line break excluded -/

/-- a `:` occurs before the end of the line -/
def colonAhead : List Char → Bool
  | [] => false
  | c :: cs => if endLine c then false else if c == ':' then true else colonAhead cs

theorem scanFrom_colon : ∀ (l : List Char) (i k : Nat),
    ∃ j, scanFrom (fun c _ => !endLine c && c != ':') l i k = some j ∧ i ≤ j ∧ j ≤ i + l.length ∧
      ((l.drop (j - i)).head? == some ':') = colonAhead l
  | [], i, k => ⟨i, by simp [scanFrom, endLine_nul], by omega, by simp, by simp [colonAhead]⟩
  | c :: cs, i, k => by
    unfold scanFrom
    by_cases he : endLine c = true
    · have hcond : (!endLine c && c != ':') = false := by simp [he]
      have hc : (c == ':') = false := by
        unfold endLine at he
        simp only [Bool.or_eq_true, beq_iff_eq] at he
        rcases he with (h | h) | h
        · subst h; decide
        · subst h; decide
        · subst h; decide
      refine ⟨i, ?_, by omega, by simp, ?_⟩
      · simp only [hcond]; simp
      · simp [colonAhead, he, hc]
    · by_cases hc : (c == ':') = true
      · have hcond : (!endLine c && c != ':') = false := by
          have : c = ':' := by simpa using hc
          subst this; decide
        refine ⟨i, ?_, by omega, by simp, ?_⟩
        · simp only [hcond]; simp
        · simp [colonAhead, he, hc]
      · have hcond : (!endLine c && c != ':') = true := by
          have h1 : endLine c = false := by simpa using he
          have h2 : (c == ':') = false := by simpa using hc
          simp [h1, bne, h2]
        obtain ⟨j, hj, h1, h2, h3⟩ := scanFrom_colon cs (i + 1) (k + 1)
        refine ⟨j, ?_, by omega, by simp; omega, ?_⟩
        · simp only [hcond]; simpa using hj
        · have hji : j - i = (j - (i + 1)) + 1 := by omega
          have h1' : endLine c = false := by simpa using he
          have h2' : (c == ':') = false := by simpa using hc
          rw [hji, List.drop_succ_cons, h3]
          simp [colonAhead, h1', h2']

/-- `has_colon` answers 1 exactly when a `:` occurs on the rest of the line before its end (a comment has been cut off by
next_line, so a `:` inside a comment does not count), and it leaves the cursor where skip_blanks put it -/
theorem hasColon_spec (s : St) (h : Inv s) :
    ∃ s1 r1, skipBlanks s false = some (s1, r1) ∧
      hasColon s = some (s1, if colonAhead (s1.line.drop s1.p) then 1 else 0) := by
  obtain ⟨s1, r1, h1, i1⟩ := skipBlanks_safe s false h
  refine ⟨s1, r1, h1, ?_⟩
  unfold hasColon
  obtain ⟨j, hj, hj1, hj2, hj3⟩ := scanFrom_colon (s1.line.drop s1.p) s1.p 0
  have hi : s1.p ≤ s1.line.length := i1
  have hsw : scanWhile (fun c _ => !endLine c && c != ':') s1.line s1.p 0 = some j := by simp [scanWhile, hi, hj]
  have hjl : j ≤ s1.line.length := by simp at hj2; omega
  obtain ⟨c, hc⟩ := rd_some hjl
  simp only [h1, hsw, hc, Option.bind_eq_bind, Option.bind_some, Option.pure_def]
  have : (c == ':') = colonAhead (s1.line.drop s1.p) := by
    rw [← hj3]
    unfold rd at hc
    split at hc
    · rename_i hlt
      simp at hc; subst hc
      have hidx : s1.p + (j - s1.p) = j := by omega
      simp [List.head?_drop, hidx, List.getElem?_eq_getElem hlt]
    · split at hc
      · rename_i heq
        simp at hc; subst hc
        have : s1.line.length ≤ s1.p + (j - s1.p) := by omega
        simp [List.drop_drop, List.drop_eq_nil_of_le, this, NUL]
      · simp at hc
  simp [this]

end Qsx.LpLex
