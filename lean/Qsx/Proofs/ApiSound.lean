import Qsx.Proofs.Bridge

namespace Qsx
namespace LP

/-- the LP has objective values better than any bound -/
def Unbounded (L : LP) (pinf ninf : Rat) : Prop :=
  ∀ M : Rat, ∃ x, L.Feasible pinf ninf x ∧ (if L.isMin then L.objv x < M else M < L.objv x)

def IsOptimal (L : LP) (pinf ninf : Rat) (x : Nat → Rat) : Prop :=
  L.Feasible pinf ninf x ∧ ∀ x', L.Feasible pinf ninf x' → L.better (L.objv x) (L.objv x')

theorem certOK_sound {L : LP} {pinf ninf : Rat} {x pi : Array Rat} (hw : L.WF)
    (h : L.certOK pinf ninf x pi = true) : L.IsOptimal pinf ninf (rget x) := by
  unfold certOK at h
  simp only [Bool.and_eq_true, beq_iff_eq] at h
  obtain ⟨_, hc⟩ := h
  obtain ⟨hbox, hdom⟩ := certCheck_sound (L.toInternal_WF pinf) hc
  refine ⟨L.feasible_drop hw pinf ninf _ _ hbox, fun x' hf' => ?_⟩
  have := hdom x' (L.slackOf x') (L.feasible_lift hw pinf ninf x' hf')
  rw [objv_toInternal, objv_toInternal] at this
  unfold ILP.better at this
  unfold LP.better
  rwa [ti_isMin] at this

theorem checkFarkas_sound {L : LP} {pinf ninf : Rat} {y : Array Rat} (hw : L.WF)
    (h : L.checkFarkas pinf ninf y = true) : ¬ ∃ x, L.Feasible pinf ninf x := by
  unfold checkFarkas at h
  simp only [Bool.and_eq_true, beq_iff_eq] at h
  rintro ⟨x, hf⟩
  exact infeasibleTest_sound (L.toInternal_WF pinf) h.2 ⟨x, L.slackOf x, L.feasible_lift hw pinf ninf x hf⟩

/-! ### unbounded ray -/

theorem entDot_add_smul (ent : List (Nat × Rat)) (x r : Nat → Rat) (t : Rat) :
    entDot ent (fun j => x j + t * r j) = entDot ent x + t * entDot ent r := by
  induction ent with
  | nil => simp [entDot, lsum]
  | cons e l ih =>
    unfold entDot at ih ⊢
    simp only [List.map_cons, lsum]
    rw [ih]; ring

theorem objv_add_smul (L : LP) (x r : Nat → Rat) (t : Rat) :
    L.objv (fun j => x j + t * r j) = L.objv x + t * L.objv r := by
  unfold objv
  rw [← sumTo_mul_left, ← sumTo_add]
  apply sumTo_congr; intro j _; ring

theorem checkRay_feasible {L : LP} {pinf ninf : Rat} {x r : Array Rat}
    (h : L.checkRay pinf ninf x r = true) (t : Rat) (ht : 0 ≤ t) :
    L.Feasible pinf ninf (fun j => rget x j + t * rget r j) := by
  unfold checkRay at h
  simp only [Bool.and_eq_true, allTo_iff, Bool.or_eq_true, beq_iff_eq, decide_eq_true_eq] at h
  obtain ⟨⟨⟨⟨⟨_, hxr⟩, hxb⟩, hrr⟩, hrb⟩, _⟩ := h
  refine ⟨?_, ?_, ?_⟩
  · intro i hi
    have h1 := hxr i hi
    have h2 := hrr i hi
    unfold rowHolds act
    rw [entDot_add_smul]
    unfold act at h1 h2
    by_cases hL : (L.row i).sense = 'L'
    · simp [hL] at h1 h2 ⊢; nlinarith
    · by_cases hG : (L.row i).sense = 'G'
      · simp [hG] at h1 h2 ⊢; nlinarith
      · by_cases hE : (L.row i).sense = 'E'
        · simp [hE] at h1 h2 ⊢
          rw [h1, h2]; ring
        · simp [hL, hG, hE] at h1 h2 ⊢
          rw [h2]; constructor <;> linarith [h1.1, h1.2]
  · intro j hj hne
    have h1 := (hxb j hj).1
    have h2 := (hrb j hj).1
    rcases h1 with h1 | h1
    · exact absurd h1 hne
    · rcases h2 with h2 | h2
      · exact absurd h2 hne
      · nlinarith
  · intro j hj hne
    have h1 := (hxb j hj).2
    have h2 := (hrb j hj).2
    rcases h1 with h1 | h1
    · exact absurd h1 hne
    · rcases h2 with h2 | h2
      · exact absurd h2 hne
      · nlinarith

theorem checkRay_sound {L : LP} {pinf ninf : Rat} {x r : Array Rat}
    (h : L.checkRay pinf ninf x r = true) : L.Unbounded pinf ninf := by
  intro M
  have himp : (if L.isMin then L.objv (rget r) < 0 else 0 < L.objv (rget r)) := by
    unfold checkRay at h
    simp only [Bool.and_eq_true] at h
    have := h.2
    split at this <;> simp_all
  cases hm : L.isMin
  · simp only [hm, Bool.false_eq_true, ↓reduceIte] at himp ⊢
    -- max: objv r > 0
    let t : Rat := max 0 ((M - L.objv (rget x)) / L.objv (rget r) + 1)
    have ht : 0 ≤ t := le_max_left _ _
    refine ⟨_, checkRay_feasible h t ht, ?_⟩
    rw [objv_add_smul]
    have : (M - L.objv (rget x)) / L.objv (rget r) + 1 ≤ t := le_max_right _ _
    have h3 : (M - L.objv (rget x)) / L.objv (rget r) * L.objv (rget r) = M - L.objv (rget x) :=
      div_mul_cancel₀ _ (ne_of_gt himp)
    nlinarith
  · simp only [hm, ↓reduceIte] at himp ⊢
    let t : Rat := max 0 ((M - L.objv (rget x)) / L.objv (rget r) + 1)
    have ht : 0 ≤ t := le_max_left _ _
    refine ⟨_, checkRay_feasible h t ht, ?_⟩
    rw [objv_add_smul]
    have : (M - L.objv (rget x)) / L.objv (rget r) + 1 ≤ t := le_max_right _ _
    have h3 : (M - L.objv (rget x)) / L.objv (rget r) * L.objv (rget r) = M - L.objv (rget x) :=
      div_mul_cancel₀ _ (ne_of_lt himp)
    nlinarith

/-! ### the three certified classes exclude each other; the certified value is unique -/

theorem optimal_farkas_exclusive {L : LP} {pinf ninf : Rat} {x pi y : Array Rat} (hw : L.WF)
    (h1 : L.certOK pinf ninf x pi = true) (h2 : L.checkFarkas pinf ninf y = true) : False :=
  checkFarkas_sound hw h2 ⟨_, (certOK_sound hw h1).1⟩

theorem ray_farkas_exclusive {L : LP} {pinf ninf : Rat} {x r y : Array Rat} (hw : L.WF)
    (h1 : L.checkRay pinf ninf x r = true) (h2 : L.checkFarkas pinf ninf y = true) : False := by
  obtain ⟨z, hz, _⟩ := checkRay_sound h1 0
  exact checkFarkas_sound hw h2 ⟨z, hz⟩

theorem optimal_ray_exclusive {L : LP} {pinf ninf : Rat} {x pi x0 r : Array Rat} (hw : L.WF)
    (h1 : L.certOK pinf ninf x pi = true) (h2 : L.checkRay pinf ninf x0 r = true) : False := by
  obtain ⟨_, hopt⟩ := certOK_sound hw h1
  obtain ⟨z, hz, hlt⟩ := checkRay_sound h2 (L.objv (rget x))
  have := hopt z hz
  unfold better at this
  cases hm : L.isMin <;> simp only [hm, Bool.false_eq_true, ↓reduceIte] at this hlt <;> linarith

theorem certified_value_unique {L : LP} {pinf ninf : Rat} {x₁ pi₁ x₂ pi₂ : Array Rat} (hw : L.WF)
    (h1 : L.certOK pinf ninf x₁ pi₁ = true) (h2 : L.certOK pinf ninf x₂ pi₂ = true) :
    L.objv (rget x₁) = L.objv (rget x₂) := by
  obtain ⟨f1, o1⟩ := certOK_sound hw h1
  obtain ⟨f2, o2⟩ := certOK_sound hw h2
  have a := o1 _ f2
  have b := o2 _ f1
  unfold better at a b
  cases hm : L.isMin <;> simp only [hm, Bool.false_eq_true, ↓reduceIte] at a b <;> linarith

end LP
end Qsx
