import Qsx.Model.StoreAcct

namespace Qsx.StoreAcct

theorem run_safe_aux (acts : List Act) (free : Int) (h : (delta acts : Int) + atEndCount acts ≤ free) :
    ∃ f, run free acts = some f ∧ 0 ≤ f := by
  induction acts generalizing free with
  | nil =>
    simp only [delta, atEndCount] at h
    exact ⟨free, rfl, by omega⟩
  | cons a as ih =>
    cases a with
    | first =>
      simp only [delta, atEndCount, run] at h ⊢
      exact ih free h
    | inPlace e =>
      cases e with
      | false =>
        simp only [delta, atEndCount, run] at h ⊢
        exact ih free h
      | true =>
        simp only [delta, atEndCount, run] at h ⊢
        have hp : 0 < free := by omega
        rw [if_pos hp]
        exact ih (free - 1) (by omega)
    | move c =>
      simp only [delta, atEndCount, run] at h ⊢
      have hp : (c : Int) + 1 < free := by omega
      rw [if_pos hp]
      exact ih (free - ((c : Int) + 2)) (by omega)

/-- **The guard `delta < matfree` of `matrix_addrow` is sufficient.**  If at most one touched column
ends exactly at the first free slot (columns are distinct, so this always holds), then every write
of the in-place branch stays inside the array and `matfree` stays non-negative. -/
theorem addrow_guard_sufficient (acts : List Act) (free : Int)
    (hguard : (delta acts : Int) < free) (hone : atEndCount acts ≤ 1) :
    ∃ f, run free acts = some f ∧ 0 ≤ f :=
  run_safe_aux acts free (by omega)

/-- … and it is tight: with `delta = matfree` the column that ends the used space takes the slot the
moved column needs (the write lands one past the array). -/
theorem addrow_guard_tight (c : Nat) : run ((c : Int) + 2) [.inPlace true, .move c] = none := by
  simp [run]
  omega

/-- **`matrix_addcol` writes inside the array** (after its growth step), keeps `matfree ≥ 0` and
`matfree ≤ matsize`, for every column length and every state with `0 ≤ matfree ≤ matsize`. -/
theorem addcol_safe (size : Nat) (free : Int) (cnt extra : Nat) (h0 : 0 ≤ free) (h1 : free ≤ size) :
    let r := addcol size free cnt extra
    0 ≤ r.2.1 ∧ r.2.1 ≤ r.1 ∧ 0 ≤ r.2.2 ∧ r.2.2 < r.1 := by
  unfold addcol
  by_cases hg : free < (cnt : Int) + 1
  · simp only [hg, ↓reduceIte]
    by_cases hc : cnt = 0
    · subst hc; simp; omega
    · simp only [hc, ↓reduceIte]; push_cast; omega
  · simp only [hg, ↓reduceIte]
    by_cases hc : cnt = 0
    · subst hc; simp; omega
    · simp only [hc, ↓reduceIte]; omega

/-- the move branch of `matrix_addcoef` (guard `matfree > cnt + 2`) is a single `move` -/
theorem addcoef_move_safe (c : Nat) (free : Int) (h : (c : Int) + 2 < free) :
    ∃ f, run free [.move c] = some f ∧ 0 ≤ f :=
  addrow_guard_sufficient [.move c] free (by simp [delta]; omega) (by simp [atEndCount])

end Qsx.StoreAcct
