import Qsx.Proofs.ApiCert

namespace Qsx
open ILP

namespace LP

/-- well-formedness of an API-level LP: entries index existing columns, senses are the four
documented ones -/
structure WF (L : LP) : Prop where
  idx : ∀ i, i < L.nr → ∀ e ∈ (L.row i).ent, e.1 < L.nc
  sense : ∀ i, i < L.nr → (L.row i).sense = 'L' ∨ (L.row i).sense = 'G' ∨ (L.row i).sense = 'E' ∨ (L.row i).sense = 'R'

@[simp] theorem ti_ns (L : LP) (p : Rat) : (L.toInternal p).ns = L.nc := by
  simp [toInternal, ILP.ns, LP.nc]
@[simp] theorem ti_nrows (L : LP) (p : Rat) : (L.toInternal p).nrows = L.nr := rfl
@[simp] theorem ti_isMin (L : LP) (p : Rat) : (L.toInternal p).isMin = L.isMin := rfl

theorem ti_scol (L : LP) (p : Rat) (j : Nat) (hj : j < L.nc) :
    (L.toInternal p).scol j =
      { ent := L.colEnt j, lo := (L.col j).lo, up := (L.col j).up, obj := (L.col j).obj } := by
  simp [toInternal, ILP.scol, Array.getD, hj]

theorem ti_lcol (L : LP) (p : Rat) (i : Nat) (hi : i < L.nr) :
    (L.toInternal p).lcol i =
      { ent := [(i, logCoef (L.row i))], lo := 0, up := logUp p (L.row i), obj := 0 } := by
  simp [toInternal, ILP.lcol, Array.getD, hi]

theorem ti_b (L : LP) (p : Rat) (i : Nat) (hi : i < L.nr) :
    (L.toInternal p).b i = (L.row i).rhs := by
  have : i < L.rows.size := hi
  simp [toInternal, ILP.b, rget, LP.row, Array.getD, this]

theorem logCoef_ne_zero (r : Row) : logCoef r ≠ 0 := by
  unfold logCoef; split <;> norm_num

theorem entAt_append (l₁ l₂ : List (Nat × Rat)) (i : Nat) :
    entAt (l₁ ++ l₂) i = entAt l₁ i + entAt l₂ i := by
  simp [entAt, lsum_append]

theorem entAt_flatMap_range (n : Nat) (g : Nat → List (Nat × Rat)) (i : Nat) :
    entAt ((List.range n).flatMap g) i = sumTo n (fun k => entAt (g k) i) := by
  induction n with
  | zero => simp [entAt, lsum, sumTo]
  | succ n ih =>
    rw [List.range_succ, List.flatMap_append, entAt_append, ih]
    simp [sumTo]

theorem entAt_rowpart (ent : List (Nat × Rat)) (j k i : Nat) :
    entAt ((ent.filter (fun e => e.1 == j)).map (fun e => (k, e.2))) i
      = if k = i then entAt ent j else 0 := by
  induction ent with
  | nil => simp [entAt, lsum]
  | cons e l ih =>
    by_cases he : e.1 = j
    · simp only [List.filter_cons, he, beq_self_eq_true, ↓reduceIte, List.map_cons] 
      unfold entAt at ih ⊢
      simp only [List.map_cons, lsum, he, ↓reduceIte]
      rw [ih]
      split <;> simp
    · have : (e.1 == j) = false := by simp [he]
      simp only [List.filter_cons, this, Bool.false_eq_true, ↓reduceIte]
      rw [ih]
      unfold entAt
      simp [lsum, he]

theorem entAt_colEnt (L : LP) (j i : Nat) (hi : i < L.nr) :
    entAt (L.colEnt j) i = entAt (L.row i).ent j := by
  unfold colEnt
  rw [entAt_flatMap_range]
  have : (fun k => entAt (((L.row k).ent.filter (fun e => e.1 == j)).map (fun e => (k, e.2))) i)
      = fun k => if i = k then entAt (L.row k).ent j else 0 := by
    funext k
    rw [entAt_rowpart]
    by_cases h : k = i
    · simp [h]
    · have : ¬ i = k := fun h' => h h'.symm
      simp [h, this]
  rw [this, sumTo_ite_eq L.nr i hi (fun k => entAt (L.row k).ent j)]

/-- the structural part of an internal row is the API row's activity -/
theorem structAct_toInternal (L : LP) (hw : L.WF) (p : Rat) (x : Nat → Rat) (i : Nat) (hi : i < L.nr) :
    structAct (L.toInternal p) x i = L.act x i := by
  unfold structAct LP.act
  rw [entDot_eq_sumTo L.nc _ x (hw.idx i hi), ti_ns]
  apply sumTo_congr
  intro j hj
  rw [ti_scol L p j hj]
  simp only
  rw [entAt_colEnt L j i hi]

theorem toInternal_WF (L : LP) (p : Rat) : (L.toInternal p).WF := by
  constructor
  · intro i hi
    rw [ti_nrows] at hi
    exact ⟨logCoef (L.row i), logCoef_ne_zero _, by rw [ti_lcol L p i hi]⟩
  · intro j hj e he
    rw [ti_ns] at hj
    rw [ti_scol L p j hj] at he
    simp only [colEnt, List.mem_flatMap, List.mem_range, List.mem_map, List.mem_filter] at he
    obtain ⟨k, hk, e', _, rfl⟩ := he
    exact hk

theorem objv_toInternal (L : LP) (p : Rat) (x s : Nat → Rat) :
    (L.toInternal p).objv x s = L.objv x := by
  unfold ILP.objv LP.objv
  rw [ti_ns, ti_nrows]
  have h2 : sumTo L.nr (fun i => ((L.toInternal p).lcol i).obj * s i) = 0 := by
    apply sumTo_zero; intro i hi; rw [ti_lcol L p i hi]; simp
  rw [h2, add_zero]
  apply sumTo_congr; intro j hj; rw [ti_scol L p j hj]

theorem coef_toInternal (L : LP) (p : Rat) (i : Nat) (hi : i < L.nr) :
    ((L.toInternal p).lcol i).coef = logCoef (L.row i) := by
  rw [ti_lcol L p i hi]; simp [Col.coef]

/-- every API-feasible point lifts to a feasible point of the internal LP -/
theorem feasible_lift (L : LP) (hw : L.WF) (pinf ninf : Rat) (x : Nat → Rat)
    (hf : L.Feasible pinf ninf x) :
    (L.toInternal pinf).Feasible pinf ninf x (L.slackOf x) := by
  have hrows : (L.toInternal pinf).RowsHold x (L.slackOf x) := by
    intro i hi
    rw [ti_nrows] at hi
    rw [structAct_toInternal L hw pinf x i hi, coef_toInternal L pinf i hi, ti_b L pinf i hi]
    unfold slackOf
    rw [mul_div_cancel₀ _ (logCoef_ne_zero _)]
    ring
  refine ⟨hrows, ?_, ?_, ?_, ?_⟩
  · intro j hj; rw [ti_ns] at hj; rw [ti_scol L pinf j hj]; exact hf.lo j hj
  · intro j hj; rw [ti_ns] at hj; rw [ti_scol L pinf j hj]; exact hf.up j hj
  · intro i hi _
    rw [ti_nrows] at hi
    rw [ti_lcol L pinf i hi]
    simp only
    have hr := hf.rows i hi
    unfold rowHolds at hr
    unfold slackOf logCoef
    rcases hw.sense i hi with h | h | h | h <;> simp [h] at hr ⊢ <;> linarith
  · intro i hi hne
    rw [ti_nrows] at hi
    rw [ti_lcol L pinf i hi] at hne ⊢
    simp only at hne ⊢
    have hr := hf.rows i hi
    unfold rowHolds at hr
    unfold logUp at hne ⊢
    unfold slackOf logCoef
    rcases hw.sense i hi with h | h | h | h <;> simp [h] at hr hne ⊢ <;> linarith

/-- a box-feasible point of the internal LP whose logicals are the row slacks is API-feasible -/
theorem feasible_drop (L : LP) (hw : L.WF) (pinf ninf : Rat) (x s : Nat → Rat)
    (hb : (L.toInternal pinf).BoxFeasible x s) : L.Feasible pinf ninf x := by
  refine ⟨?_, ?_, ?_⟩
  · intro i hi
    have hr := hb.rows i (by rw [ti_nrows]; exact hi)
    rw [structAct_toInternal L hw pinf x i hi, coef_toInternal L pinf i hi, ti_b L pinf i hi] at hr
    have hlo := hb.slo i (by rw [ti_nrows]; exact hi)
    have hup := hb.sup i (by rw [ti_nrows]; exact hi)
    rw [ti_lcol L pinf i hi] at hlo hup
    simp only at hlo hup
    unfold rowHolds
    unfold logCoef at hr
    unfold logUp at hup
    rcases hw.sense i hi with h | h | h | h <;> simp [h] at hr hup ⊢
    · linarith
    · linarith
    · linarith
    · constructor <;> linarith
  · intro j hj _
    have := hb.xlo j (by rw [ti_ns]; exact hj)
    rwa [ti_scol L pinf j hj] at this
  · intro j hj _
    have := hb.xup j (by rw [ti_ns]; exact hj)
    rwa [ti_scol L pinf j hj] at this

end LP
end Qsx
