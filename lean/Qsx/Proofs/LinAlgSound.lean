import Qsx.Model.LinAlg
import Qsx.Proofs.Sums
import Mathlib.Tactic.Ring
import Mathlib.Tactic.FieldSimp

namespace Qsx.LinAlg
open Qsx

theorem tsolveOK_iff {n : Nat} {B : Nat → Nat → Rat} {y c : Nat → Rat} :
    tsolveOK n B y c = true ↔ ∀ k, k < n → vecMul n y B k = c k := by
  simp [tsolveOK, allTo_iff]
theorem solveOK_iff {n : Nat} {B : Nat → Nat → Rat} {x a : Nat → Rat} :
    solveOK n B x a = true ↔ ∀ i, i < n → mulVec n B x i = a i := by
  simp [solveOK, allTo_iff]

theorem sumTo_unit (n i : Nat) (hi : i < n) (g : Nat → Rat) : sumTo n (fun k => unit i k * g k) = g i := by
  have : (fun k => unit i k * g k) = fun k => if i = k then g k else 0 := by
    funext k; unfold unit; by_cases h : k = i
    · subst h; simp
    · have : ¬ i = k := fun e => h e.symm
      simp [h, this]
  rw [this, sumTo_ite_eq n i hi]

/-- `(r B) · x = r · (B x)` -/
theorem assoc (n : Nat) (r : Nat → Rat) (B : Nat → Nat → Rat) (x : Nat → Rat) :
    sumTo n (fun k => vecMul n r B k * x k) = sumTo n (fun l => r l * mulVec n B x l) := by
  unfold vecMul mulVec
  have e1 : (fun k => sumTo n (fun l => r l * B l k) * x k) = fun k => sumTo n (fun l => r l * B l k * x k) := by
    funext k; rw [sumTo_mul_right]
  have e2 : (fun l => r l * sumTo n (fun k => B l k * x k)) = fun l => sumTo n (fun k => r l * B l k * x k) := by
    funext l; rw [← sumTo_mul_left]; apply sumTo_congr; intro k _; ring
  rw [e1, e2, sumTo_comm]

/-- **Inverse rows determine every forward solve.**  If each `M i` passes the inverse-row check, any
`x` that passes the forward-solve check for right-hand side `a` is `M a`. -/
theorem solve_eq_of_inverse_rows {n : Nat} {B M : Nat → Nat → Rat} {x a : Nat → Rat}
    (hM : ∀ i, i < n → unitRowOK n B i (M i) = true) (hx : solveOK n B x a = true) :
    ∀ i, i < n → x i = sumTo n (fun l => M i l * a l) := by
  intro i hi
  have h1 := tsolveOK_iff.mp (hM i hi)
  have h2 := solveOK_iff.mp hx
  calc x i = sumTo n (fun k => unit i k * x k) := (sumTo_unit n i hi x).symm
    _ = sumTo n (fun k => vecMul n (M i) B k * x k) := by
        apply sumTo_congr; intro k hk; rw [h1 k hk]
    _ = sumTo n (fun l => M i l * mulVec n B x l) := assoc n (M i) B x
    _ = sumTo n (fun l => M i l * a l) := by apply sumTo_congr; intro l hl; rw [h2 l hl]

/-- forward solves are unique as soon as inverse rows exist -/
theorem solve_unique {n : Nat} {B M : Nat → Nat → Rat} {x x' a : Nat → Rat}
    (hM : ∀ i, i < n → unitRowOK n B i (M i) = true) (hx : solveOK n B x a = true) (hx' : solveOK n B x' a = true) :
    ∀ i, i < n → x i = x' i := by
  intro i hi
  rw [solve_eq_of_inverse_rows hM hx i hi, solve_eq_of_inverse_rows hM hx' i hi]

/-- **Singular matrices cannot be "solved".**  A kernel certificate excludes a full set of inverse rows. -/
theorem no_inverse_of_kernel {n : Nat} {B M : Nat → Nat → Rat} {v : Nat → Rat}
    (hk : kernelOK n B v = true) : ¬ (∀ i, i < n → unitRowOK n B i (M i) = true) := by
  intro hM
  unfold kernelOK at hk
  simp only [Bool.and_eq_true, Bool.not_eq_true'] at hk
  obtain ⟨hnz, hs⟩ := hk
  have hz : allTo n (fun k => decide (v k = 0)) = true := by
    rw [allTo_iff]; intro i hi
    have := solve_eq_of_inverse_rows hM hs i hi
    simp only [mul_zero] at this
    rw [sumTo_zero (fun _ _ => rfl)] at this
    simp [this]
  rw [hz] at hnz
  exact Bool.noConfusion hnz

/-- **Tableau rows.**  With `r` the `i`-th inverse row of the basis `ord` and `t = r·[A|I]`:
the entry in basic column `ord k` is `δ_ik`, and on every solution `z` of `[A|I] z = b` the row reads
`Σ_j t_j z_j = r·b`. -/
theorem tableau_row_basic {n nall : Nat} {A : Nat → Nat → Rat} {ord : Nat → Nat} {i : Nat} {r t : Nat → Rat}
    (hr : unitRowOK n (basisOf A ord) i r = true) (ht : tabRowOK n nall A r t = true)
    (k : Nat) (hk : k < n) (hord : ord k < nall) : t (ord k) = unit i k := by
  have h1 := tsolveOK_iff.mp hr k hk
  have h2 : t (ord k) = vecMul n r A (ord k) := by
    have := (allTo_iff _ _).mp ht (ord k) hord
    simpa using this
  rw [h2, ← h1]; rfl

theorem tableau_row_equation {n nall : Nat} {A : Nat → Nat → Rat} {r t z b : Nat → Rat}
    (ht : tabRowOK n nall A r t = true)
    (hz : ∀ l, l < n → sumTo nall (fun j => A l j * z j) = b l) :
    sumTo nall (fun j => t j * z j) = sumTo n (fun l => r l * b l) := by
  have h2 : ∀ j, j < nall → t j = vecMul n r A j := by
    intro j hj
    have := (allTo_iff _ _).mp ht j hj
    simpa using this
  calc sumTo nall (fun j => t j * z j) = sumTo nall (fun j => sumTo n (fun l => r l * A l j * z j)) := by
        apply sumTo_congr; intro j hj; rw [h2 j hj]; unfold vecMul; rw [sumTo_mul_right]
    _ = sumTo n (fun l => sumTo nall (fun j => r l * A l j * z j)) := sumTo_comm nall n _
    _ = sumTo n (fun l => r l * b l) := by
        apply sumTo_congr; intro l hl
        rw [← hz l hl, ← sumTo_mul_left]; apply sumTo_congr; intro j _; ring

/-- **A replacement whose spike entry is zero makes the basis singular.**  `w` solves `B w = a`; if
`w p = 0` then `w - e_p·(1 + w p)`… concretely `v = w` with entry `p` set to `-1` is in the kernel of
the updated matrix. -/
theorem singular_update {n : Nat} {B : Nat → Nat → Rat} {w a : Nat → Rat} {p : Nat} (hp : p < n)
    (hw : solveOK n B w a = true) (h0 : w p = 0) :
    kernelOK n (replaceCol B p a) (fun k => if k = p then -1 else w k) = true := by
  unfold kernelOK
  simp only [Bool.and_eq_true, Bool.not_eq_true']
  constructor
  · by_contra h
    have h' : allTo n (fun k => decide ((if k = p then (-1 : Rat) else w k) = 0)) = true := by
      cases hh : allTo n (fun k => decide ((if k = p then (-1 : Rat) else w k) = 0)) <;> simp_all
    have := (allTo_iff _ _).mp h' p hp
    simp at this
  · rw [solveOK_iff]
    intro i hi
    have h2 := solveOK_iff.mp hw i hi
    unfold mulVec at h2 ⊢
    have e : (fun k => replaceCol B p a i k * (if k = p then (-1 : Rat) else w k))
        = fun k => B i k * w k - (if p = k then (B i k * w k + a i) else 0) := by
      funext k; unfold replaceCol
      by_cases h : k = p
      · subst h; simp
      · have : ¬ p = k := fun e => h e.symm
        simp [h, this]
    rw [e, sumTo_sub, sumTo_ite_eq n p hp, h2, h0]; ring

/-- **Product-form update.**  If `M` holds inverse rows of `B`, `w = M a` and `w p ≠ 0`, then `etaRows`
holds inverse rows of the matrix with column `p` replaced by `a`: a non-zero spike entry means the
updated basis is non-singular, and its solves are again determined (by `solve_eq_of_inverse_rows`). -/
theorem eta_update {n : Nat} {B M : Nat → Nat → Rat} {w a : Nat → Rat} {p : Nat} (hp : p < n)
    (hM : ∀ i, i < n → unitRowOK n B i (M i) = true)
    (hw : ∀ i, i < n → w i = sumTo n (fun l => M i l * a l)) (hne : w p ≠ 0) :
    ∀ i, i < n → unitRowOK n (replaceCol B p a) i (etaRows M w p i) = true := by
  intro i hi
  unfold unitRowOK
  rw [tsolveOK_iff]
  intro k hk
  have hMr : ∀ i k, i < n → k < n → sumTo n (fun l => M i l * B l k) = unit i k :=
    fun i k hi hk => tsolveOK_iff.mp (hM i hi) k hk
  unfold vecMul replaceCol etaRows
  by_cases hkp : k = p
  · subst hkp
    simp only [↓reduceIte]
    by_cases hik : i = k
    · subst hik
      simp only [↓reduceIte]
      have : (fun l => M i l / w i * a l) = fun l => (1 / w i) * (M i l * a l) := by funext l; ring
      rw [this, sumTo_mul_left, ← hw i hi]; unfold unit; simp; field_simp
    · simp only [hik, ↓reduceIte]
      have : (fun l => (M i l - w i * (M k l / w k)) * a l) = fun l => M i l * a l - (w i / w k) * (M k l * a l) := by
        funext l; ring
      rw [this, sumTo_sub, sumTo_mul_left, ← hw i hi, ← hw k hk]
      have hki : ¬ k = i := fun e => hik e.symm
      unfold unit; simp [hki]; field_simp; ring
  · simp only [hkp, ↓reduceIte]
    by_cases hik : i = p
    · subst hik
      simp only [↓reduceIte]
      have : (fun l => M i l / w i * B l k) = fun l => (1 / w i) * (M i l * B l k) := by funext l; ring
      rw [this, sumTo_mul_left, hMr i k hi hk]; unfold unit; simp [hkp]
    · simp only [hik, ↓reduceIte]
      have : (fun l => (M i l - w i * (M p l / w p)) * B l k) = fun l => M i l * B l k - (w i / w p) * (M p l * B l k) := by
        funext l; ring
      rw [this, sumTo_sub, sumTo_mul_left, hMr i k hi hk, hMr p k hp hk]
      unfold unit; simp [hkp]

end Qsx.LinAlg
