import Qsx.Model.Basic
import Mathlib.Algebra.BigOperators.Ring.Finset
import Mathlib.Algebra.Order.BigOperators.Group.Finset
import Mathlib.Algebra.Order.Field.Rat
import Mathlib.Tactic.Linarith
import Mathlib.Tactic.Ring

namespace Qsx
open Finset

theorem sumTo_eq_sum (n : Nat) (f : Nat → Rat) : sumTo n f = ∑ i ∈ range n, f i := by
  induction n with
  | zero => simp [sumTo]
  | succ n ih => simp [sumTo, ih, Finset.sum_range_succ]

theorem lsum_eq_sum (l : List Rat) : lsum l = l.sum := by
  induction l with
  | nil => simp [lsum]
  | cons a l ih => simp [lsum, ih]

theorem lsum_append (l₁ l₂ : List Rat) : lsum (l₁ ++ l₂) = lsum l₁ + lsum l₂ := by
  simp [lsum_eq_sum]

theorem sumTo_congr {n : Nat} {f g : Nat → Rat} (h : ∀ i, i < n → f i = g i) :
    sumTo n f = sumTo n g := by
  rw [sumTo_eq_sum, sumTo_eq_sum]
  exact Finset.sum_congr rfl (fun i hi => h i (Finset.mem_range.mp hi))

theorem sumTo_add (n : Nat) (f g : Nat → Rat) :
    sumTo n (fun i => f i + g i) = sumTo n f + sumTo n g := by
  simp [sumTo_eq_sum, Finset.sum_add_distrib]

theorem sumTo_sub (n : Nat) (f g : Nat → Rat) :
    sumTo n (fun i => f i - g i) = sumTo n f - sumTo n g := by
  simp [sumTo_eq_sum, Finset.sum_sub_distrib]

theorem sumTo_mul_left (n : Nat) (c : Rat) (f : Nat → Rat) :
    sumTo n (fun i => c * f i) = c * sumTo n f := by
  simp [sumTo_eq_sum, Finset.mul_sum]

theorem sumTo_mul_right (n : Nat) (c : Rat) (f : Nat → Rat) :
    sumTo n (fun i => f i * c) = sumTo n f * c := by
  simp [sumTo_eq_sum, Finset.sum_mul]

theorem sumTo_comm (n m : Nat) (f : Nat → Nat → Rat) :
    sumTo n (fun i => sumTo m (fun j => f i j)) = sumTo m (fun j => sumTo n (fun i => f i j)) := by
  simp only [sumTo_eq_sum]
  exact Finset.sum_comm

theorem sumTo_nonneg {n : Nat} {f : Nat → Rat} (h : ∀ i, i < n → 0 ≤ f i) : 0 ≤ sumTo n f := by
  rw [sumTo_eq_sum]
  exact Finset.sum_nonneg (fun i hi => h i (Finset.mem_range.mp hi))

theorem sumTo_le {n : Nat} {f g : Nat → Rat} (h : ∀ i, i < n → f i ≤ g i) :
    sumTo n f ≤ sumTo n g := by
  rw [sumTo_eq_sum, sumTo_eq_sum]
  exact Finset.sum_le_sum (fun i hi => h i (Finset.mem_range.mp hi))

theorem sumTo_zero {n : Nat} {f : Nat → Rat} (h : ∀ i, i < n → f i = 0) : sumTo n f = 0 := by
  rw [sumTo_eq_sum]
  exact Finset.sum_eq_zero (fun i hi => h i (Finset.mem_range.mp hi))

/-- picking out one index -/
theorem sumTo_ite_eq (n k : Nat) (hk : k < n) (g : Nat → Rat) :
    sumTo n (fun i => if k = i then g i else 0) = g k := by
  rw [sumTo_eq_sum]
  simp [Finset.sum_ite_eq, hk]

theorem allTo_iff (n : Nat) (p : Nat → Bool) : allTo n p = true ↔ ∀ i, i < n → p i = true := by
  simp [allTo, List.all_eq_true, List.mem_range]

theorem rget_tab (n : Nat) (f : Nat → Rat) (i : Nat) (h : i < n) : rget (tab n f) i = f i := by
  simp [rget, tab, Array.getD, h]

theorem size_tab (n : Nat) (f : Nat → Rat) : (tab n f).size = n := by
  simp [tab]

end Qsx
