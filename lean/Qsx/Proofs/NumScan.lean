import Qsx.Model.Num
import Mathlib.Tactic.Ring
import Mathlib.Tactic.Linarith
import Mathlib.Algebra.Order.Field.Rat
import Mathlib.Data.Rat.Lemmas
import Mathlib.Tactic.FieldSimp
import Mathlib.Tactic.IntervalCases

namespace Qsx.Num

def digitChar (d : Nat) : Char := Char.ofNat (48 + d)

/-- big-endian decimal value of a digit list -/
def dval : List Nat → Nat
  | [] => 0
  | d :: ds => d * 10 ^ ds.length + dval ds

/-- the accumulator loop `num = num*10 + d` -/
def acc (ds : List Nat) (a : Nat) : Nat := ds.foldl (fun a d => a * 10 + d) a

theorem acc_eq (ds : List Nat) (a : Nat) : acc ds a = a * 10 ^ ds.length + dval ds := by
  induction ds generalizing a with
  | nil => simp [acc, dval]
  | cons d ds ih =>
    simp only [acc, List.foldl_cons, List.length_cons, dval] at ih ⊢
    rw [ih]; ring

def digs (ds : List Nat) : List Char := ds.map digitChar

theorem digit_facts : ∀ d, d < 10 →
    isDigit (digitChar d) = true ∧ digitVal (digitChar d) = d := by decide

theorem scanLoop_accept (s : St) (c : Char) (cs : List Char) (h : accepts s c = true)
    (hf : s.fail = false := by rfl) :
    scanLoop s (c :: cs) = scanLoop (step s c) cs := by
  simp [scanLoop, h, hf]

theorem scanLoop_failed (s : St) (cs : List Char) (hf : s.fail = true) : scanLoop s cs = s := by
  cases cs <;> simp [scanLoop, hf]

theorem scanLoop_stop (s : St) (c : Char) (cs : List Char) (h : accepts s c = false) :
    scanLoop s (c :: cs) = s := by
  simp [scanLoop, h]

theorem accepts_digit (s : St) (d : Nat) (h : d < 10) : accepts s (digitChar d) = true := by
  simp [accepts, (digit_facts d h).1]

/-- mantissa digits (before or after the dot) -/
theorem mant_digits (s : St) (ds : List Nat) (rest : List Char)
    (hm : s.aExp = true ∨ s.nDig = 0) (hd : ∀ d ∈ ds, d < 10) (hf : s.fail = false) :
    scanLoop s (digs ds ++ rest) = scanLoop
      { s with num := acc ds s.num
               den := if s.aDot then s.den else s.den * 10 ^ ds.length
               nDig := s.nDig + ds.length
               aExp := s.aExp || !ds.isEmpty
               aSgn := s.aSgn && ds.isEmpty
               n := s.n + ds.length } rest := by
  induction ds generalizing s with
  | nil => cases s; simp [digs, acc]
  | cons d ds ih =>
    have hd0 : d < 10 := hd d (List.mem_cons_self ..)
    have hds : ∀ d' ∈ ds, d' < 10 := fun d' h' => hd d' (List.mem_cons_of_mem _ h')
    obtain ⟨f1, f2⟩ := digit_facts d hd0
    simp only [digs, List.map_cons, List.cons_append]
    rw [scanLoop_accept _ _ _ (accepts_digit s d hd0) hf]
    have hcond : (s.aExp || s.nDig == 0) = true := by
      rcases hm with h | h <;> simp [h]
    have hstep : step s (digitChar d) =
        { s with n := s.n + 1, den := if s.aDot then s.den else s.den * 10, num := s.num * 10 + d,
                 nDig := s.nDig + 1, aExp := true, aSgn := false } := by
      simp [step, f1, f2, hcond]
    have ih' := ih (step s (digitChar d)) (by rw [hstep]; exact Or.inl rfl) hds (by rw [hstep]; exact hf)
    simp only [digs] at ih'
    rw [ih', hstep]
    congr 1
    obtain ⟨aDot, aExp, aExpSgn, aSgn, aDiv, lExp, sgn, expSgn, nDig, num, den, first, n, fail⟩ := s
    cases aDot <;> simp [acc, pow_succ]
    · refine ⟨by omega, by ring, by omega⟩
    · refine ⟨by omega, by omega⟩

/-- the exponent guard lets the digits `ds` through when the accumulator starts at `a`: before each
digit the accumulator is at most 9999 -/
def GuardOK : Nat → List Nat → Prop
  | _, [] => True
  | a, d :: ds => a ≤ 9999 ∧ GuardOK (10 * a + d) ds

theorem acc_ge (ds : List Nat) (a : Nat) : a ≤ acc ds a := by
  rw [acc_eq]
  have : 1 ≤ 10 ^ ds.length := Nat.one_le_pow _ _ (by norm_num)
  nlinarith

/-- an exponent below 100000 (leading zeros allowed) passes the guard -/
theorem guardOK_of_lt (ds : List Nat) (a : Nat) (h : acc ds a < 100000) : GuardOK a ds := by
  induction ds generalizing a with
  | nil => trivial
  | cons d ds ih =>
    have h' : acc ds (a * 10 + d) < 100000 := by simpa [acc] using h
    refine ⟨?_, ?_⟩
    · have := acc_ge ds (a * 10 + d)
      omega
    · have : 10 * a + d = a * 10 + d := by ring
      rw [this]; exact ih _ h'

/-- exponent digits -/
theorem exp_digits (s : St) (ds : List Nat) (rest : List Char)
    (hm : s.aExp = false) (hn : s.nDig ≠ 0) (hd : ∀ d ∈ ds, d < 10) (hf : s.fail = false)
    (hg : GuardOK s.lExp ds) :
    scanLoop s (digs ds ++ rest) = scanLoop
      { s with lExp := acc ds s.lExp
               aExpSgn := s.aExpSgn && ds.isEmpty
               aSgn := s.aSgn && ds.isEmpty
               n := s.n + ds.length } rest := by
  induction ds generalizing s with
  | nil => cases s; simp [digs, acc]
  | cons d ds ih =>
    have hd0 : d < 10 := hd d (List.mem_cons_self ..)
    have hds : ∀ d' ∈ ds, d' < 10 := fun d' h' => hd d' (List.mem_cons_of_mem _ h')
    obtain ⟨f1, f2⟩ := digit_facts d hd0
    simp only [digs, List.map_cons, List.cons_append]
    rw [scanLoop_accept _ _ _ (accepts_digit s d hd0) hf]
    have hcond : (s.aExp || s.nDig == 0) = false := by simp [hm, hn]
    have hle : ¬ s.lExp > 9999 := not_lt.mpr hg.1
    have hstep : step s (digitChar d) =
        { s with n := s.n + 1, lExp := 10 * s.lExp + d, aExpSgn := false, aSgn := false } := by
      simp [step, f1, f2, hcond, hle]
    have ih' := ih (step s (digitChar d)) (by rw [hstep]; exact hm) (by rw [hstep]; exact hn) hds
      (by rw [hstep]; exact hf) (by rw [hstep]; exact hg.2)
    simp only [digs] at ih'
    rw [ih', hstep]
    congr 1
    obtain ⟨aDot, aExp, aExpSgn, aSgn, aDiv, lExp, sgn, expSgn, nDig, num, den, first, n, fail⟩ := s
    simp [acc]
    refine ⟨?_, ?_⟩ <;> first | omega | (congr 1; ring)

end Qsx.Num

namespace Qsx.Num

inductive Sign | none | plus | minus
deriving DecidableEq, Repr

def Sign.chars : Sign → List Char
  | .none => [] | .plus => ['+'] | .minus => ['-']
def Sign.neg : Sign → Bool
  | .minus => true | _ => false
def Sign.isNone : Sign → Bool
  | .none => true | _ => false

/-- a numeric literal `[±] digits [. digits] [e|E [±] digits]` -/
structure Lit where
  sg : Sign
  ip : List Nat
  fp : Option (List Nat)
  ex : Option (Bool × Sign × List Nat)     -- (upper-case E, sign, digits)

def Lit.fdigits (l : Lit) : List Nat := l.fp.getD []
def Lit.edigits (l : Lit) : List Nat := match l.ex with | some (_, _, e) => e | none => []
def Lit.eneg (l : Lit) : Bool := match l.ex with | some (_, s, _) => s.neg | none => false

def Lit.render (l : Lit) : List Char :=
  l.sg.chars ++ digs l.ip ++
  (match l.fp with | none => [] | some f => '.' :: digs f) ++
  (match l.ex with | none => [] | some (up, s, e) => (if up then 'E' else 'e') :: (s.chars ++ digs e))

structure Lit.WF (l : Lit) : Prop where
  ipd : ∀ d ∈ l.ip, d < 10
  fpd : ∀ d ∈ l.fdigits, d < 10
  exd : ∀ d ∈ l.edigits, d < 10
  one : l.ip ++ l.fdigits ≠ []
  exg : GuardOK 0 l.edigits       -- the exponent has at most five significant digits (`guardOK_of_lt`)

/-- the rational the literal spells -/
def Lit.value (l : Lit) : Rat :=
  let mant : Rat := ((dval l.ip * 10 ^ l.fdigits.length + dval l.fdigits : Nat) : Rat) / (10 ^ l.fdigits.length : Nat)
  let v : Rat := if l.eneg then mant / (10 ^ dval l.edigits : Nat) else mant * (10 ^ dval l.edigits : Nat)
  if l.sg.neg then -v else v

/-- characters that stop the scanner in every state -/
def stopChar (c : Char) : Bool :=
  !(isDigit c || c == '.' || c == 'e' || c == 'E' || c == '+' || c == '-' || c == '/')

theorem stop_not_accepted (s : St) (c : Char) (h : stopChar c = true) : accepts s c = false := by
  simp only [stopChar, Bool.not_eq_true', Bool.or_eq_false_iff] at h
  obtain ⟨⟨⟨⟨⟨⟨h1, h2⟩, h3⟩, h4⟩, h5⟩, h6⟩, h7⟩ := h
  simp [accepts, h1, h2, h3, h4, h5, h6, h7]

def Term (rest : List Char) : Prop := rest = [] ∨ ∃ c cs, rest = c :: cs ∧ stopChar c = true

theorem scanLoop_term (s : St) (rest : List Char) (h : Term rest) : scanLoop s rest = s := by
  rcases h with h | ⟨c, cs, h, hc⟩
  · subst h; rfl
  · subst h; exact scanLoop_stop s c cs (stop_not_accepted s c hc)

/-- state after the mantissa sign -/
def S1 (l : Lit) : St :=
  { aSgn := l.sg.isNone, sgn := l.sg.neg, n := l.sg.chars.length }

theorem phase1 (l : Lit) (r : List Char) : scanLoop {} (l.sg.chars ++ r) = scanLoop (S1 l) r := by
  unfold S1
  cases l.sg
  · simp [Sign.chars, Sign.isNone, Sign.neg]
  · simp only [Sign.chars, List.cons_append, List.nil_append]
    rw [scanLoop_accept _ _ _ (by decide)]
    congr 1
  · simp only [Sign.chars, List.cons_append, List.nil_append]
    rw [scanLoop_accept _ _ _ (by decide)]
    congr 1

def S2 (l : Lit) : St :=
  { S1 l with num := acc l.ip 0, nDig := l.ip.length, aExp := !l.ip.isEmpty,
              aSgn := l.sg.isNone && l.ip.isEmpty, n := l.sg.chars.length + l.ip.length }

theorem phase2 (l : Lit) (hw : l.WF) (r : List Char) :
    scanLoop (S1 l) (digs l.ip ++ r) = scanLoop (S2 l) r := by
  rw [mant_digits (S1 l) l.ip r (Or.inr rfl) hw.ipd rfl]
  congr 1
  simp [S1, S2]

def S3 (l : Lit) : St :=
  match l.fp with
  | none => S2 l
  | some f => { S2 l with aDot := false, aSgn := false, num := acc f (acc l.ip 0), den := 10 ^ f.length,
                          nDig := l.ip.length + f.length, aExp := !l.ip.isEmpty || !f.isEmpty,
                          n := l.sg.chars.length + l.ip.length + 1 + f.length }

theorem phase3 (l : Lit) (hw : l.WF) (r : List Char) :
    scanLoop (S2 l) ((match l.fp with | none => [] | some f => '.' :: digs f) ++ r) = scanLoop (S3 l) r := by
  unfold S3
  cases hf : l.fp with
  | none => simp
  | some f =>
    have hfd : ∀ d ∈ f, d < 10 := by
      have := hw.fpd; simp only [Lit.fdigits, hf, Option.getD_some] at this; exact this
    simp only [List.cons_append]
    rw [scanLoop_accept _ _ _ (by simp [accepts, S2, S1])]
    have hstep : step (S2 l) '.' = { S2 l with aSgn := false, aDot := false, n := (S2 l).n + 1 } := by
      simp [step, isDigit]
    rw [hstep, mant_digits _ f r _ hfd]
    · congr 1
      simp [S2, S1]
    · rfl
    · by_cases hi : l.ip.isEmpty
      · right; simp [S2, S1]; exact List.isEmpty_iff.mp hi |>.symm ▸ rfl
      · left; simp [S2, S1, hi]

structure S3Facts (l : Lit) : Prop where
  aExp : (S3 l).aExp = true
  nDig : (S3 l).nDig ≠ 0
  aSgn : (S3 l).aSgn = false
  aExpSgn : (S3 l).aExpSgn = false
  lExp : (S3 l).lExp = 0
  expSgn : (S3 l).expSgn = false
  sgn : (S3 l).sgn = l.sg.neg
  first : (S3 l).first = none
  num : (S3 l).num = acc l.fdigits (acc l.ip 0)
  den : (S3 l).den = 10 ^ l.fdigits.length
  n : (S3 l).n = l.sg.chars.length + l.ip.length + (match l.fp with | none => 0 | some f => 1 + f.length)
  fail : (S3 l).fail = false

theorem S3_facts (l : Lit) (hw : l.WF) : S3Facts l := by
  have hone := hw.one
  cases hf : l.fp with
  | none =>
    simp only [Lit.fdigits, hf, Option.getD_none, List.append_nil] at hone
    have hne : l.ip.isEmpty = false := by
      cases h : l.ip with
      | nil => exact absurd h hone
      | cons _ _ => rfl
    have hlen : l.ip.length ≠ 0 := by
      cases h : l.ip with
      | nil => exact absurd h hone
      | cons _ _ => simp
    constructor <;> simp [S3, S2, S1, Lit.fdigits, hf, hne, acc, hlen]
  | some f =>
    simp only [Lit.fdigits, hf, Option.getD_some] at hone
    constructor <;> simp [S3, S2, S1, Lit.fdigits, hf]
    · cases h1 : l.ip with
      | nil =>
        cases h2 : f with
        | nil => simp [h1, h2] at hone
        | cons _ _ => simp
      | cons _ _ => simp
    · intro h1 h2
      apply hone
      simp [List.eq_nil_iff_length_eq_zero, h1, h2]
    · omega

/-- after the exponent marker -/
def S3e (l : Lit) : St := { S3 l with aSgn := false, aExp := false, aExpSgn := true, n := (S3 l).n + 1 }
/-- after the exponent marker and its sign -/
def S3s (l : Lit) (neg : Bool) : St :=
  { S3 l with aSgn := false, aExp := false, aExpSgn := false, expSgn := neg, n := (S3 l).n + 2 }

def S4 (l : Lit) : St :=
  match l.ex with
  | none => S3 l
  | some (_, s, e) => { S3 l with aExp := false, aSgn := false, aExpSgn := s.isNone && e.isEmpty,
                                  expSgn := s.neg, lExp := acc e 0,
                                  n := (S3 l).n + 1 + s.chars.length + e.length }

theorem phase4 (l : Lit) (hw : l.WF) (r : List Char) :
    scanLoop (S3 l) ((match l.ex with
      | none => []
      | some (up, s, e) => (if up then 'E' else 'e') :: (s.chars ++ digs e)) ++ r) = scanLoop (S4 l) r := by
  have F := S3_facts l hw
  unfold S4
  cases he : l.ex with
  | none => simp
  | some t =>
    obtain ⟨up, s, e⟩ := t
    have hed : ∀ d ∈ e, d < 10 := by
      have := hw.exd; simp only [Lit.edigits, he] at this; exact this
    simp only [List.cons_append, List.append_assoc]
    have hacc : accepts (S3 l) (if up then 'E' else 'e') = true := by
      cases up <;> simp [accepts, F.aExp, isDigit]
    rw [scanLoop_accept _ _ _ hacc F.fail]
    have heg : GuardOK 0 e := by
      have := hw.exg; simp only [Lit.edigits, he] at this; exact this
    have hf3e : (S3e l).fail = false := F.fail
    have hstep : step (S3 l) (if up then 'E' else 'e') = S3e l := by
      cases up <;> simp [step, isDigit, S3e]
    rw [hstep]
    have hn1 : (S3e l).nDig ≠ 0 := F.nDig
    cases s with
    | none =>
      simp only [Sign.chars, List.nil_append]
      rw [exp_digits (S3e l) e r rfl hn1 hed hf3e (by show GuardOK (S3 l).lExp e; rw [F.lExp]; exact heg)]
      congr 1
      simp [S3e, Sign.isNone, Sign.neg, F.lExp, F.expSgn]
    | plus =>
      simp only [Sign.chars, List.cons_append, List.nil_append]
      rw [scanLoop_accept _ _ _ (by simp [accepts, S3e]) hf3e]
      have hs2 : step (S3e l) '+' = S3s l false := by
        simp [step, isDigit, S3e, S3s, F.expSgn]
      have hn2 : (S3s l false).nDig ≠ 0 := F.nDig
      rw [hs2, exp_digits (S3s l false) e r rfl hn2 hed F.fail (by show GuardOK (S3 l).lExp e; rw [F.lExp]; exact heg)]
      congr 1
      simp [S3s, Sign.isNone, Sign.neg, F.lExp, Sign.chars]
    | minus =>
      simp only [Sign.chars, List.cons_append, List.nil_append]
      rw [scanLoop_accept _ _ _ (by simp [accepts, S3e]) hf3e]
      have hs2 : step (S3e l) '-' = S3s l true := by
        simp [step, isDigit, S3e, S3s]
      have hn2 : (S3s l true).nDig ≠ 0 := F.nDig
      rw [hs2, exp_digits (S3s l true) e r rfl hn2 hed F.fail (by show GuardOK (S3 l).lExp e; rw [F.lExp]; exact heg)]
      congr 1
      simp [S3s, Sign.isNone, Sign.neg, F.lExp, Sign.chars]

theorem scanLoop_literal (l : Lit) (hw : l.WF) (rest : List Char) (ht : Term rest) :
    scanLoop {} (l.render ++ rest) = S4 l := by
  unfold Lit.render
  simp only [List.append_assoc]
  rw [phase1, phase2 l hw, phase3 l hw, phase4 l hw, scanLoop_term _ _ ht]

theorem render_length (l : Lit) :
    l.render.length = l.sg.chars.length + l.ip.length +
      (match l.fp with | none => 0 | some f => 1 + f.length) +
      (match l.ex with | none => 0 | some (_, s, e) => 1 + s.chars.length + e.length) := by
  unfold Lit.render
  cases l.fp <;> cases l.ex <;> simp [digs] <;> omega

theorem finishVal_eq (num den lExp : Nat) (expSgn sgn : Bool) (hd : den ≠ 0) :
    finishVal num den lExp expSgn sgn =
      (if sgn then -1 else 1) *
        (if expSgn then ((num : Rat) / den) / ((10 ^ lExp : Nat) : Rat) else ((num : Rat) / den) * ((10 ^ lExp : Nat) : Rat)) := by
  unfold finishVal
  have h10 : ((10 ^ lExp : Nat) : Rat) ≠ 0 := by positivity
  have hdq : (den : Rat) ≠ 0 := by exact_mod_cast hd
  cases expSgn <;> cases sgn <;> simp [Rat.mkRat_eq_div] <;> field_simp

/-- **C10, literals.**  For every literal of the grammar `[±] digits [. digits] [e [±] digits]`
with at least one mantissa digit — with arbitrarily many digits — followed by the end of the
string or by a character that cannot continue a number, the scanner consumes exactly the literal
and yields exactly the rational it spells. -/
theorem scan_literal (l : Lit) (hw : l.WF) (rest : List Char) (ht : Term rest) :
    scan (l.render ++ rest) = (l.render.length, Val.ok l.value) := by
  unfold scan
  rw [scanLoop_literal l hw rest ht]
  have F := S3_facts l hw
  have hn : (S4 l).n = l.render.length := by
    rw [render_length]
    unfold S4
    cases he : l.ex with
    | none => simp [F.n]
    | some t => obtain ⟨up, s, e⟩ := t; simp [F.n]; omega
  have hpos : l.render.length ≠ 0 := by
    rw [render_length]
    have := hw.one
    cases hf : l.fp with
    | none =>
      simp only [Lit.fdigits, hf, Option.getD_none, List.append_nil] at this
      have h2 : l.ip.length ≠ 0 := fun h0 => this (List.eq_nil_of_length_eq_zero h0)
      omega
    | some f => simp only []; omega
  have hfirst : (S4 l).first = none := by
    unfold S4; cases l.ex <;> simp [F.first]
  have hfail : (S4 l).fail = false := by
    unfold S4; cases l.ex <;> simp [F.fail]
  unfold result
  rw [hfail, if_neg (by simp), hn, if_neg hpos, hfirst]
  simp only [Prod.mk.injEq, true_and, Val.ok.injEq]
  have hden : (S4 l).den = 10 ^ l.fdigits.length := by unfold S4; cases l.ex <;> simp [F.den]
  have hnum : (S4 l).num = acc l.fdigits (acc l.ip 0) := by unfold S4; cases l.ex <;> simp [F.num]
  have hsgn : (S4 l).sgn = l.sg.neg := by unfold S4; cases l.ex <;> simp [F.sgn]
  have hes : (S4 l).expSgn = l.eneg := by
    unfold S4 Lit.eneg; cases he : l.ex with
    | none => simp [F.expSgn]
    | some t => obtain ⟨up, s, e⟩ := t; simp
  have hle : (S4 l).lExp = dval l.edigits := by
    unfold S4 Lit.edigits; cases he : l.ex with
    | none => simp [F.lExp, dval]
    | some t => obtain ⟨up, s, e⟩ := t; simp [acc_eq]
  rw [finishVal_eq _ _ _ _ _ (by rw [hden]; positivity), hden, hnum, hsgn, hes, hle, acc_eq, acc_eq]
  unfold Lit.value
  simp only [Nat.zero_mul, Nat.zero_add]
  cases l.sg.neg <;> cases l.eneg <;> simp

end Qsx.Num

namespace Qsx.Num

theorem step_n (s : St) (c : Char) : (step s c).n = s.n + 1 := by
  unfold step
  simp only
  split
  · split
    · rfl
    · split <;> rfl
  · split
    · rfl
    · split
      · split <;> rfl
      · split
        · rfl
        · split <;> rfl

theorem scanLoop_n_le (s : St) (cs : List Char) : (scanLoop s cs).n ≤ s.n + cs.length := by
  induction cs generalizing s with
  | nil => simp [scanLoop]
  | cons c cs ih =>
    unfold scanLoop
    split
    · simp
    · split
      · have := ih (step s c); rw [step_n] at this; simp only [List.length_cons]; omega
      · simp

theorem scan_consumes_le (cs : List Char) : (scan cs).1 ≤ cs.length := by
  unfold scan result
  have := scanLoop_n_le {} cs
  simp only [Nat.zero_add] at this
  split
  · simp
  · split
    · simp
    · split
      · simpa using this
      · simp only []
        split
        · simp
        · simpa using this

theorem scan_no_div_zero (cs : List Char) (q : Rat) (n : Nat) (h : scan cs = (n, Val.ok q)) :
    ∀ v0, (scanLoop {} cs).first = some v0 →
      finishVal (scanLoop {} cs).num (scanLoop {} cs).den (scanLoop {} cs).lExp (scanLoop {} cs).expSgn (scanLoop {} cs).sgn ≠ 0 := by
  intro v0 hv hz
  unfold scan result at h
  split at h
  · cases h
  · split at h
    · cases h
    · rw [hv] at h
      simp only [hz, ↓reduceIte] at h
      cases h

/-! ### the exponent guard (fix d278e6f) -/

/-- once the guard has tripped nothing is reported -/
theorem result_failed (s : St) (h : s.fail = true) : result s = (0, Val.none) := by
  unfold result; simp [h]

/-- exponent digits that do not pass the guard make the scanner give up -/
theorem exp_digits_fail (s : St) (ds : List Nat) (rest : List Char)
    (hm : s.aExp = false) (hn : s.nDig ≠ 0) (hd : ∀ d ∈ ds, d < 10) (hf : s.fail = false)
    (hg : ¬ GuardOK s.lExp ds) : (scanLoop s (digs ds ++ rest)).fail = true := by
  induction ds generalizing s with
  | nil => exact absurd trivial hg
  | cons d ds ih =>
    have hd0 : d < 10 := hd d (List.mem_cons_self ..)
    have hds : ∀ d' ∈ ds, d' < 10 := fun d' h' => hd d' (List.mem_cons_of_mem _ h')
    obtain ⟨f1, f2⟩ := digit_facts d hd0
    simp only [digs, List.map_cons, List.cons_append]
    rw [scanLoop_accept _ _ _ (accepts_digit s d hd0) hf]
    have hcond : (s.aExp || s.nDig == 0) = false := by simp [hm, hn]
    by_cases hle : s.lExp > 9999
    · have hstep : (step s (digitChar d)).fail = true := by
        simp [step, f1, hcond, hle]
      rw [scanLoop_failed _ _ hstep]; exact hstep
    · have hstep : step s (digitChar d) =
          { s with n := s.n + 1, lExp := 10 * s.lExp + d, aExpSgn := false, aSgn := false } := by
        simp [step, f1, f2, hcond, hle]
      have hg' : ¬ GuardOK (10 * s.lExp + d) ds := fun h => hg ⟨not_lt.mp hle, h⟩
      have := ih (step s (digitChar d)) (by rw [hstep]; exact hm) (by rw [hstep]; exact hn) hds
        (by rw [hstep]; exact hf) (by rw [hstep]; exact hg')
      simpa [digs] using this

theorem scanLoop_mantissa (l : Lit) (hw : l.WF) (r : List Char) :
    scanLoop {} (l.sg.chars ++ (digs l.ip ++ ((match l.fp with | none => [] | some f => '.' :: digs f) ++ r))) =
      scanLoop (S3 l) r := by
  rw [phase1, phase2 l hw, phase3 l hw]

/-- **C10, exponent guard.**  A literal whose mantissa is well formed and whose exponent digits do
not pass the guard (more than five significant digits) is not read at all: zero characters, value
untouched — whatever follows. -/
theorem scan_exponent_guard (l : Lit) (hw : l.WF) (up : Bool) (sg : Sign) (e : List Nat)
    (hed : ∀ d ∈ e, d < 10) (hg : ¬ GuardOK 0 e) (rest : List Char) :
    scan (({ l with ex := some (up, sg, e) } : Lit).render ++ rest) = (0, Val.none) := by
  have F := S3_facts l hw
  unfold scan
  apply result_failed
  have hr : ({ l with ex := some (up, sg, e) } : Lit).render ++ rest =
      l.sg.chars ++ (digs l.ip ++ ((match l.fp with | none => [] | some f => '.' :: digs f) ++
        ((if up then 'E' else 'e') :: (sg.chars ++ (digs e ++ rest))))) := by
    simp [Lit.render, List.append_assoc]
  rw [hr, scanLoop_mantissa l hw]
  have hacc : accepts (S3 l) (if up then 'E' else 'e') = true := by
    cases up <;> simp [accepts, F.aExp, isDigit]
  rw [scanLoop_accept _ _ _ hacc F.fail]
  have hf3e : (S3e l).fail = false := F.fail
  have hstep : step (S3 l) (if up then 'E' else 'e') = S3e l := by
    cases up <;> simp [step, isDigit, S3e]
  rw [hstep]
  have hn1 : (S3e l).nDig ≠ 0 := F.nDig
  have hg0 : ¬ GuardOK (S3 l).lExp e := by rw [F.lExp]; exact hg
  cases sg with
  | none =>
    simp only [Sign.chars, List.nil_append]
    exact exp_digits_fail (S3e l) e rest rfl hn1 hed hf3e hg0
  | plus =>
    simp only [Sign.chars, List.cons_append, List.nil_append]
    rw [scanLoop_accept _ _ _ (by simp [accepts, S3e]) hf3e]
    have hs2 : step (S3e l) '+' = S3s l false := by
      simp [step, isDigit, S3e, S3s, F.expSgn]
    rw [hs2]
    exact exp_digits_fail (S3s l false) e rest rfl F.nDig hed F.fail hg0
  | minus =>
    simp only [Sign.chars, List.cons_append, List.nil_append]
    rw [scanLoop_accept _ _ _ (by simp [accepts, S3e]) hf3e]
    have hs2 : step (S3e l) '-' = S3s l true := by
      simp [step, isDigit, S3e, S3s]
    rw [hs2]
    exact exp_digits_fail (S3s l true) e rest rfl F.nDig hed F.fail hg0

end Qsx.Num
