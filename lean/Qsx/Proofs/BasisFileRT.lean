import Qsx.Model.BasisFile
import Mathlib.Tactic.Ring
import Mathlib.Tactic.Linarith

namespace Qsx.BasisFile
open Qsx.Gen

/-- set every basic column (positions `j, j+1, …` of `cs`) to BASIC, in index order -/
def markB : Nat → List Nat → List Nat → List Nat
  | _, [], C => C
  | j, c :: cs, C => markB (j+1) cs (if c = cstatBasic then C.set j cstatBasic else C)

def normR (r : Nat) : Nat := if r = rstatLower then rstatLower else rstatUpper

/-- set every non-basic row to the status its `XL`/`XU` line carries, in index order -/
def markR : Nat → List Nat → List Nat → List Nat
  | _, [], R => R
  | i, r :: rs, R => markR (i+1) rs (if r = rstatBasic then R else R.set i (normR r))

def markU : Nat → List Nat → List Nat → List Nat
  | _, [], C => C
  | j, c :: cs, C => markU (j+1) cs (if c = cstatUpper then C.set j cstatUpper else C)

theorem markB_nobasic (j : Nat) (cs C : List Nat) (h : countBasicC cs = 0) : markB j cs C = C := by
  induction cs generalizing j C with
  | nil => rfl
  | cons c cs ih =>
    unfold countBasicC at h
    by_cases hc : c = cstatBasic
    · simp [hc] at h
    · have : (c == cstatBasic) = false := by simp [hc]
      simp only [List.filter_cons, this] at h
      simp only [markB, hc, ↓reduceIte]
      exact ih _ _ h

theorem findBasic_none (j : Nat) (cs : List Nat) (h : findBasic j cs = none) : countBasicC cs = 0 := by
  induction cs generalizing j with
  | nil => rfl
  | cons c cs ih =>
    unfold findBasic at h
    by_cases hc : c = cstatBasic
    · simp [hc] at h
    · simp only [hc, ↓reduceIte] at h
      have := ih _ h
      unfold countBasicC at this ⊢
      simp [hc, this]

theorem findBasic_some (j : Nat) (cs : List Nat) (j' : Nat) (cs' : List Nat)
    (h : findBasic j cs = some (j', cs')) :
    countBasicC cs = countBasicC cs' + 1 ∧
    ∀ C, markB j cs C = markB (j'+1) cs' (C.set j' cstatBasic) := by
  induction cs generalizing j with
  | nil => simp [findBasic] at h
  | cons c cs ih =>
    unfold findBasic at h
    by_cases hc : c = cstatBasic
    · simp only [hc, ↓reduceIte, Option.some.injEq, Prod.mk.injEq] at h
      obtain ⟨rfl, rfl⟩ := h
      constructor
      · unfold countBasicC; simp [hc]
      · intro C; simp [markB, hc]
    · simp only [hc, ↓reduceIte] at h
      obtain ⟨h1, h2⟩ := ih _ h
      constructor
      · unfold countBasicC at h1 ⊢; simp [hc]; exact h1
      · intro C; simp only [markB, hc, ↓reduceIte]; exact h2 C

theorem countNonBasicR_cons (r : Nat) (rs : List Nat) :
    countNonBasicR (r :: rs) = (if r = rstatBasic then 0 else 1) + countNonBasicR rs := by
  unfold countNonBasicR
  by_cases h : r = rstatBasic <;> simp [h] <;> omega

/-- the pairing loop succeeds exactly on count-balanced inputs, and its lines have the effect of
`markB` / `markR` on the two status arrays -/
theorem pairUp_apply (rs : List Nat) : ∀ (i : Nat) (cs : List Nat) (j : Nat) (C R : List Nat),
    countBasicC cs = countNonBasicR rs →
    ∃ L, pairUp i rs j cs = some L ∧ L.foldl applyLine (C, R) = (markB j cs C, markR i rs R) := by
  induction rs with
  | nil =>
    intro i cs j C R h
    refine ⟨[], rfl, ?_⟩
    simp only [List.foldl_nil, markR]
    rw [markB_nobasic j cs C (by simpa [countNonBasicR] using h)]
  | cons r rs ih =>
    intro i cs j C R h
    rw [countNonBasicR_cons] at h
    by_cases hr : r = rstatBasic
    · simp only [hr, ↓reduceIte, Nat.zero_add] at h
      obtain ⟨L, hL, hf⟩ := ih (i+1) cs j C R h
      refine ⟨L, ?_, ?_⟩
      · simp [pairUp, hr, hL]
      · rw [hf]; simp [markR, hr]
    · simp only [hr, ↓reduceIte] at h
      cases hfb : findBasic j cs with
      | none => have := findBasic_none j cs hfb; omega
      | some p =>
        obtain ⟨j', cs'⟩ := p
        obtain ⟨hc, hm⟩ := findBasic_some j cs j' cs' hfb
        obtain ⟨L, hL, hf⟩ := ih (i+1) cs' (j'+1) (C.set j' cstatBasic) (R.set i (normR r)) (by omega)
        refine ⟨(if r = rstatLower then Line.XL j' i else Line.XU j' i) :: L, ?_, ?_⟩
        · simp [pairUp, hr, hfb, hL]
        · simp only [List.foldl_cons]
          have : applyLine (C, R) (if r = rstatLower then Line.XL j' i else Line.XU j' i)
              = (C.set j' cstatBasic, R.set i (normR r)) := by
            unfold normR; split <;> simp [applyLine]
          rw [this, hf, hm C]
          simp [markR, hr]

theorem upperLines_apply (cs : List Nat) : ∀ (j : Nat) (C R : List Nat),
    (upperLines j cs).foldl applyLine (C, R) = (markU j cs C, R) := by
  induction cs with
  | nil => intro j C R; rfl
  | cons c cs ih =>
    intro j C R
    by_cases hc : c = cstatUpper
    · simp only [upperLines, hc, ↓reduceIte, List.foldl_cons, applyLine, markU]
      exact ih _ _ _
    · simp only [upperLines, hc, ↓reduceIte, markU]
      exact ih _ _ _

/-! pointwise form of the marking passes on arrays of the right length -/

theorem markR_append (rs : List Nat) : ∀ (pre : List Nat) (X : List Nat), X.length = rs.length →
    markR pre.length rs (pre ++ X) =
      pre ++ List.zipWith (fun r x => if r = rstatBasic then x else normR r) rs X := by
  induction rs with
  | nil => intro pre X h; simp [markR, List.length_eq_zero_iff.mp h]
  | cons r rs ih =>
    intro pre X h
    cases X with
    | nil => simp at h
    | cons x X =>
      simp only [List.length_cons, Nat.add_right_cancel_iff] at h
      by_cases hr : r = rstatBasic
      · simp only [markR, hr, ↓reduceIte, List.zipWith_cons_cons]
        have := ih (pre ++ [x]) X h
        simp only [List.length_append, List.length_cons, List.length_nil, Nat.zero_add, List.append_assoc,
          List.cons_append, List.nil_append] at this
        rw [this]
      · simp only [markR, hr, ↓reduceIte, List.zipWith_cons_cons]
        have hs : (pre ++ x :: X).set pre.length (normR r) = pre ++ normR r :: X := by
          simp [List.set_append]
        rw [hs]
        have := ih (pre ++ [normR r]) X h
        simp only [List.length_append, List.length_cons, List.length_nil, Nat.zero_add, List.append_assoc,
          List.cons_append, List.nil_append] at this
        rw [this]

theorem markB_append (cs : List Nat) : ∀ (pre : List Nat) (X : List Nat), X.length = cs.length →
    markB pre.length cs (pre ++ X) =
      pre ++ List.zipWith (fun c x => if c = cstatBasic then cstatBasic else x) cs X := by
  induction cs with
  | nil => intro pre X h; simp [markB, List.length_eq_zero_iff.mp h]
  | cons c cs ih =>
    intro pre X h
    cases X with
    | nil => simp at h
    | cons x X =>
      simp only [List.length_cons, Nat.add_right_cancel_iff] at h
      by_cases hc : c = cstatBasic
      · simp only [markB, hc, ↓reduceIte, List.zipWith_cons_cons]
        have hs : (pre ++ x :: X).set pre.length cstatBasic = pre ++ cstatBasic :: X := by
          simp [List.set_append]
        rw [hs]
        have := ih (pre ++ [cstatBasic]) X h
        simp only [List.length_append, List.length_cons, List.length_nil, Nat.zero_add, List.append_assoc,
          List.cons_append, List.nil_append] at this
        rw [this]
      · simp only [markB, hc, ↓reduceIte, List.zipWith_cons_cons]
        have := ih (pre ++ [x]) X h
        simp only [List.length_append, List.length_cons, List.length_nil, Nat.zero_add, List.append_assoc,
          List.cons_append, List.nil_append] at this
        rw [this]

theorem markU_append (cs : List Nat) : ∀ (pre : List Nat) (X : List Nat), X.length = cs.length →
    markU pre.length cs (pre ++ X) =
      pre ++ List.zipWith (fun c x => if c = cstatUpper then cstatUpper else x) cs X := by
  induction cs with
  | nil => intro pre X h; simp [markU, List.length_eq_zero_iff.mp h]
  | cons c cs ih =>
    intro pre X h
    cases X with
    | nil => simp at h
    | cons x X =>
      simp only [List.length_cons, Nat.add_right_cancel_iff] at h
      by_cases hc : c = cstatUpper
      · simp only [markU, hc, ↓reduceIte, List.zipWith_cons_cons]
        have hs : (pre ++ x :: X).set pre.length cstatUpper = pre ++ cstatUpper :: X := by
          simp [List.set_append]
        rw [hs]
        have := ih (pre ++ [cstatUpper]) X h
        simp only [List.length_append, List.length_cons, List.length_nil, Nat.zero_add, List.append_assoc,
          List.cons_append, List.nil_append] at this
        rw [this]
      · simp only [markU, hc, ↓reduceIte, List.zipWith_cons_cons]
        have := ih (pre ++ [x]) X h
        simp only [List.length_append, List.length_cons, List.length_nil, Nat.zero_add, List.append_assoc,
          List.cons_append, List.nil_append] at this
        rw [this]

theorem rows_final (rs : List Nat) :
    List.zipWith (fun r x => if r = rstatBasic then x else normR r) rs (List.replicate rs.length rstatBasic)
      = normalizeR rs := by
  induction rs with
  | nil => rfl
  | cons r rs ih =>
    simp only [List.length_cons, List.replicate_succ, List.zipWith_cons_cons, normalizeR, List.map_cons] at ih ⊢
    rw [ih]
    congr 1
    unfold normR
    by_cases h1 : r = rstatBasic
    · simp [h1]
    · by_cases h2 : r = rstatLower <;> simp [h1, h2]

theorem status_codes : cstatBasic ≠ cstatUpper ∧ cstatBasic ≠ cstatLower ∧ cstatUpper ≠ cstatLower ∧
    cstatFree ≠ cstatBasic ∧ cstatFree ≠ cstatUpper ∧ cstatFree ≠ cstatLower := by decide

theorem cols_final (cs : List Nat) : ∀ (free : List Bool), free.length = cs.length →
    fixFree free
      (List.zipWith (fun c x => if c = cstatUpper then cstatUpper else x) cs
        (List.zipWith (fun c x => if c = cstatBasic then cstatBasic else x) cs
          (List.replicate cs.length cstatLower)))
      = normalizeC free cs := by
  obtain ⟨d1, d2, d3, d4, d5, d6⟩ := status_codes
  induction cs with
  | nil => intro free h; simp [fixFree, normalizeC]
  | cons c cs ih =>
    intro free h
    cases free with
    | nil => simp at h
    | cons f free =>
      simp only [List.length_cons, Nat.add_right_cancel_iff] at h
      have := ih free h
      simp only [fixFree, normalizeC, List.length_cons, List.replicate_succ, List.zipWith_cons_cons] at this ⊢
      rw [this]
      congr 1
      by_cases h1 : c = cstatBasic
      · subst h1; simp [d1, d2]
      · by_cases h2 : c = cstatUpper
        · subst h2; simp [d3, Ne.symm d1]
        · cases f <;> simp [h1, h2]

/-- **C14.**  For every problem shape and every basis whose number of basic columns equals its
number of non-basic rows (i.e. exactly `nrows` basic entries), writing the basis file succeeds and
reading it back yields the same basic set and the same at-upper assignments; the only differences
are the documented ones (`normalizeC`: non-basic free ↔ at-lower according to the column's bounds;
`normalizeR`: a non-basic, non-lower row status is written as upper). -/
theorem decode_encode (free : List Bool) (cstat rstat : List Nat)
    (hlen : free.length = cstat.length) (hcount : countBasicC cstat = countNonBasicR rstat) :
    ∃ lines, encode cstat rstat = some lines ∧
      decode free rstat.length lines = (normalizeC free cstat, normalizeR rstat) := by
  obtain ⟨L, hL, hf⟩ := pairUp_apply rstat 0 cstat 0
    (List.replicate free.length cstatLower) (List.replicate rstat.length rstatBasic) hcount
  refine ⟨L ++ upperLines 0 cstat, by simp [encode, hL], ?_⟩
  unfold decode
  simp only [List.foldl_append, hf, upperLines_apply]
  have e1 := markB_append cstat [] (List.replicate free.length cstatLower) (by simp [hlen])
  have e2 := markR_append rstat [] (List.replicate rstat.length rstatBasic) (by simp)
  simp only [List.length_nil, List.nil_append] at e1 e2
  rw [e1, e2, rows_final]
  have e3 := markU_append cstat []
    (List.zipWith (fun c x => if c = cstatBasic then cstatBasic else x) cstat (List.replicate free.length cstatLower))
    (by simp [hlen])
  simp only [List.length_nil, List.nil_append] at e3
  rw [e3, hlen, cols_final cstat free hlen]

/-- the "No basic column to match non-basic row" failure is unreachable for valid bases -/
theorem encode_total (cstat rstat : List Nat) (hcount : countBasicC cstat = countNonBasicR rstat) :
    (encode cstat rstat).isSome = true := by
  obtain ⟨L, hL, _⟩ := pairUp_apply rstat 0 cstat 0 [] [] hcount
  simp [encode, hL]

end Qsx.BasisFile
